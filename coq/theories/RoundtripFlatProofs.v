(** RoundtripFlatProofs.v — stages 1 and 2 of the C02 plan, complete: for every printable FLAT model (units with
    unit children, components with variables, resets and mathematics; no imports, no encapsulation hierarchy,
    no connections) printing with the repaired printer and parsing strictly gives exactly [canon m], and no issue. *)
From Coq Require Import String Ascii List Bool ZArith Arith Lia.
From LC Require Import Common NumDefs XmlDefs EntTreeDefs PrintDefs LoadDefs RoundtripSpec XmlTextProofs
     RoundtripReadProofs RoundtripLoadProofs.
Import ListNotations.
Local Open Scope string_scope.
Local Open Scope bool_scope.
Local Open Scope list_scope.

Opaque str_ok num_ok order_ok math_ok.

Section Flat.
Variable E : env.
Variable fx : bool.

Definition ma_of (us : list units) (cs : list component) (n : nat) (e : string) (encs conns : list xml) (is : list issue) : model_acc :=
  {| ma_units := us; ma_comps := cs; ma_imports := n; ma_encid := e; ma_encs := encs; ma_conns := conns; ma_issues := is |}.

Lemma filter_none : forall {A} (P : A -> bool) l, forallb (fun x => negb (P x)) l = true -> filter P l = [].
Proof.
  induction l as [|x l IH]; intros H; [reflexivity|]. simpl in H. apply andb_true_iff in H. destruct H as [Hx Hl].
  simpl. apply negb_true_iff in Hx. rewrite Hx. now apply IH.
Qed.

Lemma forallb_map : forall {A B} (P : B -> bool) (f : A -> B) l, forallb P (map f l) = forallb (fun x => P (f x)) l.
Proof. induction l; simpl; [reflexivity | now rewrite IHl]. Qed.

Lemma no_imports_print_imports : forall av m, no_imports m = true -> print_imports av m = [].
Proof.
  intros av m H. unfold no_imports in H. apply andb_true_iff in H. destruct H as [Hu Hc].
  unfold print_imports, the_sources, imported_components, imported_units.
  rewrite (filter_none is_import_units _ Hu).
  rewrite (filter_none is_import_comp (map snd (all_comps (m_comps m)))); [reflexivity|].
  rewrite forallb_map. exact Hc.
Qed.

Lemma build_maps_no_connections : forall m, m_eqv m = [] -> build_maps m = [].
Proof.
  intros m H. unfold build_maps. rewrite H.
  assert (Hc : forall pc acc, build_for_comp [] pc acc = acc).
  { intros pc acc. unfold build_for_comp. induction (seq 0 (length (c_vars (shell (snd pc))))) as [|v l IH] in acc |- *; [reflexivity|].
    simpl. apply IH. }
  induction (all_comps (m_comps m)) as [|pc l IH]; [reflexivity|]. simpl. rewrite Hc. exact IH.
Qed.

Lemma no_hierarchy_enc : forall (f : component -> xml) cs, forallb (fun c => match kids c with [] => true | _ => false end) cs = true ->
  flat_map (fun c => match kids c with [] => [] | _ => [f c] end) cs = [].
Proof.
  induction cs as [|c cs IH]; intros H; [reflexivity|]. simpl in H. apply andb_true_iff in H. destruct H as [Hc Hcs].
  simpl. destruct (kids c); [|discriminate]. now apply IH.
Qed.

(** ** the children loop of loadModel over the printed units and components *)
Lemma kid_units : forall u us cs n e encs conns is, units_ok E true u = true -> u_src u = None ->
  fold_left (load_model_kid E) (print_units E ident u) (ma_of us cs n e encs conns is)
  = ma_of (us ++ [canon_units E u]) cs n e encs conns is.
Proof.
  intros u us cs n e encs conns is Hu Hs.
  destruct (load_print_units E u Hu Hs) as (a & k & Hp & Hl). rewrite Hp. cbn [fold_left].
  unfold load_model_kid.
  replace (is_cellml20 "component" (el "units" a k)) with false by reflexivity.
  replace (is_cellml20 "units" (el "units" a k)) with true by reflexivity.
  rewrite Hl. unfold ma_of. cbn [fst snd ma_units ma_comps ma_imports ma_encid ma_encs ma_conns ma_issues].
  rewrite app_nil_r. reflexivity.
Qed.

Lemma model_units_fold : forall l us cs n e encs conns is,
  forallb (units_ok E true) l = true -> forallb (fun u => negb (is_import_units u)) l = true ->
  fold_left (load_model_kid E) (flat_map (print_units E ident) l) (ma_of us cs n e encs conns is)
  = ma_of (us ++ map (canon_units E) l) cs n e encs conns is.
Proof.
  induction l as [|u l IH]; intros us cs n e encs conns is H Hi.
  - simpl. rewrite app_nil_r. reflexivity.
  - simpl in H, Hi. apply andb_true_iff in H. destruct H as [Hu Hl]. apply andb_true_iff in Hi. destruct Hi as [Hiu Hil].
    cbn [flat_map map]. rewrite fold_left_app.
    assert (Hs : u_src u = None).
    { unfold is_import_units in Hiu. destruct (u_src u); [discriminate | reflexivity]. }
    rewrite kid_units by assumption. rewrite IH by assumption. rewrite <- app_assoc. reflexivity.
Qed.

Lemma kid_shell : forall us0 s us cs n e encs conns is, shell_ok E true us0 s = true -> c_src s = None ->
  load_model_kid E (ma_of us cs n e encs conns is) (print_shell E ident ident s)
  = ma_of us (cs ++ [Comp (strip_encid (canon_shell E s)) []]) n e encs conns is.
Proof.
  intros us0 s us cs n e encs conns is Hs Hsrc. unfold load_model_kid.
  replace (is_cellml20 "component" (print_shell E ident ident s)) with true by reflexivity.
  rewrite (load_print_shell E us0 s Hs Hsrc). unfold ma_of.
  cbn [fst snd ma_units ma_comps ma_imports ma_encid ma_encs ma_conns ma_issues]. rewrite app_nil_r. reflexivity.
Qed.

(** a flat component: no children, not imported, (hence, when printable) no encapsulation id *)
Definition flat_comp (c : component) : bool :=
  match kids c with [] => true | _ => false end && negb (is_import_comp c) && negb (nonempty (c_encid (shell c))).

Lemma model_comps_fold : forall us0 l us cs n e encs conns is,
  forallb (comp_ok E true us0) l = true -> forallb flat_comp l = true ->
  fold_left (load_model_kid E) (flat_map (print_component E ident ident) l) (ma_of us cs n e encs conns is)
  = ma_of us (cs ++ map (canon_comp E) l) n e encs conns is.
Proof.
  intros us0. induction l as [|c l IH]; intros us cs n e encs conns is H Hf.
  - simpl. rewrite app_nil_r. reflexivity.
  - simpl in H, Hf. apply andb_true_iff in H. destruct H as [Hc Hl]. apply andb_true_iff in Hf. destruct Hf as [Hfc Hfl].
    cbn [flat_map map]. rewrite fold_left_app.
    destruct c as [s ks]. unfold flat_comp in Hfc. cbn [kids shell] in Hfc. bsplit_all.
    destruct ks; [|discriminate].
    assert (Hsrc : c_src s = None).
    { match goal with Hi : negb (is_import_comp _) = true |- _ => unfold is_import_comp in Hi; cbn [shell] in Hi; destruct (c_src s); [discriminate | reflexivity] end. }
    rewrite print_component_unfold, Hsrc. cbn [flat_map app fold_left].
    rewrite comp_ok_unfold in Hc. apply andb_true_iff in Hc. destruct Hc as [Hs _].
    rewrite (kid_shell us0) by assumption. rewrite IH by assumption. rewrite <- app_assoc.
    assert (He : strip_encid (canon_shell E s) = canon_shell E s).
    { match goal with Hn : negb (nonempty (c_encid s)) = true |- _ => apply negb_true_iff in Hn; apply nonempty_false in Hn end.
      unfold strip_encid, canon_shell. cbn [c_name c_id c_encid c_src c_ref c_math c_vars c_resets].
      match goal with Hn : c_encid s = "" |- _ => rewrite Hn end. reflexivity. }
    rewrite He. reflexivity.
Qed.

(** ** linking units raises nothing *)
Lemma has_units_named_canon : forall us n, has_units_named (map (canon_units E) us) n = has_units_named us n.
Proof.
  intros us n. unfold has_units_named. induction us as [|u us IH]; [reflexivity|].
  cbn [map existsb canon_units u_name]. rewrite IH. reflexivity.
Qed.

Lemma all_comps_flat : forall l p j, forallb flat_comp l = true ->
  map snd (flat_cs p j l) = l.
Proof.
  induction l as [|c l IH]; intros p j H; [reflexivity|].
  simpl in H. apply andb_true_iff in H. destruct H as [Hc Hl].
  destruct c as [s ks]. unfold flat_comp in Hc. cbn [kids] in Hc. bsplit_all. destruct ks; [|discriminate].
  cbn [flat_cs flat_c]. cbn [app map snd]. rewrite IH by assumption. reflexivity.
Qed.

Lemma link_units_flat : forall us l, forallb (comp_ok E true us) l = true -> forallb flat_comp l = true ->
  link_units_issues (map (canon_units E) us) (map (canon_comp E) l) = [].
Proof.
  intros us l H Hf. unfold link_units_issues.
  apply flat_map_nil. intros pc Hpc.
  assert (Hin : In (snd pc) (map (canon_comp E) l)).
  { assert (Hfl : forallb flat_comp (map (canon_comp E) l) = true).
    { rewrite forallb_map. rewrite forallb_forall in *. intros c Hc. specialize (Hf c Hc).
      destruct c as [s ks]. unfold flat_comp in *. cbn [kids shell canon_comp] in *. bsplit_all. destruct ks; [|discriminate].
      cbn [map]. unfold is_import_comp in *. cbn [shell canon_shell c_src c_encid] in *.
      repeat (apply andb_true_iff; split); assumption. }
    unfold all_comps in Hpc. rewrite <- (all_comps_flat _ [] 0 Hfl). apply in_map. exact Hpc. }
  apply in_map_iff in Hin. destruct Hin as (c & Hc & Hcin). rewrite <- Hc.
  destruct c as [s ks]. cbn [canon_comp shell canon_shell c_vars].
  rewrite forallb_forall in H. specialize (H _ Hcin). rewrite comp_ok_unfold in H. apply andb_true_iff in H. destruct H as [Hs _].
  rewrite forallb_forall in Hf. specialize (Hf _ Hcin). unfold flat_comp in Hf. cbn [kids shell] in Hf. bsplit_all.
  unfold shell_ok in Hs.
  match goal with Hi : negb (is_import_comp _) = true |- _ => unfold is_import_comp in Hi; cbn [shell] in Hi; destruct (c_src s); [discriminate|] end.
  bsplit_all. apply flat_map_nil. intros v Hv.
  match goal with Hvs : forallb (variable_ok true us) (c_vars s) = true |- _ => rewrite forallb_forall in Hvs; specialize (Hvs v Hv); unfold variable_ok in Hvs end.
  bsplit_all. destruct (v_units v) as [n|]; [|reflexivity]. bsplit_all. rewrite has_units_named_canon.
  match goal with Ho : _ || _ = true |- _ => rewrite Ho end. reflexivity.
Qed.

(** ** loadModel on a model element *)
Lemma load_el_model : forall strict attrs kids,
  load E fx strict (el "model" attrs kids) =
    let x := el "model" attrs kids in
    let ns_issues := namespace_issues x in
    let a := nid_attrs "MODEL_ELEMENT" attrs in
    let name_issue := if na_has_name a then [] else [err "MODEL_NAME"] in
    let k := fold_left (load_model_kid E) kids (ma_of [] [] 0 "" [] [] []) in
    let enc := match ma_encs k with
               | [] => (ma_comps k, [])
               | e :: r => let l := load_encapsulation (ma_comps k) e in
                           (fst l, snd l ++ match r with [] => [] | _ => [err "MODEL_MORE_THAN_ONE_ENCAPSULATION"] end)
               end in
    let c := fold_left (load_connection fx) (ma_conns k)
                       {| cs_comps := fst enc; cs_eqv := []; cs_used := []; cs_issues := [] |} in
    ({| m_name := na_name a; m_id := na_id a; m_encid := ma_encid k; m_units := ma_units k; m_comps := cs_comps c;
        m_eqv := cs_eqv c |},
     ns_issues ++ na_issues a ++ name_issue ++ ma_issues k ++ snd enc ++ cs_issues c
     ++ link_units_issues (ma_units k) (cs_comps c)).
Proof. intros. reflexivity. Qed.

Lemma model_attrs : forall n i, nonempty n = true ->
  nid_attrs "MODEL_ELEMENT" (opt_attr ident "name" n ++ opt_attr ident "id" i)
  = {| na_name := n; na_id := i; na_has_name := true; na_issues := [] |}.
Proof.
  intros n i Hn. unfold nid_attrs, opt_attr, ident. rewrite Hn.
  destruct (nonempty i) eqn:Ei; [|apply nonempty_false in Ei; subst i]; reflexivity.
Qed.

Lemma top_in_all_comps : forall l p j c, In c l -> exists q, In (q, c) (flat_cs p j l).
Proof.
  induction l as [|k l IH]; intros p j c Hc; [contradiction|].
  cbn [flat_cs]. destruct Hc as [<-|Hc].
  - exists (p ++ [j]). apply in_or_app. left. destruct k as [s ks]. cbn [flat_c]. now left.
  - destruct (IH p (S j) c Hc) as (q & Hq). exists q. apply in_or_app. now right.
Qed.

Lemma flat_comps : forall m, no_imports m = true -> no_hierarchy m = true -> enc_ids_representable m = true ->
  forallb flat_comp (m_comps m) = true.
Proof.
  intros m Hi Hh He. unfold no_imports, no_hierarchy, enc_ids_representable in *. bsplit_all.
  apply forallb_forall. intros c Hc. unfold flat_comp.
  destruct (top_in_all_comps (m_comps m) [] 0 c Hc) as (q & Hq). fold (all_comps (m_comps m)) in Hq.
  repeat match goal with
         | Hk : forallb ?f (m_comps m) = true |- _ => pose proof (proj1 (forallb_forall f _) Hk c Hc); clear Hk
         | Hk : forallb ?f (all_comps (m_comps m)) = true |- _ => pose proof (proj1 (forallb_forall f _) Hk (q, c) Hq); clear Hk
         end.
  cbn beta in *. cbn [snd] in *.
  destruct (kids c); [|discriminate].
  repeat match goal with Hx : _ = true |- _ => rewrite Hx; clear Hx end. reflexivity.
Qed.

Lemma no_hierarchy_no_exists : forall m, no_hierarchy m = true ->
  existsb (fun c => match kids c with [] => false | _ => true end) (m_comps m) = false.
Proof.
  intros m H. unfold no_hierarchy in H. induction (m_comps m) as [|c l IH]; [reflexivity|].
  simpl in H. apply andb_true_iff in H. destruct H as [Hc Hl]. simpl. rewrite (IH Hl).
  destruct (kids c); [reflexivity | discriminate].
Qed.

Lemma flat_tree : forall m, flat m = true ->
  print_tree E m = el "model" (opt_attr ident "name" (m_name m) ++ opt_attr ident "id" (m_id m))
                      (flat_map (print_units E ident) (m_units m) ++ flat_map (print_component E ident ident) (m_comps m)).
Proof.
  intros m Hf. unfold flat in Hf. bsplit_all. unfold print_tree, print_gen.
  rewrite no_imports_print_imports by assumption.
  rewrite build_maps_no_connections by (unfold no_connections in *; destruct (m_eqv m); [reflexivity | discriminate]).
  rewrite no_hierarchy_enc by assumption. cbn [print_connections app]. rewrite app_nil_r. reflexivity.
Qed.

(** the loader on the tree of a flat printable model *)
Theorem load_print_tree_flat : forall m, printable E true m -> flat m = true ->
  load E fx true (print_tree E m) = (canon E m, []).
Proof.
  intros m H Hf. pose proof (flat_tree m Hf) as Htree.
  unfold printable, printableb in H. unfold flat in Hf. bsplit_all.
  assert (Hclean : clean (print_tree E m) = true) by (apply clean_print_tree; assumption).
  assert (Hflat : forallb flat_comp (m_comps m) = true) by (apply flat_comps; assumption).
  assert (Hni : forallb (fun u => negb (is_import_units u)) (m_units m) = true).
  { unfold no_imports in *. bsplit_all. assumption. }
  assert (Hencid : m_encid m = "").
  { match goal with Hh : no_hierarchy m = true |- _ => pose proof (no_hierarchy_no_exists m Hh) as Hex end.
    assert (He2 : existsb (fun c => match kids c with [] => false | _ => true end) (m_comps m) || negb (nonempty (m_encid m)) = true).
    { match goal with He : enc_ids_representable m = true |- _ => unfold enc_ids_representable in He; apply andb_true_iff in He; exact (proj2 He) end. }
    rewrite Hex in He2. cbn [orb] in He2. apply negb_true_iff in He2. now apply nonempty_false. }
  assert (Heqv : m_eqv m = []).
  { unfold no_connections in *. destruct (m_eqv m); [reflexivity | discriminate]. }
  pose proof (clean_no_namespace_issues (print_tree E m) Hclean) as Hns.
  rewrite Htree in *. rewrite load_el_model. cbv zeta. rewrite Hns.
  rewrite fold_left_app.
  rewrite (model_units_fold (m_units m)) by assumption.
  rewrite (model_comps_fold (m_units m) (m_comps m)) by assumption.
  rewrite model_attrs by assumption.
  unfold ma_of. cbn [ma_units ma_comps ma_imports ma_encid ma_encs ma_conns ma_issues na_name na_id na_has_name na_issues
                     fst snd app fold_left cs_comps cs_eqv cs_used cs_issues].
  rewrite (link_units_flat (m_units m) (m_comps m)) by assumption.
  unfold canon. rewrite Hencid, Heqv. reflexivity.
Qed.

(** * stages 1 and 2: the whole round trip on flat models *)
Theorem roundtrip_flat : forall m, printable E true m -> flat m = true ->
  print_model E true m = Some (print_tree E m) /\ load E fx true (print_tree E m) = (canon E m, []).
Proof.
  intros m H Hf. split; [|now apply load_print_tree_flat].
  unfold print_model. apply read_print_gen; [exact H | |].
  - unfold flat in Hf. bsplit_all. rewrite !no_imports_print_imports by assumption. reflexivity.
  - unfold flat in Hf. bsplit_all.
    rewrite build_maps_no_connections by (unfold no_connections in *; destruct (m_eqv m); [reflexivity | discriminate]).
    reflexivity.
Qed.

End Flat.
