(** GenProofs.v — the main theorems of C03's expression layer: for every AST of the safe class the text the
    generator prints is read by a C compiler / by Python (readers of GramDefs) as the tree the equation means,
    up to re-association; hence it has the same value over the rationals under every interpretation. *)
From Coq Require Import String List Bool.
From LC Require Import AstDefs GenDefs GramDefs GramSpec GramProofs ReadDefs GenTok ReadProofs LexProofs
  CGramDefs PyGramDefs EvalDefs EvalProofs.

Lemma binop_eqb_refl o : binop_eqb o o = true.
Proof. destruct o; reflexivity. Qed.
Lemma tree_eqb_refl t : tree_eqb t t = true.
Proof.
  induction t; cbn; rewrite ?String.eqb_refl, ?binop_eqb_refl, ?IHt, ?IHt1, ?IHt2, ?IHt3; reflexivity.
Qed.

Theorem gen_reads_back_C a :
  safeC a = true -> exists T, readC (gen_C a) = Some T /\ norm T = norm (trC a).
Proof.
  intros Hs. unfold readC, read, gen_C. fold (lex LC (gen profile_C a)).
  rewrite (lex_gen_C a Hs). apply parse_gent_C. exact Hs.
Qed.

Theorem gen_reads_back_Py a :
  safePy a = true -> exists T, readPy (gen_Py a) = Some T /\ norm T = norm (trPy a).
Proof.
  intros Hs. unfold readPy, read, gen_Py. fold (lex LPy (gen profile_Py a)).
  rewrite (lex_gen_Py a Hs). apply parse_gent_Py. exact Hs.
Qed.

(* the executable oracle used on the implementation's text answers true on the safe class *)
Corollary safe_reads_as_C a : safeC a = true -> reads_asC (gen_C a) a = true.
Proof.
  intros Hs. destruct (gen_reads_back_C a Hs) as (T & HR & HN).
  unfold reads_asC, reads_as. fold readC. fold gen_C in HR. rewrite HR. fold trC. rewrite HN. apply tree_eqb_refl.
Qed.
Corollary safe_reads_as_Py a : safePy a = true -> reads_asPy (gen_Py a) a = true.
Proof.
  intros Hs. destruct (gen_reads_back_Py a Hs) as (T & HR & HN).
  unfold reads_asPy, reads_as. fold readPy. fold gen_Py in HR. rewrite HR. fold trPy. rewrite HN. apply tree_eqb_refl.
Qed.

(* the same as values: for every interpretation of variables, literals and function names *)
Theorem gen_value_C E a :
  safeC a = true -> exists T, readC (gen_C a) = Some T /\ eval E T = eval E (trC a).
Proof.
  intros Hs. destruct (gen_reads_back_C a Hs) as (T & HR & HN). exists T. split; [exact HR|].
  apply norm_eq_eval. exact HN.
Qed.
Theorem gen_value_Py E a :
  safePy a = true -> exists T, readPy (gen_Py a) = Some T /\ eval E T = eval E (trPy a).
Proof.
  intros Hs. destruct (gen_reads_back_Py a Hs) as (T & HR & HN). exists T. split; [exact HR|].
  apply norm_eq_eval. exact HN.
Qed.

(* both profiles: the two generated texts denote the same value *)
Theorem gen_profiles_agree E a :
  helpers_ok E -> plain_names a = true -> safeC a = true -> safePy a = true ->
  exists TC TP, readC (gen_C a) = Some TC /\ readPy (gen_Py a) = Some TP /\ eval E TC = eval E TP.
Proof.
  intros HE Hp HC HP.
  destruct (gen_value_C E a HC) as (TC & RC & VC). destruct (gen_value_Py E a HP) as (TP & RP & VP).
  exists TC, TP. split; [exact RC|split; [exact RP|]].
  rewrite VC, VP. symmetry. apply profiles_agree; assumption.
Qed.
