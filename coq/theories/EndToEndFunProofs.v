(** EndToEndFunProofs.v — the end-to-end composition of C03 (written side -> unit scaling -> printing -> reading by C /
    Python = the written side's value over local values) widened from the field fragment to one- and two-parameter
    function applications and to the relational / logical operators (infix in the C profile, helper calls in the
    Python profile); power / root / log-with-base / piecewise / rates stay per layer. *)
From Coq Require Import String List Bool QArith Qcanon.
From LC Require Import AstDefs GenDefs GramDefs ReadDefs CGramDefs PyGramDefs EvalDefs EvalProofs GenTok ReadProofs
  GenProofs ScaleDefs ScaleProofs EndToEndProofs.
Local Open Scope string_scope.
Local Close Scope Q_scope.

Definition arith (t : ty) : bool := match t with PLUS | MINUS | TIMES | DIVIDE => true | _ => false end.

Section Frag.
Variable p : profile.

Fixpoint frag2 (a : ast) : bool :=
  match a with
  | Null => false
  | Node t v l r =>
      match t with
      | CI | CN => is_nil l && is_nil r
      | PLUS | MINUS => frag2 l && (is_nil r || frag2 r)
      | TIMES | DIVIDE => frag2 l && frag2 r
      | _ =>
          match fun1_name p t with
          | Some _ => is_nil r && frag2 l
          | None =>
              match fun2_name p t with
              | Some _ => frag2 l && frag2 r
              | None => match infix_info p t with Some _ => frag2 l && frag2 r | None => false end
              end
          end
      end
  end.
End Frag.

Lemma aeval_generic E t v l r :
  arith t = false -> t <> CI -> t <> CN -> t <> DIFF ->
  aeval E (Node t v l r) = a_fun E t v (aeval E l) (aeval E r).
Proof. destruct t; cbn; try reflexivity; try discriminate; congruence. Qed.

Lemma scale_generic S t v l r :
  t <> CI -> t <> DIFF -> t <> BVAR -> scale_expr S (Node t v l r) = Node t v (scale_expr S l) (scale_expr S r).
Proof. destruct t; try reflexivity; congruence. Qed.

Lemma wf_generic t v l r : t <> DIFF -> t <> BVAR -> wf_diff (Node t v l r) = (wf_diff l && wf_diff r)%bool.
Proof. destruct t; try reflexivity; congruence. Qed.

Section Gen.
Variable L : lang.
Variable p : profile.
Hypothesis HF : flags_ok L p.

Lemma frag2_not_special t v l r :
  frag2 p (Node t v l r) = true -> t <> DIFF /\ t <> BVAR.
Proof. destruct t; cbn; try (split; discriminate); intros H; discriminate H. Qed.

Lemma frag2_children t v l r : frag2 p (Node t v l r) = true -> t <> CI -> t <> CN ->
  frag2 p l = true /\ (is_nil r = true \/ frag2 p r = true).
Proof.
  intros H N1 N2. destruct t; try congruence; cbn [frag2] in H;
    try (destruct (fun1_name p _); [apply andb_prop in H; destruct H; auto|];
         destruct (fun2_name p _); [apply andb_prop in H; destruct H; auto|];
         destruct (infix_info p _); [apply andb_prop in H; destruct H; auto|discriminate]);
    apply andb_prop in H; destruct H as [H1 H2]; split; auto;
    try (apply orb_prop in H2; destruct H2; auto).
Qed.

Lemma frag2_wf a : frag2 p a = true -> wf_diff a = true.
Proof.
  induction a as [|t v l IHl r IHr]; [reflexivity|]. intros H.
  destruct (frag2_not_special _ _ _ _ H) as [N1 N2]. rewrite (wf_generic _ _ _ _ N1 N2).
  destruct (ty_eq_dec t CI) as [->|NC]; [cbn in H; destruct l, r; try discriminate; reflexivity|].
  destruct (ty_eq_dec t CN) as [->|NN]; [cbn in H; destruct l, r; try discriminate; reflexivity|].
  destruct (frag2_children _ _ _ _ H NC NN) as [Hl [Hr|Hr]].
  - rewrite (IHl Hl). destruct r; [reflexivity|discriminate].
  - rewrite (IHl Hl), (IHr Hr). reflexivity.
Qed.

Lemma frag2_scale S a : frag2 p a = true -> frag2 p (scale_expr S a) = true.
Proof.
  induction a as [|t v l IHl r IHr]; [discriminate|]. intros H.
  destruct (ty_eq_dec t CI) as [->|NC].
  { cbn [scale_expr]. unfold scale_ci. destruct (is_one S v); [exact H|]. cbn. cbn in H. rewrite H. reflexivity. }
  destruct (ty_eq_dec t CN) as [->|NN].
  { cbn in H. destruct l, r; try discriminate. reflexivity. }
  destruct (frag2_not_special _ _ _ _ H) as [N1 N2]. rewrite (scale_generic S _ _ _ _ NC N1 N2).
  destruct (frag2_children _ _ _ _ H NC NN) as [Hl Hr].
  assert (Hnil : is_nil (scale_expr S r) = is_nil r).
  { destruct r as [|t0 v0 l0 r0]; [reflexivity|]. destruct (scale_expr S (Node t0 v0 l0 r0)) eqn:E; [|reflexivity].
    apply (scale_null S) in E. discriminate. }
  assert (Hr' : is_nil r = true \/ frag2 p (scale_expr S r) = true) by (destruct Hr; auto).
  clear IHr Hr. specialize (IHl Hl).
  destruct t; try congruence; cbn [frag2] in *; rewrite ?Hnil;
    try (destruct (fun1_name p _); [apply andb_prop in H; destruct H as [H1 H2]; rewrite H1, IHl; reflexivity|];
         destruct (fun2_name p _);
           [apply andb_prop in H; destruct H as [H1 H2]; rewrite IHl; destruct Hr' as [K|K];
              [destruct r; [discriminate H2|discriminate K]|rewrite K; reflexivity]|];
         destruct (infix_info p _); [|discriminate];
         apply andb_prop in H; destruct H as [H1 H2]; rewrite IHl; destruct Hr' as [K|K];
           [destruct r; [discriminate H2|discriminate K]|rewrite K; reflexivity]).
  all: apply andb_prop in H; destruct H as [H1 H2]; rewrite IHl; cbn.
  all: try (destruct Hr' as [K|K]; [rewrite K; reflexivity|rewrite K; apply orb_true_r]).
  all: destruct Hr' as [K|K]; [destruct r; [discriminate H2|discriminate K]|exact K].
Qed.

Variable Et : env.
Variable Ea : aenv.
Hypothesis var_agree : forall v, e_var Et v = a_var Ea v.
Hypothesis lit_agree : forall s, eval Et (lit_tree s) = a_lit Ea s.
(* the same functions on both sides: a node printed as a call of f means f; an operator printed infix means itself *)
Hypothesis f1_agree : forall t f v x, fun1_name p t = Some f -> e_f1 Et f x = a_fun Ea t v x 0%Qc.
Hypothesis f2_agree : forall t f v x y, fun2_name p t = Some f -> e_f2 Et f x y = a_fun Ea t v x y.
Hypothesis op_agree : forall t tok op q v x y, infix_info p t = Some (tok, op, q) -> arith t = false ->
  a_fun Ea t v x y = eval_bin op x y.

Theorem bridge2 a : frag2 p a = true -> eval Et (tr p a) = aeval Ea a.
Proof.
  induction a as [|t v l IHl r IHr]; [discriminate|]. intros H.
  destruct (ty_eq_dec t CI) as [->|NC]; [cbn; apply var_agree|].
  destruct (ty_eq_dec t CN) as [->|NN]; [cbn [tr aeval]; apply lit_agree|].
  destruct (frag2_not_special _ _ _ _ H) as [N1 N2].
  destruct (frag2_children _ _ _ _ H NC NN) as [Hl Hr]. specialize (IHl Hl).
  destruct (arith t) eqn:Ar.
  - (* + - * / : as in the field fragment *)
    destruct t; try discriminate; cbn [tr].
    + destruct r as [|t0 v0 l0 r0]; [cbn; exact IHl|]. destruct Hr as [K|K]; [discriminate|].
      cbn [is_nil eval eval_bin]. rewrite IHl, (IHr K). reflexivity.
    + destruct r as [|t0 v0 l0 r0]; [cbn; rewrite IHl; reflexivity|]. destruct Hr as [K|K]; [discriminate|].
      cbn [is_nil eval eval_bin]. rewrite IHl, (IHr K). reflexivity.
    + cbn [frag2] in H. apply andb_prop in H. destruct H as [_ K]. cbn [eval eval_bin aeval]. rewrite IHl, (IHr K). reflexivity.
    + cbn [frag2] in H. apply andb_prop in H. destruct H as [_ K]. cbn [eval eval_bin aeval]. rewrite IHl, (IHr K). reflexivity.
  - rewrite (aeval_generic Ea t v l r Ar NC NN N1).
    assert (Hcase : (exists f, fun1_name p t = Some f /\ is_nil r = true) \/
                    (exists f, fun2_name p t = Some f /\ frag2 p r = true) \/
                    (exists tok op q, infix_info p t = Some (tok, op, q) /\ frag2 p r = true)).
    { destruct t; try congruence; try discriminate; cbn [frag2] in H;
        (destruct (fun1_name p _) as [f|]; [left; exists f; apply andb_prop in H; destruct H; auto|];
         destruct (fun2_name p _) as [f|]; [right; left; exists f; apply andb_prop in H; destruct H; auto|];
         destruct (infix_info p _) as [[[tok op] q]|]; [|discriminate];
         right; right; exists tok, op, q; apply andb_prop in H; destruct H; auto). }
    destruct Hcase as [(f & Hf & Hn)|[(f & Hf & Hfr)|(tok & op & q & Hi & Hfr)]].
    + destruct (kind_fun1 L p HF t v l r f Hf) as (_ & Et1 & _). rewrite Et1. cbn [eval]. rewrite IHl.
      destruct r; [|discriminate]. cbn [aeval]. apply f1_agree. exact Hf.
    + destruct (kind_fun2 L p HF t v l r f Hf) as (_ & Et1 & _). rewrite Et1. cbn [eval]. rewrite IHl, (IHr Hfr).
      apply f2_agree. exact Hf.
    + assert (Hnn : is_nil r = false) by (destruct r; [discriminate Hfr|reflexivity]).
      destruct (kind_infix L p HF t v l r tok op q Hi Hnn) as (_ & Et1 & _). rewrite Et1. cbn [eval].
      rewrite IHl, (IHr Hfr). symmetry. eapply op_agree; eassumption.
Qed.

End Gen.

Section EndToEnd2.
Variable S : senv.
Variable Es : aenv.
Variable Et : env.
Hypothesis pos : forall v, (0 < sf S v)%Q.
Hypothesis lit_ok : forall v, a_lit Es (sf_text S v) = Q2Qc (sf S v).
Hypothesis lit_inv_ok : forall v, a_lit Es (sf_inv_text S v) = (/ Q2Qc (sf S v))%Qc.
Hypothesis var_agree : forall v, e_var Et v = a_var Es v.
Hypothesis lit_agree : forall s, eval Et (lit_tree s) = a_lit Es s.

Theorem end_to_end_fun_C a :
  (forall t f v x, fun1_name profile_C t = Some f -> e_f1 Et f x = a_fun Es t v x 0%Qc) ->
  (forall t f v x y, fun2_name profile_C t = Some f -> e_f2 Et f x y = a_fun Es t v x y) ->
  (forall t tok op q v x y, infix_info profile_C t = Some (tok, op, q) -> arith t = false -> a_fun Es t v x y = eval_bin op x y) ->
  frag2 profile_C a = true -> safeC (scale_expr S a) = true ->
  exists T, readC (gen_C (scale_expr S a)) = Some T /\ eval Et T = aeval (local_env S Es) a.
Proof.
  intros H1 H2 H3 Hf Hs. destruct (gen_value_C Et _ Hs) as (T & HR & HV). exists T. split; [exact HR|].
  rewrite HV. unfold trC.
  rewrite (bridge2 LC profile_C flags_C Et Es var_agree lit_agree H1 H2 H3 _ (frag2_scale profile_C S a Hf)).
  apply (scale_expr_value S Es pos lit_ok lit_inv_ok). apply (frag2_wf profile_C). exact Hf.
Qed.

Theorem end_to_end_fun_Py a :
  (forall t f v x, fun1_name profile_Py t = Some f -> e_f1 Et f x = a_fun Es t v x 0%Qc) ->
  (forall t f v x y, fun2_name profile_Py t = Some f -> e_f2 Et f x y = a_fun Es t v x y) ->
  (forall t tok op q v x y, infix_info profile_Py t = Some (tok, op, q) -> arith t = false -> a_fun Es t v x y = eval_bin op x y) ->
  frag2 profile_Py a = true -> safePy (scale_expr S a) = true ->
  exists T, readPy (gen_Py (scale_expr S a)) = Some T /\ eval Et T = aeval (local_env S Es) a.
Proof.
  intros H1 H2 H3 Hf Hs. destruct (gen_value_Py Et _ Hs) as (T & HR & HV). exists T. split; [exact HR|].
  rewrite HV. unfold trPy.
  rewrite (bridge2 LPy profile_Py flags_Py Et Es var_agree lit_agree H1 H2 H3 _ (frag2_scale profile_Py S a Hf)).
  apply (scale_expr_value S Es pos lit_ok lit_inv_ok). apply (frag2_wf profile_Py). exact Hf.
Qed.
End EndToEnd2.

(* non-vacuity: (p < sin(q)) && (max(p, 2) >= q) with p in percent *)
Definition e2f_a : ast :=
  bin AND (bin LT (ci "p") (un SIN (ci "q"))) (bin GEQ (bin MAX (ci "p") (cn "2")) (ci "q")).
(* the printer-class premise is needed: p < (q < x) is in the fragment, not safe for C, and its text does not read
   back (C03-relational-operand); "not" printed as "!" is outside the fragment (C03-not-operand stays per layer) *)
Definition e2f_rel : ast := bin LT (ci "p") (bin LT (ci "q") (ci "x")).
Example end_to_end_fun_nonvacuous :
  frag2 profile_C e2f_a = true /\ frag2 profile_Py e2f_a = true
  /\ safeC (scale_expr env3 e2f_a) = true /\ safePy (scale_expr env3 e2f_a) = true
  /\ reads_asC (gen_C (scale_expr env3 e2f_a)) (scale_expr env3 e2f_a) = true.
Proof. vm_compute. repeat split. Qed.

Theorem end_to_end_premise_needed :
  frag2 profile_C e2f_rel = true /\ safeC (scale_expr env3 e2f_rel) = false
  /\ reads_asC (gen_C (scale_expr env3 e2f_rel)) (scale_expr env3 e2f_rel) = false.
Proof. vm_compute. repeat split. Qed.
