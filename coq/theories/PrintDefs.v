(** PrintDefs.v — executable model of Printer::printModel(model, autoIds = false) (C02).  No proofs here.

    Transcribes /repo/src/printer.cpp as it is now:
      Printer::printModel            print_model_src / print_model
      PrinterImpl::printImports      print_imports   (collation of import sources by OBJECT identity, in the order
                                                      imported components (depth first) then imported units)
      PrinterImpl::printUnits        print_units     (imported units and "standard" units are skipped here)
      PrinterImpl::printComponent    print_component (depth first; an imported component prints nothing itself,
                                                      its children are still printed)
      PrinterImpl::printVariable     print_variable
      PrinterImpl::printReset / printResetChild   print_reset / print_reset_child
      PrinterImpl::printEncapsulation             print_encapsulation
      buildMaps / buildMapsForComponentsVariables build_maps
      printConnections / printMapVariables        print_connections / print_map_variables
      PrinterImpl::printMath         [norm_math] of the environment (opaque: libxml2 parse of the wrapped string,
                                     serialisation of the children, whitespace regexes)
      src/utilities.cpp convertToString(double) = 15 significant digits: [show15] of the environment.

    The result of [print_model_src] is a SOURCE tree: attribute values are the text written between the
    quotes.  [fixed = false] (the pinned tree): the strings are written raw.  [fixed = true] (fix
    C02-escape-attribute-values): they go through [escape_attr].  [print_model] then reads the source as
    libxml2 does ([xml_read]); [None] stands for "the concatenation is not well-formed": XmlDoc::parse gives no
    document and XmlDoc::prettyPrint returns the empty string — silently, no issue is logged.

    Simplification (stated): Variable::equivalenceConnectionId(v1, v2) is modelled as "the connection id stored
    with the edge v1 -- v2".  The real function walks a std::map keyed by VariablePtr over ALL (also indirect)
    equivalences between the two components and lets the last entry in ADDRESS order win (falling back to the
    direct edge when that entry has no id); it agrees with the model whenever all edges between the two
    components carry the same connection id (hypothesis [one_cid_per_pair] of [printable]); outside, the value
    is address dependent and no deterministic model exists. *)
From Coq Require Import String Ascii List Bool ZArith Arith.
From LC Require Import XmlDefs EntTreeDefs.
Import ListNotations.
Local Open Scope string_scope.
Local Open Scope bool_scope.
Local Open Scope list_scope.

(** * Environment: what is libc / libxml2 and stays abstract *)
Record env := {
  show15 : num -> string;                   (* src/utilities.cpp convertToString(double): operator<< with precision 15; "nan", "inf" *)
  to_double : string -> option num;         (* convertToDouble on text accepted by isCellMLReal: None = out of range *)
  show_int : Z -> string;                   (* convertToString(int) *)
  norm_math : string -> option (list xml);  (* printMath: children of the wrapper element after normalisation; None = XML errors *)
  math_text : xml -> string                 (* XmlNode::convertToString() of a math element (parser side) *)
}.

Definition nonempty (s : string) : bool := match s with EmptyString => false | _ => true end.

(** libxml2's own serialiser escapes attribute values (printMath output is a serialisation): the source form of a
    tree that is inserted as text *)
Fixpoint xml_escape (x : xml) : xml :=
  match x with
  | Elem ns nm attrs ks =>
    Elem ns nm (map (fun a => mkAttr (a_ns a) (a_name a) (escape_attr (a_val a))) attrs)
         ((fix go (l : list xml) : list xml := match l with [] => [] | k :: r => xml_escape k :: go r end) ks)
  | Text s => Text s
  | Comment => Comment
  end.

Section Print.
Variable E : env.
(** how a user string is written between the quotes, and how an inserted math tree is written: the SOURCE of the
    document uses (escape_attr | the identity, xml_escape); the TREE the document denotes uses (identity, identity) *)
Variable av : string -> string.
Variable mq : xml -> xml.

(** an attribute that is written only when its value is not empty *)
Definition opt_attr (name val : string) : list attr := if nonempty val then [at_ name (av val)] else [].

Definition math_kids (m : string) : list xml :=
  if nonempty m then match norm_math E m with Some xs => map mq xs | None => [] end else [].

(* printUnits: the unit children *)
Definition print_unit (d : unitdef) : xml :=
  el "unit"
     ((if String.eqb (ud_exp d) num_one then [] else [at_ "exponent" (show15 E (ud_exp d))])
      ++ (if String.eqb (ud_mult d) num_one then [] else [at_ "multiplier" (show15 E (ud_mult d))])
      ++ opt_attr "prefix" (ud_prefix d)
      ++ [at_ "units" (av (ud_ref d))]
      ++ opt_attr "id" (ud_id d))
     [].

Definition print_units (u : units) : list xml :=
  if is_import_units u || is_standard_unit u then []
  else [el "units" (opt_attr "name" (u_name u) ++ opt_attr "id" (u_id u)) (map print_unit (u_defs u))].

Definition print_variable (v : variable) : xml :=
  el "variable"
     (opt_attr "name" (v_name v)
      ++ opt_attr "units" (match v_units v with Some n => n | None => "" end)
      ++ opt_attr "initial_value" (v_init v)
      ++ opt_attr "interface" (v_iface v)
      ++ opt_attr "id" (v_id v))
     [].

Definition print_reset_child (label id math : string) : list xml :=
  if nonempty id || nonempty math then [el label (opt_attr "id" id) (math_kids math)] else [].

Definition print_reset (r : reset) : xml :=
  el "reset"
     ((match r_var r with Some x => [at_ "variable" (av (vref_name x))] | None => [] end)
      ++ (match r_test r with Some x => [at_ "test_variable" (av (vref_name x))] | None => [] end)
      ++ (match r_order r with Some z => [at_ "order" (show_int E z)] | None => [] end)
      ++ opt_attr "id" (r_id r))
     (print_reset_child "test_value" (r_tv_id r) (r_tv r)
      ++ print_reset_child "reset_value" (r_rv_id r) (r_rv r)).

Definition print_shell (s : cshell) : xml :=
  el "component" (opt_attr "name" (c_name s) ++ opt_attr "id" (c_id s))
     (map print_variable (c_vars s) ++ map print_reset (c_resets s) ++ math_kids (c_math s)).

Fixpoint print_component (c : component) : list xml :=
  match c with
  | Comp s ks =>
    (match c_src s with Some _ => [] | None => [print_shell s] end)
    ++ (fix go (l : list component) : list xml :=
          match l with [] => [] | k :: r => print_component k ++ go r end) ks
  end.

Fixpoint print_encapsulation (c : component) : xml :=
  match c with
  | Comp s ks =>
    el "component_ref" (opt_attr "component" (c_name s) ++ opt_attr "id" (c_encid s))
       ((fix go (l : list component) : list xml :=
           match l with [] => [] | k :: r => print_encapsulation k :: go r end) ks)
  end.

(** ** Imports *)

(* src/utilities.cpp: getImportedComponents — depth first, a component before its subtree *)
Definition imported_components (cs : list component) : list component :=
  filter is_import_comp (map snd (all_comps cs)).
Definition imported_units (us : list units) : list units := filter is_import_units us.

Definition src_tag (o : option isrc) : option nat := option_map is_tag o.
Definition tag_is (t : nat) (o : option isrc) : bool :=
  match o with Some i => Nat.eqb (is_tag i) t | None => false end.

(* collatedImportSources: push_back unless std::find by pointer succeeds *)
Fixpoint collate (l : list isrc) (acc : list isrc) : list isrc :=
  match l with
  | [] => acc
  | i :: r => if existsb (fun j => Nat.eqb (is_tag j) (is_tag i)) acc then collate r acc else collate r (acc ++ [i])
  end.

Definition the_sources (m : model) : list isrc :=
  collate (flat_map (fun c => match c_src (shell c) with Some i => [i] | None => [] end) (imported_components (m_comps m))
           ++ flat_map (fun u => match u_src u with Some i => [i] | None => [] end) (imported_units (m_units m))) [].

Definition print_import (m : model) (i : isrc) : xml :=
  el "import"
     (mkAttr XLINK_NS "href" (av (is_url i)) :: opt_attr "id" (is_id i))
     (map (fun u => el "units" ([at_ "units_ref" (av (u_ref u)); at_ "name" (av (u_name u))] ++ opt_attr "id" (u_id u)) [])
          (filter (fun u => tag_is (is_tag i) (u_src u)) (imported_units (m_units m)))
      ++ map (fun c => el "component" ([at_ "component_ref" (av (c_ref (shell c))); at_ "name" (av (cname c))]
                                       ++ opt_attr "id" (c_id (shell c))) [])
             (filter (fun c => tag_is (is_tag i) (c_src (shell c))) (imported_components (m_comps m)))).

Definition print_imports (m : model) : list xml := map (print_import m) (the_sources m).

(** ** Connections *)

Record mapentry := { me_v1 : vpath; me_v2 : vpath; me_mid : string; me_cid : string }.

(* the equivalent variables of v, in the order of Variable::equivalentVariable(j) *)
Definition eq_partners (es : list eqv) (v : vpath) : list (vpath * string * string) :=
  flat_map (fun e => if vpath_eqb (e_a e) v then [(e_b e, e_mid e, e_cid e)]
                     else if vpath_eqb (e_b e) v then [(e_a e, e_mid e, e_cid e)] else []) es.

(* buildMapsForComponentsVariables, inner loop: a pair is new unless the REVERSED pair is already listed *)
Definition build_for_var (es : list eqv) (v : vpath) (acc : list mapentry) : list mapentry :=
  fold_left (fun acc x => match x with (w, mid, cid) =>
                if existsb (fun e => vpath_eqb (me_v1 e) w && vpath_eqb (me_v2 e) v) acc then acc
                else acc ++ [{| me_v1 := v; me_v2 := w; me_mid := mid; me_cid := cid |}] end)
            (eq_partners es v) acc.

Definition build_for_comp (es : list eqv) (pc : list nat * component) (acc : list mapentry) : list mapentry :=
  fold_left (fun acc vi => build_for_var es (fst pc, vi) acc) (seq 0 (length (c_vars (shell (snd pc))))) acc.

(* buildMaps: every component, depth first *)
Definition build_maps (m : model) : list mapentry :=
  fold_left (fun acc pc => build_for_comp (m_eqv m) pc acc) (all_comps (m_comps m)) [].

Definition comp_name_at (cs : list component) (p : list nat) : string :=
  match comp_at cs p with Some c => cname c | None => "" end.
Definition var_name_at (cs : list component) (v : vpath) : string :=
  match var_at cs v with Some x => v_name x | None => "" end.

Definition me_pair (e : mapentry) : list nat * list nat := (fst (me_v1 e), fst (me_v2 e)).
Definition ppair_eqb (a b : list nat * list nat) : bool := path_eqb (fst a) (fst b) && path_eqb (snd a) (snd b).

Definition print_map_variables (cs : list component) (e : mapentry) : xml :=
  el "map_variables"
     ([at_ "variable_1" (av (var_name_at cs (me_v1 e))); at_ "variable_2" (av (var_name_at cs (me_v2 e)))]
      ++ opt_attr "id" (me_mid e))
     [].

(* printConnections: the first entry of a component pair opens the connection, every later entry of the same
   (ordered) pair joins it, and the connection id of the LAST of them is the one written *)
Fixpoint print_connections (cs : list component) (l : list mapentry) (done : list (list nat * list nat)) : list xml :=
  match l with
  | [] => []
  | e :: r =>
    if existsb (ppair_eqb (me_pair e)) done then print_connections cs r done
    else
      let grp := e :: filter (fun e' => ppair_eqb (me_pair e') (me_pair e)) r in
      let cid := last (map me_cid grp) "" in
      el "connection"
         ([at_ "component_1" (av (comp_name_at cs (fst (me_pair e)))); at_ "component_2" (av (comp_name_at cs (snd (me_pair e))))]
          ++ opt_attr "id" cid)
         (map (print_map_variables cs) grp)
      :: print_connections cs r (done ++ [me_pair e])
  end.

(** ** The model *)

Definition print_gen (m : model) : xml :=
  let enc := flat_map (fun c => match kids c with [] => [] | _ => [print_encapsulation c] end) (m_comps m) in
  el "model" (opt_attr "name" (m_name m) ++ opt_attr "id" (m_id m))
     (print_imports m
      ++ flat_map print_units (m_units m)
      ++ flat_map print_component (m_comps m)
      ++ print_connections (m_comps m) (build_maps m) []
      ++ (match enc with [] => [] | _ => [el "encapsulation" (opt_attr "id" (m_encid m)) enc] end)).

End Print.

Definition ident {A : Type} (x : A) : A := x.

(** the text Printer::printModel hands to libxml2, as a source tree *)
Definition print_model_src (E : env) (fixed : bool) (m : model) : xml :=
  print_gen E (if fixed then escape_attr else ident) xml_escape m.

(** the tree that text is meant to denote *)
Definition print_tree (E : env) (m : model) : xml := print_gen E ident ident m.

(** the tree the parser will see; None: Printer::printModel returned the empty string *)
Definition print_model (E : env) (fixed : bool) (m : model) : option xml := xml_read (print_model_src E fixed m).
