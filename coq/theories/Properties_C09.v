(** Properties_C09.v — statements only.  C09: ownership invariants survive any API history; bad arguments never crash.

    Model: HeapDefs.v ([step fixed seq], [fixed = true] is /repo with the C09 "fix:" commits, [seq] the structural
    equality used by the by-pointer lookups — an arbitrary function in every theorem below).
    [Inv] (HeapInv.v) is the inductive invariant: a listed child names its lister; no list has a duplicate; the parent
    relation has no cycle; equivalence is symmetric and recorded once; a parent link is backed by a listing; lists are
    well-typed.  [WF] (HeapProofs.v) is the observer's well-formedness of DESIGN.md (Appendix B), relative to liveness. *)
From Coq Require Import List String Bool Arith Relations.
From LC Require Import HeapDefs HeapBase HeapInv HeapOps HeapProofs HeapTotal HeapBad HeapFrame HeapWitness HeapLive HeapFrameAll HeapHistoryProofs HeapReaddProofs.
Import ListNotations.

(** step_wf — every one of the 40 op constructors preserves the invariant, for every state, every structural-equality
    oracle, under the property's carve-out (the call does not add an entity to the container that already lists it). *)
Theorem C09_step_wf : forall seq s o s' r,
  Inv s -> readds s o = false -> step true seq s o = Ok s' r -> Inv s'.
Proof. exact HeapProofs.step_inv. Qed.
Print Assumptions C09_step_wf.

(** the invariant gives the observable well-formedness: children's parent is the lister, no double listing, no two
    listers, acyclic ancestry, symmetric equivalence — all relative to what is alive *)
Theorem C09_inv_wf : forall s, Inv s -> WF s.
Proof. exact HeapProofs.inv_wf. Qed.
Print Assumptions C09_inv_wf.

Theorem C09_step_WF : forall seq s o s' r,
  Inv s -> readds s o = false -> step true seq s o = Ok s' r -> WF s'.
Proof. intros seq s o s' r I N H. apply HeapProofs.inv_wf. exact (HeapProofs.step_inv seq s o s' r I N H). Qed.
Print Assumptions C09_step_WF.

(** history_wf — induction over arbitrary op lists from the freshly created universe *)
Theorem C09_init_inv : forall u, Inv (init u).
Proof. exact HeapProofs.init_inv. Qed.
Print Assumptions C09_init_inv.

Theorem C09_history_wf : forall seq u ops s',
  no_readds seq (init u) ops -> run true seq (init u) ops = Some s' -> Inv s' /\ WF s'.
Proof.
  intros seq u ops s' N H. assert (I : Inv s') by exact (HeapProofs.run_inv seq ops (init u) s' (HeapProofs.init_inv u) N H).
  split; [exact I|exact (HeapProofs.inv_wf s' I)].
Qed.
Print Assumptions C09_history_wf.

(** no_crash — no call of the repaired object model crashes in a state satisfying the invariant; no history does *)
Theorem C09_no_crash : forall seq s o, Inv s -> step true seq s o <> Crash.
Proof. exact HeapTotal.no_crash. Qed.
Print Assumptions C09_no_crash.

Theorem C09_history_no_crash : forall seq u ops, no_readds seq (init u) ops -> run true seq (init u) ops <> None.
Proof. intros seq u ops N. exact (HeapTotal.run_no_crash seq ops (init u) (HeapProofs.init_inv u) N). Qed.
Print Assumptions C09_history_no_crash.

(** has_ancestor_terminates — fuel above |objs| is never used up: the recursion of hasAncestor ends *)
Theorem C09_has_ancestor_terminates : forall s, Inv s -> forall f x a,
  f > List.length (objs s) -> has_ancestor s f x a <> None.
Proof. exact HeapTotal.has_ancestor_terminates. Qed.
Print Assumptions C09_has_ancestor_terminates.

(** bad_arg_noop — null / one past the end / unknown name / neither a child nor equal to one: the state is unchanged
    and the refusal value (false, null) is returned.  Holds in EVERY state (no invariant needed). *)
Theorem C09_bad_arg_noop : forall seq s o, bad_arg true seq s o = true ->
  step true seq s o = Ok s (refusal o) \/ step true seq s o = Ok s RIll.
Proof. exact HeapBad.bad_arg_noop. Qed.
Print Assumptions C09_bad_arg_noop.

(** affects_only_target — remove / take: only the container and the erased child change *)
Theorem C09_detach_frame : forall s K k i s' x, detach_at s K k i = Some (s', x) ->
  nth_error (children s K k) i = Some x /\ forall y, y <> k -> y <> x -> getd s' y = getd s y.
Proof. exact HeapFrame.detach_frame. Qed.
Print Assumptions C09_detach_frame.

(** a child handed over by pointer is removed itself, whatever look-alikes precede it (all four kinds) *)
Theorem C09_remove_child_exact : forall seq s k x,
  (recv s k CVars = true -> arg_ok s x KVar = true -> In x (children s CVars k) ->
     exists i, nth_error (children s CVars k) i = Some x /\
               step true seq s (RemoveVariablePtr k (Some x)) = Ok (gc (detached s CVars k i x)) (RBool true)) /\
  (recv s k CResets = true -> arg_ok s x KReset = true -> In x (children s CResets k) ->
     exists i, nth_error (children s CResets k) i = Some x /\
               step true seq s (RemoveResetPtr k (Some x)) = Ok (gc (detached s CResets k i x)) (RBool true)) /\
  (recv s k CUnits = true -> arg_ok s x KUnits = true -> In x (children s CUnits k) ->
     exists i, nth_error (children s CUnits k) i = Some x /\
               step true seq s (RemoveUnitsPtr k (Some x)) = Ok (gc (detached s CUnits k i x)) (RBool true)) /\
  (recv s k CComps = true -> arg_ok s x KComp = true -> In x (children s CComps k) ->
     exists i, nth_error (children s CComps k) i = Some x /\
               step true seq s (RemoveComponentPtr k (Some x) false) = Ok (gc (detached s CComps k i x)) (RBool true)).
Proof. exact HeapWitness.step_remove_child_exact. Qed.
Print Assumptions C09_remove_child_exact.

(** an object that is not a child is refused or matched to a structurally equal child, whose own links are updated *)
Theorem C09_remove_nonchild_matched : forall seq s K k x s', ~ In x (children s K k) ->
  remove_ptr_local true seq s K k x = Some s' ->
  exists i y, nth_error (children s K k) i = Some y /\ seq s y x = true /\ s' = detached s K k i y.
Proof. exact HeapFrame.remove_nonchild_matched. Qed.
Print Assumptions C09_remove_nonchild_matched.

(** add / move: besides the new container and the moved object only the previous parent changes ... *)
Theorem C09_attach_frame : forall seq s K k c, Inv s -> kindd s c = child_kind K ->
  forall y, y <> k -> y <> c -> parent_of s c <> Some y -> getd (attach true seq s K k c) y = getd s y.
Proof. exact HeapFrame.attach_frame. Qed.
Print Assumptions C09_attach_frame.

(** ... and it loses exactly the moved object *)
Theorem C09_attach_old_parent : forall seq s K k c p, Inv s -> kindd s c = child_kind K -> parent_of s c = Some p -> p <> k ->
  exists i, nth_error (children s K p) i = Some c /\ leave_parent true seq s K c (Some k) = detached s K p i c.
Proof. exact HeapFrame.attach_old_parent. Qed.
Print Assumptions C09_attach_old_parent.

(** replace: container, replaced child, replacement, the replacement's previous parent — nothing else *)
Theorem C09_replace_frame : forall seq s K k io c s' b, Inv s -> kindd s c = child_kind K ->
  replace_at true seq s K k io (Some c) = LDone (s', b) ->
  exists i old, io = Some i /\ nth_error (children s K k) i = Some old /\
    forall y, y <> k -> y <> old -> y <> c -> parent_of s c <> Some y -> getd s' y = getd s y.
Proof. exact HeapFrame.replace_frame. Qed.
Print Assumptions C09_replace_frame.

(** destruction touches an object only by dropping its references to destroyed objects (or destroying it) *)
Theorem C09_gc_frame : forall live s x, getd (gc_with live s) x = gc_obj live (live x) (getd s x).
Proof. exact HeapInv.getd_gc_with. Qed.
Print Assumptions C09_gc_frame.

(** destruction does not change what is reachable *)
Theorem C09_alive_gc : forall s x, alive (gc s) x = alive s x.
Proof. exact HeapLive.alive_gc. Qed.
Print Assumptions C09_alive_gc.

(** every call either leaves the state as it was (refusal) or ends with the destruction of what is unreferenced *)
Theorem C09_step_settled : forall seq s o s' r, step true seq s o = Ok s' r -> s' = s \/ exists s1, s' = gc s1.
Proof. exact HeapLive.step_settled. Qed.
Print Assumptions C09_step_settled.

(** equivalence never yields destroyed variables, and the recorded parent is the observed parent: in every state of every
    history (no hypothesis on the history: holds beyond the carve-out too) every variable listed as equivalent and every
    recorded parent is alive *)
Theorem C09_equivalents_never_destroyed : forall seq u ops s', run true seq (init u) ops = Some s' ->
  (forall a b, In b (eqs_of s' a) -> alive s' b = true) /\ (forall x p, parent_of s' x = Some p -> alive s' p = true).
Proof. intros seq u ops s' H. exact (HeapLive.run_clean seq ops (init u) s' (HeapLive.clean_init u) H). Qed.
Print Assumptions C09_equivalents_never_destroyed.

(** queries (contains*, has*, component/variable/units/reset by index or name, equivalentVariable, parent, hasAncestor, ...)
    are ops of the model too, so their answers are predicted in every reachable state: they change nothing (a returned
    object becomes one more handle), a null pointer is equivalent to nothing in EVERY state (an expired equivalence entry
    never matches), and what hasEquivalentVariable confirms is alive *)
Theorem C09_query_pure : forall seq s q s' r, step true seq s (Query q) = Ok s' r ->
  s' = s \/ exists x, r = RObj (Some x) /\ s' = gc (add_handle s x).
Proof. exact HeapLive.query_pure. Qed.
Print Assumptions C09_query_pure.

Theorem C09_null_equivalent_to_nothing : forall seq s v ind,
  query_eval true seq s (QHasEquivalentVariable v None ind) = Some (RBool false).
Proof. exact HeapLive.null_equivalent_to_nothing. Qed.
Print Assumptions C09_null_equivalent_to_nothing.

Theorem C09_has_equivalent_alive : forall seq u ops s' v w, run true seq (init u) ops = Some s' ->
  query_eval true seq s' (QHasEquivalentVariable v (Some w) false) = Some (RBool true) -> alive s' w = true.
Proof.
  intros seq u ops s' v w H Q.
  exact (HeapLive.has_equivalent_alive seq s' v w (HeapLive.run_clean seq ops (init u) s' (HeapLive.clean_init u) H) Q).
Qed.
Print Assumptions C09_has_equivalent_alive.

(** affects_only_target for EVERY op constructor (40 mutators + Query): [touched o s] is the target, the container the op
    works in (for the searching overloads: the level where the search succeeds), the replacement and the previous parent of a
    moved / inserted entity; release and all 22 queries touch no record.  Any other object keeps its record — provided the
    call neither destroys it nor destroys something it refers to weakly (its parent, its equivalent variables): dropping
    references to the destroyed is the only thing destruction does to a survivor (C09_gc_frame). *)
Theorem C09_step_frame : forall seq o s s' r, Inv s -> step true seq s o = Ok s' r ->
  forall x, ~ touched seq o s x ->
    alive s' x = true ->
    (forall p, parent_of s x = Some p -> alive s' p = true) ->
    (forall b, In b (eqs_of s x) -> alive s' b = true) ->
    get s' x = get s x.
Proof. exact HeapFrameAll.step_frame. Qed.
Print Assumptions C09_step_frame.

Theorem C09_query_release_touch_nothing : forall seq s x,
  (forall q, ~ touched seq (Query q) s x) /\ (forall h, ~ touched seq (Release h) s x).
Proof. exact HeapFrameAll.query_release_touch_nothing. Qed.
Print Assumptions C09_query_release_touch_nothing.

(** non-vacuity of [touched]: removing child 0 of the model touches exactly the model and that child *)
Example C09_touched_example :
  exists s, run true seq_conc (init U1) [AddComponent 0 (Some 1); AddComponent 0 (Some 2)] = Some s /\
            forall x, touched seq_conc (RemoveComponentIdx 0 0) s x <-> x = 0 \/ x = 1.
Proof.
  eexists. split; [vm_compute; reflexivity|]. intros x. cbn [touched]. unfold T_detach.
  change (x = 0 \/ Some 1 = Some x <-> x = 0 \/ x = 1). split; intros [H|H]; auto; right; congruence.
Qed.
Print Assumptions C09_touched_example.

(** "an object that is not a child is either refused or matched to a structurally equal child, whose own links are then
    updated": the matched child is the FIRST structurally equal one; it loses its parent and its listing; the object handed
    in keeps its record.  remove (building block and the four step-level forms) and replace by pointer.  There is no take by
    pointer in the API; for add / move the entity leaves its previous parent ITSELF (C09_attach_old_parent: under Inv it is a
    child there, so no look-alike can be matched). *)
Theorem C09_remove_nonchild_first : forall seq s K k x s', Inv s -> ~ In x (children s K k) ->
  remove_ptr_local true seq s K k x = Some s' ->
  exists i y, nth_error (children s K k) i = Some y /\ seq s y x = true /\
    (forall j z, j < i -> nth_error (children s K k) j = Some z -> seq s z x = false) /\
    s' = detached s K k i y /\ parent_of s' y = None /\ ~ In y (children s' K k) /\
    (x <> k -> getd s' x = getd s x).
Proof. exact HeapFrameAll.remove_nonchild_first. Qed.
Print Assumptions C09_remove_nonchild_first.

Theorem C09_step_remove_nonchild_first : forall seq s k x i y,
  (recv s k CVars = true -> arg_ok s x KVar = true -> ~ In x (children s CVars k) ->
     find_child true seq s CVars k x = Some i -> nth_error (children s CVars k) i = Some y ->
     step true seq s (RemoveVariablePtr k (Some x)) = Ok (gc (detached s CVars k i y)) (RBool true)) /\
  (recv s k CResets = true -> arg_ok s x KReset = true -> ~ In x (children s CResets k) ->
     find_child true seq s CResets k x = Some i -> nth_error (children s CResets k) i = Some y ->
     step true seq s (RemoveResetPtr k (Some x)) = Ok (gc (detached s CResets k i y)) (RBool true)) /\
  (recv s k CUnits = true -> arg_ok s x KUnits = true -> ~ In x (children s CUnits k) ->
     find_child true seq s CUnits k x = Some i -> nth_error (children s CUnits k) i = Some y ->
     step true seq s (RemoveUnitsPtr k (Some x)) = Ok (gc (detached s CUnits k i y)) (RBool true)) /\
  (recv s k CComps = true -> arg_ok s x KComp = true -> ~ In x (children s CComps k) ->
     find_child true seq s CComps k x = Some i -> nth_error (children s CComps k) i = Some y ->
     step true seq s (RemoveComponentPtr k (Some x) false) = Ok (gc (detached s CComps k i y)) (RBool true)).
Proof. exact HeapFrameAll.step_remove_nonchild_first. Qed.
Print Assumptions C09_step_remove_nonchild_first.

Theorem C09_find_child_nonchild_first : forall seq s K k x i, ~ In x (children s K k) ->
  find_child true seq s K k x = Some i ->
  exists y, nth_error (children s K k) i = Some y /\ seq s y x = true /\
            forall j z, j < i -> nth_error (children s K k) j = Some z -> seq s z x = false.
Proof. exact HeapFrameAll.find_child_nonchild_first. Qed.
Print Assumptions C09_find_child_nonchild_first.

Theorem C09_replace_nonchild_first : forall seq s K k old c s' b, Inv s -> inr s c -> kindd s c = child_kind K ->
  ~ In old (children s K k) ->
  replace_at true seq s K k (find_child true seq s K k old) (Some c) = LDone (s', b) ->
  exists i y, nth_error (children s K k) i = Some y /\ seq s y old = true /\
    (forall j z, j < i -> nth_error (children s K k) j = Some z -> seq s z old = false) /\
    (y <> c -> b = true -> parent_of s' y = None) /\
    (forall x, x <> k -> x <> y -> x <> c -> parent_of s c <> Some x -> getd s' x = getd s x).
Proof. exact HeapFrameAll.replace_nonchild_first. Qed.
Print Assumptions C09_replace_nonchild_first.

(** equivalence is symmetric in every state of every history inside the claim (it is a clause of Inv) *)
Theorem C09_equivalence_symmetric_history : forall seq u ops s', no_readds seq (init u) ops ->
  run true seq (init u) ops = Some s' -> forall a b, In b (eqs_of s' a) -> In a (eqs_of s' b).
Proof. exact HeapFrameAll.equivalence_symmetric_history. Qed.
Print Assumptions C09_equivalence_symmetric_history.

(** THE GLOBAL INVARIANT OVER ALL OP LISTS, carve-out made exact (HeapHistoryProofs.v).
    [is_add o]: o is add{Component,Variable,Reset,Units} of a non-null entity — the only 4 of the 41 constructor forms that can
    break [Inv] (children name their container as parent, nothing listed twice or by two containers, no parent cycle, symmetric
    duplicate-free equivalence, parent links backed by listings, well-typed lists).
      - the other 37 constructors (and add* of null) preserve Inv with NO premise, in every state;
      - the 4 add* forms preserve it exactly under the premise "the entity is not already listed by that container";
      - for EVERY op list from the fresh universe, with no hypothesis on the history: Inv holds at the end, or the history
        contains such a re-add, and then the FIRST one is identified (op, container, entity) and every state before it satisfies Inv;
      - the premise is necessary: re-adding a listed variable / reset / units breaks Inv in EVERY state satisfying it. *)
Theorem C09_step_inv_unconditional : forall seq s o s' r, is_add o = false -> Inv s -> step true seq s o = Ok s' r -> Inv s'.
Proof. exact HeapHistoryProofs.step_inv_unconditional. Qed.
Print Assumptions C09_step_inv_unconditional.

Theorem C09_step_inv_add : forall seq s o s' r, is_add o = true -> readds s o = false -> Inv s -> step true seq s o = Ok s' r -> Inv s'.
Proof. exact HeapHistoryProofs.step_inv_add. Qed.
Print Assumptions C09_step_inv_add.

Theorem C09_history_inv_exact : forall seq u ops s', run true seq (init u) ops = Some s' ->
  Inv s' \/
  exists pre o post sp k c K, ops = pre ++ o :: post /\ run true seq (init u) pre = Some sp /\ Inv sp /\
    In c (children sp K k) /\
    ((o = AddComponent k (Some c) /\ K = CComps) \/ (o = AddVariable k (Some c) /\ K = CVars) \/
     (o = AddReset k (Some c) /\ K = CResets) \/ (o = AddUnits k (Some c) /\ K = CUnits)).
Proof. exact HeapHistoryProofs.history_inv_exact. Qed.
Print Assumptions C09_history_inv_exact.

Theorem C09_history_inv_no_add : forall seq u ops s', (forall o, In o ops -> is_add o = false) ->
  run true seq (init u) ops = Some s' -> Inv s'.
Proof. exact HeapHistoryProofs.history_inv_no_add. Qed.
Print Assumptions C09_history_inv_no_add.

Theorem C09_readd_breaks_inv : forall seq s K k c, K <> CComps -> Inv s -> recv s k K = true -> In c (children s K k) ->
  ~ Inv (gc (attach true seq s K k c)).
Proof. exact HeapHistoryProofs.readd_breaks_inv. Qed.
Print Assumptions C09_readd_breaks_inv.

(** the premise is necessary for ALL FOUR add* forms, components included: a re-add that a caller can make (result not RIll)
    is always performed (addComponent's self/ancestor test passes, its removal-from-old-parent step does nothing because the
    old parent is the container itself) and breaks Inv in every state satisfying it; hence, for such calls, Inv is preserved
    IF AND ONLY IF the call is not a re-add *)
Theorem C09_step_readd_breaks_inv : forall seq s o s' r, Inv s -> readds s o = true ->
  step true seq s o = Ok s' r -> r <> RIll -> ~ Inv s'.
Proof. exact HeapReaddProofs.step_readd_breaks_inv. Qed.
Print Assumptions C09_step_readd_breaks_inv.

Theorem C09_add_preserves_iff : forall seq s o s' r, Inv s -> step true seq s o = Ok s' r -> r <> RIll ->
  (Inv s' <-> readds s o = false).
Proof. exact HeapReaddProofs.add_preserves_iff. Qed.
Print Assumptions C09_add_preserves_iff.

Example C09_readd_component_example :
  exists s s' r, run true seq_conc (init U1) [AddComponent 0 (Some 1); AddComponent 1 (Some 2)] = Some s /\
    Inv s /\ readds s (AddComponent 1 (Some 2)) = true /\
    step true seq_conc s (AddComponent 1 (Some 2)) = Ok s' r /\ r = RBool true /\ ~ Inv s'.
Proof. exact HeapReaddProofs.readd_component_example. Qed.
Print Assumptions C09_readd_component_example.

Example C09_history_exact_nonvacuous :
  (exists s', run true seq_conc (init U2) H2 = Some s' /\ Inv s') /\
  (exists s', run true seq_conc (init U2) [AddVariable 0 (Some 2); AddVariable 0 (Some 2)] = Some s' /\ ~ Inv s').
Proof. exact HeapHistoryProofs.history_exact_nonvacuous. Qed.
Print Assumptions C09_history_exact_nonvacuous.

(** the code before the fix commits violated the property: four families, witnesses by computation *)
Theorem C09_unfixed_lookalike_removal_refuted :
  exists s', run false seq_conc (init U1) [AddComponent 0 (Some 1); AddComponent 0 (Some 2); RemoveComponentPtr 0 (Some 2) false] = Some s' /\
             children s' CComps 0 = [2] /\ parent_of s' 2 = None /\ parent_of s' 1 = Some 0.
Proof. exact HeapWitness.unfixed_lookalike_removal. Qed.
Print Assumptions C09_unfixed_lookalike_removal_refuted.

Theorem C09_unfixed_lookalike_move_refuted :
  exists s', run false seq_conc (init U2) [AddVariable 0 (Some 2); AddVariable 0 (Some 3); AddVariable 1 (Some 3)] = Some s' /\
             children s' CVars 0 = [3] /\ children s' CVars 1 = [3].
Proof. exact HeapWitness.unfixed_lookalike_move. Qed.
Print Assumptions C09_unfixed_lookalike_move_refuted.

Theorem C09_unfixed_self_parent_refuted :
  (exists s', run false seq_conc (init U1) [AddComponent 0 (Some 1); AddComponent 1 (Some 1)] = Some s' /\
              parent_of s' 1 = Some 1 /\ children s' CComps 1 = [1]) /\
  run false seq_conc (init U1) [AddComponent 0 (Some 1); AddComponent 1 (Some 1); AddComponent 1 (Some 2)] = None.
Proof. exact HeapWitness.unfixed_self_parent. Qed.
Print Assumptions C09_unfixed_self_parent_refuted.

Theorem C09_unfixed_null_refuted :
  step false seq_conc (init U2) (AddEquivalence4 (Some 2) None) = Crash /\
  (exists s1 r, step false seq_conc (init U1) (AddComponent 0 (Some 1)) = Ok s1 r /\
                step false seq_conc s1 (ReplaceComponentIdx 0 0 None) = Crash) /\
  (exists s1 r, step false seq_conc (init U2) (AddUnits 6 (Some 4)) = Ok s1 r /\
                step false seq_conc s1 (ReplaceUnitsIdx 6 0 None) = Crash).
Proof. exact HeapWitness.unfixed_null_crashes. Qed.
Print Assumptions C09_unfixed_null_refuted.

Theorem C09_unfixed_replace_refuted :
  exists s', run false seq_conc (init U1) [AddComponent 0 (Some 1); AddComponent 3 (Some 2); ReplaceComponentIdx 0 0 (Some 2)] = Some s' /\
             children s' CComps 0 = [2] /\ children s' CComps 3 = [2].
Proof. exact HeapWitness.unfixed_replace_two_listers. Qed.
Print Assumptions C09_unfixed_replace_refuted.

(** non-vacuity: the same histories on the repaired model move, destroy and refuse as they should, and are inside the
    claim; bad arguments other than null exist; a re-add really lists twice *)
Example C09_nonvacuous_histories : no_readds seq_conc (init U1) H1 /\ no_readds seq_conc (init U2) H2.
Proof. exact HeapWitness.histories_in_claim. Qed.
Print Assumptions C09_nonvacuous_histories.

Example C09_nonvacuous_bad_args :
  bad_arg true seq_conc (init U2) (RemoveVariablePtr 0 (Some 2)) = true /\
  bad_arg true seq_conc (init U2) (TakeVariableIdx 0 0) = true /\
  bad_arg true seq_conc (init U2) (RemoveUnitsName 6 "zz") = true /\
  bad_arg true seq_conc (init U1) (RemoveComponentName 0 "a" true) = true /\
  (exists s', run true seq_conc (init U2) [AddVariable 0 (Some 2)] = Some s' /\
              bad_arg true seq_conc s' (RemoveVariablePtr 0 (Some 3)) = false /\
              bad_arg true seq_conc s' (RemoveVariablePtr 1 (Some 2)) = true /\
              bad_arg true seq_conc s' (TakeVariableIdx 0 1) = true).
Proof. exact HeapWitness.bad_arg_examples. Qed.
Print Assumptions C09_nonvacuous_bad_args.

Example C09_readd_is_outside :
  exists s', run true seq_conc (init U1) [AddComponent 0 (Some 1); AddComponent 0 (Some 1)] = Some s' /\
             children s' CComps 0 = [1; 1] /\ readds (init U1) (AddComponent 0 (Some 1)) = false.
Proof. exact HeapWitness.readd_lists_twice. Qed.
Print Assumptions C09_readd_is_outside.
