(** Properties_C09.v — statements only (under construction). *)
From Coq Require Import List String Bool Arith.
From LC Require Import HeapDefs.
Example C09_placeholder : True. Proof. exact I. Qed.
Print Assumptions C09_placeholder.
