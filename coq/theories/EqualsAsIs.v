(** EqualsAsIs.v — the code as it is (C10, part D): where it coincides with the repaired equals
    (the `_partial` theorems), and the witnesses that show it is not an equivalence (the `_refuted` ones). *)
From Coq Require Import String List Bool ZArith QArith Qabs Arith Permutation Lia.
From LC Require Import EqualsDefs EqualsSpec EqualsProofs EqualsSimProofs EqualsCorrect.
Import ListNotations.
Local Close Scope Q_scope.
Local Open Scope bool_scope.

(** * the matching loops only look at R on the elements of the two lists *)

Section Ext.
  Context {A B : Type} (R R' : A -> B -> bool).

  Lemma find_idx_ext : forall x l2 u, (forall y, In y l2 -> R x y = R' x y) -> find_idx R x l2 u = find_idx R' x l2 u.
  Proof.
    intros x l2 u H. induction u as [|i t IH]; cbn [find_idx]; [reflexivity|].
    destruct (nth_error l2 i) as [y|] eqn:Hn; rewrite IH; [|reflexivity].
    rewrite (H y (nth_error_In _ _ Hn)). reflexivity.
  Qed.

  Lemma match_idx_ext : forall l1 l2 u, (forall x y, In x l1 -> In y l2 -> R x y = R' x y) ->
    match_idx R l1 l2 u = match_idx R' l1 l2 u.
  Proof.
    induction l1 as [|x t IH]; intros l2 u H; cbn [match_idx]; [reflexivity|].
    rewrite (find_idx_ext x l2 u) by (intros y Hy; apply H; [left; reflexivity|exact Hy]).
    destruct (find_idx R' x l2 u); [|reflexivity]. apply IH. intros a b Ha. apply H. right. exact Ha.
  Qed.

  Lemma equal_entities_ext : forall l1 l2, (forall x y, In x l1 -> In y l2 -> R x y = R' x y) ->
    equal_entities R l1 l2 = equal_entities R' l1 l2.
  Proof. intros. unfold equal_entities. apply match_idx_ext. assumption. Qed.

  Lemma all_contained_ext : forall l1 l2, (forall x y, In x l1 -> In y l2 -> R x y = R' x y) ->
    all_contained R l1 l2 = all_contained R' l1 l2.
  Proof.
    intros l1 l2 H. unfold all_contained. induction l1 as [|x t IH]; cbn [forallb]; [reflexivity|].
    rewrite IH by (intros a b Ha; apply H; right; exact Ha). f_equal.
    assert (Hx : forall y, In y l2 -> R x y = R' x y) by (intros y Hy; apply H; [left; reflexivity|exact Hy]).
    clear -Hx. induction l2 as [|y s IHs]; cbn [existsb]; [reflexivity|].
    rewrite (Hx y) by (left; reflexivity). rewrite IHs; [reflexivity|]. intros z Hz. apply Hx. right. exact Hz.
  Qed.

  Lemma kids_equal_ext : forall cm l1 l2, (forall x y, In x l1 -> In y l2 -> R x y = R' x y) ->
    kids_equal R cm l1 l2 = kids_equal R' cm l1 l2.
  Proof.
    intros cm l1 l2 H. unfold kids_equal. rewrite (equal_entities_ext l1 l2 H), (all_contained_ext l1 l2 H). reflexivity.
  Qed.
End Ext.

(** * "every left child has some equal right child" is a matching when the left children are pairwise unequal *)

Lemma contained_perm_rel : forall {A B} (E : A -> B -> Prop) l1 l2,
  length l1 = length l2 ->
  (forall x, In x l1 -> exists y, In y l2 /\ E x y) ->
  (forall i j x x' y, nth_error l1 i = Some x -> nth_error l1 j = Some x' -> i <> j -> E x y -> E x' y -> False) ->
  perm_rel E l1 l2.
Proof.
  intros A B E. induction l1 as [|x t IH]; intros l2 Hlen Hall Hnd.
  - destruct l2; [|discriminate]. exists []. split; constructor.
  - destruct (Hall x (or_introl eq_refl)) as (y & Hy & Hxy).
    apply in_split in Hy. destruct Hy as (p & q & ->).
    assert (Hrec : perm_rel E t (p ++ q)).
    { apply IH.
      - rewrite app_length in *. cbn in Hlen. lia.
      - intros x' Hx'. destruct (Hall x' (or_intror Hx')) as (y' & Hy' & Hxy').
        exists y'. split; [|exact Hxy'].
        apply in_app_or in Hy'. apply in_or_app. destruct Hy' as [Hy'|[Hy'|Hy']]; [left; exact Hy'| |right; exact Hy'].
        exfalso. subst y'. apply In_nth_error in Hx'. destruct Hx' as (j & Hj).
        apply (Hnd 0 (S j) x x' y); [reflexivity|exact Hj|lia|exact Hxy|exact Hxy'].
      - intros i j a a' b Hi Hj Hij. apply (Hnd (S i) (S j)); [exact Hi|exact Hj|lia]. }
    destruct Hrec as (r & Hp & HF). exists (y :: r). split; [|constructor; assumption].
    eapply perm_trans; [apply Permutation_sym; apply Permutation_middle|]. apply perm_skip. exact Hp.
Qed.

Lemma perm_rel_contained : forall {A B} (E : A -> B -> Prop) l1 l2,
  perm_rel E l1 l2 -> forall x, In x l1 -> exists y, In y l2 /\ E x y.
Proof.
  intros A B E l1 l2 (l2' & Hp & HF) x Hx. revert x Hx. induction HF as [|a b t t' Hab HF IH]; intros x Hx; [destruct Hx|].
  assert (Hp' : Permutation l2 t' -> False \/ True) by (intros; right; exact I). clear Hp'.
  destruct Hx as [<-|Hx].
  - exists b. split; [|exact Hab]. eapply Permutation_in; [apply Permutation_sym; exact Hp|left; reflexivity].
  - assert (Hgo : forall x, In x t -> exists y, In y t' /\ E x y).
    { clear -HF. induction HF as [|a b t t' Hab HF IH]; intros x Hx; [destruct Hx|].
      destruct Hx as [<-|Hx]; [exists b; split; [left; reflexivity|exact Hab]|].
      destruct (IH x Hx) as (y & Hy & Hxy). exists y. split; [right; exact Hy|exact Hxy]. }
    destruct (Hgo x Hx) as (y & Hy & Hxy). exists y. split; [|exact Hxy].
    eapply Permutation_in; [apply Permutation_sym; exact Hp|right; exact Hy].
Qed.

Lemma all_contained_iff : forall {A B} (R : A -> B -> bool) l1 l2,
  all_contained R l1 l2 = true <-> (forall x, In x l1 -> exists y, In y l2 /\ R x y = true).
Proof.
  intros A B R l1 l2. unfold all_contained. rewrite forallb_forall. split; intros H x Hx.
  - apply H in Hx. apply existsb_exists in Hx. exact Hx.
  - apply existsb_exists. apply H. exact Hx.
Qed.

(** under the count test, the two child comparisons agree when the left children are pairwise unrelated *)
Lemma kids_equal_contained_matching : forall {A B} (R : A -> B -> bool) (E : A -> B -> Prop) l1 l2,
  (forall x x' y y', E x y -> E x' y -> E x' y' -> E x y') ->
  (forall x y, In x l1 -> In y l2 -> (R x y = true <-> E x y)) ->
  (forall i j x x' y, nth_error l1 i = Some x -> nth_error l1 j = Some x' -> i <> j -> E x y -> E x' y -> False) ->
  kids_equal R false l1 l2 = kids_equal R true l1 l2.
Proof.
  intros A B R E l1 l2 Hd HRE Hnd. unfold kids_equal.
  destruct (length l1 =? length l2) eqn:Hlen; [|reflexivity]. cbn [andb].
  apply Nat.eqb_eq in Hlen. apply eq_true_iff_eq.
  assert (Hm := matching_iff R E l1 l2 Hd HRE). rewrite andb_true_iff, Nat.eqb_eq in Hm.
  split; intros H.
  - apply Hm. apply contained_perm_rel; [exact Hlen| |exact Hnd].
    intros x Hx. apply (proj1 (all_contained_iff R l1 l2) H) in Hx as Hy. destruct Hy as (y & Hy & Hr).
    exists y. split; [exact Hy|]. apply HRE; assumption.
  - apply all_contained_iff. intros x Hx.
    assert (Hp : perm_rel E l1 l2) by (apply Hm; split; assumption).
    destruct (perm_rel_contained E l1 l2 Hp x Hx) as (y & Hy & Hxy).
    exists y. split; [exact Hy|]. apply HRE; assumption.
Qed.

(** * b.equals(a) computed by recursion on a is the same as computed by recursion on b *)

Lemma eqc_flip : forall neq fl a b,
  eqc neq fl false a b = eqc neq fl true b a /\ eqc neq fl true a b = eqc neq fl false b a.
Proof.
  intros neq fl. induction a as [sa ka IH] using component_ind'. intros [sb kb]. rewrite Forall_forall in IH.
  rewrite !eqc_unfold. split.
  - f_equal. f_equal. apply kids_equal_ext. intros y x _ Hx. apply (IH x Hx y).
  - f_equal. f_equal. apply kids_equal_ext. intros x y Hx _. apply (IH x Hx y).
Qed.

(** * reflexivity holds for the code as it is, whatever the switches *)

Lemma greedy_refl_in : forall {A} (R : A -> A -> bool) l, (forall x, In x l -> R x x = true) -> greedy R l l = true.
Proof.
  intros A R l H. induction l as [|x t IH]; [reflexivity|].
  cbn [greedy remove_first]. rewrite (H x) by (left; reflexivity). apply IH. intros y Hy. apply H. right. exact Hy.
Qed.

Lemma equal_entities_refl_in : forall {A} (R : A -> A -> bool) l, (forall x, In x l -> R x x = true) -> equal_entities R l l = true.
Proof. intros. rewrite equal_entities_greedy_len by reflexivity. apply greedy_refl_in. assumption. Qed.

Lemma kids_equal_refl_in : forall {A} (R : A -> A -> bool) cm l, (forall x, In x l -> R x x = true) -> kids_equal R cm l l = true.
Proof.
  intros A R cm l H. unfold kids_equal. rewrite Nat.eqb_refl. cbn [andb]. destruct cm.
  - apply equal_entities_refl_in. exact H.
  - apply all_contained_iff. intros x Hx. exists x. split; [exact Hx|apply H; exact Hx].
Qed.

Section AsIs.
  Variable neq : Q -> Q -> bool.
  Hypothesis L : neq_laws neq.
  Variable fl : flags.

  Lemma eq_units_refl : forall a, eq_units neq a a = true.
  Proof. intros a. apply (eq_units_iff neq L). apply sim_units_refl. exact L. Qed.

  Lemma eq_variable_refl : forall a, eq_variable neq a a = true.
  Proof. intros a. apply (eq_variable_iff neq L). apply sim_variable_refl. exact L. Qed.

  Lemma eq_reset_refl : forall a, eq_reset neq a a = true.
  Proof. intros a. apply (eq_reset_iff neq L). apply sim_reset_refl. exact L. Qed.

  Lemma eq_shell_refl : forall s, eq_shell_head s s && eq_shell_tail neq fl s s = true.
  Proof.
    intros s. unfold eq_shell_head, eq_shell_tail, equal_resets, equal_variables.
    rewrite !String.eqb_refl, !Nat.eqb_refl. cbn [andb].
    rewrite (equal_entities_refl_in (eq_reset neq)) by (intros; apply eq_reset_refl).
    rewrite (equal_entities_refl_in (eq_variable neq)) by (intros; apply eq_variable_refl).
    assert (Hi : eq_imported (c_imp s) (c_impref s) (c_imp s) (c_impref s) = true) by (apply eq_imported_iff; auto).
    rewrite Hi. destruct (f_varcount fl); reflexivity.
  Qed.

  Lemma eqc_refl : forall a, eqc neq fl true a a = true /\ eqc neq fl false a a = true.
  Proof.
    induction a as [s ks IH] using component_ind'. rewrite Forall_forall in IH. rewrite !eqc_unfold.
    pose proof (eq_shell_refl s) as Hs. rewrite andb_true_iff in Hs. destruct Hs as [Hh Ht].
    rewrite Hh, Ht. split.
    - rewrite kids_equal_refl_in; [reflexivity|]. intros x Hx. apply (IH x Hx).
    - rewrite kids_equal_refl_in; [reflexivity|]. intros x Hx. apply (IH x Hx).
  Qed.

  Theorem equals_refl_asis : forall a, eq_entity neq fl a a = true.
  Proof.
    intros [x|x|x|x|x|x]; cbn [eq_entity].
    - unfold eq_model, equal_units. rewrite !String.eqb_refl, Nat.eqb_refl, kids_equal_map_l. cbn [andb].
      rewrite kids_equal_refl_in by (intros c _; apply eqc_refl).
      rewrite equal_entities_refl_in by (intros; apply eq_units_refl). reflexivity.
    - apply eqc_refl.
    - apply eq_variable_refl.
    - apply eq_units_refl.
    - apply eq_reset_refl.
    - apply eq_isrc_iff. reflexivity.
  Qed.

  (** * on a domain where equal components hold equally many variables and sibling components are
        pairwise unequal, the code as it is coincides with the repaired code *)

  Variable D : component -> Prop.
  Hypothesis Dclosed : closed_dom D.
  Hypothesis Dvars : varcount_ok neq fl D.
  Hypothesis Dkids : kids_distinct neq fl D.

  Lemma kids_distinct_E : forall s ks, D (Comp s ks) -> f_compmatch fl = false ->
    forall i j x x' (y : component), nth_error ks i = Some x -> nth_error ks j = Some x' -> i <> j ->
      sim_component neq y x -> sim_component neq y x' -> False.
  Proof.
    intros s ks HD Hcm i j x x' y Hi Hj Hij H1 H2.
    pose proof (Dkids Hcm s ks HD i j x x' Hi Hj Hij) as Hf.
    assert (Ht : eqc neq flags_fixed true x x' = true).
    { apply (eqc_fixed_iff neq L). eapply (sim_component_trans neq L); [apply (sim_component_sym neq L); exact H1|exact H2]. }
    congruence.
  Qed.

  Lemma equal_variables_asis : forall va vb,
    equal_variables neq fl va vb = true -> length va = length vb -> equal_variables neq flags_fixed va vb = true.
  Proof.
    intros va vb H Hlen. unfold equal_variables in *. cbn [f_varcount flags_fixed].
    apply Nat.eqb_eq in Hlen. rewrite Hlen. destruct (f_varcount fl); [rewrite Hlen in H|]; exact H.
  Qed.

  Lemma equal_variables_fixed_asis : forall va vb,
    equal_variables neq flags_fixed va vb = true -> equal_variables neq fl va vb = true.
  Proof.
    intros va vb H. unfold equal_variables in *. cbn [f_varcount flags_fixed] in H.
    rewrite andb_true_iff in H. destruct H as [H1 H2]. rewrite H1, H2. destruct (f_varcount fl); reflexivity.
  Qed.

  Lemma eq_shell_tail_asis : forall sa sb,
    eq_shell_tail neq fl sa sb = true -> length (c_vars sa) = length (c_vars sb) -> eq_shell_tail neq flags_fixed sa sb = true.
  Proof.
    intros sa sb H Hlen. unfold eq_shell_tail in *. rewrite !andb_true_iff in *.
    destruct H as [[[H1 H2] H3] H4]. repeat split; try assumption. apply equal_variables_asis; assumption.
  Qed.

  Lemma eq_shell_tail_fixed_asis : forall sa sb,
    eq_shell_tail neq flags_fixed sa sb = true -> eq_shell_tail neq fl sa sb = true.
  Proof.
    intros sa sb H. unfold eq_shell_tail in *. rewrite !andb_true_iff in *.
    destruct H as [[[H1 H2] H3] H4]. repeat split; try assumption. apply equal_variables_fixed_asis; assumption.
  Qed.

  Lemma varcount_ok_lengths : forall dir a b, D a -> D b -> eqc neq fl dir a b = true ->
    f_varcount fl = true \/ length (c_vars (shell a)) = length (c_vars (shell b)).
  Proof.
    intros dir a b Ha Hb H. destruct (f_varcount fl) eqn:Hf; [left; reflexivity|right].
    destruct dir.
    - apply (Dvars Hf a b Ha Hb H).
    - symmetry. apply (Dvars Hf b a Hb Ha). rewrite <- (proj1 (eqc_flip neq fl a b)). exact H.
  Qed.

  Lemma asis_eq_fixed : forall a b dir, D a -> D b -> eqc neq fl dir a b = eqc neq flags_fixed dir a b.
  Proof.
    induction a as [sa ka IH] using component_ind'. intros [sb kb] dir Ha Hb. rewrite Forall_forall in IH.
    assert (HDa : forall x, In x ka -> D x). { intros x Hx. unfold closed_dom in Dclosed. apply (Dclosed sa ka x Ha Hx). }
    assert (HDb : forall y, In y kb -> D y) by (intros y Hy; eapply Dclosed; eassumption).
    (* the child comparison is the same *)
    assert (Hk1 : kids_equal (fun x y => eqc neq fl false x y) (f_compmatch fl) ka kb
                  = kids_equal (fun x y => eqc neq flags_fixed false x y) true ka kb).
    { rewrite (kids_equal_ext _ (fun x y => eqc neq flags_fixed false x y)) by (intros x y Hx Hy; apply IH; auto).
      destruct (f_compmatch fl) eqn:Hcm; [reflexivity|].
      apply (kids_equal_contained_matching _ (fun x y => sim_component neq y x)).
      - intros x x' y y'. apply (sim_component_dif_flip neq L).
      - intros x y _ _. apply (eqc_fixed_iff neq L).
      - intros i j x x' y. apply (kids_distinct_E sa ka Ha Hcm). }
    assert (Hk2 : kids_equal (fun y x => eqc neq fl true x y) (f_compmatch fl) kb ka
                  = kids_equal (fun y x => eqc neq flags_fixed true x y) true kb ka).
    { rewrite (kids_equal_ext _ (fun y x => eqc neq flags_fixed true x y)) by (intros y x Hy Hx; apply IH; auto).
      destruct (f_compmatch fl) eqn:Hcm; [reflexivity|].
      apply (kids_equal_contained_matching _ (fun y x => sim_component neq x y)).
      - intros x x' y y'. apply (sim_component_dif_flip neq L).
      - intros y x _ _. apply (eqc_fixed_iff neq L).
      - intros i j y y' x Hi Hj Hij H1 H2.
        apply (kids_distinct_E sb kb Hb Hcm i j y y' x Hi Hj Hij H1 H2). }
    destruct (eqc neq flags_fixed dir (Comp sa ka) (Comp sb kb)) eqn:Hfix.
    - (* repaired code says equal: so does the code as it is *)
      rewrite eqc_unfold in *. cbn [f_compmatch flags_fixed] in Hfix. destruct dir.
      + rewrite Hk1. rewrite !andb_true_iff in *. destruct Hfix as [[H1 H2] H3].
        repeat split; try assumption. apply eq_shell_tail_fixed_asis. exact H3.
      + rewrite Hk2. rewrite !andb_true_iff in *. destruct Hfix as [[H1 H2] H3].
        repeat split; try assumption. apply eq_shell_tail_fixed_asis. exact H3.
    - (* the code as it is says equal: then the variable counts agree, and so does the repaired code *)
      destruct (eqc neq fl dir (Comp sa ka) (Comp sb kb)) eqn:Hcur; [|reflexivity].
      exfalso. pose proof (varcount_ok_lengths dir _ _ Ha Hb Hcur) as Hlen. cbn [shell] in Hlen.
      rewrite eqc_unfold in Hcur, Hfix. cbn [f_compmatch flags_fixed] in Hfix. destruct dir.
      + rewrite Hk1 in Hcur. rewrite !andb_true_iff in Hcur. destruct Hcur as [[H1 H2] H3].
        rewrite H1, H2 in Hfix. cbn [andb] in Hfix.
        destruct Hlen as [Hf|Hlen].
        * unfold eq_shell_tail, equal_variables in *. rewrite Hf in H3. cbn [f_varcount flags_fixed] in Hfix. congruence.
        * rewrite (eq_shell_tail_asis sa sb H3 Hlen) in Hfix. discriminate.
      + rewrite Hk2 in Hcur. rewrite !andb_true_iff in Hcur. destruct Hcur as [[H1 H2] H3].
        rewrite H1, H2 in Hfix. cbn [andb] in Hfix.
        destruct Hlen as [Hf|Hlen].
        * unfold eq_shell_tail, equal_variables in *. rewrite Hf in H3. cbn [f_varcount flags_fixed] in Hfix. congruence.
        * rewrite (eq_shell_tail_asis sb sa H3 (eq_sym Hlen)) in Hfix. discriminate.
  Qed.

  (** entities inside the domain *)
  Definition in_dom (e : entity) : Prop :=
    match e with
    | EComponent c => D c
    | EModel m =>
        (forall c, In c (m_comps m) -> D c)
        /\ (f_compmatch fl = false ->
            forall i j x y, nth_error (m_comps m) i = Some x -> nth_error (m_comps m) j = Some y -> i <> j ->
                            eqc neq flags_fixed true x y = false)
    | _ => True
    end.

  Theorem asis_entity_eq_fixed : forall a b, in_dom a -> in_dom b -> eq_entity neq fl a b = eq_entity neq flags_fixed a b.
  Proof.
    intros [x|x|x|x|x|x] [y|y|y|y|y|y] Ha Hb; cbn [eq_entity]; try reflexivity.
    - cbn [in_dom] in Ha, Hb. destruct Ha as [Ha Hnd]. destruct Hb as [Hb _].
      unfold eq_model. rewrite !kids_equal_map_l. cbn [f_compmatch flags_fixed].
      f_equal. f_equal.
      rewrite (kids_equal_ext _ (fun x y => eqc neq flags_fixed false x y)) by (intros c d Hc Hd; apply asis_eq_fixed; auto).
      destruct (f_compmatch fl) eqn:Hcm; [reflexivity|].
      apply (kids_equal_contained_matching _ (fun x y => sim_component neq y x)).
      + intros c c' d d'. apply (sim_component_dif_flip neq L).
      + intros c d _ _. apply (eqc_fixed_iff neq L).
      + intros i j c c' d Hi Hj Hij H1 H2.
        pose proof (Hnd eq_refl i j c c' Hi Hj Hij) as Hf.
        assert (Ht : eqc neq flags_fixed true c c' = true).
        { apply (eqc_fixed_iff neq L). eapply (sim_component_trans neq L); [apply (sim_component_sym neq L); exact H1|exact H2]. }
        congruence.
    - cbn [in_dom] in Ha, Hb. unfold eq_component. apply asis_eq_fixed; assumption.
  Qed.

  (** the `_partial` theorems: on the domain the code as it is is symmetric and transitive, invariant under
      permutations (that stay in the domain) *)
  Theorem equals_sym_partial : forall a b, in_dom a -> in_dom b -> eq_entity neq fl a b = eq_entity neq fl b a.
  Proof.
    intros a b Ha Hb. rewrite (asis_entity_eq_fixed a b Ha Hb), (asis_entity_eq_fixed b a Hb Ha). apply equals_sym. exact L.
  Qed.

  Theorem equals_trans_partial : forall a b c, in_dom a -> in_dom b -> in_dom c ->
    eq_entity neq fl a b = true -> eq_entity neq fl b c = true -> eq_entity neq fl a c = true.
  Proof.
    intros a b c Ha Hb Hc. rewrite (asis_entity_eq_fixed a b Ha Hb), (asis_entity_eq_fixed b c Hb Hc), (asis_entity_eq_fixed a c Ha Hc).
    apply equals_trans. exact L.
  Qed.

  Theorem equals_perm_invariant_partial : forall a a' b, in_dom a -> in_dom a' -> in_dom b -> shuffled a a' ->
    eq_entity neq fl a a' = true /\ eq_entity neq fl a' a = true
    /\ eq_entity neq fl a' b = eq_entity neq fl a b /\ eq_entity neq fl b a' = eq_entity neq fl b a.
  Proof.
    intros a a' b Ha Ha' Hb Hs.
    rewrite (asis_entity_eq_fixed a a' Ha Ha'), (asis_entity_eq_fixed a' a Ha' Ha), (asis_entity_eq_fixed a' b Ha' Hb),
      (asis_entity_eq_fixed a b Ha Hb), (asis_entity_eq_fixed b a' Hb Ha'), (asis_entity_eq_fixed b a Hb Ha).
    apply equals_perm_invariant; assumption.
  Qed.
End AsIs.

(** the domain hypothesis about variable counts is exactly what is needed: wherever the code as it is
    coincides with the repaired code on a domain, equal components hold equally many variables *)
Lemma varcount_ok_necessary : forall neq fl (D : component -> Prop), neq_laws neq ->
  (forall a b, D a -> D b -> eqc neq fl true a b = eqc neq flags_fixed true a b) -> varcount_ok neq fl D.
Proof.
  intros neq fl D L H _ a b Ha Hb He. rewrite (H a b Ha Hb) in He.
  apply (eqc_fixed_iff neq L) in He. destruct a as [sa ka], b as [sb kb]. cbn [shell].
  apply (sim_component_inv neq) in He. destruct He as [Hs _]. unfold sim_shell in Hs.
  destruct Hs as (_ & _ & _ & _ & _ & _ & Hv & _). eapply perm_rel_length. exact Hv.
Qed.

(** * instances of the comparison of doubles *)

Lemma Qeq_bool_laws : neq_laws Qeq_bool.
Proof.
  split.
  - intros x. apply Qeq_bool_iff. reflexivity.
  - intros x y H. apply Qeq_bool_iff. apply Qeq_bool_iff in H. symmetry. exact H.
  - intros x y z H1 H2. apply Qeq_bool_iff. apply Qeq_bool_iff in H1, H2. rewrite H1. exact H2.
Qed.

(** on values that are equal or more than DBL_EPSILON apart, areNearlyEqual's absolute test is plain equality *)
Lemma neq_abs_far : forall a b : Q,
  (a == b \/ (1 # 4503599627370496) < Qabs (a - b))%Q -> neq_abs a b = Qeq_bool a b.
Proof.
  intros a b [H|H]; unfold neq_abs.
  - rewrite (proj2 (Qeq_bool_iff a b) H). apply Qle_bool_iff.
    assert (Hz : (a - b == 0)%Q) by (rewrite H; ring). rewrite Hz. cbn. discriminate.
  - destruct (Qeq_bool a b) eqn:He.
    + apply Qeq_bool_iff in He. exfalso.
      assert (Hz : (a - b == 0)%Q) by (rewrite He; ring). rewrite Hz in H. cbn in H. discriminate.
    + destruct (Qle_bool (Qabs (a - b)) (1 # 4503599627370496)) eqn:Hl; [|reflexivity].
      apply Qle_bool_iff in Hl. exfalso. apply (Qlt_not_le _ _ H). exact Hl.
Qed.

(** ... but it is not an equivalence below DBL_EPSILON: 2^-53 ~ 3*2^-53 ~ 5*2^-53, 2^-53 !~ 5*2^-53 *)
Lemma neq_abs_not_transitive :
  exists a b c, neq_abs a b = true /\ neq_abs b c = true /\ neq_abs a c = false.
Proof.
  exists (1 # 9007199254740992)%Q, (3 # 9007199254740992)%Q, (5 # 9007199254740992)%Q. vm_compute. auto.
Qed.

(** * witnesses: the code as it is *)

Definition mkv (n : string) : variable := {| v_name := n; v_id := ""; v_units := None; v_init := ""; v_iface := "" |}.
Definition mkc (n : string) (vs : list variable) (ks : list component) : component :=
  Comp {| c_name := n; c_id := ""; c_encid := ""; c_math := ""; c_imp := None; c_impref := ""; c_vars := vs; c_resets := [] |} ks.
Definition mkm (cs : list component) : model := {| m_name := "m"; m_id := ""; m_encid := ""; m_units := []; m_comps := cs |}.

Definition w_y := EComponent (mkc "c" [mkv "y"] []).
Definition w_yx := EComponent (mkc "c" [mkv "y"; mkv "x"] []).
Definition w_xy := EComponent (mkc "c" [mkv "x"; mkv "y"] []).

(** no count test for variables (every setting of the other switch; any comparison of doubles) *)
Lemma sym_refuted_vars : forall neq cm, let fl := {| f_varcount := false; f_compmatch := cm |} in
  eq_entity neq fl w_y w_yx = true /\ eq_entity neq fl w_yx w_y = false.
Proof. intros neq [|]; vm_compute; auto. Qed.

Lemma trans_refuted_vars : forall neq cm, let fl := {| f_varcount := false; f_compmatch := cm |} in
  eq_entity neq fl w_y w_yx = true /\ eq_entity neq fl w_yx w_xy = true /\ eq_entity neq fl w_y w_xy = false.
Proof. intros neq [|]; vm_compute; auto. Qed.

Lemma perm_refuted_vars : forall neq cm, let fl := {| f_varcount := false; f_compmatch := cm |} in
  shuffled w_yx w_xy /\ eq_entity neq fl w_y w_yx = true /\ eq_entity neq fl w_y w_xy = false.
Proof.
  intros neq cm fl. split.
  - cbn. apply (sim_component_intro q_same); [|apply perm_rel_refl; intros x []].
    unfold sim_shell. cbn. repeat split.
    + exists [mkv "y"; mkv "x"]. split; [apply perm_swap|].
      repeat constructor; apply (sim_variable_refl q_same q_same_laws).
    + exists []. split; constructor.
  - destruct cm; vm_compute; auto.
Qed.

Lemma count_refuted_vars : forall neq cm, let fl := {| f_varcount := false; f_compmatch := cm |} in
  exists a b, length (c_vars (shell a)) <> length (c_vars (shell b)) /\ eq_component neq fl a b = true.
Proof.
  intros neq cm fl. exists (mkc "c" [mkv "y"] []), (mkc "c" [mkv "y"; mkv "x"] []). split; [cbn; lia|].
  destruct cm; vm_compute; reflexivity.
Qed.

(** containsComponent per child instead of a matching: {a,a} vs {a,b} (even with the variable count test) *)
Definition w_aa := EModel (mkm [mkc "a" [] []; mkc "a" [] []]).
Definition w_ab := EModel (mkm [mkc "a" [] []; mkc "b" [] []]).

Lemma sym_refuted_kids : forall neq vc, let fl := {| f_varcount := vc; f_compmatch := false |} in
  eq_entity neq fl w_aa w_ab = true /\ eq_entity neq fl w_ab w_aa = false.
Proof. intros neq [|]; vm_compute; auto. Qed.

(** with the matching of child components but without the variable count test, even a child-order
    permutation of a model can be unequal to it *)
Definition w_p1 := EModel (mkm [mkc "c" [mkv "v"; mkv "w"] []; mkc "c" [mkv "v"] []]).
Definition w_p2 := EModel (mkm [mkc "c" [mkv "v"] []; mkc "c" [mkv "v"; mkv "w"] []]).

Lemma perm_refuted_now : forall neq, shuffled w_p1 w_p2 /\ eq_entity neq flags_now w_p1 w_p2 = false.
Proof.
  intros neq. split; [|vm_compute; reflexivity].
  cbn. unfold sim_model. cbn. repeat split.
  - exists []. split; constructor.
  - exists [mkc "c" [mkv "v"; mkv "w"] []; mkc "c" [mkv "v"] []]. split; [apply perm_swap|].
    repeat constructor; apply (sim_component_refl q_same q_same_laws).
Qed.

(** the absolute tolerance: a change of a multiplier from 2^-60 to 2^-70 is not seen *)
Definition w_u (m : Q) := EUnits {| u_name := "u"; u_id := ""; u_imp := None; u_impref := "";
  u_defs := [{| ud_ref := "metre"; ud_prefix := ""; ud_exp := 1; ud_mult := m; ud_id := "" |}] |}.

Lemma detects_refuted_epsilon :
  apply_emut (MutUnits (UDef 0 (DMult (1 # 1180591620717411303424)))) (w_u (1 # 1152921504606846976))
    = Some (w_u (1 # 1180591620717411303424))
  /\ changes_emut Qeq_bool (MutUnits (UDef 0 (DMult (1 # 1180591620717411303424)))) (w_u (1 # 1152921504606846976)) = true
  /\ eq_entity neq_abs flags_fixed (w_u (1 # 1152921504606846976)) (w_u (1 # 1180591620717411303424)) = true.
Proof. vm_compute. auto. Qed.
