(** IdsDefs.v — executable model of identifier assignment (property C13).  No proofs in this file.

    What is modelled (as the code is with the C13 fixes applied when the three [cfg] flags are true, and as
    it was before them when a flag is false):

      /repo/src/annotator.cpp   listIdsAndItems / listComponentIdsAndItems / buildIdList, update, generateHash /
                                doUpdateComponentHash, setModel, makeUniqueId, doSetAllAutomaticIds,
                                doSetComponentTreeTypeIds, doSet{Model,ImportSource,Units,UnitsItem,Encapsulation}Ids,
                                assignEncapsulationId, assignAllIds, assignIds(type), setAutoId / assignId(...),
                                removeId, clearAllIds, item, item(id,index), items, isUnique, itemCount, ids,
                                duplicateIds, the typed accessors (component(id), variable(id), ...)
      /repo/src/utilities.cpp   listIds / listComponentIds, makeUniqueId(IdList&)
      /repo/src/printer.cpp     the autoIds branches of printModel and its helpers

    Abstraction.  The object model is split into
      - an immutable STRUCTURE [structure] that says which id-carrying positions exist and how the three
        traversals of the annotator visit them (component tree flattened in pre-order, which is the order of
        every recursive function above), and
      - the mutable vector of identifiers [ids : list string]; position [slot] holds [get ids slot]
        ("" = no identifier).  Positions that are one C++ storage cell share one slot: the mapping id of an
        equivalence (read from either side), the connection id of all equivalences between the same two
        components (variable.cpp: setEquivalenceConnectionId / equivalenceConnectionId via createConnectionMap),
        an ImportSource object used by several imported entities.
    The identity of a C++ object is its slot number. *)
From Coq Require Import String Ascii List NArith Arith Bool HexadecimalString HexadecimalN.
From LC Require Import Common.
Import ListNotations.
Open Scope string_scope.
Open Scope list_scope.

(* ------------------------------------------------------------------------------------------------ kinds *)

(* enums.h: CellmlElementType (UNDEFINED is not an item kind; MATH items carry no identifier of their own,
   KMath below stands for "an id attribute on a MathML element inside a component's math string") *)
Inductive kind := KModel | KEncaps | KImport | KUnits | KUnit | KComp | KCompRef | KVar
                | KReset | KTestValue | KResetValue | KConn | KMap | KMath.

Definition kind_index (k : kind) : nat :=
  match k with
  | KModel => 0 | KEncaps => 1 | KImport => 2 | KUnits => 3 | KUnit => 4 | KComp => 5 | KCompRef => 6
  | KVar => 7 | KReset => 8 | KTestValue => 9 | KResetValue => 10 | KConn => 11 | KMap => 12 | KMath => 13
  end.
Definition kind_eqb (a b : kind) : bool := Nat.eqb (kind_index a) (kind_index b).

(* ------------------------------------------------------------------------------------------------ structure *)

Record eq_s := { es_map : nat; es_conn : nat; es_other : nat }.     (* one equivalentVariable(e): its mapping
                                                                       slot, connection slot, the other variable *)
Record var_s := { vs_slot : nat; vs_eqs : list eq_s }.
Record reset_s := { rs_slot : nat; rs_tv : nat; rs_rv : nat;
                    rs_tv_math : bool; rs_rv_math : bool }.           (* test/reset value strings non-empty (printer) *)
Record comp_s := { cs_slot : nat; cs_imp : option nat; cs_enc : nat;
                   cs_top : bool;                                     (* parent is the model *)
                   cs_kids : bool;                                    (* componentCount() > 0 *)
                   cs_sib : nat;                                      (* index among its siblings *)
                   cs_vars : list var_s; cs_resets : list reset_s;
                   cs_math : list nat }.                              (* slots of ids inside the math string *)
Record units_s := { us_slot : nat; us_imp : option nat; us_items : list nat }.
Record structure := { st_model : nat; st_enc : nat; st_units : list units_s;
                      st_comps : list comp_s }.                       (* pre-order *)

(* which of the three C13 repairs are present in the code being modelled *)
Record cfg := { fx_refresh : bool;     (* assign* rebuild the id list first            (fixes/C13-refresh-before-assign) *)
                fx_hash : bool;        (* hash covers mapping and connection ids        (fixes/C13-hash-equivalence-ids) *)
                fx_import : bool }.    (* a shared import source is listed once         (fixes/C13-shared-import-source) *)
Definition cfg_fixed := {| fx_refresh := true; fx_hash := true; fx_import := true |}.
Definition cfg_pinned := {| fx_refresh := false; fx_hash := false; fx_import := false |}.

(* ------------------------------------------------------------------------------------------------ id vector *)

Definition get (ids : list string) (n : nat) : string := nth n ids "".
Fixpoint set (ids : list string) (n : nat) (x : string) : list string :=
  match ids, n with
  | [], _ => []
  | _ :: r, O => x :: r
  | y :: r, S m => y :: set r m x
  end.
Definition is_empty (s : string) : bool := match s with EmptyString => true | _ => false end.

(* ------------------------------------------------------------------------------------------------ visits *)

(* one step of a traversal: the kind of item, its slot and, for connections / mappings, the two variables
   in the order the traversal met them (they become VariablePair::variable1/2 of the recorded item) *)
Record visit := { v_kind : kind; v_slot : nat; v_a : nat; v_b : nat }.
Definition vis (k : kind) (s : nat) : visit := {| v_kind := k; v_slot := s; v_a := 0; v_b := 0 |}.
Definition vis2 (k : kind) (s a b : nat) : visit := {| v_kind := k; v_slot := s; v_a := a; v_b := b |}.
Definition opt_vis (k : kind) (o : option nat) : list visit :=
  match o with Some s => [vis k s] | None => [] end.

(* annotator.cpp: listIdsAndItems (model, units with unit children and import source, components, encapsulation) *)
Definition list_var (v : var_s) : list visit :=
  vis KVar (vs_slot v)
  :: flat_map (fun e => [vis2 KMap (es_map e) (vs_slot v) (es_other e);
                         vis2 KConn (es_conn e) (vs_slot v) (es_other e)]) (vs_eqs v).
Definition list_reset (r : reset_s) : list visit :=
  [vis KReset (rs_slot r); vis KTestValue (rs_tv r); vis KResetValue (rs_rv r)].
(* annotator.cpp: listComponentIdsAndItems (the recursion into children is the pre-order of st_comps) *)
Definition list_comp (c : comp_s) : list visit :=
  vis KComp (cs_slot c) :: opt_vis KImport (cs_imp c) ++ [vis KCompRef (cs_enc c)]
  ++ flat_map list_var (cs_vars c) ++ flat_map list_reset (cs_resets c).
Definition list_units (u : units_s) : list visit :=
  vis KUnits (us_slot u) :: map (vis KUnit) (us_items u) ++ opt_vis KImport (us_imp u).
Definition list_visits (st : structure) : list visit :=
  vis KModel (st_model st) :: flat_map list_units (st_units st) ++ flat_map list_comp (st_comps st)
  ++ [vis KEncaps (st_enc st)].

(* ------------------------------------------------------------------------------------------------ id list *)

(* an entry of AnnotatorImpl::mIdList.  The multimap is kept as a list in insertion order: equal keys are
   iterated in insertion order by std::multimap, and ids()/duplicateIds() sort the keys explicitly. *)
Record entry := { e_id : string; e_kind : kind; e_slot : nat; e_a : nat; e_b : nat }.
Definition mk_entry (id : string) (v : visit) : entry :=
  {| e_id := id; e_kind := v_kind v; e_slot := v_slot v; e_a := v_a v; e_b := v_b v |}.

(* kinds whose entry is recorded once although the traversal meets the storage cell several times:
   mappings (met from both variables), connections (met once per equivalence between the two components),
   and - with the C13 repair - import sources shared by several imported entities *)
Definition dedup_kind (c : cfg) (k : kind) : bool :=
  match k with KMap | KConn => true | KImport => fx_import c | _ => false end.

Definition pos_eqb (p q : kind * nat) : bool := kind_eqb (fst p) (fst q) && Nat.eqb (snd p) (snd q).
Definition pos_mem (p : kind * nat) (l : list (kind * nat)) : bool := existsb (pos_eqb p) l.

(* annotator.cpp: listIdsAndItems + listComponentIdsAndItems: non-empty ids only, dedup as described *)
Fixpoint build_from (c : cfg) (ids : list string) (vs : list visit) (seen : list (kind * nat)) : list entry :=
  match vs with
  | [] => []
  | v :: r =>
      let id := get ids (v_slot v) in
      if is_empty id then build_from c ids r seen
      else if dedup_kind c (v_kind v) && pos_mem (v_kind v, v_slot v) seen then build_from c ids r seen
      else mk_entry id v :: build_from c ids r ((v_kind v, v_slot v) :: seen)
  end.
(* annotator.cpp: buildIdList *)
Definition build_cache (c : cfg) (st : structure) (ids : list string) : list entry :=
  build_from c ids (list_visits st) [].

(* ------------------------------------------------------------------------------------------------ hash *)

Definition dec (n : nat) : string := nat_to_string n.                 (* std::to_string(size_t) *)

(* utilities.cpp: getAllImportSources = import sources of imported components (pre-order), then of imported units *)
Definition import_slots (st : structure) : list nat :=
  flat_map (fun c => match cs_imp c with Some s => [s] | None => [] end) (st_comps st)
  ++ flat_map (fun u => match us_imp u with Some s => [s] | None => [] end) (st_units st).

(* The serialised string of generateHash is a sequence of tokens  <letters>=<digits><id> ; a token is kept as
   (letters, digits, slot) so that the string is  concat [letters ++ "=" ++ digits ++ id of slot]. *)
Definition htok := (string * string * nat)%type.
Definition tok (letters digits : string) (slot : nat) : htok := (letters, digits, slot).

Fixpoint hash_imports (l : list nat) (i : nat) : list htok :=          (* "i=" + to_string(++i) + id *)
  match l with
  | [] => []
  | s :: r => tok "i" (dec i) s :: hash_imports r (S i)
  end.
Fixpoint hash_indexed (letters : string) (l : list nat) (i : nat) : list htok :=
  match l with
  | [] => []
  | s :: r => tok letters (dec i) s :: hash_indexed letters r (S i)
  end.
Fixpoint hash_eqs (l : list eq_s) (j : nat) : list htok :=             (* added by the repair: "e=" j mapping id "ec=" connection id *)
  match l with
  | [] => []
  | e :: r => tok "e" (dec j) (es_map e) :: tok "ec" "" (es_conn e) :: hash_eqs r (S j)
  end.
Fixpoint hash_vars (c : cfg) (l : list var_s) (i : nat) : list htok :=  (* "v=" + to_string(i) + id *)
  match l with
  | [] => []
  | v :: r => tok "v" (dec i) (vs_slot v)
              :: (if fx_hash c then hash_eqs (vs_eqs v) 0 else []) ++ hash_vars c r (S i)
  end.
Fixpoint hash_resets (l : list reset_s) (i : nat) : list htok :=       (* "r=" i id "rv=" id "tv=" id *)
  match l with
  | [] => []
  | r :: t => tok "r" (dec i) (rs_slot r) :: tok "rv" "" (rs_rv r) :: tok "tv" "" (rs_tv r) :: hash_resets t (S i)
  end.
(* annotator.cpp: generateHash (top-level components: "c=" i id "cr=" i encapsulation id) /
   doUpdateComponentHash (children: "c=" i id "ce=" encapsulation id), then variables and resets *)
Definition hash_comp (c : cfg) (k : comp_s) : list htok :=
  (if cs_top k
   then [tok "c" (dec (cs_sib k)) (cs_slot k); tok "cr" (dec (cs_sib k)) (cs_enc k)]
   else [tok "c" (dec (cs_sib k)) (cs_slot k); tok "ce" "" (cs_enc k)])
  ++ hash_vars c (cs_vars k) 0 ++ hash_resets (cs_resets k) 0.
Fixpoint hash_units (l : list units_s) (i : nat) : list htok :=        (* "U=" i id, then "u=" j id per unit child *)
  match l with
  | [] => []
  | u :: r => tok "U" (dec i) (us_slot u) :: hash_indexed "u" (us_items u) 0 ++ hash_units r (S i)
  end.
Definition hash_tokens (c : cfg) (st : structure) : list htok :=
  [tok "m" "" (st_model st); tok "me" "" (st_enc st)]
  ++ hash_imports (import_slots st) 1
  ++ hash_units (st_units st) 0
  ++ flat_map (hash_comp c) (st_comps st).

Fixpoint cat (l : list string) : string :=
  match l with
  | [] => ""
  | x :: r => (x ++ cat r)%string
  end.
Definition tok_string (ids : list string) (t : htok) : string :=
  match t with (letters, digits, slot) => (letters ++ "=" ++ digits ++ get ids slot)%string end.
(* annotator.cpp: generateHash.  The model keeps the serialised string itself; std::hash<std::string> is assumed
   free of collisions on the strings met (assumption A-hash), and never 0. *)
Definition hash_string (c : cfg) (st : structure) (ids : list string) : string :=
  cat (map (tok_string ids) (hash_tokens c st)).

(* ------------------------------------------------------------------------------------------------ state *)

Record astate := { a_has_model : bool;                (* mModel set and alive *)
                   a_model : nat;                     (* which model mModel points to (several models may be handed over in turn) *)
                   a_owner : nat;                     (* the model whose objects the entries of mIdList refer to *)
                   a_cache : list entry;              (* mIdList *)
                   a_hash : option string;            (* mHash; None = 0 *)
                   a_counter : N;                     (* mCounter *)
                   a_err : bool }.                    (* a fuelled loop of the model ran out of fuel (never: no_error) *)
Record state := { s_ids : list string; s_ann : astate }.

Definition ann_init : astate :=
  {| a_has_model := false; a_model := 0; a_owner := 0; a_cache := []; a_hash := None; a_counter := 0xb4da55; a_err := false |}.
Definition init (ids : list string) : state := {| s_ids := ids; s_ann := ann_init |}.

Definition with_cache (a : astate) (cache : list entry) (h : option string) : astate :=
  {| a_has_model := a_has_model a; a_model := a_model a; a_owner := a_model a;     (* a rebuilt list refers to the stored model *)
     a_cache := cache; a_hash := h; a_counter := a_counter a; a_err := a_err a |}.

Definition opt_str_eqb (o : option string) (s : string) : bool :=
  match o with Some t => String.eqb t s | None => false end.

(* annotator.cpp: AnnotatorImpl::update (the issues it clears are not modelled) *)
Definition update (c : cfg) (st : structure) (s : state) : state :=
  if negb (a_has_model (s_ann s)) then
    (* no (living) model: mModel.expired() makes buildIdList() empty the list (fixes/C13-4); hash = generateHash() = 0 *)
    {| s_ids := s_ids s; s_ann := with_cache (s_ann s) [] None |}
  else
    let h := hash_string c st (s_ids s) in
    if opt_str_eqb (a_hash (s_ann s)) h then s
    else {| s_ids := s_ids s; s_ann := with_cache (s_ann s) (build_cache c st (s_ids s)) (Some h) |}.

(* annotator.cpp: AnnotatorImpl::refreshIdList (added by the repair): unconditional rebuild; the hash is left
   at 0 because the caller is about to change identifiers *)
Definition refresh (c : cfg) (st : structure) (s : state) : state :=
  {| s_ids := s_ids s; s_ann := with_cache (s_ann s) (build_cache c st (s_ids s)) None |}.

(* annotator.cpp: Annotator::setModel *)
Definition set_model (c : cfg) (st : structure) (s : state) : state :=
  let a := s_ann s in
  update c st {| s_ids := s_ids s;
                 s_ann := {| a_has_model := true; a_model := a_model a; a_owner := a_owner a; a_cache := a_cache a;
                             a_hash := None; a_counter := a_counter a; a_err := a_err a |} |}.

(* ------------------------------------------------------------------------------------------------ makeUniqueId *)

(* std::stringstream << std::hex << size_t: lower case, no prefix, no leading zeros *)
Definition hex (n : N) : string := NilEmpty.string_of_uint (N.to_hex_uint n).

Definition str_mem (x : string) (l : list string) : bool := existsb (String.eqb x) l.

(* annotator.cpp: AnnotatorImpl::makeUniqueId: while (mIdList.count(id) != 0) ++mCounter.
   The loop is given [fuel] extra iterations; result (id, counter, ok); ok = false iff the fuel ran out. *)
Fixpoint mu_loop (fuel : nat) (keys : list string) (n : N) : string * N * bool :=
  let id := hex n in
  if str_mem id keys
  then match fuel with
       | O => (id, n, false)
       | S f => mu_loop f keys (N.succ n)
       end
  else (id, n, true).
Definition keys_of (cache : list entry) : list string := map e_id cache.
Definition make_unique (cache : list entry) (n : N) : string * N * bool :=
  mu_loop (length cache) (keys_of cache) n.

(* ------------------------------------------------------------------------------------------------ assignment *)

(* the common body of every doSet*Ids loop: if the id is empty: makeUniqueId, store it, record the item *)
Definition assign_visit (s : state) (v : visit) : state :=
  if is_empty (get (s_ids s) (v_slot v)) then
    let a := s_ann s in
    match make_unique (a_cache a) (a_counter a) with
    | (id, n, ok) =>
        {| s_ids := set (s_ids s) (v_slot v) id;
           s_ann := {| a_has_model := a_has_model a; a_model := a_model a; a_owner := a_owner a;
                       a_cache := a_cache a ++ [mk_entry id v]; a_hash := a_hash a;
                       a_counter := n; a_err := a_err a || negb ok |} |}
    end
  else s.
Definition assign_visits (s : state) (vs : list visit) : state := fold_left assign_visit vs s.

(* annotator.cpp: assignEncapsulationId: inHierarchy = parent is not the model || componentCount() > 0 *)
Definition in_hierarchy (k : comp_s) : bool := negb (cs_top k) || cs_kids k.

(* annotator.cpp: doSetComponentTreeTypeIds for one component; [sel k] = (type == k || all) *)
Definition assign_comp_visits (sel : kind -> bool) (k : comp_s) : list visit :=
  (if sel KComp then [vis KComp (cs_slot k)] else [])
  ++ (if sel KCompRef && in_hierarchy k then [vis KCompRef (cs_enc k)] else [])
  ++ (if sel KVar then map (fun v => vis KVar (vs_slot v)) (cs_vars k) else [])
  ++ flat_map (fun v => flat_map (fun e =>
         (if sel KConn then [vis2 KConn (es_conn e) (vs_slot v) (es_other e)] else [])
         ++ (if sel KMap then [vis2 KMap (es_map e) (vs_slot v) (es_other e)] else [])) (vs_eqs v)) (cs_vars k)
  ++ flat_map (fun r =>
         (if sel KReset then [vis KReset (rs_slot r)] else [])
         ++ (if sel KResetValue then [vis KResetValue (rs_rv r)] else [])
         ++ (if sel KTestValue then [vis KTestValue (rs_tv r)] else [])) (cs_resets k).

Definition import_visits (st : structure) : list visit := map (vis KImport) (import_slots st).     (* doSetImportSourceIds *)
Definition units_visits (st : structure) : list visit := map (fun u => vis KUnits (us_slot u)) (st_units st).  (* doSetUnitsIds *)
Definition unit_visits (st : structure) : list visit :=                                          (* doSetUnitsItemIds *)
  flat_map (fun u => map (vis KUnit) (us_items u)) (st_units st).

(* annotator.cpp: doSetAllAutomaticIds *)
Definition assign_all_visits (st : structure) : list visit :=
  [vis KModel (st_model st)] ++ import_visits st ++ units_visits st ++ unit_visits st
  ++ flat_map (assign_comp_visits (fun _ => true)) (st_comps st)
  ++ [vis KEncaps (st_enc st)].

(* annotator.cpp: the switch of Annotator::assignIds(type) *)
Definition assign_type_visits (st : structure) (k : kind) : list visit :=
  match k with
  | KComp | KCompRef | KConn | KMap | KReset | KResetValue | KTestValue | KVar =>
      flat_map (assign_comp_visits (kind_eqb k)) (st_comps st)
  | KEncaps => [vis KEncaps (st_enc st)]
  | KImport => import_visits st
  | KModel => [vis KModel (st_model st)]
  | KUnit => unit_visits st
  | KUnits => units_visits st
  | KMath => []
  end.

Definition pre_assign (c : cfg) (st : structure) (s : state) : state :=
  if fx_refresh c then refresh c st s else s.

(* annotator.cpp: Annotator::assignAllIds() *)
Definition assign_all (c : cfg) (st : structure) (s : state) : state * bool :=
  if a_has_model (s_ann s) then
    let s1 := pre_assign c st s in
    let n0 := length (a_cache (s_ann s1)) in
    let s2 := assign_visits s1 (assign_all_visits st) in
    (s2, Nat.ltb n0 (length (a_cache (s_ann s2))))
  else (s, false).

(* annotator.cpp: Annotator::assignIds(type): assign, then setModel(model) *)
Definition assign_type (c : cfg) (st : structure) (k : kind) (s : state) : state * bool :=
  if a_has_model (s_ann s) then
    let s1 := pre_assign c st s in
    let n0 := length (a_cache (s_ann s1)) in
    let s2 := set_model c st (assign_visits s1 (assign_type_visits st k)) in
    (s2, Nat.ltb n0 (length (a_cache (s_ann s2))))
  else (s, false).

(* annotator.cpp: removeId: erase the first entry of equal_range(id) of the same type whose item is the same
   object.  itemsEqual compares VariablePair / UnitsItem objects by address, and assignId(v1, v2, type) /
   assignId(units, index) wrap their arguments in a new object, so for these three kinds nothing is erased. *)
Definition removable (k : kind) : bool := match k with KConn | KMap | KUnit => false | _ => true end.
Fixpoint remove_first (id : string) (k : kind) (slot : nat) (l : list entry) : list entry :=
  match l with
  | [] => []
  | e :: r => if String.eqb (e_id e) id && kind_eqb (e_kind e) k && Nat.eqb (e_slot e) slot
              then r else e :: remove_first id k slot r
  end.

(* annotator.cpp: setAutoId for a valid item owned by the stored model (assignId(...) overloads).
   The item always receives a NEW id; its previous one is dropped. *)
Definition assign_item (c : cfg) (st : structure) (v : visit) (s : state) : state * string :=
  if a_has_model (s_ann s) then
    let old := get (s_ids s) (v_slot v) in
    let s1 := if fx_refresh c then refresh c st s else update c st s in
    let a := s_ann s1 in
    match make_unique (a_cache a) (a_counter a) with
    | (id, n, ok) =>
        let cache1 := if negb (is_empty old) && removable (v_kind v)
                      then remove_first old (v_kind v) (v_slot v) (a_cache a) else a_cache a in
        ({| s_ids := set (s_ids s1) (v_slot v) id;
            s_ann := {| a_has_model := true; a_model := a_model a; a_owner := a_owner a;
                        a_cache := cache1 ++ [mk_entry id v]; a_hash := a_hash a;
                        a_counter := n; a_err := a_err a || negb ok |} |}, id)
    end
  else (s, "").

(* annotator.cpp: Annotator::clearAllIds(): every id the traversal knows is emptied (ids inside MathML stay) *)
Definition clear_all (c : cfg) (st : structure) (s : state) : state :=
  if a_has_model (s_ann s) then
    let s1 := update c st s in
    {| s_ids := fold_left (fun ids v => set ids (v_slot v) "") (list_visits st) (s_ids s1);
       s_ann := with_cache (s_ann s1) [] None |}
  else s.

(* ------------------------------------------------------------------------------------------------ lookups *)

(* bytewise order of std::string *)
Fixpoint str_ltb (a b : string) : bool :=
  match a, b with
  | EmptyString, EmptyString => false
  | EmptyString, _ => true
  | _, EmptyString => false
  | String x a', String y b' =>
      let nx := nat_of_ascii x in
      let ny := nat_of_ascii y in
      if Nat.ltb nx ny then true else if Nat.ltb ny nx then false else str_ltb a' b'
  end.
Fixpoint insert_uniq (x : string) (l : list string) : list string :=
  match l with
  | [] => [x]
  | y :: r => if String.eqb x y then l else if str_ltb x y then x :: l else y :: insert_uniq x r
  end.
Definition sort_uniq (l : list string) : list string := fold_right insert_uniq [] l.

Definition items_of (cache : list entry) (id : string) : list entry :=
  filter (fun e => String.eqb (e_id e) id) cache.                      (* equal_range, insertion order *)
Definition item_count_of (cache : list entry) (id : string) : nat := length (items_of cache id).
Definition ids_of (cache : list entry) : list string := sort_uniq (keys_of cache).
Definition duplicate_ids_of (cache : list entry) : list string :=
  filter (fun x => Nat.ltb 1 (item_count_of cache x)) (ids_of cache).
(* Annotator::item(id): exists(id, 0, unique = true) *)
Definition item_of (cache : list entry) (id : string) : option entry :=
  match items_of cache id with
  | [e] => Some e
  | _ => None
  end.
(* Annotator::item(id, index) *)
Definition item_index_of (cache : list entry) (id : string) (i : nat) : option entry := nth_error (items_of cache id) i.

(* the accessor classes of AnyCellmlElement (types.cpp): component() serves COMPONENT and COMPONENT_REF, ... *)
Inductive acc := AComp | APair | AModel | AImport | AReset | AUnits | AUnit | AVar.
Definition acc_index (a : acc) : nat :=
  match a with AComp => 0 | APair => 1 | AModel => 2 | AImport => 3 | AReset => 4 | AUnits => 5 | AUnit => 6 | AVar => 7 end.
Definition acc_of (k : kind) : acc :=
  match k with
  | KComp | KCompRef | KMath => AComp
  | KConn | KMap => APair
  | KModel | KEncaps => AModel
  | KImport => AImport
  | KReset | KTestValue | KResetValue => AReset
  | KUnits => AUnits
  | KUnit => AUnit
  | KVar => AVar
  end.
(* Annotator::component(id), variable(id), ...: item(id)-><accessor>() *)
Definition typed_of (cache : list entry) (a : acc) (id : string) : option entry :=
  match item_of cache id with
  | Some e => if Nat.eqb (acc_index (acc_of (e_kind e))) (acc_index a) then Some e else None
  | None => None
  end.

(* ------------------------------------------------------------------------------------------------ printer *)

(* utilities.cpp: listIds / listComponentIds: the set of non-empty ids the traversal knows (a set: order and
   multiplicity are immaterial) *)
Definition list_ids (st : structure) (ids : list string) : list string :=
  filter (fun x => negb (is_empty x)) (map (fun v => get ids (v_slot v)) (list_visits st)).

(* the id attributes printer.cpp writes, each storage cell once:
     model; <import> once per import source, with the imported units / components inside;
     units that are not imports with their unit children; components that are not imports with variables and
     resets (test_value / reset_value elements exist iff they have an id or a value); component_ref for every
     component of a top-level tree that has children; every map_variables and connection; encapsulation iff some
     top-level component has children.  (Units named like a standard unit without children are not printed:
     the generated models have none.) *)
Definition is_import_c (k : comp_s) : bool := match cs_imp k with Some _ => true | None => false end.
Definition is_import_u (u : units_s) : bool := match us_imp u with Some _ => true | None => false end.
Definition print_reset (ids : list string) (r : reset_s) : list (kind * nat) :=
  (KReset, rs_slot r)
  :: (if negb (is_empty (get ids (rs_tv r))) || rs_tv_math r then [(KTestValue, rs_tv r)] else [])
  ++ (if negb (is_empty (get ids (rs_rv r))) || rs_rv_math r then [(KResetValue, rs_rv r)] else []).
Definition print_comp (ids : list string) (k : comp_s) : list (kind * nat) :=
  (KComp, cs_slot k)
  :: (match cs_imp k with Some s => [(KImport, s)] | None => [] end)
  ++ (if in_hierarchy k then [(KCompRef, cs_enc k)] else [])
  ++ (if is_import_c k then []
      else map (fun v => (KVar, vs_slot v)) (cs_vars k) ++ flat_map (print_reset ids) (cs_resets k))
  ++ flat_map (fun v => flat_map (fun e => [(KMap, es_map e); (KConn, es_conn e)]) (vs_eqs v)) (cs_vars k).
Definition print_units (u : units_s) : list (kind * nat) :=
  (KUnits, us_slot u)
  :: (match us_imp u with Some s => [(KImport, s)] | None => map (fun i => (KUnit, i)) (us_items u) end).
Fixpoint pos_nodup (l : list (kind * nat)) : list (kind * nat) :=
  match l with
  | [] => []
  | p :: r => if pos_mem p r then pos_nodup r else p :: pos_nodup r
  end.
Definition print_positions (st : structure) (ids : list string) : list (kind * nat) :=
  pos_nodup ((KModel, st_model st) :: flat_map print_units (st_units st) ++ flat_map (print_comp ids) (st_comps st)
             ++ (if existsb (fun k => cs_top k && cs_kids k) (st_comps st) then [(KEncaps, st_enc st)] else [])).

(* utilities.cpp: makeUniqueId(IdList&): counter restarts at 0xb4da55 on every call; the new id joins the set *)
Definition make_unique_print (idset : list string) : string * bool :=
  match mu_loop (length idset) idset 0xb4da55 with (id, _, ok) => (id, ok) end.

(* printModel(model, true): the ids written on the printed elements (in the order of print_positions; the
   order in which the printer hands out new ids does not change WHICH ids are handed out, because every call
   takes the first free one).  Result: (id written for each position, all loops terminated normally). *)
Fixpoint print_ids_from (ids : list string) (ps : list (kind * nat)) (idset : list string) : list string * bool :=
  match ps with
  | [] => ([], true)
  | p :: r =>
      let x := get ids (snd p) in
      if is_empty x
      then match make_unique_print idset with
           | (id, ok) => match print_ids_from ids r (id :: idset) with (l, ok') => (id :: l, ok && ok') end
           end
      else match print_ids_from ids r idset with (l, ok') => (x :: l, ok') end
  end.
Definition print_ids (st : structure) (ids : list string) : list string * bool :=
  print_ids_from ids (print_positions st ids) (list_ids st ids).

(* ------------------------------------------------------------------------------------------------ histories *)

Inductive op :=
| OSetModel
| OEdit (slot : nat) (id : string)          (* any setter of an id: setId, setEncapsulationId, setUnitId, setTestValueId,
                                               setEquivalenceMappingId, setEquivalenceConnectionId, setMath, ... *)
| OAssignAll
| OAssignType (k : kind)
| OAssignItem (v : visit)
| OClearAll
| OItem (id : string)
| OItemIndex (id : string) (i : nat)
| OItems (id : string)
| OIsUnique (id : string)
| OItemCount (id : string)
| OIds
| ODuplicateIds
| OTyped (a : acc) (id : string)
| OPrint.

Inductive result :=
| RNone
| RBool (b : bool)
| RStr (s : string)
| RNat (n : nat)
| REntry (e : option entry)
| REntries (l : list entry)
| RStrs (l : list string)
| RPrint (l : list string) (ok : bool).

(* every lookup starts with update(); without a model the lookups answer "nothing" (exists(): no model) *)
Definition lookup (c : cfg) (st : structure) (s : state) (f : list entry -> result) (dflt : result) : state * result :=
  let s1 := update c st s in
  if a_has_model (s_ann s) then (s1, f (a_cache (s_ann s1))) else (s1, dflt).

Definition step (c : cfg) (st : structure) (s : state) (o : op) : state * result :=
  match o with
  | OSetModel => (set_model c st s, RNone)
  | OEdit slot id => ({| s_ids := set (s_ids s) slot id; s_ann := s_ann s |}, RNone)
  | OAssignAll => let (s', b) := assign_all c st s in (s', RBool b)
  | OAssignType k => let (s', b) := assign_type c st k s in (s', RBool b)
  | OAssignItem v => let (s', id) := assign_item c st v s in (s', RStr id)
  | OClearAll => (clear_all c st s, RNone)
  | OItem id => lookup c st s (fun cache => REntry (item_of cache id)) (REntry None)
  | OItemIndex id i => lookup c st s (fun cache => REntry (item_index_of cache id i)) (REntry None)
  | OItems id => lookup c st s (fun cache => REntries (items_of cache id)) (REntries [])
  | OIsUnique id => lookup c st s (fun cache => RBool (Nat.eqb (item_count_of cache id) 1)) (RBool false)
  | OItemCount id => lookup c st s (fun cache => RNat (item_count_of cache id)) (RNat 0)
  | OIds => lookup c st s (fun cache => RStrs (ids_of cache)) (RStrs [])
  | ODuplicateIds => lookup c st s (fun cache => RStrs (duplicate_ids_of cache)) (RStrs [])
  | OTyped a id => lookup c st s (fun cache => REntry (typed_of cache a id)) (REntry None)
  | OPrint => (s, let (l, ok) := print_ids st (s_ids s) in RPrint l ok)
  end.

Fixpoint run (c : cfg) (st : structure) (s : state) (h : list op) : state * list result :=
  match h with
  | [] => (s, [])
  | o :: r => let (s1, x) := step c st s o in
              let (s2, xs) := run c st s1 r in (s2, x :: xs)
  end.

(* ------------------------------------------------------------------------------------------------ several models *)

(* One annotator, several models handed to it in turn (a model, its clone, a look-alike, another one, the first
   again, a model that is then destroyed).  [sts] are the structures, [m_ids] the id vector of every model;
   the model the annotator holds is [a_model]; every other operation acts on that model. *)
Record mstate := { m_ids : list (list string);      (* the id vector of every model *)
                   m_st : list nat;                 (* the structure every model has at present (index into [sts]) *)
                   m_ann : astate }.
Definition minit (idss : list (list string)) (stx : list nat) : mstate := {| m_ids := idss; m_st := stx; m_ann := ann_init |}.

Definition empty_structure : structure := {| st_model := 0; st_enc := 0; st_units := []; st_comps := [] |}.
Definition nth_st (sts : list structure) (k : nat) : structure := nth k sts empty_structure.
Definition nth_ids (idss : list (list string)) (k : nat) : list string := nth k idss [].
Definition st_of (sts : list structure) (ms_st : list nat) (k : nat) : structure := nth_st sts (nth k ms_st 0).
Fixpoint set_nat (l : list nat) (k : nat) (x : nat) : list nat :=
  match l, k with
  | [], _ => []
  | _ :: r, O => x :: r
  | y :: r, S m => y :: set_nat r m x
  end.
Fixpoint set_ids (idss : list (list string)) (k : nat) (x : list string) : list (list string) :=
  match idss, k with
  | [], _ => []
  | _ :: r, O => x :: r
  | y :: r, S m => y :: set_ids r m x
  end.

Inductive mop :=
| MSetModel (k : nat)                       (* Annotator::setModel(model k) *)
| MEdit (k slot : nat) (id : string)        (* a setter on an object of model k (the stored model or another one) *)
| MDrop                                     (* the last reference to the stored model is dropped: mModel expires *)
| MStruct (k j : nat)                       (* a structural edit of model k (removeComponent, takeComponent, removeVariable, ...):
                                               from now on its structure is [sts j]; positions keep their slots, those of removed
                                               entities are simply no longer met; an equivalence whose other end left the model
                                               stays with the variable that is still inside (es_other then names a slot outside) *)
| MOp (o : op).                             (* any operation of [op] on the stored model *)

Definition with_model (a : astate) (k : nat) : astate :=
  {| a_has_model := a_has_model a; a_model := k; a_owner := a_owner a; a_cache := a_cache a; a_hash := a_hash a;
     a_counter := a_counter a; a_err := a_err a |}.
Definition without_model (a : astate) : astate :=
  {| a_has_model := false; a_model := a_model a; a_owner := a_owner a; a_cache := a_cache a; a_hash := a_hash a;
     a_counter := a_counter a; a_err := a_err a |}.

Definition mstep (c : cfg) (sts : list structure) (ms : mstate) (o : mop) : mstate * result :=
  match o with
  | MSetModel k =>
      (* annotator.cpp: setModel: mModel = model; mHash = 0; update() *)
      let s' := set_model c (st_of sts (m_st ms) k) {| s_ids := nth_ids (m_ids ms) k; s_ann := with_model (m_ann ms) k |} in
      ({| m_ids := m_ids ms; m_st := m_st ms; m_ann := s_ann s' |}, RNone)
  | MEdit k slot id =>
      ({| m_ids := set_ids (m_ids ms) k (set (nth_ids (m_ids ms) k) slot id); m_st := m_st ms; m_ann := m_ann ms |}, RNone)
  | MDrop => ({| m_ids := m_ids ms; m_st := m_st ms; m_ann := without_model (m_ann ms) |}, RNone)
  | MStruct k j => ({| m_ids := m_ids ms; m_st := set_nat (m_st ms) k j; m_ann := m_ann ms |}, RNone)
  | MOp o =>
      let k := a_model (m_ann ms) in
      let (s', r) := step c (st_of sts (m_st ms) k) {| s_ids := nth_ids (m_ids ms) k; s_ann := m_ann ms |} o in
      ({| m_ids := set_ids (m_ids ms) k (s_ids s'); m_st := m_st ms; m_ann := s_ann s' |}, r)
  end.

Fixpoint mrun (c : cfg) (sts : list structure) (ms : mstate) (h : list mop) : mstate * list result :=
  match h with
  | [] => (ms, [])
  | o :: r => let (m1, x) := mstep c sts ms o in
              let (m2, xs) := mrun c sts m1 r in (m2, x :: xs)
  end.

(* ------------------------------------------------------------------------------------------------ spec side *)

(* the independent traversal: every id-carrying position, grouped by kind (not in the annotator's order).
   [sel] chooses the components whose component_ref position is included. *)
Definition positions_gen (sel : comp_s -> bool) (st : structure) : list (kind * nat) :=
  [(KModel, st_model st); (KEncaps, st_enc st)]
  ++ map (fun u => (KUnits, us_slot u)) (st_units st)
  ++ flat_map (fun u => map (fun i => (KUnit, i)) (us_items u)) (st_units st)
  ++ map (fun s => (KImport, s)) (import_slots st)
  ++ map (fun k => (KComp, cs_slot k)) (st_comps st)
  ++ map (fun k => (KCompRef, cs_enc k)) (filter sel (st_comps st))
  ++ flat_map (fun k => map (fun v => (KVar, vs_slot v)) (cs_vars k)) (st_comps st)
  ++ flat_map (fun k => flat_map (fun r => [(KReset, rs_slot r); (KTestValue, rs_tv r); (KResetValue, rs_rv r)]) (cs_resets k)) (st_comps st)
  ++ flat_map (fun k => flat_map (fun v => flat_map (fun e => [(KMap, es_map e); (KConn, es_conn e)]) (vs_eqs v)) (cs_vars k)) (st_comps st).
Definition positions_raw (st : structure) : list (kind * nat) := positions_gen (fun _ => true) st.
(* the positions assignAllIds is responsible for: a top-level component without children has no component_ref
   element in the encapsulation (annotator.cpp: assignEncapsulationId) *)
Definition applicable_positions (st : structure) : list (kind * nat) := positions_gen in_hierarchy st.
Definition positions (st : structure) : list (kind * nat) := pos_nodup (positions_raw st).
Definition math_slots (st : structure) : list nat := flat_map cs_math (st_comps st).
(* every slot that holds an identifier of the model, MathML included *)
Definition all_slots (st : structure) : list nat := map snd (positions st) ++ math_slots st.

(* well-formedness of a structure against a vector: every slot exists; a storage cell of a kind that is not
   de-duplicated is visited once *)
Definition slots_in_range (st : structure) (n : nat) : bool :=
  forallb (fun s => Nat.ltb s n) (map v_slot (list_visits st) ++ math_slots st).
Fixpoint pos_nodupb (l : list (kind * nat)) : bool :=
  match l with
  | [] => true
  | p :: r => negb (pos_mem p r) && pos_nodupb r
  end.
Definition visits_once (c : cfg) (st : structure) : bool :=
  pos_nodupb (map (fun v => (v_kind v, v_slot v)) (filter (fun v => negb (dedup_kind c (v_kind v))) (list_visits st))).
Definition wf (c : cfg) (st : structure) (n : nat) : bool := slots_in_range st n && visits_once c st.
