(** AnalysisSpec.v — what C05 demands of a valid AnalyserModel, as executable predicates over [result]
    (so that the very same predicate is proved about the model and evaluated on the dump of the real
    AnalyserModel by the OCaml driver).  No proofs here. *)
From Coq Require Import List Bool Arith PeanoNat.
From LC Require Import AnalysisDefs.
Import ListNotations.
Local Open Scope bool_scope.

Definition valid_type (t : mtype) : bool :=
  match t with MAlgebraic | MDae | MNla | MOde => true | _ => false end.

Fixpoint nodupb (l : list nat) : bool :=
  match l with [] => true | x :: r => negb (mem_nat x r) && nodupb r end.
Fixpoint list_eqb (a b : list nat) : bool :=
  match a, b with
  | [], [] => true
  | x :: r, y :: t => (x =? y) && list_eqb r t
  | _, _ => false
  end.
Definition subset (a b : list nat) : bool := forallb (fun x => mem_nat x b) a.
Definition same_set (a b : list nat) : bool := subset a b && subset b a.
Definition mem_vref (x : vref) (l : list vref) : bool := existsb (vref_eqb x) l.

Definition cls_of (s : system) (r : vref) : nat := v_cls (get_var s r).
Definition in_range (s : system) (r : vref) : bool :=
  (fst r <? length s) && (snd r <? length (c_vars (get_comp s (fst r)))).
Definition all_classes (s : system) : list nat := map (cls_of s) (all_vrefs_from 0 s).

Definition all_avars (r : result) : list avar := r_states r ++ r_vars r.
Definition result_classes (s : system) (r : result) : list nat :=
  match r_voi r with Some v => [cls_of s v] | None => [] end ++ map (fun a => cls_of s (av_var a)) (all_avars r).

(** W1: every class of connected variables appears exactly once (voi + states + variables); every listed
    primary / initialising variable is a variable of the model, the initialising one in the same class and
    carrying an initial value *)
Definition wf_classes (s : system) (r : result) : bool :=
  nodupb (result_classes s r)
  && subset (all_classes s) (result_classes s r)
  && forallb (fun a => in_range s (av_var a)
                       && match av_init a with
                          | Some i => in_range s i && (cls_of s i =? cls_of s (av_var a)) && has_init (get_var s i)
                          | None => true end) (all_avars r)
  && match r_voi r with Some v => in_range s v | None => true end.

(** W2: state indices are 0..n-1 in list order, variable indices likewise (so entry i is variable i);
    the two lists hold the right types *)
Definition wf_indices (r : result) : bool :=
  list_eqb (map av_index (r_states r)) (seq 0 (length (r_states r)))
  && list_eqb (map av_index (r_vars r)) (seq 0 (length (r_vars r)))
  && forallb (fun a => atype_eqb (av_type a) AState) (r_states r)
  && forallb (fun a => negb (atype_eqb (av_type a) AState)) (r_vars r).

Definition find_aeq (r : result) (pos : nat) : option aeq := find (fun e => ae_pos e =? pos) (r_eqs r).
Definition find_avar (r : result) (v : vref) : option avar := find (fun a => vref_eqb (av_var a) v) (all_avars r).
Definition q_nla (e : aeq) : bool := match ae_type e with QNla => true | _ => false end.
Definition q_ode (e : aeq) : bool := match ae_type e with QOde => true | _ => false end.
Definition opt_eqb (a b : option nat) : bool :=
  match a, b with Some x, Some y => x =? y | None, None => true | _, _ => false end.

Definition direct_types_agree (t : atype) (q : qtype) : bool :=
  match t, q with
  | AState, QOde | ACompConst, QTrueConst | ACompConst, QVarBasedConst | AAlgebraic, QAlgebraic => true
  | _, _ => false
  end.

(** W3: every state and every computed variable is computed by exactly one (direct) equation, which computes
    nothing else, or by the equations of exactly one NLA system; a constant by none *)
Definition wf_definer_of (r : result) (a : avar) : bool :=
  let eqs := filter_map (find_aeq r) (av_eqs a) in
  match av_type a with
  | AConstant => match eqs with [] => true | _ => false end
  | AExternal => true
  | _ =>
      (length eqs =? length (av_eqs a)) && nodupb (av_eqs a) &&
      match eqs with
      | [] => false
      | e :: rest =>
          if q_nla e
          then forallb (fun x => q_nla x && opt_eqb (ae_nla x) (ae_nla e) && mem_vref (av_var a) (ae_vars x)) eqs
               && match ae_nla e with Some _ => true | None => false end
          else match rest with
               | [] => direct_types_agree (av_type a) (ae_type e)
                       && match ae_vars e with [v] => vref_eqb v (av_var a) | _ => false end
               | _ => false
               end
      end
  end.
Definition wf_definers (r : result) : bool := forallb (wf_definer_of r) (all_avars r).

(** W3b: each equation lists the variables it computes: at least one, each a known variable that lists the
    equation back; a direct equation has no NLA system index *)
Definition wf_equation_vars (r : result) : bool :=
  nodupb (map ae_pos (r_eqs r)) &&
  forallb (fun e =>
    match ae_vars e with [] => false | _ => true end
    && forallb (fun v => match find_avar r v with
                         | Some a => mem_nat (ae_pos e) (av_eqs a)
                         | None => false end) (ae_vars e)
    && (if q_nla e then true else match ae_nla e with None => true | Some _ => false end)) (r_eqs r).

(** W6: an NLA system (the equations sharing an NLA system index) is what the generator assumes: the siblings
    of an equation are exactly the other equations of its system, all of them compute the same variables, and
    there are as many equations as unknowns *)
Definition wf_nla_systems (r : result) : bool :=
  forallb (fun e =>
    if negb (q_nla e) then match ae_sibs e with [] => true | _ => false end else
    let sys := map ae_pos (filter (fun x => q_nla x && opt_eqb (ae_nla x) (ae_nla e)) (r_eqs r)) in
    nodupb (ae_sibs e) && negb (mem_nat (ae_pos e) (ae_sibs e))
    && same_set (ae_pos e :: ae_sibs e) sys
    && forallb (fun p => match find_aeq r p with
                         | Some x => forallb (fun v => mem_vref v (ae_vars e)) (ae_vars x)
                                     && forallb (fun v => mem_vref v (ae_vars x)) (ae_vars e)
                         | None => false end) (ae_sibs e)
    && (length sys =? length (ae_vars e))) (r_eqs r).

(* the classes an input equation reads as plain variables (d(x)/d(t) reads the rate of x, not x) *)
Fixpoint expr_names (e : expr) : list nat :=
  match e with
  | EVar n => [n]
  | EDiff _ x => []
  | ECn => []
  | EOp a b => expr_names a ++ expr_names b
  end.
Definition find_eqn (s : system) (id : nat) : option (nat * eqn) :=
  let all := flat_map (fun ck => map (fun q => (fst ck, q)) (c_eqs (snd ck))) (combine (seq 0 (length s)) s) in
  find (fun x => q_id (snd x) =? id) all.
Definition classes_read (s : system) (id : nat) : list nat :=
  match find_eqn s id with
  | None => []
  | Some (c, q) =>
      filter_map (fun n => option_map (fun i => cls_of s (c, i)) (find_var (get_comp s c) n))
                 (expr_names (q_lhs q) ++ expr_names (q_rhs q))
  end.

(** W4: each equation depends on exactly the equations computing the variables it reads (other than the ones
    it computes itself, the variable of integration and the true constants) *)
Definition required_deps (s : system) (r : result) (e : aeq) : list nat :=
  match ae_id e with
  | None => []
  | Some id =>
      let own := map (cls_of s) (ae_vars e) in
      flat_map (fun k => if mem_nat k own then [] else
                         flat_map (fun a => if cls_of s (av_var a) =? k
                                            then filter (fun p => match find_aeq r p with Some _ => true | None => false end) (av_eqs a)
                                            else []) (all_avars r))
               (classes_read s id)
  end.
Definition wf_deps_complete (s : system) (r : result) : bool :=
  forallb (fun e => subset (required_deps s r e) (ae_deps e)) (r_eqs r).
Definition wf_deps_sound (s : system) (r : result) : bool :=
  forallb (fun e => nodupb (ae_deps e) && subset (ae_deps e) (required_deps s r e)) (r_eqs r).

(* the ids of the equations whose dependency list is not exactly the required one (for diagnostics and for
   the matcher of the known finding) *)
Definition deps_failing (s : system) (r : result) : list nat :=
  filter_map (fun e => if subset (required_deps s r e) (ae_deps e) && nodupb (ae_deps e) && subset (ae_deps e) (required_deps s r e)
                       then None else ae_id e) (r_eqs r).

(** W5: the equations solved directly can be ordered so that dependencies come first.  States are inputs of
    the computation, so a dependency on an ODE is no ordering constraint (Generator: generateEquationCode).
    [with_nla = false]: only constraints among direct equations; [true]: NLA equations are nodes as well. *)
Definition order_edges (with_nla : bool) (r : result) (e : aeq) : list nat :=
  filter (fun p => match find_aeq r p with
                   | Some d => negb (q_ode d) && (with_nla || negb (q_nla d))
                   | None => false end) (ae_deps e).
Fixpoint peel (fuel : nat) (with_nla : bool) (r : result) (remaining : list aeq) : list aeq :=
  match fuel with
  | 0 => remaining
  | S f =>
      let rem_pos := map ae_pos remaining in
      let next := filter (fun e => existsb (fun p => mem_nat p rem_pos) (order_edges with_nla r e)) remaining in
      if length next =? length remaining then remaining else peel f with_nla r next
  end.
Definition wf_topological (with_nla : bool) (r : result) : bool :=
  let nodes := filter (fun e => with_nla || negb (q_nla e)) (r_eqs r) in
  match peel (S (length nodes)) with_nla r nodes with [] => true | _ => false end.

(** the whole predicate, as the list of the clauses that fail (empty = well formed) *)
Definition wf_failures (s : system) (r : result) : list nat :=
  if negb (valid_type (r_type r)) then [] else
  (if wf_classes s r then [] else [1]) ++
  (if wf_indices r then [] else [2]) ++
  (if wf_definers r then [] else [3]) ++
  (if wf_equation_vars r then [] else [31]) ++
  (if wf_deps_complete s r then [] else [4]) ++
  (if wf_deps_sound s r then [] else [41]) ++
  (if wf_topological false r then [] else [5]) ++
  (if wf_topological true r then [] else [51]) ++
  (if wf_nla_systems r then [] else [6]).

(* the clauses the property states (51 and 6 are what the generator additionally relies on) *)
Definition wf (s : system) (r : result) : bool :=
  wf_classes s r && wf_indices r && wf_definers r && wf_equation_vars r
  && wf_deps_complete s r && wf_deps_sound s r && wf_topological false r.

(* classification: the model type and the role of every class *)
Inductive role := RoVoi | RoState | RoConstant | RoCompConst | RoAlgebraic | RoExternal.
Definition role_of_atype (t : atype) : role :=
  match t with AState => RoState | AConstant => RoConstant | ACompConst => RoCompConst | AAlgebraic => RoAlgebraic
             | AExternal => RoExternal end.
Definition classification (s : system) (r : result) : mtype * list (nat * role) :=
  (r_type r,
   match r_voi r with Some v => [(cls_of s v, RoVoi)] | None => [] end
   ++ map (fun a => (cls_of s (av_var a), role_of_atype (av_type a))) (all_avars r)).
