(* FlattenProofs.v -- C06: lemmas about the flattening model (FlattenDefs.v). *)
From Coq Require Import List String Ascii ZArith QArith Bool Arith Lia Permutation.
From LC Require Import Common NumDefs UnitsDefs FlattenDefs.
Import ListNotations.
Local Open Scope string_scope.
Local Open Scope nat_scope.
Local Open Scope list_scope.

(* ================================================================================== index stacks *)

Lemma resize_prefix : forall origin rest, opt_path_eqb (resize_to (List.length origin) (origin ++ rest)) origin = true.
Proof.
  induction origin as [|x o IH]; intros rest; cbn; [reflexivity|].
  rewrite Nat.eqb_refl. cbn. apply IH.
Qed.

Lemma skipn_prefix : forall (A : Type) (a b : list A), skipn (List.length a) (a ++ b) = b.
Proof. induction a as [|x a IH]; intros b; cbn; [reflexivity | apply IH]. Qed.

Lemma rebase_stack_prefix : forall origin rest dest, rebase_stack (origin ++ rest) origin dest = dest ++ rest.
Proof.
  intros origin rest dest. unfold rebase_stack. rewrite resize_prefix. rewrite skipn_prefix. reflexivity.
Qed.

Lemma resize_eq_prefix : forall origin s, opt_path_eqb (resize_to (List.length origin) s) origin = true ->
  exists rest, s = origin ++ rest.
Proof.
  induction origin as [|x o IH]; intros s H; cbn in H.
  - exists s. reflexivity.
  - destruct s as [|y s']; cbn in H; [discriminate|].
    apply andb_true_iff in H. destruct H as [H1 H2]. apply Nat.eqb_eq in H1. subst y.
    destruct (IH _ H2) as [rest Hr]. exists rest. cbn. rewrite Hr. reflexivity.
Qed.

Lemma rebase_stack_outside : forall s origin dest, (forall rest, s <> origin ++ rest) -> rebase_stack s origin dest = [].
Proof.
  intros s origin dest H. unfold rebase_stack.
  destruct (opt_path_eqb (resize_to (List.length origin) s) origin) eqn:E; [|reflexivity].
  destruct (resize_eq_prefix _ _ E) as [rest Hr]. exfalso. apply (H rest). exact Hr.
Qed.

(* a rebased stack is never empty when the destination is a component's stack *)
Lemma rebase_stack_nonempty : forall origin rest dest, dest <> [] -> rebase_stack (origin ++ rest) origin dest <> [].
Proof.
  intros origin rest dest Hd. rewrite rebase_stack_prefix. destruct dest; [congruence | discriminate].
Qed.

Lemma removelast_app_single : forall (A : Type) (l : list A) (x : A), removelast (l ++ [x]) = l.
Proof. intros A l x. rewrite removelast_app by discriminate. cbn. apply app_nil_r. Qed.

Lemma last_app_single : forall (A : Type) (l : list A) (x d : A), last (l ++ [x]) d = x.
Proof. intros A l x d. rewrite last_last. reflexivity. Qed.

(* target = component stack ++ [variable index] *)
Lemma rebase_target_inside : forall origin rest v dest, dest <> [] ->
  rebase_target (origin ++ rest ++ [v]) origin dest = Some (dest ++ rest ++ [v]).
Proof.
  intros origin rest v dest Hd. unfold rebase_target.
  replace (origin ++ rest ++ [v]) with ((origin ++ rest) ++ [v]) by (rewrite app_assoc; reflexivity).
  rewrite removelast_app_single, last_app_single, rebase_stack_prefix.
  destruct (dest ++ rest) eqn:E.
  - destruct dest; [congruence | discriminate].
  - rewrite <- E. rewrite <- app_assoc. reflexivity.
Qed.

Lemma rebase_target_outside : forall cstack v origin dest, (forall rest, cstack <> origin ++ rest) ->
  rebase_target (cstack ++ [v]) origin dest = None.
Proof.
  intros cstack v origin dest H. unfold rebase_target.
  rewrite removelast_app_single. rewrite rebase_stack_outside by exact H. reflexivity.
Qed.

(* ================================================================================== the rebased map *)

Lemma path_eqb_eq : forall a b, path_eqb a b = true <-> a = b.
Proof.
  induction a as [|x a IH]; intros [|y b]; cbn; split; intros H; try reflexivity; try discriminate.
  - apply andb_true_iff in H. destruct H as [H1 H2]. apply Nat.eqb_eq in H1. apply IH in H2. subst. reflexivity.
  - inversion H; subst. rewrite Nat.eqb_refl. cbn. apply IH. reflexivity.
Qed.

Lemma path_eqb_refl : forall a, path_eqb a a = true.
Proof. intros a. apply path_eqb_eq. reflexivity. Qed.

Definition em_keys (m : eqmap) : list path := map fst m.

Lemma em_emplace_in : forall k ts m x, In x (em_emplace k ts m) -> x = (k, ts) \/ In x m.
Proof.
  intros k ts m. induction m as [|[k' ts'] r IH]; intros x H; cbn in H.
  - destruct H as [H|[]]. left. symmetry. exact H.
  - destruct (path_eqb k k'); [right; exact H|].
    destruct (lex_ltb k k').
    + destruct H as [H|H]; [left; symmetry; exact H | right; exact H].
    + destruct H as [H|H]; [right; left; exact H|].
      destruct (IH _ H) as [H'|H']; [left; exact H' | right; right; exact H'].
Qed.

Lemma em_emplace_keeps : forall k ts m x, In x m -> In x (em_emplace k ts m).
Proof.
  intros k ts m. induction m as [|[k' ts'] r IH]; intros x H; [destruct H|].
  cbn. destruct (path_eqb k k'); [exact H|].
  destruct (lex_ltb k k'); [right; exact H|].
  destruct H as [H|H]; [left; exact H | right; apply IH; exact H].
Qed.

Lemma em_emplace_new : forall k ts m, ~ In k (em_keys m) -> In (k, ts) (em_emplace k ts m).
Proof.
  intros k ts m. induction m as [|[k' ts'] r IH]; intros H; cbn.
  - left. reflexivity.
  - destruct (path_eqb k k') eqn:E.
    + apply path_eqb_eq in E. subst k'. exfalso. apply H. left. reflexivity.
    + destruct (lex_ltb k k'); [left; reflexivity|].
      right. apply IH. intros Hin. apply H. right. exact Hin.
Qed.

Lemma em_emplace_keys : forall k ts m k2, In k2 (em_keys (em_emplace k ts m)) -> k2 = k \/ In k2 (em_keys m).
Proof.
  intros k ts m k2 H. unfold em_keys in *. apply in_map_iff in H. destruct H as [[a b] [H1 H2]]. cbn in H1. subst a.
  destruct (em_emplace_in _ _ _ _ H2) as [E|E].
  - inversion E. left. reflexivity.
  - right. apply in_map_iff. exists (k2, b). split; [reflexivity | exact E].
Qed.

Definition rebase_entry (origin dest : path) (acc : eqmap) (kv : path * list path) : eqmap :=
  match rebase_targets (snd kv) origin dest with
  | [] => acc
  | ts => em_emplace (rebase_stack (fst kv) origin dest) ts acc
  end.

Lemma rebase_map_fold : forall m origin dest, rebase_map m origin dest = fold_left (rebase_entry origin dest) m [].
Proof. reflexivity. Qed.

Lemma rebase_fold_sound : forall origin dest m acc x,
  In x (fold_left (rebase_entry origin dest) m acc) ->
  In x acc \/ exists k ts, In (k, ts) m /\ x = (rebase_stack k origin dest, rebase_targets ts origin dest)
                           /\ rebase_targets ts origin dest <> [].
Proof.
  intros origin dest m. induction m as [|[k ts] r IH]; intros acc x H; cbn in H.
  - left. exact H.
  - destruct (IH _ _ H) as [Hacc|[k' [ts' [Hin [Hx Hne]]]]].
    + unfold rebase_entry in Hacc. cbn [fst snd] in Hacc.
      destruct (rebase_targets ts origin dest) eqn:E.
      * left. exact Hacc.
      * destruct (em_emplace_in _ _ _ _ Hacc) as [Hx|Hx].
        -- right. exists k, ts. split; [left; reflexivity|]. rewrite E. split; [exact Hx | discriminate].
        -- left. exact Hx.
    + right. exists k', ts'. split; [right; exact Hin | split; assumption].
Qed.

(* every entry of the rebased map is the image of a recorded entry with at least one target under the origin *)
Lemma rebase_map_sound : forall m origin dest k2 ts2, In (k2, ts2) (rebase_map m origin dest) ->
  exists k ts, In (k, ts) m /\ k2 = rebase_stack k origin dest /\ ts2 = rebase_targets ts origin dest /\ ts2 <> [].
Proof.
  intros m origin dest k2 ts2 H. rewrite rebase_map_fold in H.
  destruct (rebase_fold_sound _ _ _ _ _ H) as [[]|[k [ts [Hin [Hx Hne]]]]].
  inversion Hx; subst. exists k, ts. repeat split; try assumption.
Qed.

Lemma rebase_fold_keeps : forall origin dest m acc x, In x acc -> In x (fold_left (rebase_entry origin dest) m acc).
Proof.
  intros origin dest m. induction m as [|[k ts] r IH]; intros acc x H; cbn; [exact H|].
  apply IH. unfold rebase_entry. cbn [fst snd]. destruct (rebase_targets ts origin dest); [exact H|].
  apply em_emplace_keeps. exact H.
Qed.

Lemma rebase_fold_keys : forall origin dest m acc k2, In k2 (em_keys (fold_left (rebase_entry origin dest) m acc)) ->
  In k2 (em_keys acc) \/ exists k ts, In (k, ts) m /\ k2 = rebase_stack k origin dest.
Proof.
  intros origin dest m. induction m as [|[k ts] r IH]; intros acc k2 H; cbn in H; [left; exact H|].
  destruct (IH _ _ H) as [Hacc|[k' [ts' [Hin Hk]]]].
  - unfold rebase_entry in Hacc. cbn [fst snd] in Hacc. destruct (rebase_targets ts origin dest).
    + left. exact Hacc.
    + destruct (em_emplace_keys _ _ _ _ Hacc) as [E|E].
      * right. exists k, ts. split; [left; reflexivity | exact E].
      * left. exact E.
  - right. exists k', ts'. split; [right; exact Hin | exact Hk].
Qed.

(* ... and every recorded entry with a target under the origin is there, when rebasing does not identify two keys
   (it never does for keys below the origin: rebase_stack_prefix) *)
Lemma rebase_fold_complete : forall origin dest m acc,
  NoDup (map (fun kv => rebase_stack (fst kv) origin dest) m) ->
  (forall kv, In kv m -> ~ In (rebase_stack (fst kv) origin dest) (em_keys acc)) ->
  forall k ts, In (k, ts) m -> rebase_targets ts origin dest <> [] ->
  In (rebase_stack k origin dest, rebase_targets ts origin dest) (fold_left (rebase_entry origin dest) m acc).
Proof.
  intros origin dest m. induction m as [|[k0 ts0] r IH]; intros acc Hnd Hfresh k ts Hin Hne; [destruct Hin|].
  cbn in Hnd. inversion Hnd as [|? ? Hnotin Hnd']; subst. cbn.
  destruct Hin as [E|Hin].
  - inversion E; subst k0 ts0. apply rebase_fold_keeps. unfold rebase_entry. cbn [fst snd].
    destruct (rebase_targets ts origin dest) eqn:Et; [congruence|].
    apply em_emplace_new. apply (Hfresh (k, ts)). left. reflexivity.
  - apply IH; try assumption.
    intros kv Hkv Hk. unfold rebase_entry in Hk. cbn [fst snd] in Hk.
    destruct (rebase_targets ts0 origin dest).
    + apply (Hfresh kv); [right; exact Hkv | exact Hk].
    + destruct (em_emplace_keys _ _ _ _ Hk) as [E|E].
      * apply Hnotin. rewrite <- E. apply in_map_iff. exists kv. split; [reflexivity | exact Hkv].
      * apply (Hfresh kv); [right; exact Hkv | exact E].
Qed.

Lemma rebase_map_complete : forall m origin dest,
  NoDup (map (fun kv => rebase_stack (fst kv) origin dest) m) ->
  forall k ts, In (k, ts) m -> rebase_targets ts origin dest <> [] ->
  In (rebase_stack k origin dest, rebase_targets ts origin dest) (rebase_map m origin dest).
Proof.
  intros m origin dest Hnd k ts Hin Hne. rewrite rebase_map_fold.
  apply rebase_fold_complete; try assumption. intros kv _ H. destruct H.
Qed.

(* the targets that are kept are exactly those whose component stack is under the origin, with the prefix replaced *)
Lemma rebase_targets_in : forall ts origin dest t2, In t2 (rebase_targets ts origin dest) <->
  exists t, In t ts /\ rebase_target t origin dest = Some t2.
Proof.
  intros ts origin dest t2. unfold rebase_targets. rewrite in_flat_map. split.
  - intros [t [Hin H]]. exists t. split; [exact Hin|]. destruct (rebase_target t origin dest); [|destruct H].
    destruct H as [H|[]]. subst. reflexivity.
  - intros [t [Hin H]]. exists t. split; [exact Hin|]. rewrite H. left. reflexivity.
Qed.

(* ================================================================================== free names *)
From Coq Require Import DecimalString DecimalNat.

Lemma to_uint_nonnil : forall n, Nat.to_uint n <> Decimal.Nil.
Proof.
  intros n H. pose proof (Unsigned.of_to n) as E. rewrite H in E. cbn in E. subst n. cbv in H. discriminate.
Qed.

Lemma nat_to_string_inj : forall a b, nat_to_string a = nat_to_string b -> a = b.
Proof.
  intros a b H. unfold nat_to_string in H.
  assert (E : Some (Nat.to_uint a) = Some (Nat.to_uint b)).
  { rewrite <- (NilZero.usu _ (to_uint_nonnil a)), <- (NilZero.usu _ (to_uint_nonnil b)). rewrite H. reflexivity. }
  inversion E as [E']. rewrite <- (Unsigned.of_to a), <- (Unsigned.of_to b). rewrite E'. reflexivity.
Qed.

Lemma append_inj_l : forall (p a b : string), (p ++ a)%string = (p ++ b)%string -> a = b.
Proof. induction p as [|c p IH]; intros a b H; cbn in H; [exact H|]. inversion H. apply IH. assumption. Qed.

Definition candidate (orig : string) (k : nat) : string := (orig ++ "_" ++ nat_to_string k)%string.

Lemma candidate_inj : forall orig a b, candidate orig a = candidate orig b -> a = b.
Proof.
  intros orig a b H. unfold candidate in H. apply append_inj_l in H. apply append_inj_l in H.
  apply nat_to_string_inj. exact H.
Qed.

Lemma mem_str_in : forall s l, mem_str s l = true <-> In s l.
Proof.
  intros s l. unfold mem_str. rewrite existsb_exists. split.
  - intros [x [Hin E]]. apply String.eqb_eq in E. subst. exact Hin.
  - intros H. exists s. split; [exact H | apply String.eqb_refl].
Qed.

Lemma mem_str_false : forall s l, mem_str s l = false <-> ~ In s l.
Proof.
  intros s l. split.
  - intros H Hin. apply mem_str_in in Hin. congruence.
  - intros H. destruct (mem_str s l) eqn:E; [|reflexivity]. apply mem_str_in in E. contradiction.
Qed.

Lemma find_free_S : forall f used orig k, find_free (S f) used orig k =
  if mem_str (candidate orig k) used then find_free f used orig (S k) else Some (candidate orig k).
Proof. reflexivity. Qed.

Lemma find_free_some : forall f used orig k c, find_free f used orig k = Some c ->
  ~ In c used /\ exists j, j < f /\ c = candidate orig (k + j) /\ forall i, i < j -> In (candidate orig (k + i)) used.
Proof.
  induction f as [|f IH]; intros used orig k c H; [discriminate|].
  rewrite find_free_S in H.
  destruct (mem_str (candidate orig k) used) eqn:E.
  - destruct (IH _ _ _ _ H) as [Hn [j [Hj [Hc Hall]]]]. split; [exact Hn|].
    exists (S j). split; [lia|]. split.
    + rewrite Hc. f_equal. lia.
    + intros i Hi. destruct i as [|i].
      * rewrite Nat.add_0_r. apply mem_str_in. exact E.
      * replace (k + S i) with (S k + i) by lia. apply Hall. lia.
  - inversion H; subst c. split; [apply mem_str_false; exact E|].
    exists 0. split; [lia|]. split; [rewrite Nat.add_0_r; reflexivity|]. intros i Hi. lia.
Qed.

Lemma find_free_none : forall f used orig k, find_free f used orig k = None ->
  forall j, j < f -> In (candidate orig (k + j)) used.
Proof.
  induction f as [|f IH]; intros used orig k H j Hj; [lia|]. rewrite find_free_S in H.
  destruct (mem_str (candidate orig k) used) eqn:E; [|discriminate].
  destruct j as [|j].
  - rewrite Nat.add_0_r. apply mem_str_in. exact E.
  - replace (k + S j) with (S k + j) by lia. apply (IH _ _ _ H). lia.
Qed.

(* the search loop ends: among length used + 1 distinct candidates one is unused *)
Lemma find_free_total : forall used orig k, exists c, find_free (S (List.length used)) used orig k = Some c.
Proof.
  intros used orig k. destruct (find_free (S (List.length used)) used orig k) eqn:E; [eexists; reflexivity|].
  exfalso. pose proof (find_free_none _ _ _ _ E) as H.
  set (cands := map (fun j => candidate orig (k + j)) (seq 0 (S (List.length used)))).
  assert (Hnd : NoDup cands).
  { unfold cands. apply FinFun.Injective_map_NoDup; [|apply seq_NoDup].
    intros a b Hab. apply candidate_inj in Hab. lia. }
  assert (Hincl : incl cands used).
  { intros c Hc. unfold cands in Hc. apply in_map_iff in Hc. destruct Hc as [j [Hc Hj]]. subst c.
    apply H. apply in_seq in Hj. lia. }
  pose proof (NoDup_incl_length Hnd Hincl) as Hlen. unfold cands in Hlen. rewrite map_length, seq_length in Hlen. lia.
Qed.

Lemma free_name_total : forall used orig, exists c, free_name used orig = Some c /\ ~ In c used.
Proof.
  intros used orig. unfold free_name. destruct (mem_str orig used) eqn:E.
  - destruct (find_free_total used orig 1) as [c Hc]. exists c. split; [exact Hc|].
    apply (find_free_some _ _ _ _ _ Hc).
  - exists orig. split; [reflexivity | apply mem_str_false; exact E].
Qed.
