(* FlattenProofs.v -- C06: lemmas about the flattening model (FlattenDefs.v). *)
From Coq Require Import List String Ascii ZArith QArith Bool Arith Lia Permutation Sorted.
From LC Require Import Common NumDefs UnitsDefs FlattenDefs.
Import ListNotations.
Local Open Scope string_scope.
Local Open Scope nat_scope.
Local Open Scope list_scope.

(* ================================================================================== index stacks *)

Lemma resize_prefix : forall origin rest, opt_path_eqb (resize_to (List.length origin) (origin ++ rest)) origin = true.
Proof.
  induction origin as [|x o IH]; intros rest; cbn; [reflexivity|].
  rewrite Nat.eqb_refl. cbn. apply IH.
Qed.

Lemma skipn_prefix : forall (A : Type) (a b : list A), skipn (List.length a) (a ++ b) = b.
Proof. induction a as [|x a IH]; intros b; cbn; [reflexivity | apply IH]. Qed.

Lemma rebase_stack_prefix : forall origin rest dest, rebase_stack (origin ++ rest) origin dest = dest ++ rest.
Proof.
  intros origin rest dest. unfold rebase_stack. rewrite resize_prefix. rewrite skipn_prefix. reflexivity.
Qed.

Lemma resize_eq_prefix : forall origin s, opt_path_eqb (resize_to (List.length origin) s) origin = true ->
  exists rest, s = origin ++ rest.
Proof.
  induction origin as [|x o IH]; intros s H; cbn in H.
  - exists s. reflexivity.
  - destruct s as [|y s']; cbn in H; [discriminate|].
    apply andb_true_iff in H. destruct H as [H1 H2]. apply Nat.eqb_eq in H1. subst y.
    destruct (IH _ H2) as [rest Hr]. exists rest. cbn. rewrite Hr. reflexivity.
Qed.

Lemma rebase_stack_outside : forall s origin dest, (forall rest, s <> origin ++ rest) -> rebase_stack s origin dest = [].
Proof.
  intros s origin dest H. unfold rebase_stack.
  destruct (opt_path_eqb (resize_to (List.length origin) s) origin) eqn:E; [|reflexivity].
  destruct (resize_eq_prefix _ _ E) as [rest Hr]. exfalso. apply (H rest). exact Hr.
Qed.

(* a rebased stack is never empty when the destination is a component's stack *)
Lemma rebase_stack_nonempty : forall origin rest dest, dest <> [] -> rebase_stack (origin ++ rest) origin dest <> [].
Proof.
  intros origin rest dest Hd. rewrite rebase_stack_prefix. destruct dest; [congruence | discriminate].
Qed.

Lemma removelast_app_single : forall (A : Type) (l : list A) (x : A), removelast (l ++ [x]) = l.
Proof. intros A l x. rewrite removelast_app by discriminate. cbn. apply app_nil_r. Qed.

Lemma last_app_single : forall (A : Type) (l : list A) (x d : A), last (l ++ [x]) d = x.
Proof. intros A l x d. rewrite last_last. reflexivity. Qed.

(* target = component stack ++ [variable index] *)
Lemma rebase_target_inside : forall origin rest v dest, dest <> [] ->
  rebase_target (origin ++ rest ++ [v]) origin dest = Some (dest ++ rest ++ [v]).
Proof.
  intros origin rest v dest Hd. unfold rebase_target.
  replace (origin ++ rest ++ [v]) with ((origin ++ rest) ++ [v]) by (rewrite app_assoc; reflexivity).
  rewrite removelast_app_single, last_app_single, rebase_stack_prefix.
  destruct (dest ++ rest) eqn:E.
  - destruct dest; [congruence | discriminate].
  - rewrite <- E. rewrite <- app_assoc. reflexivity.
Qed.

Lemma rebase_target_outside : forall cstack v origin dest, (forall rest, cstack <> origin ++ rest) ->
  rebase_target (cstack ++ [v]) origin dest = None.
Proof.
  intros cstack v origin dest H. unfold rebase_target.
  rewrite removelast_app_single. rewrite rebase_stack_outside by exact H. reflexivity.
Qed.

(* ================================================================================== the rebased map *)

Lemma path_eqb_eq : forall a b, path_eqb a b = true <-> a = b.
Proof.
  induction a as [|x a IH]; intros [|y b]; cbn; split; intros H; try reflexivity; try discriminate.
  - apply andb_true_iff in H. destruct H as [H1 H2]. apply Nat.eqb_eq in H1. apply IH in H2. subst. reflexivity.
  - inversion H; subst. rewrite Nat.eqb_refl. cbn. apply IH. reflexivity.
Qed.

Lemma path_eqb_refl : forall a, path_eqb a a = true.
Proof. intros a. apply path_eqb_eq. reflexivity. Qed.

Definition em_keys (m : eqmap) : list path := map fst m.

Lemma em_emplace_in : forall k ts m x, In x (em_emplace k ts m) -> x = (k, ts) \/ In x m.
Proof.
  intros k ts m. induction m as [|[k' ts'] r IH]; intros x H; cbn in H.
  - destruct H as [H|[]]. left. symmetry. exact H.
  - destruct (path_eqb k k'); [right; exact H|].
    destruct (lex_ltb k k').
    + destruct H as [H|H]; [left; symmetry; exact H | right; exact H].
    + destruct H as [H|H]; [right; left; exact H|].
      destruct (IH _ H) as [H'|H']; [left; exact H' | right; right; exact H'].
Qed.

Lemma em_emplace_keeps : forall k ts m x, In x m -> In x (em_emplace k ts m).
Proof.
  intros k ts m. induction m as [|[k' ts'] r IH]; intros x H; [destruct H|].
  cbn. destruct (path_eqb k k'); [exact H|].
  destruct (lex_ltb k k'); [right; exact H|].
  destruct H as [H|H]; [left; exact H | right; apply IH; exact H].
Qed.

Lemma em_emplace_new : forall k ts m, ~ In k (em_keys m) -> In (k, ts) (em_emplace k ts m).
Proof.
  intros k ts m. induction m as [|[k' ts'] r IH]; intros H; cbn.
  - left. reflexivity.
  - destruct (path_eqb k k') eqn:E.
    + apply path_eqb_eq in E. subst k'. exfalso. apply H. left. reflexivity.
    + destruct (lex_ltb k k'); [left; reflexivity|].
      right. apply IH. intros Hin. apply H. right. exact Hin.
Qed.

Lemma em_emplace_keys : forall k ts m k2, In k2 (em_keys (em_emplace k ts m)) -> k2 = k \/ In k2 (em_keys m).
Proof.
  intros k ts m k2 H. unfold em_keys in *. apply in_map_iff in H. destruct H as [[a b] [H1 H2]]. cbn in H1. subst a.
  destruct (em_emplace_in _ _ _ _ H2) as [E|E].
  - inversion E. left. reflexivity.
  - right. apply in_map_iff. exists (k2, b). split; [reflexivity | exact E].
Qed.

Definition rebase_entry (origin dest : path) (acc : eqmap) (kv : path * list path) : eqmap :=
  match rebase_targets (snd kv) origin dest with
  | [] => acc
  | ts => em_emplace (rebase_stack (fst kv) origin dest) ts acc
  end.

Lemma rebase_map_fold : forall m origin dest, rebase_map m origin dest = fold_left (rebase_entry origin dest) m [].
Proof. reflexivity. Qed.

Lemma rebase_fold_sound : forall origin dest m acc x,
  In x (fold_left (rebase_entry origin dest) m acc) ->
  In x acc \/ exists k ts, In (k, ts) m /\ x = (rebase_stack k origin dest, rebase_targets ts origin dest)
                           /\ rebase_targets ts origin dest <> [].
Proof.
  intros origin dest m. induction m as [|[k ts] r IH]; intros acc x H; cbn in H.
  - left. exact H.
  - destruct (IH _ _ H) as [Hacc|[k' [ts' [Hin [Hx Hne]]]]].
    + unfold rebase_entry in Hacc. cbn [fst snd] in Hacc.
      destruct (rebase_targets ts origin dest) eqn:E.
      * left. exact Hacc.
      * destruct (em_emplace_in _ _ _ _ Hacc) as [Hx|Hx].
        -- right. exists k, ts. split; [left; reflexivity|]. rewrite E. split; [exact Hx | discriminate].
        -- left. exact Hx.
    + right. exists k', ts'. split; [right; exact Hin | split; assumption].
Qed.

(* every entry of the rebased map is the image of a recorded entry with at least one target under the origin *)
Lemma rebase_map_sound : forall m origin dest k2 ts2, In (k2, ts2) (rebase_map m origin dest) ->
  exists k ts, In (k, ts) m /\ k2 = rebase_stack k origin dest /\ ts2 = rebase_targets ts origin dest /\ ts2 <> [].
Proof.
  intros m origin dest k2 ts2 H. rewrite rebase_map_fold in H.
  destruct (rebase_fold_sound _ _ _ _ _ H) as [[]|[k [ts [Hin [Hx Hne]]]]].
  inversion Hx; subst. exists k, ts. repeat split; try assumption.
Qed.

Lemma rebase_fold_keeps : forall origin dest m acc x, In x acc -> In x (fold_left (rebase_entry origin dest) m acc).
Proof.
  intros origin dest m. induction m as [|[k ts] r IH]; intros acc x H; cbn; [exact H|].
  apply IH. unfold rebase_entry. cbn [fst snd]. destruct (rebase_targets ts origin dest); [exact H|].
  apply em_emplace_keeps. exact H.
Qed.

Lemma rebase_fold_keys : forall origin dest m acc k2, In k2 (em_keys (fold_left (rebase_entry origin dest) m acc)) ->
  In k2 (em_keys acc) \/ exists k ts, In (k, ts) m /\ k2 = rebase_stack k origin dest.
Proof.
  intros origin dest m. induction m as [|[k ts] r IH]; intros acc k2 H; cbn in H; [left; exact H|].
  destruct (IH _ _ H) as [Hacc|[k' [ts' [Hin Hk]]]].
  - unfold rebase_entry in Hacc. cbn [fst snd] in Hacc. destruct (rebase_targets ts origin dest).
    + left. exact Hacc.
    + destruct (em_emplace_keys _ _ _ _ Hacc) as [E|E].
      * right. exists k, ts. split; [left; reflexivity | exact E].
      * left. exact E.
  - right. exists k', ts'. split; [right; exact Hin | exact Hk].
Qed.

(* ... and every recorded entry with a target under the origin is there, when rebasing does not identify two keys
   (it never does for keys below the origin: rebase_stack_prefix) *)
Lemma rebase_fold_complete : forall origin dest m acc,
  NoDup (map (fun kv => rebase_stack (fst kv) origin dest) m) ->
  (forall kv, In kv m -> ~ In (rebase_stack (fst kv) origin dest) (em_keys acc)) ->
  forall k ts, In (k, ts) m -> rebase_targets ts origin dest <> [] ->
  In (rebase_stack k origin dest, rebase_targets ts origin dest) (fold_left (rebase_entry origin dest) m acc).
Proof.
  intros origin dest m. induction m as [|[k0 ts0] r IH]; intros acc Hnd Hfresh k ts Hin Hne; [destruct Hin|].
  cbn in Hnd. inversion Hnd as [|? ? Hnotin Hnd']; subst. cbn.
  destruct Hin as [E|Hin].
  - inversion E; subst k0 ts0. apply rebase_fold_keeps. unfold rebase_entry. cbn [fst snd].
    destruct (rebase_targets ts origin dest) eqn:Et; [congruence|].
    apply em_emplace_new. apply (Hfresh (k, ts)). left. reflexivity.
  - apply IH; try assumption.
    intros kv Hkv Hk. unfold rebase_entry in Hk. cbn [fst snd] in Hk.
    destruct (rebase_targets ts0 origin dest).
    + apply (Hfresh kv); [right; exact Hkv | exact Hk].
    + destruct (em_emplace_keys _ _ _ _ Hk) as [E|E].
      * apply Hnotin. rewrite <- E. apply in_map_iff. exists kv. split; [reflexivity | exact Hkv].
      * apply (Hfresh kv); [right; exact Hkv | exact E].
Qed.

Lemma rebase_map_complete : forall m origin dest,
  NoDup (map (fun kv => rebase_stack (fst kv) origin dest) m) ->
  forall k ts, In (k, ts) m -> rebase_targets ts origin dest <> [] ->
  In (rebase_stack k origin dest, rebase_targets ts origin dest) (rebase_map m origin dest).
Proof.
  intros m origin dest Hnd k ts Hin Hne. rewrite rebase_map_fold.
  apply rebase_fold_complete; try assumption. intros kv _ H. destruct H.
Qed.

(* the targets that are kept are exactly those whose component stack is under the origin, with the prefix replaced *)
Lemma rebase_targets_in : forall ts origin dest t2, In t2 (rebase_targets ts origin dest) <->
  exists t, In t ts /\ rebase_target t origin dest = Some t2.
Proof.
  intros ts origin dest t2. unfold rebase_targets. rewrite in_flat_map. split.
  - intros [t [Hin H]]. exists t. split; [exact Hin|]. destruct (rebase_target t origin dest); [|destruct H].
    destruct H as [H|[]]. subst. reflexivity.
  - intros [t [Hin H]]. exists t. split; [exact Hin|]. rewrite H. left. reflexivity.
Qed.

(* ================================================================================== free names *)
From Coq Require Import DecimalString DecimalNat.

Lemma to_uint_nonnil : forall n, Nat.to_uint n <> Decimal.Nil.
Proof.
  intros n H. pose proof (Unsigned.of_to n) as E. rewrite H in E. cbn in E. subst n. cbv in H. discriminate.
Qed.

Lemma nat_to_string_inj : forall a b, nat_to_string a = nat_to_string b -> a = b.
Proof.
  intros a b H. unfold nat_to_string in H.
  assert (E : Some (Nat.to_uint a) = Some (Nat.to_uint b)).
  { rewrite <- (NilZero.usu _ (to_uint_nonnil a)), <- (NilZero.usu _ (to_uint_nonnil b)). rewrite H. reflexivity. }
  inversion E as [E']. rewrite <- (Unsigned.of_to a), <- (Unsigned.of_to b). rewrite E'. reflexivity.
Qed.

Lemma append_inj_l : forall (p a b : string), (p ++ a)%string = (p ++ b)%string -> a = b.
Proof. induction p as [|c p IH]; intros a b H; cbn in H; [exact H|]. inversion H. apply IH. assumption. Qed.

Definition candidate (orig : string) (k : nat) : string := (orig ++ "_" ++ nat_to_string k)%string.

Lemma candidate_inj : forall orig a b, candidate orig a = candidate orig b -> a = b.
Proof.
  intros orig a b H. unfold candidate in H. apply append_inj_l in H. apply append_inj_l in H.
  apply nat_to_string_inj. exact H.
Qed.

Lemma mem_str_in : forall s l, mem_str s l = true <-> In s l.
Proof.
  intros s l. unfold mem_str. rewrite existsb_exists. split.
  - intros [x [Hin E]]. apply String.eqb_eq in E. subst. exact Hin.
  - intros H. exists s. split; [exact H | apply String.eqb_refl].
Qed.

Lemma mem_str_false : forall s l, mem_str s l = false <-> ~ In s l.
Proof.
  intros s l. split.
  - intros H Hin. apply mem_str_in in Hin. congruence.
  - intros H. destruct (mem_str s l) eqn:E; [|reflexivity]. apply mem_str_in in E. contradiction.
Qed.

Lemma find_free_S : forall f used orig k, find_free (S f) used orig k =
  if mem_str (candidate orig k) used then find_free f used orig (S k) else Some (candidate orig k).
Proof. reflexivity. Qed.

Lemma find_free_some : forall f used orig k c, find_free f used orig k = Some c ->
  ~ In c used /\ exists j, j < f /\ c = candidate orig (k + j) /\ forall i, i < j -> In (candidate orig (k + i)) used.
Proof.
  induction f as [|f IH]; intros used orig k c H; [discriminate|].
  rewrite find_free_S in H.
  destruct (mem_str (candidate orig k) used) eqn:E.
  - destruct (IH _ _ _ _ H) as [Hn [j [Hj [Hc Hall]]]]. split; [exact Hn|].
    exists (S j). split; [lia|]. split.
    + rewrite Hc. f_equal. lia.
    + intros i Hi. destruct i as [|i].
      * rewrite Nat.add_0_r. apply mem_str_in. exact E.
      * replace (k + S i) with (S k + i) by lia. apply Hall. lia.
  - inversion H; subst c. split; [apply mem_str_false; exact E|].
    exists 0. split; [lia|]. split; [rewrite Nat.add_0_r; reflexivity|]. intros i Hi. lia.
Qed.

Lemma find_free_none : forall f used orig k, find_free f used orig k = None ->
  forall j, j < f -> In (candidate orig (k + j)) used.
Proof.
  induction f as [|f IH]; intros used orig k H j Hj; [lia|]. rewrite find_free_S in H.
  destruct (mem_str (candidate orig k) used) eqn:E; [|discriminate].
  destruct j as [|j].
  - rewrite Nat.add_0_r. apply mem_str_in. exact E.
  - replace (k + S j) with (S k + j) by lia. apply (IH _ _ _ H). lia.
Qed.

(* the search loop ends: among length used + 1 distinct candidates one is unused *)
Lemma find_free_total : forall used orig k, exists c, find_free (S (List.length used)) used orig k = Some c.
Proof.
  intros used orig k. destruct (find_free (S (List.length used)) used orig k) eqn:E; [eexists; reflexivity|].
  exfalso. pose proof (find_free_none _ _ _ _ E) as H.
  set (cands := map (fun j => candidate orig (k + j)) (seq 0 (S (List.length used)))).
  assert (Hnd : NoDup cands).
  { unfold cands. apply FinFun.Injective_map_NoDup; [|apply seq_NoDup].
    intros a b Hab. apply candidate_inj in Hab. lia. }
  assert (Hincl : incl cands used).
  { intros c Hc. unfold cands in Hc. apply in_map_iff in Hc. destruct Hc as [j [Hc Hj]]. subst c.
    apply H. apply in_seq in Hj. lia. }
  pose proof (NoDup_incl_length Hnd Hincl) as Hlen. unfold cands in Hlen. rewrite map_length, seq_length in Hlen. lia.
Qed.

Lemma free_name_total : forall used orig, exists c, free_name used orig = Some c /\ ~ In c used.
Proof.
  intros used orig. unfold free_name. destruct (mem_str orig used) eqn:E.
  - destruct (find_free_total used orig 1) as [c Hc]. exists c. split; [exact Hc|].
    apply (find_free_some _ _ _ _ _ Hc).
  - exists orig. split; [reflexivity | apply mem_str_false; exact E].
Qed.

(* ================================================================================== component de-clash *)

Lemma sinsert_in : forall s l x, In x (sinsert s l) <-> x = s \/ In x l.
Proof.
  intros s l. induction l as [|y r IH]; intros x; cbn.
  - split; [intros [H|[]]; left; symmetry; exact H | intros [H|[]]; left; symmetry; exact H].
  - destruct (String.compare s y) eqn:E.
    + apply String.compare_eq_iff in E. subst y. cbn. split; [intros H; right; exact H|].
      intros [H|H]; [left; symmetry; exact H | exact H].
    + cbn. split; [intros [H|H]; [left; symmetry; exact H | right; exact H]|].
      intros [H|H]; [left; symmetry; exact H | right; exact H].
    + cbn. rewrite IH. tauto.
Qed.

Lemma sunion_in : forall b a x, In x (sunion a b) <-> In x a \/ In x b.
Proof.
  unfold sunion. induction b as [|y r IH]; intros a x; cbn; [tauto|].
  rewrite IH, sinsert_in. intuition (subst; auto).
Qed.

Definition declash_keys (ck pk : list comp) : list string :=
  sunion (sunion [] (descendant_names ck)) (descendant_names pk).

Lemma declash_keys_in : forall ck pk x, In x (declash_keys ck pk) <-> In x (comps_names ck) \/ In x (comps_names pk).
Proof.
  intros ck pk x. unfold declash_keys, descendant_names. rewrite !sunion_in. cbn. tauto.
Qed.

Lemma NoDup_app_single : forall (A : Type) (l : list A) (x : A), NoDup l -> ~ In x l -> NoDup (l ++ [x]).
Proof.
  intros A l x Hnd Hx. induction l as [|y r IH]; cbn; [constructor; [intros []|constructor]|].
  inversion Hnd as [|? ? Hy Hr]; subst. constructor.
  - intros Hin. apply in_app_or in Hin. destruct Hin as [Hin|[Hin|[]]]; [contradiction|]. subst. apply Hx. left. reflexivity.
  - apply IH; [exact Hr|]. intros Hin. apply Hx. right. exact Hin.
Qed.

(* what the loop has done so far: new names are pairwise distinct, unused before, of the form orig_k *)
Record declash_inv (compNames used0 used : list string) (done : list (string * string)) : Prop := {
  di_incl : incl used0 used;
  di_new_used : forall o n, In (o, n) done -> In n used;
  di_nodup : NoDup (map snd done);
  di_fresh : forall o n, In (o, n) done -> In o compNames /\ ~ In n used0 /\ exists k, n = candidate o k
}.

Lemma declash_step_inv : forall fx compNames used0 ck pk used done orig,
  fx_clash fx = true -> declash_inv compNames used0 used done ->
  exists ck' pk' used' done', declash_step fx compNames (FOk (ck, pk, used, done)) orig = FOk (ck', pk', used', done')
                              /\ declash_inv compNames used0 used' done'.
Proof.
  intros fx compNames used0 ck pk used done orig Hfx Hinv. unfold declash_step. cbn [fbind].
  destruct (mem_str orig compNames) eqn:Em.
  - rewrite Hfx. destruct (find_free_total used orig 1) as [c Hc]. rewrite Hc.
    destruct (find_free_some _ _ _ _ _ Hc) as [Hnot [j [_ [Hcj _]]]].
    destruct (rename_first_in orig c ck) as [ck' d] eqn:Er.
    eexists _, _, _, _. split; [reflexivity|].
    destruct Hinv as [Hincl Hnu Hnd Hfr]. constructor.
    + intros x Hx. apply in_or_app. left. apply Hincl. exact Hx.
    + intros o n Hin. apply in_app_or in Hin. destruct Hin as [Hin|[Hin|[]]].
      * apply in_or_app. left. apply (Hnu _ _ Hin).
      * inversion Hin; subst. apply in_or_app. right. left. reflexivity.
    + rewrite map_app. cbn. apply NoDup_app_single.
      * exact Hnd.
      * intros Hin. apply in_map_iff in Hin. destruct Hin as [[o n] [E Hin]]. cbn in E. subst n.
        apply Hnot. apply (Hnu _ _ Hin).
    + intros o n Hin. apply in_app_or in Hin. destruct Hin as [Hin|[Hin|[]]].
      * apply (Hfr _ _ Hin).
      * inversion Hin; subst o n. split; [apply mem_str_in; exact Em|]. split.
        -- intros Hu. apply Hnot. apply Hincl. exact Hu.
        -- exists (1 + j). exact Hcj.
  - eexists _, _, _, _. split; [reflexivity | exact Hinv].
Qed.

Lemma declash_fold_inv : forall fx compNames used0 keys ck pk used done,
  fx_clash fx = true -> declash_inv compNames used0 used done ->
  exists ck' pk' used' done',
    fold_left (declash_step fx compNames) keys (FOk (ck, pk, used, done)) = FOk (ck', pk', used', done')
    /\ declash_inv compNames used0 used' done'.
Proof.
  intros fx compNames used0 keys. induction keys as [|k r IH]; intros ck pk used done Hfx Hinv; cbn [fold_left].
  - eexists _, _, _, _. split; [reflexivity | exact Hinv].
  - destruct (declash_step_inv fx compNames used0 ck pk used done k Hfx Hinv) as [ck1 [pk1 [u1 [d1 [E Hinv1]]]]].
    rewrite E. apply IH; assumption.
Qed.

(* declash_unique: with the repaired loop the search always ends, the new names are pairwise distinct, none of them is a
   name of the importing model or a name that stays in the imported hierarchy, and only clashing names are renamed *)
Theorem declash_unique : forall fx compNames ck pk, fx_clash fx = true ->
  exists ck' pk' done, declash fx compNames ck pk = FOk (ck', pk', done)
    /\ NoDup (map snd done)
    /\ forall o n, In (o, n) done ->
         In o compNames /\ ~ In n compNames /\ ~ In n (comps_names ck) /\ ~ In n (comps_names pk) /\ exists k, n = candidate o k.
Proof.
  intros fx compNames ck pk Hfx. unfold declash. fold (declash_keys ck pk).
  assert (Hinv0 : declash_inv compNames (compNames ++ declash_keys ck pk) (compNames ++ declash_keys ck pk) []).
  { constructor; [apply incl_refl | intros o n [] | constructor | intros o n []]. }
  destruct (declash_fold_inv fx compNames _ (declash_keys ck pk) ck pk _ [] Hfx Hinv0) as [ck' [pk' [u' [d' [E Hinv]]]]].
  rewrite E. cbn [fbind]. exists ck', pk', d'. split; [reflexivity|]. destruct Hinv as [_ _ Hnd Hfr]. split; [exact Hnd|].
  intros o n Hin. destruct (Hfr _ _ Hin) as [Ho [Hn Hk]]. split; [exact Ho|].
  split; [intros H; apply Hn; apply in_or_app; left; exact H|].
  split; [intros H; apply Hn; apply in_or_app; right; apply declash_keys_in; left; exact H|].
  split; [intros H; apply Hn; apply in_or_app; right; apply declash_keys_in; right; exact H | exact Hk].
Qed.

(* before 7acb380 the loop compared a candidate only with the names of the importing model: two imported components
   end up with the same name (importer: k; imported hierarchy: k and k_1) *)
Definition leaf (n : string) : comp := Comp (OFresh 0) n None [] [] [].
Lemma declash_unique_refuted :
  exists compNames ck, match declash flat_unfixed compNames ck [] with
                       | FOk (ck', _, _) => ~ NoDup (comps_names ck')
                       | _ => True
                       end.
Proof.
  exists ["k"; "c"], [leaf "k"; leaf "k_1"]. vm_compute. intros H. inversion H as [|? ? Hn _]. apply Hn. left. reflexivity.
Qed.

(* ================================================================================== no imports on return *)

Lemma flatten_loop_has_no_imports : forall rounds fuel fx libs fs fs',
  flatten_loop rounds fuel fx libs fs = FOk fs' -> has_imports fx libs fuel fs' = FOk false.
Proof.
  induction rounds as [|r IH]; intros fuel fx libs fs fs' H; cbn [flatten_loop] in H; [discriminate|].
  destruct (has_imports fx libs fuel fs) as [b| | |] eqn:Eb; cbn [fbind] in H; try discriminate.
  destruct b.
  - destruct (top_units_loop fuel fx libs 0 fs) as [fs1| | |]; cbn [fbind] in H; try discriminate.
    destruct (top_comps_loop fuel fx libs (List.length (f_comps fs1)) 0 fs1) as [fs2| | |]; cbn [fbind] in H; try discriminate.
    apply (IH _ _ _ _ _ H).
  - inversion H; subst. exact Eb.
Qed.

Lemma units_fold_false : forall fx libs fuel U l acc,
  fold_left (fun (acc : fres bool) u => do b <- acc; if (b : bool) then FOk true else has_units_imports fx libs fuel U u) l acc = FOk false ->
  acc = FOk false /\ forall u, In u l -> has_units_imports fx libs fuel U u = FOk false.
Proof.
  intros fx libs fuel U l. induction l as [|u r IH]; intros acc H; cbn [fold_left] in H.
  - split; [exact H | intros u []].
  - destruct (IH _ H) as [Hacc Hall].
    destruct acc as [b| | |]; cbn [fbind] in Hacc; try discriminate.
    destruct b; [discriminate|]. split; [reflexivity|].
    intros x [E|Hin]; [subst; exact Hacc | apply Hall; exact Hin].
Qed.

Lemma has_units_imports_false_local : forall fx libs fuel U u, has_units_imports fx libs fuel U u = FOk false -> u_imp u = None.
Proof.
  intros fx libs fuel U u H. unfold has_units_imports in H.
  destruct (fx_cycle_guard fx && has_units_cycle libs U (u_name u)).
  - destruct (u_imp u); [discriminate | reflexivity].
  - destruct fuel as [|f]; cbn [has_units_imports_go] in H; [discriminate|]. destruct (u_imp u); [discriminate | reflexivity].
Qed.

Lemma has_imports_false : forall fx libs fuel fs, has_imports fx libs fuel fs = FOk false ->
  (forall u, In u (f_units fs) -> u_imp u = None) /\ (forall c, In c (f_comps fs) -> comp_has_imports c = false).
Proof.
  intros fx libs fuel fs H. unfold has_imports in H.
  destruct (fold_left _ (f_units fs) (FOk false)) as [b| | |] eqn:E; cbn [fbind] in H; try discriminate.
  destruct b; [discriminate|]. assert (Hc : existsb comp_has_imports (f_comps fs) = false) by congruence. clear H. split.
  - intros u Hin. destruct (units_fold_false _ _ _ _ _ _ E) as [_ Hall]. apply (has_units_imports_false_local _ _ _ _ _ (Hall _ Hin)).
  - intros c Hin. destruct (comp_has_imports c) eqn:Ec; [|reflexivity].
    assert (Hx : existsb comp_has_imports (f_comps fs) = true) by (apply existsb_exists; exists c; split; assumption).
    rewrite Hx in Hc. discriminate.
Qed.

(* a component tree without import: no component of it, at any depth, is an import *)
Fixpoint comp_import_free (c : comp) : Prop :=
  match c with
  | Comp _ _ im _ _ kids => im = None /\ (fix all (l : list comp) : Prop := match l with [] => True | k :: r => comp_import_free k /\ all r end) kids
  end.

Lemma comp_has_imports_false : forall c, comp_has_imports c = false -> comp_import_free c.
Proof.
  fix IH 1. intros [o n im m v kids] H. cbn [comp_has_imports] in H. cbn [comp_import_free].
  destruct im; [discriminate|]. split; [reflexivity|].
  induction kids as [|k r IHr]; [exact I|]. cbn [existsb] in H. apply orb_false_iff in H. destruct H as [Hk Hr].
  split; [apply IH; exact Hk | apply IHr; exact Hr].
Qed.

(* flatten_no_imports: whenever the model of flattenModel returns a model, no units and no component of it is an import *)
Theorem flatten_no_imports : forall rounds fuel fx libs m n0 m' st,
  flatten_model rounds fuel fx libs m n0 = FOk (m', st) ->
  (forall u, In u (m_units m') -> u_imp u = None) /\ (forall c, In c (m_comps m') -> comp_import_free c).
Proof.
  intros rounds fuel fx libs m n0 m' st H. unfold flatten_model in H.
  destruct (clone_model m {| nx := n0; wlog := [] |}) as [[flat st0]| | |]; cbn [fbind] in H; try discriminate.
  destruct (flatten_loop rounds fuel fx libs _) as [fs'| | |] eqn:E; cbn [fbind] in H; try discriminate.
  inversion H; subst m' st. cbn [m_units m_comps].
  destruct (has_imports_false _ _ _ _ (flatten_loop_has_no_imports _ _ _ _ _ _ E)) as [Hu Hc].
  split; [exact Hu|]. intros c Hin. apply comp_has_imports_false. apply Hc. exact Hin.
Qed.

(* ================================================================================== equivalences *)

Definition has_pair (eqs : list eqv) (a b : nat) : Prop := exists e, In e eqs /\ pair_is a b e = true.

Lemma pair_is_sym : forall a b e, pair_is a b e = pair_is b a e.
Proof. intros a b e. unfold pair_is. apply orb_comm. Qed.

Lemma has_pair_sym : forall eqs a b, has_pair eqs a b -> has_pair eqs b a.
Proof. intros eqs a b [e [H1 H2]]. exists e. split; [exact H1 | rewrite pair_is_sym; exact H2]. Qed.

Lemma pair_is_endpoints : forall a b e, pair_is a b e = true -> (e_a e = a /\ e_b e = b) \/ (e_a e = b /\ e_b e = a).
Proof.
  intros a b e H. unfold pair_is in H. apply orb_true_iff in H. destruct H as [H|H]; apply andb_true_iff in H; destruct H as [H1 H2];
    apply Nat.eqb_eq in H1; apply Nat.eqb_eq in H2; [left | right]; split; assumption.
Qed.

Lemma pair_is_same_ends : forall a b e e', e_a e' = e_a e -> e_b e' = e_b e -> pair_is a b e' = pair_is a b e.
Proof. intros a b e e' H1 H2. unfold pair_is. rewrite H1, H2. reflexivity. Qed.

Lemma add_equivalence_new : forall a b ids eqs, a <> b -> has_pair (add_equivalence a b ids eqs) a b.
Proof.
  intros a b ids eqs Hab. unfold add_equivalence. destruct (Nat.eqb a b) eqn:E; [apply Nat.eqb_eq in E; contradiction|].
  destruct (existsb (pair_is a b) eqs) eqn:Ex.
  - apply existsb_exists in Ex. destruct Ex as [e [Hin Hp]]. destruct ids as [[mi ci]|].
    + exists (if pair_is a b e then {| e_a := e_a e; e_b := e_b e; e_map := mi; e_conn := ci |} else e). split.
      * apply in_map_iff. exists e. split; [reflexivity | exact Hin].
      * rewrite Hp. unfold pair_is in *. cbn. exact Hp.
    + exists e. split; assumption.
  - eexists. split; [apply in_or_app; right; left; reflexivity|]. unfold pair_is. cbn. rewrite !Nat.eqb_refl. reflexivity.
Qed.

Lemma add_equivalence_mono : forall a b ids eqs x y, has_pair eqs x y -> has_pair (add_equivalence a b ids eqs) x y.
Proof.
  intros a b ids eqs x y [e [Hin Hp]]. unfold add_equivalence. destruct (Nat.eqb a b); [exists e; split; assumption|].
  destruct (existsb (pair_is a b) eqs).
  - destruct ids as [[mi ci]|]; [|exists e; split; assumption].
    exists (if pair_is a b e then {| e_a := e_a e; e_b := e_b e; e_map := mi; e_conn := ci |} else e). split.
    + apply in_map_iff. exists e. split; [reflexivity | exact Hin].
    + destruct (pair_is a b e); [|exact Hp]. unfold pair_is in *. cbn. exact Hp.
  - exists e. split; [apply in_or_app; left; exact Hin | exact Hp].
Qed.

Lemma add_equivalence_sound : forall a b ids eqs x y, has_pair (add_equivalence a b ids eqs) x y ->
  has_pair eqs x y \/ ((x = a /\ y = b) \/ (x = b /\ y = a)).
Proof.
  intros a b ids eqs x y [e [Hin Hp]]. unfold add_equivalence in Hin. destruct (Nat.eqb a b); [left; exists e; split; assumption|].
  destruct (existsb (pair_is a b) eqs).
  - destruct ids as [[mi ci]|]; [|left; exists e; split; assumption].
    apply in_map_iff in Hin. destruct Hin as [e0 [E Hin0]]. left. exists e0. split; [exact Hin0|].
    destruct (pair_is a b e0); [|subst; exact Hp]. subst e. unfold pair_is in *. cbn in Hp. exact Hp.
  - apply in_app_or in Hin. destruct Hin as [Hin|[E|[]]]; [left; exists e; split; assumption|].
    right. subst e. destruct (pair_is_endpoints _ _ _ Hp) as [[H1 H2]|[H1 H2]]; cbn in H1, H2; [left | right]; split; congruence.
Qed.

(* after a write with ids, every entry for that pair carries them *)
Lemma add_equivalence_ids : forall a b mi ci eqs e, a <> b -> In e (add_equivalence a b (Some (mi, ci)) eqs) ->
  pair_is a b e = true -> e_map e = mi /\ e_conn e = ci.
Proof.
  intros a b mi ci eqs e Hab Hin Hp. unfold add_equivalence in Hin.
  destruct (Nat.eqb a b) eqn:E; [apply Nat.eqb_eq in E; contradiction|].
  destruct (existsb (pair_is a b) eqs) eqn:Ex.
  - apply in_map_iff in Hin. destruct Hin as [e0 [E0 Hin0]]. destruct (pair_is a b e0) eqn:Ep.
    + subst e. cbn. split; reflexivity.
    + subst e. congruence.
  - apply in_app_or in Hin. destruct Hin as [Hin|[E0|[]]].
    + exfalso. assert (Hx : existsb (pair_is a b) eqs = true) by (apply existsb_exists; exists e; split; assumption). congruence.
    + subst e. cbn. split; reflexivity.
Qed.

(* ... and the entries of other pairs are untouched *)
Lemma add_equivalence_other : forall a b ids eqs e, In e (add_equivalence a b ids eqs) -> pair_is a b e = false -> In e eqs.
Proof.
  intros a b ids eqs e Hin Hp. unfold add_equivalence in Hin. destruct (Nat.eqb a b); [exact Hin|].
  destruct (existsb (pair_is a b) eqs).
  - destruct ids as [[mi ci]|]; [|exact Hin].
    apply in_map_iff in Hin. destruct Hin as [e0 [E0 Hin0]]. destruct (pair_is a b e0) eqn:Ep.
    + subst e. unfold pair_is in *. cbn in Hp. congruence.
    + subst e. exact Hin0.
  - apply in_app_or in Hin. destruct Hin as [Hin|[E0|[]]]; [exact Hin|].
    subst e. unfold pair_is in Hp. cbn in Hp. rewrite !Nat.eqb_refl in Hp. discriminate.
Qed.

(* ---- applyEquivalenceMapToModel *)

Definition em_pairs (em : eqmap) : list (path * path) := flat_map (fun kv => map (fun t => (fst kv, t)) (snd kv)) em.

Lemma em_pairs_in : forall em k t, In (k, t) (em_pairs em) <-> exists ts, In (k, ts) em /\ In t ts.
Proof.
  intros em k t. unfold em_pairs. rewrite in_flat_map. split.
  - intros [[k0 ts] [Hin H]]. cbn in H. apply in_map_iff in H. destruct H as [t0 [E Ht]]. inversion E; subst. exists ts. split; assumption.
  - intros [ts [Hin Ht]]. exists (k, ts). split; [exact Hin|]. cbn. apply in_map_iff. exists t. split; [reflexivity | exact Ht].
Qed.

Definition apply_step (cs : list comp) (ids : option (string * string)) (acc : fres (list eqv)) (kt : path * path) : fres (list eqv) :=
  make_equivalence cs (fst kt) (snd kt) ids acc.

Lemma inner_fold_pairs : forall cs (k : path) ts acc,
  fold_left (fun acc t => make_equivalence cs k t None acc) ts acc
  = fold_left (apply_step cs None) (map (fun t => (k, t)) ts) acc.
Proof. intros cs k ts. induction ts as [|t r IH]; intros acc; cbn; [reflexivity | apply IH]. Qed.

Lemma apply_map_pairs : forall cs em eqs, apply_map cs em eqs = fold_left (apply_step cs None) (em_pairs em) (FOk eqs).
Proof.
  intros cs em eqs. unfold apply_map. generalize (FOk eqs) as acc.
  induction em as [|[k ts] r IH]; intros acc; cbn [fold_left em_pairs flat_map]; [reflexivity|].
  rewrite fold_left_app. cbn [fst snd]. rewrite <- inner_fold_pairs. apply IH.
Qed.

Lemma apply_step_error : forall cs ids l (acc : fres (list eqv)), (forall x, acc <> FOk x) ->
  forall x, fold_left (apply_step cs ids) l acc <> FOk x.
Proof.
  intros cs ids l. induction l as [|kt r IH]; intros acc H x; cbn [fold_left]; [apply H|].
  apply IH. intros y. unfold apply_step, make_equivalence. destruct acc; cbn [fbind]; try discriminate. exfalso. apply (H a). reflexivity.
Qed.

Definition oids_pair_eq (x y a b : nat) : Prop := (x = a /\ y = b) \/ (x = b /\ y = a).

(* soundness and monotonicity: a pair of the result was there before or joins the variables located at an entry of the map *)
Lemma apply_pairs_sound : forall cs l eqs eqs', fold_left (apply_step cs None) l (FOk eqs) = FOk eqs' ->
  (forall x y, has_pair eqs x y -> has_pair eqs' x y) /\
  (forall x y, has_pair eqs' x y -> has_pair eqs x y \/
     exists k t v1 v2, In (k, t) l /\ var_located_at cs k = LVar v1 /\ var_located_at cs t = LVar v2 /\ oids_pair_eq x y (v_oid v1) (v_oid v2)).
Proof.
  intros cs l. induction l as [|[k t] r IH]; intros eqs eqs' H; cbn [fold_left] in H.
  - inversion H; subst. split; [auto | intros x y Hp; left; exact Hp].
  - unfold apply_step at 2 in H. cbn [fst snd] in H. unfold make_equivalence in H. cbn [fbind] in H.
    destruct (var_located_at cs k) as [| |v1] eqn:E1.
    + exfalso. eapply apply_step_error; [|exact H]. intros x. discriminate.
    + destruct (var_located_at cs t) as [| |v2] eqn:E2.
      * exfalso. eapply apply_step_error; [|exact H]. intros x. discriminate.
      * destruct (IH _ _ H) as [Hm Hs]. split; [exact Hm|]. intros x y Hp. destruct (Hs _ _ Hp) as [Hl|[k' [t' [w1 [w2 [Hin Hr]]]]]]; [left; exact Hl|].
        right. exists k', t', w1, w2. split; [right; exact Hin | exact Hr].
      * destruct (IH _ _ H) as [Hm Hs]. split; [exact Hm|]. intros x y Hp. destruct (Hs _ _ Hp) as [Hl|[k' [t' [w1 [w2 [Hin Hr]]]]]]; [left; exact Hl|].
        right. exists k', t', w1, w2. split; [right; exact Hin | exact Hr].
    + destruct (var_located_at cs t) as [| |v2] eqn:E2.
      * exfalso. eapply apply_step_error; [|exact H]. intros x. discriminate.
      * destruct (IH _ _ H) as [Hm Hs]. split; [exact Hm|]. intros x y Hp. destruct (Hs _ _ Hp) as [Hl|[k' [t' [w1 [w2 [Hin Hr]]]]]]; [left; exact Hl|].
        right. exists k', t', w1, w2. split; [right; exact Hin | exact Hr].
      * destruct (IH _ _ H) as [Hm Hs]. split.
        -- intros x y Hp. apply Hm. apply add_equivalence_mono. exact Hp.
        -- intros x y Hp. destruct (Hs _ _ Hp) as [Hl|[k' [t' [w1 [w2 [Hin Hr]]]]]].
           ++ destruct (add_equivalence_sound _ _ _ _ _ _ Hl) as [Ho|Hn]; [left; exact Ho|].
              right. exists k, t, v1, v2. split; [left; reflexivity|]. split; [exact E1|]. split; [exact E2 | exact Hn].
           ++ right. exists k', t', w1, w2. split; [right; exact Hin | exact Hr].
Qed.

(* completeness: every entry whose two stacks locate two different variables is an equivalence afterwards *)
Lemma apply_pairs_complete : forall cs l eqs eqs', fold_left (apply_step cs None) l (FOk eqs) = FOk eqs' ->
  forall k t v1 v2, In (k, t) l -> var_located_at cs k = LVar v1 -> var_located_at cs t = LVar v2 -> v_oid v1 <> v_oid v2 ->
  has_pair eqs' (v_oid v1) (v_oid v2).
Proof.
  intros cs l. induction l as [|[k0 t0] r IH]; intros eqs eqs' H k t v1 v2 Hin E1 E2 Hne; [destruct Hin|].
  cbn [fold_left] in H. destruct Hin as [E|Hin].
  - inversion E; subst k0 t0. unfold apply_step at 2 in H. cbn [fst snd] in H. unfold make_equivalence in H. cbn [fbind] in H.
    rewrite E1, E2 in H. destruct (apply_pairs_sound _ _ _ _ H) as [Hm _]. apply Hm. apply add_equivalence_new. exact Hne.
  - destruct (apply_step cs None (FOk eqs) (k0, t0)) as [eqs1| | |] eqn:Es.
    + apply (IH _ _ H k t v1 v2 Hin E1 E2 Hne).
    + exfalso. eapply apply_step_error; [|exact H]. intros x. discriminate.
    + exfalso. eapply apply_step_error; [|exact H]. intros x. discriminate.
    + exfalso. eapply apply_step_error; [|exact H]. intros x. discriminate.
Qed.

(* totality: the only way to fail is a stack that does not lead to a component *)
Lemma apply_pairs_total : forall cs l eqs, (forall k t, In (k, t) l -> var_located_at cs k <> LCrash /\ var_located_at cs t <> LCrash) ->
  exists eqs', fold_left (apply_step cs None) l (FOk eqs) = FOk eqs'.
Proof.
  intros cs l. induction l as [|[k t] r IH]; intros eqs H; cbn [fold_left]; [eexists; reflexivity|].
  destruct (H k t (or_introl eq_refl)) as [H1 H2].
  unfold apply_step at 2. cbn [fst snd]. unfold make_equivalence. cbn [fbind].
  destruct (var_located_at cs k); [congruence| |]; destruct (var_located_at cs t); try congruence;
    apply IH; intros k' t' Hin; apply H; right; exact Hin.
Qed.

(* ---- rebased map applied: the recorded equivalences of the imported component are re-created at the destination *)

Theorem apply_rebased_complete : forall cs em origin dest eqs eqs',
  dest <> [] ->
  NoDup (map (fun kv => rebase_stack (fst kv) origin dest) em) ->
  apply_map cs (rebase_map em origin dest) eqs = FOk eqs' ->
  forall k ts rk rt i v1 v2,
    In (k, ts) em -> In (origin ++ rt ++ [i]) ts -> k = origin ++ rk ->
    var_located_at cs (dest ++ rk) = LVar v1 -> var_located_at cs (dest ++ rt ++ [i]) = LVar v2 -> v_oid v1 <> v_oid v2 ->
    has_pair eqs' (v_oid v1) (v_oid v2).
Proof.
  intros cs em origin dest eqs eqs' Hd Hnd H k ts rk rt i v1 v2 Hin Ht Hk E1 E2 Hne.
  rewrite apply_map_pairs in H.
  assert (Htg : In (dest ++ rt ++ [i]) (rebase_targets ts origin dest)).
  { apply rebase_targets_in. exists (origin ++ rt ++ [i]). split; [exact Ht | apply rebase_target_inside; exact Hd]. }
  assert (Hne2 : rebase_targets ts origin dest <> []) by (intros E; rewrite E in Htg; destruct Htg).
  pose proof (rebase_map_complete em origin dest Hnd k ts Hin Hne2) as Hent.
  subst k. rewrite rebase_stack_prefix in Hent.
  apply (apply_pairs_complete _ _ _ _ H (dest ++ rk) (dest ++ rt ++ [i]) v1 v2); try assumption.
  apply em_pairs_in. eexists. split; [exact Hent | exact Htg].
Qed.

Theorem apply_rebased_sound : forall cs em origin dest eqs eqs',
  apply_map cs (rebase_map em origin dest) eqs = FOk eqs' ->
  (forall x y, has_pair eqs x y -> has_pair eqs' x y) /\
  forall x y, has_pair eqs' x y -> has_pair eqs x y \/
    exists k ts t t2 v1 v2, In (k, ts) em /\ In t ts /\ rebase_target t origin dest = Some t2 /\
      var_located_at cs (rebase_stack k origin dest) = LVar v1 /\ var_located_at cs t2 = LVar v2 /\
      oids_pair_eq x y (v_oid v1) (v_oid v2).
Proof.
  intros cs em origin dest eqs eqs' H. rewrite apply_map_pairs in H. destruct (apply_pairs_sound _ _ _ _ H) as [Hm Hs].
  split; [exact Hm|]. intros x y Hp. destruct (Hs _ _ Hp) as [Hl|[k2 [t2 [v1 [v2 [Hin [E1 [E2 Ho]]]]]]]]; [left; exact Hl|].
  right. apply em_pairs_in in Hin. destruct Hin as [ts2 [Hent Ht2]].
  destruct (rebase_map_sound _ _ _ _ _ Hent) as [k [ts [Hin [Hk [Hts _]]]]]. subst k2 ts2.
  apply rebase_targets_in in Ht2. destruct Ht2 as [t [Ht Hr]].
  exists k, ts, t, t2, v1, v2. repeat split; assumption.
Qed.

(* ---- copyRebasedEquivalenceIds (the candidate repair fx_ids, and the id pass of Model::clone) *)

Definition src_ids (src : model) (k t : path) : string * string :=
  match var_located_at (m_comps src) k, var_located_at (m_comps src) t with
  | LVar v, LVar w => ids_of (v_oid v) (v_oid w) (m_eqs src)
  | _, _ => ("", "")
  end.

Definition ids_step (src : model) (origin dest : path) (cs : list comp) (acc : fres (list eqv)) (kt : path * path) : fres (list eqv) :=
  copy_ids_one src origin dest cs (fst kt) (snd kt) acc.

Lemma copy_ids_pairs : forall src origin dest cs em eqs,
  copy_ids src origin dest cs em eqs = fold_left (ids_step src origin dest cs) (em_pairs em) (FOk eqs).
Proof.
  intros src origin dest cs em eqs. unfold copy_ids. generalize (FOk eqs) as acc.
  induction em as [|[k ts] r IH]; intros acc; cbn [fold_left em_pairs flat_map]; [reflexivity|].
  rewrite fold_left_app. cbn [fst snd].
  assert (E : forall ts acc, fold_left (fun acc t => copy_ids_one src origin dest cs k t acc) ts acc
                             = fold_left (ids_step src origin dest cs) (map (fun t => (k, t)) ts) acc).
  { induction ts0 as [|t r0 IH0]; intros acc0; cbn; [reflexivity | apply IH0]. }
  rewrite <- E. apply IH.
Qed.

Lemma ids_step_error : forall src origin dest cs l (acc : fres (list eqv)), (forall x, acc <> FOk x) ->
  forall x, fold_left (ids_step src origin dest cs) l acc <> FOk x.
Proof.
  intros src origin dest cs l. induction l as [|kt r IH]; intros acc H x; cbn [fold_left]; [apply H|].
  apply IH. intros y. unfold ids_step, copy_ids_one. destruct acc; cbn [fbind]; try discriminate. exfalso. apply (H a). reflexivity.
Qed.

(* an entry of the result is an entry of the input or carries the ids the source model stores for a recorded pair that is
   located at the same two variables *)
Definition ids_from (src : model) (origin dest : path) (cs : list comp) (L : list (path * path)) (eqs0 : list eqv) (e : eqv) : Prop :=
  In e eqs0 \/
  exists k t t2 v1 v2, In (k, t) L /\ rebase_target t origin dest = Some t2 /\
    var_located_at cs (rebase_stack k origin dest) = LVar v1 /\ var_located_at cs t2 = LVar v2 /\
    pair_is (v_oid v1) (v_oid v2) e = true /\ (e_map e, e_conn e) = src_ids src k t.

Lemma copy_ids_one_step : forall src origin dest cs k t cur nxt,
  copy_ids_one src origin dest cs k t (FOk cur) = FOk nxt ->
  nxt = cur \/
  exists t2 rv re, rebase_target t origin dest = Some t2 /\
    var_located_at cs (rebase_stack k origin dest) = LVar rv /\ var_located_at cs t2 = LVar re /\
    nxt = add_equivalence (v_oid rv) (v_oid re) (Some (src_ids src k t)) cur.
Proof.
  intros src origin dest cs k t cur nxt H. unfold copy_ids_one in H. cbn [fbind] in H. unfold src_ids.
  destruct (var_located_at (m_comps src) k) as [| |sv] eqn:S1; [discriminate| |];
  (destruct (var_located_at (m_comps src) t) as [| |sw] eqn:S2; [discriminate| |]);
  (destruct (rebase_target t origin dest) as [t2|] eqn:Rt; [|left; congruence]);
  (destruct (var_located_at cs (rebase_stack k origin dest)) as [| |rv] eqn:D1; [discriminate| |]);
  (destruct (var_located_at cs t2) as [| |re] eqn:D2; [discriminate| |]);
  try (left; congruence);
  (right; exists t2, rv, re; split; [reflexivity|]; split; [reflexivity|]; split; [exact D2|]; congruence).
Qed.

Lemma ids_step_inv : forall src origin dest cs L eqs0 l cur eqs',
  incl l L -> (forall e, In e cur -> ids_from src origin dest cs L eqs0 e) ->
  fold_left (ids_step src origin dest cs) l (FOk cur) = FOk eqs' ->
  forall e, In e eqs' -> ids_from src origin dest cs L eqs0 e.
Proof.
  intros src origin dest cs L eqs0 l. induction l as [|[k t] r IH]; intros cur eqs' Hincl Hinv H; cbn [fold_left] in H.
  - inversion H; subst. exact Hinv.
  - assert (HinL : In (k, t) L) by (apply Hincl; left; reflexivity).
    assert (Hincl' : incl r L) by (intros x Hx; apply Hincl; right; exact Hx).
    destruct (ids_step src origin dest cs (FOk cur) (k, t)) as [nxt| | |] eqn:Es;
      try (exfalso; eapply ids_step_error; [|exact H]; intros x; discriminate).
    apply (IH nxt eqs' Hincl'); [|exact H].
    unfold ids_step in Es. cbn [fst snd] in Es.
    destruct (copy_ids_one_step _ _ _ _ _ _ _ _ Es) as [E|[t2 [rv [re [Rt [D1 [D2 E]]]]]]]; [subst nxt; exact Hinv|].
    intros e Hin. subst nxt.
    destruct (Nat.eq_dec (v_oid rv) (v_oid re)) as [Heq|Hne].
    + unfold add_equivalence in Hin. rewrite Heq, Nat.eqb_refl in Hin. apply Hinv. exact Hin.
    + destruct (pair_is (v_oid rv) (v_oid re) e) eqn:Ep.
      * right. exists k, t, t2, rv, re. repeat (split; [assumption|]).
        destruct (src_ids src k t) as [mi ci] eqn:Ei.
        destruct (add_equivalence_ids _ _ mi ci _ _ Hne Hin Ep) as [Em Ec]. rewrite Em, Ec. reflexivity.
      * apply Hinv. eapply add_equivalence_other; [exact Hin | exact Ep].
Qed.

(* copy_ids keeps every equivalence and gives an equivalence the ids of a recorded source pair located at its variables *)
Theorem copy_ids_result : forall src origin dest cs em eqs eqs',
  copy_ids src origin dest cs em eqs = FOk eqs' ->
  forall e, In e eqs' -> ids_from src origin dest cs (em_pairs em) eqs e.
Proof.
  intros src origin dest cs em eqs eqs' H. rewrite copy_ids_pairs in H.
  apply (ids_step_inv src origin dest cs (em_pairs em) eqs (em_pairs em) eqs eqs' (incl_refl _)); [|exact H].
  intros e Hin. left. exact Hin.
Qed.

(* ================================================================================== usages of a units name *)

Definition subst_name (old new u : string) : string := if String.eqb u old then new else u.
Definition subst_opt (old : string) (new : option string) (u : option string) : option string :=
  match u with Some x => if String.eqb x old then new else Some x | None => None end.

(* the units of all variables of a tree, components in pre-order *)
Fixpoint comp_var_units (c : comp) : list (option string) :=
  match c with Comp _ _ _ _ vars kids => map v_units vars ++ flat_map comp_var_units kids end.

(* the units attributes of all cn elements below a node / in a tree *)
Fixpoint mx_cn_units (n : mx) : list string :=
  match n with MX _ _ _ kids => flat_map (fun k => (if is_cn k then [mx_units k] else []) ++ mx_cn_units k) kids end.
Fixpoint comp_cn_units (c : comp) : list string :=
  match c with Comp _ _ _ math _ kids => flat_map mx_cn_units math ++ flat_map comp_cn_units kids end.

Lemma rename_var_units_spec : forall old new c,
  comp_var_units (rename_var_units old new c) = map (subst_opt old new) (comp_var_units c).
Proof.
  intros old new. fix IH 1. intros [o n i m vars kids]. cbn [rename_var_units comp_var_units].
  rewrite map_app. f_equal.
  - rewrite !map_map. apply map_ext. intros v. unfold subst_opt. destruct (v_units v) as [u|] eqn:E; [|exact E].
    destruct (String.eqb u old); [reflexivity | exact E].
  - induction kids as [|k r IHr]; [reflexivity|]. cbn [map flat_map]. rewrite map_app, IH, IHr. reflexivity.
Qed.

Definition fix_cn (old new : string) (n : mx) : mx :=
  match n with MX a' u' t' k' => if String.eqb a' "cn" && String.eqb u' old then MX a' new t' k' else MX a' u' t' k' end.

Lemma mx_rename_unfold : forall old new a u t kids,
  mx_rename old new (MX a u t kids) = MX a u t (map (fun k => fix_cn old new (mx_rename old new k)) kids).
Proof. reflexivity. Qed.

Definition cn_here (k : mx) : list string := if is_cn k then [mx_units k] else [].

Lemma mx_cn_units_unfold : forall a u t kids, mx_cn_units (MX a u t kids) = flat_map (fun k => cn_here k ++ mx_cn_units k) kids.
Proof. reflexivity. Qed.

Lemma fix_cn_here : forall old new k, cn_here (fix_cn old new k) = map (subst_name old new) (cn_here k).
Proof.
  intros old new [a u t kk]. unfold fix_cn, cn_here, is_cn, mx_name, mx_units, subst_name.
  destruct (String.eqb a "cn") eqn:Ea; cbn [andb].
  - destruct (String.eqb u old) eqn:Eu; cbn; rewrite Ea; cbn; rewrite ?Eu; reflexivity.
  - cbn. rewrite Ea. reflexivity.
Qed.

Lemma fix_cn_below : forall old new k, mx_cn_units (fix_cn old new k) = mx_cn_units k.
Proof. intros old new [a u t kk]. unfold fix_cn. destruct (String.eqb a "cn" && String.eqb u old); reflexivity. Qed.

Lemma mx_rename_here : forall old new k, cn_here (mx_rename old new k) = cn_here k.
Proof. intros old new [a u t kk]. reflexivity. Qed.

Lemma mx_rename_spec : forall old new n, mx_cn_units (mx_rename old new n) = map (subst_name old new) (mx_cn_units n).
Proof.
  intros old new. fix IH 1. intros [a u t kids]. rewrite mx_rename_unfold, !mx_cn_units_unfold.
  induction kids as [|k r IHr]; [reflexivity|]. cbn [map flat_map]. rewrite !map_app. rewrite IHr.
  rewrite fix_cn_here, fix_cn_below, mx_rename_here, IH. reflexivity.
Qed.

Lemma mx_mentions_false : forall old n, mx_mentions old n = false -> forall new, map (subst_name old new) (mx_cn_units n) = mx_cn_units n.
Proof.
  intros old. fix IH 1. intros [a u t kids] H new. rewrite mx_cn_units_unfold. cbn [mx_mentions] in H.
  induction kids as [|k r IHr]; [reflexivity|]. cbn [existsb] in H. apply orb_false_iff in H. destruct H as [Hk Hr].
  apply orb_false_iff in Hk. destruct Hk as [Hk1 Hk2].
  cbn [flat_map]. rewrite !map_app. rewrite (IHr Hr), (IH k Hk2). f_equal.
  unfold cn_here. destruct (is_cn k) eqn:Ec; [|reflexivity]. cbn [andb] in Hk1. cbn [map]. unfold subst_name. rewrite Hk1. reflexivity.
Qed.

Lemma math_rename_spec : forall old new roots, forallb is_math roots = true ->
  flat_map mx_cn_units (math_rename old new roots) = map (subst_name old new) (flat_map mx_cn_units roots).
Proof.
  intros old new roots Hm. unfold math_rename.
  destruct (negb (String.eqb old new)) eqn:En; cbn [andb].
  - destruct (existsb (fun r => is_math r && mx_mentions old r) roots) eqn:Ex.
    + assert (Hf : filter is_math roots = roots).
      { clear Ex. induction roots as [|r rs IH]; [reflexivity|]. cbn [forallb] in Hm. apply andb_true_iff in Hm. destruct Hm as [H1 H2].
        cbn [filter]. rewrite H1, (IH H2). reflexivity. }
      rewrite Hf. clear. induction roots as [|r rs IH]; [reflexivity|]. cbn [map flat_map]. rewrite map_app, mx_rename_spec, IH. reflexivity.
    + induction roots as [|r rs IH]; [reflexivity|]. cbn [existsb] in Ex. apply orb_false_iff in Ex. destruct Ex as [E1 E2].
      cbn [forallb] in Hm. apply andb_true_iff in Hm. destruct Hm as [H1 H2]. rewrite H1 in E1. cbn [andb] in E1.
      cbn [flat_map]. rewrite map_app, (mx_mentions_false _ _ E1), <- (IH H2 E2). reflexivity.
  - apply negb_false_iff in En. apply String.eqb_eq in En. subst new.
    rewrite <- (map_id (flat_map mx_cn_units roots)) at 1. apply map_ext. intros u. unfold subst_name.
    destruct (String.eqb u old) eqn:E; [apply String.eqb_eq in E; congruence | reflexivity].
Qed.

(* all math of the tree consists of <math> roots (what the parser produces) *)
Fixpoint comp_math_ok (c : comp) : bool :=
  match c with Comp _ _ _ math _ kids => forallb is_math math && forallb comp_math_ok kids end.

Lemma rename_cn_deep_spec : forall old new c, comp_math_ok c = true ->
  comp_cn_units (rename_cn_deep old new c) = map (subst_name old new) (comp_cn_units c).
Proof.
  intros old new. fix IH 1. intros [o n i m vars kids] H. cbn [comp_math_ok] in H. apply andb_true_iff in H. destruct H as [Hm Hk].
  cbn [rename_cn_deep comp_cn_units]. rewrite map_app, math_rename_spec by exact Hm. f_equal.
  induction kids as [|k r IHr]; [reflexivity|]. cbn [forallb] in Hk. apply andb_true_iff in Hk. destruct Hk as [H1 H2].
  cbn [map flat_map]. rewrite map_app, (IH k H1), (IHr H2). reflexivity.
Qed.

Lemma rename_cn_deep_var_units : forall old new c, comp_var_units (rename_cn_deep old new c) = comp_var_units c.
Proof.
  intros old new. fix IH 1. intros [o n i m vars kids]. cbn [rename_cn_deep comp_var_units]. f_equal.
  induction kids as [|k r IHr]; [reflexivity|]. cbn [map flat_map]. rewrite IH, IHr. reflexivity.
Qed.

Lemma rename_var_units_cn : forall old new c, comp_cn_units (rename_var_units old new c) = comp_cn_units c.
Proof.
  intros old new. fix IH 1. intros [o n i m vars kids]. cbn [rename_var_units comp_cn_units]. f_equal.
  induction kids as [|k r IHr]; [reflexivity|]. cbn [map flat_map]. rewrite IH, IHr. reflexivity.
Qed.

(* rename_usages_consistent: with c2160f8 every reference to the old name -- the units of every variable and the units of
   every cn, at every depth -- is rewritten, and nothing else *)
Theorem rename_usages_consistent : forall fx old new c, fx_cndeep fx = true -> comp_math_ok c = true ->
  comp_var_units (rename_usages fx old new true c) = map (subst_opt old (Some new)) (comp_var_units c) /\
  comp_cn_units (rename_usages fx old new true c) = map (subst_name old new) (comp_cn_units c).
Proof.
  intros fx old new c Hfx Hm. unfold rename_usages. rewrite Hfx. split.
  - rewrite rename_var_units_spec, rename_cn_deep_var_units. reflexivity.
  - rewrite rename_var_units_cn, rename_cn_deep_spec by exact Hm. reflexivity.
Qed.

(* before c2160f8 the cn elements two levels below the component kept the old name *)
Lemma rename_usages_consistent_refuted :
  exists old new c, comp_math_ok c = true /\
    comp_cn_units (rename_usages flat_unfixed old new true c) <> map (subst_name old new) (comp_cn_units c).
Proof.
  exists "u", "u_1",
    (Comp (OFresh 0) "c" None [] []
       [Comp (OFresh 0) "k1" None [] []
          [Comp (OFresh 0) "k2" None [MX "math" "" "" [MX "apply" "" "" [MX "eq" "" "" []; MX "ci" "" "b" []; MX "cn" "u" "4" []]]] [] []]]).
  split; [reflexivity|]. vm_compute. discriminate.
Qed.

(* ================================================================================== units transfer *)

Lemma ueg_true : forall fx libs ms ia na ib nb,
  units_equivalent_g fx libs ms ia na ib nb = FOk true -> units_equivalent libs ms ia na ib nb = FOk true.
Proof.
  intros fx libs ms ia na ib nb H. unfold units_equivalent_g in H. destruct (units_equivalent libs ms ia na ib nb); try exact H.
  destruct (fx_cycle_guard fx); discriminate.
Qed.

Lemma meu_some : forall fx libs T home n l t, models_equivalent_units fx libs T home n l = FOk (Some t) ->
  exists u, In u l /\ u_name u = t /\ units_equivalent libs [T; home] 0 t 1 n = FOk true.
Proof.
  intros fx libs T home n l. induction l as [|x r IH]; intros t H; cbn [models_equivalent_units] in H; [discriminate|].
  destruct (units_equivalent_g fx libs [T; home] 0 (u_name x) 1 n) as [b| | |] eqn:E; cbn [fbind] in H; try discriminate.
  destruct b.
  - inversion H; subst t. exists x. split; [left; reflexivity | split; [reflexivity | apply (ueg_true _ _ _ _ _ _ _ E)]].
  - destruct (IH _ H) as [u [Hin Hu]]. exists u. split; [right; exact Hin | exact Hu].
Qed.

Lemma meu_none : forall fx libs T home n l, models_equivalent_units fx libs T home n l = FOk None ->
  forall u, In u l -> units_equivalent_g fx libs [T; home] 0 (u_name u) 1 n = FOk false.
Proof.
  intros fx libs T home n l. induction l as [|x r IH]; intros H u Hin; [destruct Hin|]. cbn [models_equivalent_units] in H.
  destruct (units_equivalent_g fx libs [T; home] 0 (u_name x) 1 n) as [b| | |] eqn:E; cbn [fbind] in H; try discriminate.
  destruct b; [discriminate|]. destruct Hin as [Hx|Hin]; [subst; exact E | apply (IH H _ Hin)].
Qed.

Lemma us_op_T : forall a b s, us_T (us_op a b s) = us_T s.
Proof. intros a b s. unfold us_op. destruct (us_comp s); reflexivity. Qed.
Lemma us_op_S : forall a b s, us_S (us_op a b s) = us_S s.
Proof. intros a b s. unfold us_op. destruct (us_comp s); reflexivity. Qed.

Lemma u_set_ref_name : forall i r u, u_name (u_set_ref i r u) = u_name u.
Proof. intros i r u. unfold u_set_ref. destruct (nth_error (u_defs u) i); reflexivity. Qed.
Lemma u_set_ref_imp : forall i r u, u_imp (u_set_ref i r u) = u_imp u.
Proof. intros i r u. unfold u_set_ref. destruct (nth_error (u_defs u) i); reflexivity. Qed.
Lemma u_set_ref_len : forall i r u, List.length (u_defs (u_set_ref i r u)) = List.length (u_defs u).
Proof.
  intros i r u. unfold u_set_ref. destruct (nth_error (u_defs u) i); [|reflexivity]. cbn.
  generalize (u_defs u) as l. clear. intros l. revert i. induction l as [|x l IH]; intros [|i]; cbn; try reflexivity. rewrite IH. reflexivity.
Qed.

(* the transfer only appends to the target *)
Definition grows (T T' : list units) : Prop := exists extra, T' = T ++ extra.

Lemma grows_refl : forall T, grows T T.
Proof. intros T. exists []. rewrite app_nil_r. reflexivity. Qed.
Lemma grows_trans : forall A B C, grows A B -> grows B C -> grows A C.
Proof. intros A B C [x Hx] [y Hy]. exists (x ++ y). subst. rewrite app_assoc. reflexivity. Qed.

Lemma transfer_kids_grows : forall (rec : units -> ust -> fres transfer_result) fx,
  (forall u s s' m c n, rec u s = FOk (s', m, c, n) -> grows (us_T s) (us_T s')) ->
  forall k i u s u1 s1, transfer_kids rec fx k i u s = FOk (u1, s1) ->
    grows (us_T s) (us_T s1) /\ u_name u1 = u_name u /\ u_imp u1 = u_imp u.
Proof.
  intros rec fx Hrec. induction k as [|k IH]; intros i u s u1 s1 H; cbn [transfer_kids] in H.
  - inversion H; subst. split; [apply grows_refl | split; reflexivity].
  - destruct (nth_error (u_defs u) i) as [d|]; [|inversion H; subst; split; [apply grows_refl | split; reflexivity]].
    destruct (negb (str_is_empty (uc_ref d)) && negb (is_std_name (uc_ref d)) && has_units (uc_ref d) (us_S s)).
    + destruct (find_units (uc_ref d) (us_S s)) as [src|]; [|discriminate].
      destruct (clone_units src (us_st s)) as [child st1] eqn:Ec.
      destruct (rec child (us_with_st st1 s)) as [[[[s2 mv] ch] fn]| | |] eqn:Er; cbn [fbind] in H; try discriminate.
      destruct (IH _ _ _ _ _ H) as [Hg [Hn Hi]]. split.
      * eapply grows_trans; [apply (Hrec _ _ _ _ _ _ Er)|]. exact Hg.
      * rewrite Hn, Hi, u_set_ref_name, u_set_ref_imp. split; reflexivity.
    + apply (IH _ _ _ _ _ H).
Qed.

Lemma transfer_grows : forall fuel fx libs orphan u s s' m c n,
  transfer fuel fx libs orphan u s = FOk (s', m, c, n) -> grows (us_T s) (us_T s').
Proof.
  induction fuel as [|f IH]; intros fx libs orphan u s s' m c n H; cbn [transfer] in H; [discriminate|].
  destruct (models_equivalent_units fx libs (us_T s) (transfer_home orphan u s) (transfer_qname orphan u) (us_T s)) as [tg| | |];
    cbn [fbind] in H; try discriminate.
  destruct tg as [tname|].
  - destruct (String.eqb tname (u_name u)); inversion H; subst; [apply grows_refl | rewrite us_op_T; apply grows_refl].
  - destruct (transfer_kids (transfer f fx libs true) fx (List.length (u_defs u)) 0 u s) as [[u1 s1]| | |] eqn:Ek;
      cbn [fbind] in H; try discriminate.
    destruct (transfer_kids_grows _ fx (fun u s s' m c n => IH fx libs true u s s' m c n) _ _ _ _ _ _ Ek) as [Hg _].
    destruct (free_name (map u_name (us_T s1)) (u_name u1)) as [newname|]; [|discriminate].
    eapply grows_trans; [exact Hg|].
    destruct (negb (String.eqb (u_name u1) newname)); inversion H; subst; rewrite ?us_op_T;
      destruct orphan; cbn; eexists; reflexivity.
Qed.

(* transfer_reuse_or_fresh: a transferred units is re-used exactly when the target has an equivalent units (the first one, in
   the target's order, and then nothing is added); otherwise it is appended to the target under a name no units of the target
   has, which is its own name unless that is taken (then name_k); changedNames records the renaming *)
Theorem transfer_reuse_or_fresh : forall fuel fx libs orphan u s s' moved changed fname,
  transfer fuel fx libs orphan u s = FOk (s', moved, changed, fname) ->
  let home := transfer_home orphan u s in
  let q := transfer_qname orphan u in
  (moved = false /\ us_T s' = us_T s /\ us_S s' = us_S s /\ fname = u_name u /\
   exists t, In t (us_T s) /\ units_equivalent libs [us_T s; home] 0 (u_name t) 1 q = FOk true /\
     ((u_name t = u_name u /\ changed = []) \/ (u_name t <> u_name u /\ changed = [(u_name u, u_name t)])))
  \/
  (moved = true /\
   (forall t, In t (us_T s) -> units_equivalent_g fx libs [us_T s; home] 0 (u_name t) 1 q = FOk false) /\
   exists T1 u', grows (us_T s) T1 /\ us_T s' = T1 ++ [u'] /\ u_name u' = fname /\ u_imp u' = u_imp u /\
     ~ In fname (map u_name T1) /\
     ((fname = u_name u /\ changed = []) \/
      (fname <> u_name u /\ In (u_name u) (map u_name T1) /\ changed = [(u_name u, fname)] /\ exists k, fname = candidate (u_name u) k))).
Proof.
  intros [|f] fx libs orphan u s s' moved changed fname H home q; cbn [transfer] in H; [discriminate|].
  fold home in H. fold q in H.
  destruct (models_equivalent_units fx libs (us_T s) home q (us_T s)) as [tg| | |] eqn:Em; cbn [fbind] in H; try discriminate.
  destruct tg as [tname|].
  - left. destruct (meu_some _ _ _ _ _ _ _ Em) as [t [Hin [Hn He]]]. subst tname.
    destruct (String.eqb (u_name t) (u_name u)) eqn:En; inversion H; subst.
    + apply String.eqb_eq in En. repeat split; try reflexivity. exists t. split; [exact Hin|]. split; [exact He|]. left. split; [exact En | reflexivity].
    + apply String.eqb_neq in En. rewrite us_op_T, us_op_S. repeat split; try reflexivity.
      exists t. split; [exact Hin|]. split; [exact He|]. right. split; [exact En | reflexivity].
  - right. pose proof (meu_none _ _ _ _ _ _ Em) as Hnone.
    destruct (transfer_kids (transfer f fx libs true) fx (List.length (u_defs u)) 0 u s) as [[u1 s1]| | |] eqn:Ek;
      cbn [fbind] in H; try discriminate.
    destruct (transfer_kids_grows _ fx (fun u s s' m c n => transfer_grows f fx libs true u s s' m c n) _ _ _ _ _ _ Ek) as [Hg [Hn1 Hi1]].
    destruct (free_name (map u_name (us_T s1)) (u_name u1)) as [newname|] eqn:Ef; [|discriminate].
    assert (Hfree : ~ In newname (map u_name (us_T s1))).
    { unfold free_name in Ef. destruct (mem_str (u_name u1) (map u_name (us_T s1))) eqn:Emem.
      - apply (find_free_some _ _ _ _ _ Ef).
      - inversion Ef; subst. apply mem_str_false. exact Emem. }
    assert (Hshape : (newname = u_name u1 /\ mem_str (u_name u1) (map u_name (us_T s1)) = false) \/
                     (mem_str (u_name u1) (map u_name (us_T s1)) = true /\ exists k, newname = candidate (u_name u1) k)).
    { unfold free_name in Ef. destruct (mem_str (u_name u1) (map u_name (us_T s1))) eqn:Emem.
      - right. split; [reflexivity|]. destruct (find_free_some _ _ _ _ _ Ef) as [_ [j [_ [Hc _]]]]. exists (1 + j). exact Hc.
      - left. inversion Ef. split; reflexivity. }
    destruct (negb (String.eqb (u_name u1) newname)) eqn:Er.
    + inversion H; subst s' moved changed fname. apply negb_true_iff in Er. apply String.eqb_neq in Er.
      split; [reflexivity|]. split; [exact Hnone|].
      exists (us_T s1), (u_set_name newname u1). split; [exact Hg|]. split.
      * rewrite us_op_T. destruct orphan; reflexivity.
      * split; [reflexivity|]. split; [cbn; exact Hi1|]. split; [exact Hfree|].
        right. rewrite <- Hn1. destruct Hshape as [[E _]|[Hm Hk]]; [congruence|].
        split; [congruence|]. split; [apply mem_str_in; exact Hm|]. split; [reflexivity | exact Hk].
    + inversion H; subst s' moved changed fname. apply negb_false_iff in Er. apply String.eqb_eq in Er.
      split; [reflexivity|]. split; [exact Hnone|].
      exists (us_T s1), (u_set_name newname u1). split; [exact Hg|]. split.
      * destruct orphan; reflexivity.
      * split; [reflexivity|]. split; [cbn; exact Hi1|]. split; [exact Hfree|].
        left. split; [congruence | reflexivity].
Qed.

(* ================================================================================== a copy of first-level units is equivalent *)
From LC Require UnitsProofs.

Definition std_only (l : list unit_child) : Prop :=
  l <> [] /\ forall c, In c l -> is_std_name (uc_ref c) = true /\ convert_prefix (uc_prefix c) <> None.

Lemma fold_opt_std : forall (fx : UnitsDefs.fixes) (defined : bool) f w mi l h, (forall c, In c l -> is_std_name (uc_ref c) = true) ->
  fold_opt (fun c h => if is_std_name (uc_ref c) then Ok (Some h)
                       else match lookup w mi (uc_ref c) with
                            | Some _ => perform_test fx defined f w h mi (uc_ref c)
                            | None => Ok (if defined then None else Some h)
                            end) l h = Ok (Some h).
Proof.
  intros fx defined f w mi l. induction l as [|c r IH]; intros h H; cbn [fold_opt]; [reflexivity|].
  rewrite (H c (or_introl eq_refl)). apply IH. intros c' Hc. apply H. right. exact Hc.
Qed.

Lemma std_only_defined : forall fx f w mi n l, lookup w mi n = Some (Defs l) -> std_only l ->
  is_defined fx (S f) w mi n = Ok true.
Proof.
  intros fx f w mi n l Hl [_ Hs]. unfold is_defined. cbn [perform_test]. rewrite Hl.
  rewrite fold_opt_std; [reflexivity|]. intros c Hc. apply (Hs c Hc).
Qed.

Lemma fold_res_std : forall fx f w mi e l acc, (forall c, In c l -> is_std_name (uc_ref c) = true) ->
  fold_res (fun c a => if is_std_name (uc_ref c) then Ok (add_std (uc_ref c) (uc_exp c * e) a)
                       else match lookup w mi (uc_ref c) with
                            | None => Crash
                            | Some _ => umap_go fx f w mi (uc_ref c) (uc_exp c * e) a
                            end) l acc
  = Ok (fold_left (fun a c => add_std (uc_ref c) (uc_exp c * e) a) l acc).
Proof.
  intros fx f w mi e l. induction l as [|c r IH]; intros acc H; cbn [fold_res fold_left]; [reflexivity|].
  rewrite (H c (or_introl eq_refl)). apply IH. intros c' Hc. apply H. right. exact Hc.
Qed.

Lemma umap_go_S : forall fx f' w mi name e acc, umap_go fx (S f') w mi name e acc =
    match is_base (S f') w mi name with
    | Ok true => Ok (madd name e acc)
    | Ok false =>
        match lookup w mi name with
        | None => Crash
        | Some (Import mj r) =>
            if is_std_name name then Ok (add_std name e acc)
            else
            match lookup w mj r with
            | None => Crash
            | Some _ => umap_go fx f' w mj r (if fx_import fx then e else 1) acc
            end
        | Some (Defs l) =>
            if (Nat.eqb (List.length l) 0) && is_std_name name then Ok (add_std name e acc)
            else
              fold_res (fun c a =>
                if is_std_name (uc_ref c) then Ok (add_std (uc_ref c) (uc_exp c * e) a)
                else match lookup w mi (uc_ref c) with
                     | None => Crash
                     | Some _ => umap_go fx f' w mi (uc_ref c) (uc_exp c * e) a
                     end) l acc
        end
    | OutOfFuel => OutOfFuel
    | Crash => Crash
    end.
Proof. reflexivity. Qed.

Lemma std_only_map : forall fx f w mi n l, lookup w mi n = Some (Defs l) -> std_only l ->
  define_units_map fx (S (S f)) w (mi, n) = Ok (clean_map (fold_left (fun a c => add_std (uc_ref c) (uc_exp c * 1) a) l [])).
Proof.
  intros fx f w mi n l Hl [Hne Hs]. unfold define_units_map. cbn [fst snd]. rewrite umap_go_S.
  unfold is_base. cbn [is_base_h]. rewrite Hl.
  destruct l as [|c0 r]; [congruence|]. cbn [List.length Nat.eqb andb].
  rewrite fold_res_std; [reflexivity|]. intros c Hc. apply (Hs c Hc).
Qed.

Definition std_scale (l : list unit_child) : Q :=
  fold_left (fun s c => match convert_prefix (uc_prefix c) with
                        | Some p => (s + (uc_mult c + std_mult (uc_ref c) * uc_exp c + inject_Z p))%Q
                        | None => s
                        end) l 0%Q.

Lemma fold_opt_mult_std : forall fx f w mi l (s : Q),
  (forall c, In c l -> is_std_name (uc_ref c) = true /\ convert_prefix (uc_prefix c) <> None) ->
  fold_opt (fun c s =>
            match convert_prefix (uc_prefix c) with
            | None => Ok None
            | Some p =>
                if is_std_name (uc_ref c)
                then Ok (Some (s + (uc_mult c + std_mult (uc_ref c) * uc_exp c + inject_Z p))%Q)
                else match lookup w mi (uc_ref c) with
                     | None => Ok None
                     | Some _ => match mult_go fx f w mi (uc_ref c) with
                                 | Ok (Some b) => Ok (Some (s + (uc_mult c + (0 + b * 1) * uc_exp c + inject_Z p))%Q)
                                 | x => x
                                 end
                     end
            end) l s
  = Ok (Some (fold_left (fun s c => match convert_prefix (uc_prefix c) with
                                    | Some p => (s + (uc_mult c + std_mult (uc_ref c) * uc_exp c + inject_Z p))%Q
                                    | None => s
                                    end) l s)).
Proof.
  intros fx f w mi l. induction l as [|c l' IH]; intros s Hs; cbn [fold_opt fold_left]; [reflexivity|].
  destruct (Hs c (or_introl eq_refl)) as [Hstd Hp].
  destruct (convert_prefix (uc_prefix c)) as [p|]; [|congruence]. rewrite Hstd.
  apply IH. intros c' Hc. apply Hs. right. exact Hc.
Qed.

Lemma std_only_mult : forall fx f w mi n l, lookup w mi n = Some (Defs l) -> std_only l ->
  mult_go fx (S f) w mi n = Ok (Some (std_scale l)).
Proof.
  intros fx f w mi n l Hl [Hne Hs]. cbn [mult_go]. rewrite Hl.
  destruct l as [|c0 r] eqn:El; [congruence|]. rewrite <- El in *.
  replace (Nat.eqb (List.length l) 0) with false by (rewrite El; reflexivity).
  unfold std_scale. apply fold_opt_mult_std. exact Hs.
Qed.

(* two units with the same standard-only children are equivalent, whatever their names and models *)
Lemma std_only_equivalent : forall fx f w ia na ib nb l,
  lookup w ia na = Some (Defs l) -> lookup w ib nb = Some (Defs l) -> std_only l ->
  equivalent fx (S (S f)) w (Some (ia, na)) (Some (ib, nb)) = Ok true.
Proof.
  intros fx f w ia na ib nb l Ha Hb Hs.
  apply UnitsProofs.equivalent_iff.
  pose proof (std_only_defined fx (S f) w ia na l Ha Hs) as Da.
  pose proof (std_only_defined fx (S f) w ib nb l Hb Hs) as Db.
  pose proof (std_only_map fx f w ia na l Ha Hs) as Ma.
  pose proof (std_only_map fx f w ib nb l Hb Hs) as Mb.
  assert (Hc : compatible fx (S (S f)) w (Some (ia, na)) (Some (ib, nb)) = Ok true).
  { apply (UnitsProofs.compatible_iff_same_maps fx (S (S f)) w (ia, na) (ib, nb) _ _ Da Db Ma Mb). intros k. reflexivity. }
  split; [exact Hc|].
  unfold scaling_factor. rewrite Hc. cbn [fst snd].
  rewrite (std_only_mult fx (S f) w ia na l Ha Hs), (std_only_mult fx (S f) w ib nb l Hb Hs).
  eexists. split; [reflexivity|]. ring.
Qed.

Lemma transfer_kids_std : forall rec fx k i u s, (forall c, In c (u_defs u) -> is_std_name (uc_ref c) = true) ->
  transfer_kids rec fx k i u s = FOk (u, s).
Proof.
  intros rec fx. induction k as [|k IH]; intros i u s H; cbn [transfer_kids]; [reflexivity|].
  destruct (nth_error (u_defs u) i) as [d|] eqn:E; [|reflexivity].
  rewrite (H d (nth_error_In _ _ E)). rewrite andb_false_r. cbn [andb]. apply IH. exact H.
Qed.

Lemma assoc_env_of : forall sh us n, assoc n (env_of sh us) =
  match find_units n us with
  | Some u => Some (match u_imp u with Some i => Import (sh + i_lib i) (i_ref i) | None => Defs (u_defs u) end)
  | None => None
  end.
Proof.
  intros sh us n. induction us as [|u r IH]; cbn [env_of map assoc find_units]; [reflexivity|].
  rewrite String.eqb_sym. destruct (String.eqb (u_name u) n); [reflexivity|]. exact IH.
Qed.

Lemma find_units_app_new : forall n T u, ~ In n (map u_name T) -> u_name u = n -> find_units n (T ++ [u]) = Some u.
Proof.
  intros n T u. induction T as [|x r IH]; intros Hn Hu; cbn [app find_units].
  - rewrite Hu, String.eqb_refl. reflexivity.
  - destruct (String.eqb (u_name x) n) eqn:E.
    + apply String.eqb_eq in E. exfalso. apply Hn. left. exact E.
    + apply IH; [|exact Hu]. intros Hin. apply Hn. right. exact Hin.
Qed.

Lemma world_size_ge : forall (w : world) a, (a <= fold_left (fun n e => (n + List.length e)%nat) w a)%nat.
Proof. induction w as [|e r IH]; intros a; cbn [fold_left]; [lia|]. specialize (IH (a + List.length e)%nat). lia. Qed.

Lemma fuel_for_two : forall (e1 e2 : env) (rest : world), e1 <> [] -> e2 <> [] -> exists f', fuel_for (e1 :: e2 :: rest) = S (S f').
Proof.
  intros e1 e2 rest H1 H2. unfold fuel_for, world_size. cbn [fold_left].
  pose proof (world_size_ge rest (0 + List.length e1 + List.length e2)) as Hge.
  destruct e1 as [|x1 r1]; [congruence|]. destruct e2 as [|x2 r2]; [congruence|]. cbn [List.length] in *.
  destruct (fold_left (fun n e => (n + List.length e)%nat) rest (0 + S (List.length r1) + S (List.length r2))%nat) as [|k] eqn:E; [lia|].
  exists k. reflexivity.
Qed.

(* transfer_preserves_meaning_partial: for a units over standard units only (not a user-defined base unit), the name its
   usages carry after the transfer denotes, in the target model, units equivalent to the original *)
Theorem transfer_preserves_meaning_partial : forall fuel fx libs orphan u s s' moved changed fname,
  transfer fuel fx libs orphan u s = FOk (s', moved, changed, fname) ->
  u_imp u = None -> std_only (u_defs u) ->
  (orphan = false -> find_units (u_name u) (us_S s) = Some u) ->
  let home := transfer_home orphan u s in
  let q := transfer_qname orphan u in
  let usage_name := match changed with [(_, n)] => n | _ => u_name u end in
  units_equivalent libs [us_T s'; home] 0 usage_name 1 q = FOk true.
Proof.
  intros fuel fx libs orphan u s s' moved changed fname H Himp Hstd Hhome home q usage_name.
  assert (Hh : exists hu, find_units q home = Some hu /\ u_defs hu = u_defs u /\ u_imp hu = u_imp u).
  { unfold home, q, transfer_home, transfer_qname. destruct orphan.
    - exists (orphan_home u). cbn [find_units]. rewrite String.eqb_refl. split; [reflexivity|].
      unfold orphan_home. destruct (u_defs u) eqn:Ed; cbn; rewrite ?Ed; split; reflexivity.
    - exists u. split; [apply Hhome; reflexivity | split; reflexivity]. }
  destruct Hh as [hu [Hh [Hhd Hhi]]].
  destruct (transfer_reuse_or_fresh _ _ _ _ _ _ _ _ _ _ H) as [[Hm [HT [_ [_ [t [Hin [He Hc]]]]]]]|[Hm [_ _]]].
  - fold home in He. fold q in He. rewrite HT. unfold usage_name.
    destruct Hc as [[En Ec]|[En Ec]]; rewrite Ec; [rewrite <- En at 1|]; exact He.
  - (* added: redo the computation, the children loop does nothing *)
    destruct fuel as [|f]; cbn [transfer] in H; [discriminate|]. fold home in H. fold q in H.
    destruct (models_equivalent_units fx libs (us_T s) home q (us_T s)) as [tg| | |]; cbn [fbind] in H; try discriminate.
    destruct tg as [tname|]; [destruct (String.eqb tname (u_name u)); inversion H; subst; discriminate|].
    rewrite transfer_kids_std in H by (intros c Hc; apply (proj2 Hstd c Hc)). cbn [fbind] in H.
    destruct (free_name (map u_name (us_T s)) (u_name u)) as [newname|] eqn:Ef; [|discriminate].
    assert (Hfree : ~ In newname (map u_name (us_T s))).
    { destruct (free_name_total (map u_name (us_T s)) (u_name u)) as [c [Hc1 Hc2]]. congruence. }
    assert (HT : us_T s' = us_T s ++ [u_set_name newname u] /\ usage_name = newname).
    { unfold usage_name. destruct (negb (String.eqb (u_name u) newname)) eqn:Er; inversion H; subst; rewrite ?us_op_T.
      - split; [destruct orphan; reflexivity | reflexivity].
      - apply negb_false_iff in Er. apply String.eqb_eq in Er. split; [destruct orphan; reflexivity | exact Er]. }
    destruct HT as [HT Hun]. rewrite HT, Hun.
    unfold units_equivalent. set (w := mk_world [us_T s ++ [u_set_name newname u]; home] libs).
    assert (Hf : exists f', fuel_for w = S (S f')).
    { unfold w, mk_world. cbn [map app]. apply fuel_for_two.
      - unfold env_of. destruct (us_T s); discriminate.
      - unfold env_of. destruct home; [discriminate | discriminate]. }
    destruct Hf as [f' Hf]. rewrite Hf.
    rewrite (std_only_equivalent _ f' w 0 newname 1 q (u_defs u)); [reflexivity| | |exact Hstd].
    + unfold lookup, w, mk_world. cbn [map app nth_error]. rewrite assoc_env_of.
      rewrite (find_units_app_new newname (us_T s) (u_set_name newname u) Hfree eq_refl). cbn. rewrite Himp. reflexivity.
    + unfold lookup, w, mk_world. cbn [map app nth_error]. rewrite assoc_env_of, Hh, Hhi, Himp, Hhd. reflexivity.
Qed.

(* ================================================================================== the units claim at full strength is false *)
(* C06-units-name-capture.  Importer: units mm = ampere.  Imported model: units mm = second, u = ampere, w = kilo u; component c
   with x in u and y in w.  u is recognised as equivalent to the importer's mm, and that NAME is written into w and into the
   usages, where it is then read as the imported model's mm: x ends up in mm_1 = second. *)
Definition wit_uc (r p : string) (e m : Z) : unit_child := {| uc_ref := r; uc_prefix := p; uc_exp := inject_Z e; uc_mult := inject_Z m |}.
Definition wit_var (o : nat) (n u i : string) : variable :=
  {| v_oid := o; v_name := n; v_units := Some u; v_init := i; v_iface := "public_and_private" |}.
Definition wit_lib : model :=
  {| m_own := OLib 0; m_name := "m1";
     m_units := [ {| u_own := OLib 0; u_name := "mm"; u_imp := None; u_defs := [wit_uc "second" "" 1 0] |};
                  {| u_own := OLib 0; u_name := "u"; u_imp := None; u_defs := [wit_uc "ampere" "" 1 0] |};
                  {| u_own := OLib 0; u_name := "w"; u_imp := None; u_defs := [wit_uc "u" "kilo" 1 0] |} ];
     m_comps := [Comp (OLib 0) "c" None [] [wit_var 10 "x" "u" "2"; wit_var 11 "y" "w" "3"] []]; m_eqs := [] |}.
Definition wit_origin : model :=
  {| m_own := OOrigin; m_name := "m0";
     m_units := [ {| u_own := OOrigin; u_name := "mm"; u_imp := None; u_defs := [wit_uc "ampere" "" 1 0] |} ];
     m_comps := [Comp OOrigin "top" None [] [wit_var 0 "z" "mm" "1"] [];
                 Comp OOrigin "c" (Some {| i_url := "f1.cellml"; i_lib := 0; i_ref := "c" |}) [] [] []];
     m_eqs := [] |}.

(* the units of variable vn of top-level component cn *)
Definition units_of_var (m : model) (cn vn : string) : option string :=
  match find (fun c => String.eqb (c_name c) cn) (m_comps m) with
  | Some c => match find (fun v => String.eqb (v_name v) vn) (c_vars c) with Some v => v_units v | None => None end
  | None => None
  end.

Lemma units_meaning_refuted :
  exists libs origin n0 flat st new_units,
    flatten_model 10 50 flat_current_fixes libs origin n0 = FOk (flat, st) /\
    units_of_var flat "c" "x" = Some new_units /\
    (* the imported component's x was in units u of the imported model *)
    units_equivalent libs [m_units flat; m_units wit_lib] 0 new_units 1 "u" = FOk false.
Proof.
  exists [wit_lib], wit_origin, 100.
  destruct (flatten_model 10 50 flat_current_fixes [wit_lib] wit_origin 100) as [[flat st]| | |] eqn:E;
    try (vm_compute in E; discriminate).
  exists flat, st, "mm_1". split; [reflexivity|].
  vm_compute in E. inversion E; subst flat st. split; vm_compute; reflexivity.
Qed.

(* ================================================================================== ids of imported connections are lost *)
(* K36 for flattening: the equivalences inside an imported component and the equivalences of its placeholder variables are
   re-created with the two-argument addEquivalence: their mapping and connection ids are gone. *)
Definition ids_var (o : nat) (n : string) (u : option string) : variable :=
  {| v_oid := o; v_name := n; v_units := u; v_init := ""; v_iface := "public_and_private" |}.
Definition ids_lib : model :=
  {| m_own := OLib 0; m_name := "m1"; m_units := [];
     m_comps := [Comp (OLib 0) "c" None [] [ids_var 10 "x" (Some "metre")] [Comp (OLib 0) "k1" None [] [ids_var 11 "a" (Some "metre")] []]];
     m_eqs := [{| e_a := 10; e_b := 11; e_map := "map1"; e_conn := "conn1" |}] |}.
Definition ids_origin : model :=
  {| m_own := OOrigin; m_name := "m0"; m_units := [];
     m_comps := [Comp OOrigin "top" None [] [ids_var 0 "z" (Some "metre")] [];
                 Comp OOrigin "c" (Some {| i_url := "f1.cellml"; i_lib := 0; i_ref := "c" |}) [] [ids_var 1 "x" None] []];
     m_eqs := [{| e_a := 0; e_b := 1; e_map := "map0"; e_conn := "conn0" |}] |}.

Lemma flatten_ids_refuted :
  exists flat st, flatten_model 10 50 flat_current_fixes [ids_lib] ids_origin 100 = FOk (flat, st) /\
    List.length (m_eqs flat) = 2 /\ forall e, In e (m_eqs flat) -> e_map e = "" /\ e_conn e = "".
Proof.
  eexists. eexists. split; [vm_compute; reflexivity|]. split; [reflexivity|].
  intros e [H|[H|[]]]; subst e; split; reflexivity.
Qed.

(* with the candidate repair (fx_ids) both keep their ids *)
Lemma flatten_ids_repaired :
  exists flat st, flatten_model 10 50 flat_all_fixed [ids_lib] ids_origin 100 = FOk (flat, st) /\
    map (fun e => (e_map e, e_conn e)) (m_eqs flat) = [("map0", "conn0"); ("map1", "conn1")].
Proof. eexists. eexists. split; vm_compute; reflexivity. Qed.

(* ================================================================================== what the recorded map contains *)

Definition em_has (m : eqmap) (k t : path) : Prop := exists ts, In (k, ts) m /\ In t ts.

Lemma em_add_has : forall k t m k' t', em_has (em_add k t m) k' t' <-> (k' = k /\ t' = t) \/ em_has m k' t'.
Proof.
  intros k t m. induction m as [|[k0 ts0] r IH]; intros k' t'; cbn [em_add].
  - split.
    + intros [ts [[E|[]] Ht]]. inversion E; subst. destruct Ht as [Ht|[]]. left. split; [reflexivity | symmetry; exact Ht].
    + intros [[Ek Et]|[ts [[] _]]]. subst. exists [t]. split; left; reflexivity.
  - destruct (path_eqb k k0) eqn:Ek.
    + apply path_eqb_eq in Ek. subst k0. split.
      * intros [ts [[E|Hin] Ht]].
        -- inversion E; subst. apply in_app_or in Ht. destruct Ht as [Ht|[Ht|[]]].
           ++ right. exists ts0. split; [left; reflexivity | exact Ht].
           ++ left. split; [reflexivity | symmetry; exact Ht].
        -- right. exists ts. split; [right; exact Hin | exact Ht].
      * intros [[E1 E2]|[ts [[E|Hin] Ht]]].
        -- subst. exists (ts0 ++ [t]). split; [left; reflexivity | apply in_or_app; right; left; reflexivity].
        -- inversion E; subst. exists (ts ++ [t]). split; [left; reflexivity | apply in_or_app; left; exact Ht].
        -- exists ts. split; [right; exact Hin | exact Ht].
    + destruct (lex_ltb k k0).
      * split.
        -- intros [ts [[E|Hin] Ht]].
           ++ inversion E; subst. destruct Ht as [Ht|[]]. left. split; [reflexivity | symmetry; exact Ht].
           ++ right. exists ts. split; assumption.
        -- intros [[E1 E2]|[ts [Hin Ht]]].
           ++ subst. exists [t]. split; left; reflexivity.
           ++ exists ts. split; [right; exact Hin | exact Ht].
      * split.
        -- intros [ts [[E|Hin] Ht]].
           ++ right. exists ts. split; [left; exact E | exact Ht].
           ++ assert (Hh : em_has (em_add k t r) k' t') by (exists ts; split; assumption).
              apply IH in Hh. destruct Hh as [Hl|[ts' [Hin' Ht']]]; [left; exact Hl|].
              right. exists ts'. split; [right; exact Hin' | exact Ht'].
        -- intros [Hl|[ts [[E|Hin] Ht]]].
           ++ assert (Hh : em_has (em_add k t r) k' t') by (apply IH; left; exact Hl).
              destruct Hh as [ts' [Hin' Ht']]. exists ts'. split; [right; exact Hin' | exact Ht'].
           ++ exists ts. split; [left; exact E | exact Ht].
           ++ assert (Hh : em_has (em_add k t r) k' t') by (apply IH; right; exists ts; split; assumption).
              destruct Hh as [ts' [Hin' Ht']]. exists ts'. split; [right; exact Hin' | exact Ht'].
Qed.

(* variable v (at stack key) has an equivalent variable that index_stack_of finds at t *)
Definition equiv_at (m : model) (v : variable) (t : path) : Prop :=
  exists e, In e (eqs_of (m_eqs m) (v_oid v)) /\ index_stack_of m (fst (fst e)) = Some t.

Lemma record_var_spec : forall m key v acc k t,
  em_has (record_var m key v acc) k t <-> em_has acc k t \/ (k = key /\ equiv_at m v t).
Proof.
  intros m key v acc k t. unfold record_var, equiv_at. generalize (eqs_of (m_eqs m) (v_oid v)) as l. intros l. revert acc.
  induction l as [|e r IH]; intros acc; cbn [fold_left].
  - split; [intros H; left; exact H | intros [H|[_ [e [[] _]]]]; exact H].
  - rewrite IH. destruct (index_stack_of m (fst (fst e))) as [p|] eqn:Ep.
    + rewrite em_add_has. split.
      * intros [[[E1 E2]|H]|[Ek [e' [Hin He]]]].
        -- right. subst. split; [reflexivity|]. exists e. split; [left; reflexivity | exact Ep].
        -- left. exact H.
        -- right. split; [exact Ek|]. exists e'. split; [right; exact Hin | exact He].
      * intros [H|[Ek [e' [[E|Hin] He]]]].
        -- left. right. exact H.
        -- subst e'. left. left. split; [exact Ek | congruence].
        -- right. split; [exact Ek|]. exists e'. split; assumption.
    + split.
      * intros [H|[Ek [e' [Hin He]]]]; [left; exact H|]. right. split; [exact Ek|]. exists e'. split; [right; exact Hin | exact He].
      * intros [H|[Ek [e' [[E|Hin] He]]]]; [left; exact H | subst e'; congruence|]. right. split; [exact Ek|]. exists e'. split; assumption.
Qed.

Lemma record_vars_spec : forall m stack l i acc k t,
  em_has (record_vars m stack i l acc) k t <->
  em_has acc k t \/ exists v, In (k, v) (idx_vars stack i l) /\ equiv_at m v t.
Proof.
  intros m stack l. induction l as [|v r IH]; intros i acc k t; cbn [record_vars idx_vars].
  - split; [intros H; left; exact H | intros [H|[v [[] _]]]; exact H].
  - rewrite IH, record_var_spec. split.
    + intros [[H|[Ek He]]|[w [Hin He]]].
      * left. exact H.
      * right. exists v. split; [left; subst; reflexivity | exact He].
      * right. exists w. split; [right; exact Hin | exact He].
    + intros [H|[w [[E|Hin] He]]].
      * left. left. exact H.
      * inversion E; subst. left. right. split; [reflexivity | exact He].
      * right. exists w. split; assumption.
Qed.

Lemma record_comp_unfold : forall m stack o n i mt vars kids acc,
  record_comp m stack (Comp o n i mt vars kids) acc = record_comps m stack 0 kids (record_vars m stack 0 vars acc).
Proof.
  intros m stack o n i mt vars kids acc. cbn [record_comp]. generalize (record_vars m stack 0 vars acc) as a. generalize 0 as j.
  induction kids as [|k r IH]; intros j a; [reflexivity|]. cbn [record_comps]. apply IH.
Qed.

Lemma comp_vars_at_unfold : forall pre o n i mt vars kids,
  comp_vars_at pre (Comp o n i mt vars kids) = idx_vars pre 0 vars ++ comps_vars_at pre 0 kids.
Proof.
  intros pre o n i mt vars kids. cbn [comp_vars_at]. f_equal. generalize 0 as j.
  induction kids as [|k r IH]; intros j; [reflexivity|]. cbn [comps_vars_at]. rewrite IH. reflexivity.
Qed.

Section CompInd.
  Variable P : comp -> Prop.
  Hypothesis HP : forall o n i m v kids, Forall P kids -> P (Comp o n i m v kids).
  Fixpoint comp_ind3 (c : comp) : P c :=
    match c with
    | Comp o n i m v kids =>
        HP o n i m v kids ((fix go (l : list comp) : Forall P l :=
                             match l with
                             | [] => Forall_nil P
                             | k :: r => Forall_cons k (comp_ind3 k) (go r)
                             end) kids)
    end.
End CompInd.

(* record_comp_spec: the recorded map holds exactly, for every variable of the component's encapsulation tree (at its index
   stack), the index stacks of its equivalent variables that live in the same model *)
Theorem record_comp_spec : forall m c stack acc k t,
  em_has (record_comp m stack c acc) k t <->
  em_has acc k t \/ exists v, In (k, v) (comp_vars_at stack c) /\ equiv_at m v t.
Proof.
  intros m c. induction c as [o n i mt vars kids IHk] using comp_ind3. intros stack acc k t.
  rewrite record_comp_unfold, comp_vars_at_unfold.
  assert (Hks : forall l j a, Forall (fun c => forall stack acc k t,
                  em_has (record_comp m stack c acc) k t <-> em_has acc k t \/ exists v, In (k, v) (comp_vars_at stack c) /\ equiv_at m v t) l ->
                em_has (record_comps m stack j l a) k t <-> em_has a k t \/ exists v, In (k, v) (comps_vars_at stack j l) /\ equiv_at m v t).
  { induction l as [|c0 r IHr]; intros j a Hall; cbn [record_comps comps_vars_at].
    - split; [intros H; left; exact H | intros [H|[v [[] _]]]; exact H].
    - inversion Hall as [|? ? Hc0 Hr]; subst. rewrite (IHr _ _ Hr), Hc0. split.
      + intros [[H|[v [Hin He]]]|[v [Hin He]]].
        * left. exact H.
        * right. exists v. split; [apply in_or_app; left; exact Hin | exact He].
        * right. exists v. split; [apply in_or_app; right; exact Hin | exact He].
      + intros [H|[v [Hin He]]]; [left; left; exact H|]. apply in_app_or in Hin. destruct Hin as [Hin|Hin].
        * left. right. exists v. split; assumption.
        * right. exists v. split; assumption. }
  rewrite (Hks kids 0 _ IHk), record_vars_spec. split.
  - intros [[H|[v [Hin He]]]|[v [Hin He]]].
    + left. exact H.
    + right. exists v. split; [apply in_or_app; left; exact Hin | exact He].
    + right. exists v. split; [apply in_or_app; right; exact Hin | exact He].
  - intros [H|[v [Hin He]]]; [left; left; exact H|]. apply in_app_or in Hin. destruct Hin as [Hin|Hin].
    + left. right. exists v. split; assumption.
    + right. exists v. split; assumption.
Qed.

(* ---- the recorded map is a std::map: keys strictly increasing, every entry has a target *)

Lemma lex_ltb_irrefl : forall a, lex_ltb a a = false.
Proof. induction a as [|x a IH]; cbn [lex_ltb]; [reflexivity|]. rewrite Nat.ltb_irrefl. exact IH. Qed.

Lemma lex_ltb_trans : forall a b c, lex_ltb a b = true -> lex_ltb b c = true -> lex_ltb a c = true.
Proof.
  induction a as [|x a IH]; intros [|y b] [|z c] H1 H2; cbn [lex_ltb] in *; try discriminate; try reflexivity.
  destruct (Nat.ltb x y) eqn:Exy.
  - apply Nat.ltb_lt in Exy. destruct (Nat.ltb y z) eqn:Eyz.
    + apply Nat.ltb_lt in Eyz. replace (Nat.ltb x z) with true by (symmetry; apply Nat.ltb_lt; lia). reflexivity.
    + destruct (Nat.ltb z y) eqn:Ezy; [discriminate|]. apply Nat.ltb_ge in Eyz. apply Nat.ltb_ge in Ezy.
      replace (Nat.ltb x z) with true by (symmetry; apply Nat.ltb_lt; lia). reflexivity.
  - destruct (Nat.ltb y x) eqn:Eyx; [discriminate|]. apply Nat.ltb_ge in Exy. apply Nat.ltb_ge in Eyx. assert (x = y) by lia. subst y.
    destruct (Nat.ltb x z) eqn:Exz; [reflexivity|]. destruct (Nat.ltb z x); [discriminate|]. apply (IH _ _ H1 H2).
Qed.

Lemma lex_ltb_total : forall a b, path_eqb a b = false -> lex_ltb a b = false -> lex_ltb b a = true.
Proof.
  induction a as [|x a IH]; intros [|y b] H1 H2; cbn [lex_ltb path_eqb] in *; try discriminate; try reflexivity.
  destruct (Nat.ltb x y) eqn:Exy; [discriminate|]. destruct (Nat.ltb y x) eqn:Eyx; [reflexivity|].
  apply Nat.ltb_ge in Exy. apply Nat.ltb_ge in Eyx. assert (x = y) by lia. subst y. rewrite Nat.eqb_refl in H1. cbn [andb] in H1.
  apply IH; assumption.
Qed.

Definition key_lt (a b : path) : Prop := lex_ltb a b = true.

Record em_ok (m : eqmap) : Prop := { eo_sorted : StronglySorted key_lt (em_keys m); eo_nonempty : Forall (fun kv => snd kv <> []) m }.

Lemma em_add_keys_in : forall k t m x, In x (em_keys (em_add k t m)) -> x = k \/ In x (em_keys m).
Proof.
  intros k t m. induction m as [|[k0 ts0] r IH]; intros x H; cbn [em_add em_keys map] in *.
  - destruct H as [H|[]]. left. symmetry. exact H.
  - destruct (path_eqb k k0); [right; exact H|]. destruct (lex_ltb k k0).
    + destruct H as [H|H]; [left; symmetry; exact H | right; exact H].
    + destruct H as [H|H]; [right; left; exact H|]. destruct (IH _ H) as [E|E]; [left; exact E | right; right; exact E].
Qed.

Lemma em_add_ok : forall k t m, em_ok m -> em_ok (em_add k t m).
Proof.
  intros k t m. induction m as [|[k0 ts0] r IH]; intros [Hs Hn]; cbn [em_add].
  - constructor; cbn; [constructor; constructor | constructor; [discriminate | constructor]].
  - cbn [em_keys map] in Hs. inversion Hs as [|? ? Hs' Hlt]; subst. inversion Hn as [|? ? Hn0 Hn']; subst.
    destruct (path_eqb k k0) eqn:Ek.
    + constructor; cbn [em_keys map]; [constructor; assumption|]. constructor; [cbn; destruct ts0; discriminate | exact Hn'].
    + destruct (lex_ltb k k0) eqn:El.
      * constructor; cbn [em_keys map].
        -- constructor; [constructor; assumption|]. constructor; [exact El|].
           rewrite Forall_forall in *. intros x Hx. unfold key_lt. apply (lex_ltb_trans _ _ _ El (Hlt x Hx)).
        -- constructor; [discriminate | constructor; assumption].
      * assert (Hr : em_ok r) by (constructor; assumption). destruct (IH Hr) as [Hs2 Hn2].
        constructor; cbn [em_keys map].
        -- constructor; [exact Hs2|]. rewrite Forall_forall in *. intros x Hx. destruct (em_add_keys_in _ _ _ _ Hx) as [E|E].
           ++ subst x. unfold key_lt. cbn [fst]. apply lex_ltb_total; [exact Ek | exact El].
           ++ apply Hlt. exact E.
        -- constructor; assumption.
Qed.

Lemma em_ok_nodup : forall m, em_ok m -> NoDup (em_keys m).
Proof.
  intros m [Hs _]. induction Hs as [|k r Hs IH Hlt]; constructor; [|exact IH].
  intros Hin. rewrite Forall_forall in Hlt. specialize (Hlt k Hin). unfold key_lt in Hlt. rewrite lex_ltb_irrefl in Hlt. discriminate.
Qed.

Lemma record_var_ok : forall m key v acc, em_ok acc -> em_ok (record_var m key v acc).
Proof.
  intros m key v acc. unfold record_var. generalize (eqs_of (m_eqs m) (v_oid v)) as l. intros l. revert acc.
  induction l as [|e r IH]; intros acc H; cbn [fold_left]; [exact H|]. apply IH.
  destruct (index_stack_of m (fst (fst e))); [apply em_add_ok; exact H | exact H].
Qed.

Lemma record_vars_ok : forall m stack l i acc, em_ok acc -> em_ok (record_vars m stack i l acc).
Proof.
  intros m stack l. induction l as [|v r IH]; intros i acc H; cbn [record_vars]; [exact H|]. apply IH. apply record_var_ok. exact H.
Qed.

Lemma record_comp_ok : forall m c stack acc, em_ok acc -> em_ok (record_comp m stack c acc).
Proof.
  intros m c. induction c as [o n i mt vars kids IHk] using comp_ind3. intros stack acc H. rewrite record_comp_unfold.
  assert (Hks : forall l j a, Forall (fun c => forall stack acc, em_ok acc -> em_ok (record_comp m stack c acc)) l -> em_ok a ->
                em_ok (record_comps m stack j l a)).
  { induction l as [|c0 r IHr]; intros j a Hall Ha; cbn [record_comps]; [exact Ha|]. inversion Hall; subst. apply IHr; auto. }
  apply Hks; [exact IHk | apply record_vars_ok; exact H].
Qed.

(* the stacks of comp_vars_at extend the given prefix *)
Lemma idx_vars_prefix : forall pre l i k v, In (k, v) (idx_vars pre i l) -> exists r, k = pre ++ r.
Proof.
  intros pre l. induction l as [|x r IH]; intros i k v H; [destruct H|]. cbn [idx_vars] in H.
  destruct H as [E|H]; [inversion E; eexists; reflexivity | apply (IH _ _ _ H)].
Qed.

Lemma comp_vars_at_prefix : forall c pre k v, In (k, v) (comp_vars_at pre c) -> exists r, k = pre ++ r.
Proof.
  intros c. induction c as [o n i mt vars kids IHk] using comp_ind3. intros pre k v H. rewrite comp_vars_at_unfold in H.
  apply in_app_or in H. destruct H as [H|H]; [apply (idx_vars_prefix _ _ _ _ _ H)|].
  assert (Hks : forall l j, Forall (fun c => forall pre k v, In (k, v) (comp_vars_at pre c) -> exists r, k = pre ++ r) l ->
                In (k, v) (comps_vars_at pre j l) -> exists r, k = pre ++ r).
  { induction l as [|c0 r IHr]; intros j Hall Hin; [destruct Hin|]. inversion Hall as [|? ? Hc0 Hr]; subst. cbn [comps_vars_at] in Hin.
    apply in_app_or in Hin. destruct Hin as [Hin|Hin]; [|apply (IHr _ Hr Hin)].
    destruct (Hc0 _ _ _ Hin) as [r0 Hr0]. exists ([j] ++ r0). rewrite Hr0. rewrite <- app_assoc. reflexivity. }
  apply (Hks kids 0 IHk H).
Qed.

Lemma record_comp_keys : forall m c stack k, In k (em_keys (record_comp m stack c [])) -> exists r, k = stack ++ r.
Proof.
  intros m c stack k Hin.
  assert (Hok : em_ok (record_comp m stack c [])) by (apply record_comp_ok; constructor; constructor).
  unfold em_keys in Hin. apply in_map_iff in Hin. destruct Hin as [[k0 ts] [E Hin]]. cbn in E. subst k0.
  destruct Hok as [_ Hn]. rewrite Forall_forall in Hn. specialize (Hn _ Hin). cbn in Hn.
  destruct ts as [|t ts']; [congruence|].
  assert (Hh : em_has (record_comp m stack c []) k t) by (exists (t :: ts'); split; [exact Hin | left; reflexivity]).
  apply record_comp_spec in Hh. destruct Hh as [[ts0 [[] _]]|[v [Hv _]]]. apply (comp_vars_at_prefix _ _ _ _ Hv).
Qed.

Lemma app_inv_prefix : forall (A : Type) (p a b : list A), p ++ a = p ++ b -> a = b.
Proof. intros A p. induction p as [|x p IH]; intros a b H; cbn in H; [exact H|]. inversion H. apply IH. assumption. Qed.

Lemma record_comp_rebased_nodup : forall m c origin dest,
  NoDup (map (fun kv => rebase_stack (fst kv) origin dest) (record_comp m origin c [])).
Proof.
  intros m c origin dest.
  assert (Hok : em_ok (record_comp m origin c [])) by (apply record_comp_ok; constructor; constructor).
  pose proof (em_ok_nodup _ Hok) as Hnd. pose proof (record_comp_keys m c origin) as Hpre.
  unfold em_keys in *. revert Hnd Hpre. generalize (record_comp m origin c []) as em. intros em.
  induction em as [|[k ts] r IH]; intros Hnd Hpre; cbn [map]; [constructor|].
  cbn [map fst] in Hnd. inversion Hnd as [|? ? Hn Hr]; subst. constructor.
  - intros Hin. apply in_map_iff in Hin. destruct Hin as [[k2 ts2] [E Hin2]]. cbn [fst] in E.
    destruct (Hpre k (or_introl eq_refl)) as [r1 E1].
    destruct (Hpre k2 (or_intror (in_map fst _ _ Hin2))) as [r2 E2]. subst k k2.
    rewrite !rebase_stack_prefix in E. apply app_inv_prefix in E. subst r2.
    apply Hn. apply in_map_iff. exists (origin ++ r1, ts2). split; [reflexivity | exact Hin2].
  - apply IH; [exact Hr|]. intros x Hx. apply Hpre. right. exact Hx.
Qed.

(* apply_generate: the equivalences between variables of the imported component's encapsulation tree, as recorded from the
   library model, are re-created between the variables at the same relative stacks below the destination *)
Theorem apply_generate_recreates : forall (L : model) (icomp : comp) (origin dest : path) cs eqs eqs',
  dest <> [] ->
  apply_map cs (rebase_map (record_comp L origin icomp []) origin dest) eqs = FOk eqs' ->
  forall rk rt i v v1 v2,
    In (origin ++ rk, v) (comp_vars_at origin icomp) ->            (* v: a variable of the imported tree, at relative stack rk *)
    equiv_at L v (origin ++ rt ++ [i]) ->                          (* equivalent to the variable at relative stack rt ++ [i] *)
    var_located_at cs (dest ++ rk) = LVar v1 -> var_located_at cs (dest ++ rt ++ [i]) = LVar v2 -> v_oid v1 <> v_oid v2 ->
    has_pair eqs' (v_oid v1) (v_oid v2).
Proof.
  intros L icomp origin dest cs eqs eqs' Hd H rk rt i v v1 v2 Hv He E1 E2 Hne.
  assert (Hh : em_has (record_comp L origin icomp []) (origin ++ rk) (origin ++ rt ++ [i])).
  { apply record_comp_spec. right. exists v. split; assumption. }
  destruct Hh as [ts [Hin Ht]].
  apply (apply_rebased_complete cs _ origin dest eqs eqs' Hd (record_comp_rebased_nodup L icomp origin dest) H
           (origin ++ rk) ts rk rt i v1 v2 Hin Ht eq_refl E1 E2 Hne).
Qed.

(* ================================================================================== de-clash, at the level of the trees *)

Definition subst1 (o n x : string) : string := if String.eqb x o then n else x.

Lemma NoDup_app_inv : forall (A : Type) (a b : list A), NoDup (a ++ b) ->
  NoDup a /\ NoDup b /\ forall x, In x a -> In x b -> False.
Proof.
  intros A a. induction a as [|y r IH]; intros b H; cbn [app] in H.
  - split; [constructor | split; [exact H | intros x []]].
  - inversion H as [|? ? Hy Hr]; subst. destruct (IH _ Hr) as [H1 [H2 H3]]. split.
    + constructor; [intros Hin; apply Hy; apply in_or_app; left; exact Hin | exact H1].
    + split; [exact H2|]. intros x [E|Hx] Hb; [subst; apply Hy; apply in_or_app; right; exact Hb | apply (H3 x Hx Hb)].
Qed.
Lemma NoDup_app_remove_r : forall (A : Type) (a b : list A), NoDup (a ++ b) -> NoDup a.
Proof. intros A a b H. apply (NoDup_app_inv A a b H). Qed.
Lemma NoDup_app_remove_l : forall (A : Type) (a b : list A), NoDup (a ++ b) -> NoDup b.
Proof. intros A a b H. apply (NoDup_app_inv A a b H). Qed.
Lemma NoDup_app_disjoint : forall (A : Type) (a b : list A), NoDup (a ++ b) -> forall x, In x a -> In x b -> False.
Proof. intros A a b H. apply (NoDup_app_inv A a b H). Qed.
Lemma NoDup_app_intro : forall (A : Type) (a b : list A), NoDup a -> NoDup b -> (forall x, In x a -> In x b -> False) -> NoDup (a ++ b).
Proof.
  intros A a. induction a as [|y r IH]; intros b Ha Hb Hd; cbn [app]; [exact Hb|]. inversion Ha as [|? ? Hy Hr]; subst. constructor.
  - intros Hin. apply in_app_or in Hin. destruct Hin as [Hin|Hin]; [contradiction | apply (Hd y (or_introl eq_refl) Hin)].
  - apply IH; [exact Hr | exact Hb|]. intros x Hx. apply Hd. right. exact Hx.
Qed.

Lemma comp_names_unfold : forall o n i m v kids, comp_names (Comp o n i m v kids) = n :: comps_names kids.
Proof. reflexivity. Qed.

Lemma rename_first_unfold' : forall n new o nm i m v kids,
  rename_first n new (Comp o nm i m v kids) =
  if String.eqb nm n then (Comp o new i m v kids, true)
  else let (kids', d) := rename_first_in n new kids in (Comp o nm i m v kids', d).
Proof.
  intros n new o nm i m v kids. cbn [rename_first]. destruct (String.eqb nm n); [reflexivity|].
  assert (E : forall l,
    (fix go (l : list comp) : list comp * bool :=
       match l with
       | [] => ([], false)
       | k :: r => let (k', d) := rename_first n new k in
                   if d then (k' :: r, true) else let (r', d') := go r in (k :: r', d')
       end) l = rename_first_in n new l).
  { induction l as [|k r IHr]; [reflexivity|]. cbn [rename_first_in]. destruct (rename_first n new k) as [k' d]. destruct d; [reflexivity|].
    rewrite IHr. reflexivity. }
  rewrite E. reflexivity.
Qed.

(* when the names are pairwise distinct, renaming the first component called o renames "the" component called o *)
Lemma rename_first_names : forall o new c, NoDup (comp_names c) ->
  comp_names (fst (rename_first o new c)) = map (subst1 o new) (comp_names c) /\
  (snd (rename_first o new c) = true <-> In o (comp_names c)).
Proof.
  intros o new c. induction c as [ow nm i m v kids IHk] using comp_ind3. intros Hnd.
  rewrite rename_first_unfold'. rewrite comp_names_unfold in *. inversion Hnd as [|? ? Hnm Hkids]; subst.
  assert (Hforest : forall l, Forall (fun c => NoDup (comp_names c) ->
                       comp_names (fst (rename_first o new c)) = map (subst1 o new) (comp_names c) /\
                       (snd (rename_first o new c) = true <-> In o (comp_names c))) l ->
                    NoDup (comps_names l) ->
                    comps_names (fst (rename_first_in o new l)) = map (subst1 o new) (comps_names l) /\
                    (snd (rename_first_in o new l) = true <-> In o (comps_names l))).
  { induction l as [|k r IHr]; intros Hall Hn; [split; [reflexivity | split; [discriminate | intros []]]|].
    inversion Hall as [|? ? Hk Hr]; subst. unfold comps_names in Hn. cbn [flat_map] in Hn. fold (comps_names r) in Hn.
    pose proof (NoDup_app_remove_r _ _ _ Hn) as Hn1. pose proof (NoDup_app_remove_l _ _ _ Hn) as Hn2.
    destruct (Hk Hn1) as [Hk1 Hk2]. destruct (IHr Hr Hn2) as [Hr1 Hr2].
    cbn [rename_first_in]. destruct (rename_first o new k) as [k' d] eqn:Ek. cbn [fst snd] in Hk1, Hk2. destruct d.
    - cbn [fst snd]. unfold comps_names. cbn [flat_map]. fold (comps_names r). rewrite map_app, Hk1. split.
      + f_equal. (* o is in k, hence not in r *)
        assert (Ho : In o (comp_names k)) by (apply Hk2; reflexivity).
        rewrite <- (map_id (comps_names r)) at 1. apply map_ext_in. intros x Hx. unfold subst1.
        destruct (String.eqb x o) eqn:E; [|reflexivity]. apply String.eqb_eq in E. subst x. exfalso.
        apply (NoDup_app_disjoint _ _ _ Hn o Ho Hx).
      + split; [intros _; apply in_or_app; left; apply Hk2; reflexivity | reflexivity].
    - destruct (rename_first_in o new r) as [r' d'] eqn:Er. cbn [fst snd] in *. unfold comps_names. cbn [flat_map]. fold (comps_names r) (comps_names r').
      rewrite map_app, Hr1. split.
      + f_equal. assert (Ho : ~ In o (comp_names k)) by (intros Hin; apply Hk2 in Hin; discriminate).
        rewrite <- (map_id (comp_names k)) at 1. apply map_ext_in. intros x Hx. unfold subst1.
        destruct (String.eqb x o) eqn:E; [|reflexivity]. apply String.eqb_eq in E. subst x. contradiction.
      + rewrite Hr2. split; [intros H; apply in_or_app; right; exact H|].
        intros H. apply in_app_or in H. destruct H as [H|H]; [apply Hk2 in H; discriminate | exact H]. }
  destruct (String.eqb nm o) eqn:En.
  - cbn [fst snd]. rewrite comp_names_unfold. apply String.eqb_eq in En. subst nm. cbn [map]. unfold subst1 at 1. rewrite String.eqb_refl. split.
    + f_equal. rewrite <- (map_id (comps_names kids)) at 1. apply map_ext_in. intros x Hx. unfold subst1.
      destruct (String.eqb x o) eqn:E; [|reflexivity]. apply String.eqb_eq in E. subst x. contradiction.
    + split; [intros _; left; reflexivity | reflexivity].
  - destruct (Hforest kids IHk Hkids) as [H1 H2]. destruct (rename_first_in o new kids) as [kids' d]. cbn [fst snd] in *.
    rewrite comp_names_unfold. cbn [map]. unfold subst1 at 1. rewrite En. rewrite H1. split; [reflexivity|].
    rewrite H2. split; [intros H; right; exact H|]. intros [H|H]; [subst; rewrite String.eqb_refl in En; discriminate | exact H].
Qed.

Lemma rename_first_in_names : forall o new l, NoDup (comps_names l) ->
  comps_names (fst (rename_first_in o new l)) = map (subst1 o new) (comps_names l) /\
  (snd (rename_first_in o new l) = true <-> In o (comps_names l)).
Proof.
  intros o new l. induction l as [|k r IHr]; intros Hn; [split; [reflexivity | split; [discriminate | intros []]]|].
  unfold comps_names in Hn. cbn [flat_map] in Hn. fold (comps_names r) in Hn.
  pose proof (NoDup_app_remove_r _ _ _ Hn) as Hn1. pose proof (NoDup_app_remove_l _ _ _ Hn) as Hn2.
  destruct (rename_first_names o new k Hn1) as [Hk1 Hk2]. destruct (IHr Hn2) as [Hr1 Hr2].
  cbn [rename_first_in]. destruct (rename_first o new k) as [k' d] eqn:Ek. cbn [fst snd] in Hk1, Hk2. destruct d.
  - cbn [fst snd]. unfold comps_names. cbn [flat_map]. fold (comps_names r). rewrite map_app, Hk1. split.
    + f_equal. assert (Ho : In o (comp_names k)) by (apply Hk2; reflexivity).
      rewrite <- (map_id (comps_names r)) at 1. apply map_ext_in. intros x Hx. unfold subst1.
      destruct (String.eqb x o) eqn:E; [|reflexivity]. apply String.eqb_eq in E. subst x. exfalso.
      apply (NoDup_app_disjoint _ _ _ Hn o Ho Hx).
    + split; [intros _; apply in_or_app; left; apply Hk2; reflexivity | reflexivity].
  - destruct (rename_first_in o new r) as [r' d'] eqn:Er. cbn [fst snd] in *. unfold comps_names. cbn [flat_map]. fold (comps_names r) (comps_names r').
    rewrite map_app, Hr1. split.
    + f_equal. assert (Ho : ~ In o (comp_names k)) by (intros Hin; apply Hk2 in Hin; discriminate).
      rewrite <- (map_id (comp_names k)) at 1. apply map_ext_in. intros x Hx. unfold subst1.
      destruct (String.eqb x o) eqn:E; [|reflexivity]. apply String.eqb_eq in E. subst x. contradiction.
    + rewrite Hr2. split; [intros H; apply in_or_app; right; exact H|].
      intros H. apply in_app_or in H. destruct H as [H|H]; [apply Hk2 in H; discriminate | exact H].
Qed.

Lemma subst1_in : forall o n l x, In x (map (subst1 o n) l) -> x = n \/ (In x l /\ x <> o).
Proof.
  intros o n l x H. apply in_map_iff in H. destruct H as [y [E Hy]]. unfold subst1 in E. destruct (String.eqb y o) eqn:Ey.
  - left. symmetry. exact E.
  - right. subst x. split; [exact Hy | apply String.eqb_neq; exact Ey].
Qed.

Lemma subst1_nodup : forall o n l, NoDup l -> ~ In n l -> NoDup (map (subst1 o n) l).
Proof.
  intros o n l Hnd Hn. induction l as [|y r IH]; [constructor|]. inversion Hnd as [|? ? Hy Hr]; subst. cbn [map]. constructor.
  - intros Hin. apply in_map_iff in Hin. destruct Hin as [z [Ez Hz]]. unfold subst1 in Ez.
    destruct (String.eqb y o) eqn:Ey; destruct (String.eqb z o) eqn:Ezo.
    + apply String.eqb_eq in Ey. apply String.eqb_eq in Ezo. subst. contradiction.
    + subst z. apply Hn. right. exact Hz.
    + subst y. apply Hn. left. reflexivity.
    + subst z. contradiction.
  - apply IH; [exact Hr|]. intros Hin. apply Hn. right. exact Hin.
Qed.

(* the state of the loop, seen through the names of the two forests.  N: names of the importing model; keys: all keys of the
   map; rest: the keys still to come; P0: the names of the placeholder's children at the start *)
Record dtree_inv (N keys rest P0 used : list string) (ck pk : list comp) : Prop := {
  dt_ndc : NoDup (comps_names ck);
  dt_ndp : NoDup (comps_names pk);
  dt_used0 : incl (N ++ keys) used;
  dt_used : incl (comps_names ck ++ comps_names pk) used;
  dt_shared : forall x, In x (comps_names ck) -> In x (comps_names pk) -> In x rest;
  dt_c : forall x, In x (comps_names ck) -> In x N -> In x rest;
  dt_p : forall x, In x (comps_names pk) -> In x P0 \/ (~ In x N /\ ~ In x keys) }.

Lemma declash_step_tree : forall fx N keys k rest P0 used ck pk done,
  fx_clash fx = true -> incl P0 N -> In k keys ->
  dtree_inv N keys (k :: rest) P0 used ck pk ->
  exists ck' pk' used' done', declash_step fx N (FOk (ck, pk, used, done)) k = FOk (ck', pk', used', done') /\
                              dtree_inv N keys rest P0 used' ck' pk'.
Proof.
  intros fx N keys k rest P0 used ck pk done Hfx HP0 Hk [Hc Hp Hu0 Hu Hsh Hcn Hpn]. unfold declash_step. cbn [fbind].
  destruct (mem_str k N) eqn:Em.
  - rewrite Hfx. destruct (find_free_total used k 1) as [new Hnew]. rewrite Hnew.
    destruct (find_free_some _ _ _ _ _ Hnew) as [Hfresh _].
    assert (HnN : ~ In new N) by (intros H; apply Hfresh; apply Hu0; apply in_or_app; left; exact H).
    assert (Hnk : ~ In new keys) by (intros H; apply Hfresh; apply Hu0; apply in_or_app; right; exact H).
    assert (HnC : ~ In new (comps_names ck)) by (intros H; apply Hfresh; apply Hu; apply in_or_app; left; exact H).
    assert (HnP : ~ In new (comps_names pk)) by (intros H; apply Hfresh; apply Hu; apply in_or_app; right; exact H).
    destruct (rename_first_in_names k new ck Hc) as [Hc1 Hc2].
    destruct (rename_first_in k new ck) as [ck' d] eqn:Er. cbn [fst snd] in Hc1, Hc2. destruct d.
    + (* the component is in the copy *)
      assert (HkC : In k (comps_names ck)) by (apply Hc2; reflexivity).
      eexists _, _, _, _. split; [reflexivity|]. constructor.
      * rewrite Hc1. apply subst1_nodup; assumption.
      * exact Hp.
      * intros x Hx. apply in_or_app. left. apply Hu0. exact Hx.
      * intros x Hx. apply in_app_or in Hx. destruct Hx as [Hx|Hx].
        -- rewrite Hc1 in Hx. destruct (subst1_in _ _ _ _ Hx) as [E|[Hx' _]]; [subst; apply in_or_app; right; left; reflexivity|].
           apply in_or_app. left. apply Hu. apply in_or_app. left. exact Hx'.
        -- apply in_or_app. left. apply Hu. apply in_or_app. right. exact Hx.
      * intros x Hx1 Hx2. rewrite Hc1 in Hx1. destruct (subst1_in _ _ _ _ Hx1) as [E|[Hx' Hne]]; [subst; contradiction|].
        destruct (Hsh x Hx' Hx2) as [E|H]; [congruence | exact H].
      * intros x Hx HxN. rewrite Hc1 in Hx. destruct (subst1_in _ _ _ _ Hx) as [E|[Hx' Hne]]; [subst; contradiction|].
        destruct (Hcn x Hx' HxN) as [E|H]; [congruence | exact H].
      * exact Hpn.
    + (* it is one of the placeholder's children (or gone) *)
      assert (HkC : ~ In k (comps_names ck)) by (intros H; apply Hc2 in H; discriminate).
      assert (Hck' : comps_names ck' = comps_names ck).
      { rewrite Hc1. rewrite <- (map_id (comps_names ck)) at 2. apply map_ext_in. intros x Hx. unfold subst1.
        destruct (String.eqb x k) eqn:E; [|reflexivity]. apply String.eqb_eq in E. subst. contradiction. }
      destruct (rename_first_in_names k new pk Hp) as [Hp1 _].
      eexists _, _, _, _. split; [reflexivity|]. constructor.
      * rewrite Hck'. exact Hc.
      * rewrite Hp1. apply subst1_nodup; assumption.
      * intros x Hx. apply in_or_app. left. apply Hu0. exact Hx.
      * intros x Hx. apply in_app_or in Hx. destruct Hx as [Hx|Hx].
        -- rewrite Hck' in Hx. apply in_or_app. left. apply Hu. apply in_or_app. left. exact Hx.
        -- rewrite Hp1 in Hx. destruct (subst1_in _ _ _ _ Hx) as [E|[Hx' _]]; [subst; apply in_or_app; right; left; reflexivity|].
           apply in_or_app. left. apply Hu. apply in_or_app. right. exact Hx'.
      * intros x Hx1 Hx2. rewrite Hck' in Hx1. rewrite Hp1 in Hx2. destruct (subst1_in _ _ _ _ Hx2) as [E|[Hx' Hne]]; [subst; contradiction|].
        destruct (Hsh x Hx1 Hx') as [E|H]; [congruence | exact H].
      * intros x Hx HxN. rewrite Hck' in Hx. destruct (Hcn x Hx HxN) as [E|H]; [subst; contradiction | exact H].
      * intros x Hx. rewrite Hp1 in Hx. destruct (subst1_in _ _ _ _ Hx) as [E|[Hx' _]]; [subst; right; split; assumption | apply Hpn; exact Hx'].
  - (* k is not a name of the importing model: nothing happens *)
    assert (HkN : ~ In k N) by (apply mem_str_false; exact Em).
    eexists _, _, _, _. split; [reflexivity|]. constructor; try assumption.
    + intros x Hx1 Hx2. destruct (Hsh x Hx1 Hx2) as [E|H]; [|exact H]. subst x. exfalso.
      destruct (Hpn k Hx2) as [H|[_ H]]; [apply HkN; apply HP0; exact H | contradiction].
    + intros x Hx HxN. destruct (Hcn x Hx HxN) as [E|H]; [subst; contradiction | exact H].
Qed.

Lemma declash_fold_tree : forall fx N keys P0 rest used ck pk done,
  fx_clash fx = true -> incl P0 N -> incl rest keys ->
  dtree_inv N keys rest P0 used ck pk ->
  exists ck' pk' used' done', fold_left (declash_step fx N) rest (FOk (ck, pk, used, done)) = FOk (ck', pk', used', done') /\
                              dtree_inv N keys [] P0 used' ck' pk'.
Proof.
  intros fx N keys P0 rest. induction rest as [|k r IH]; intros used ck pk done Hfx HP0 Hincl Hinv; cbn [fold_left].
  - eexists _, _, _, _. split; [reflexivity | exact Hinv].
  - destruct (declash_step_tree fx N keys k r P0 used ck pk done Hfx HP0 (Hincl k (or_introl eq_refl)) Hinv) as [ck1 [pk1 [u1 [d1 [E Hinv1]]]]].
    rewrite E. apply IH; try assumption. intros x Hx. apply Hincl. right. exact Hx.
Qed.

(* declash_tree_unique: when the names of the importing model are pairwise distinct, the imported hierarchy has pairwise
   distinct names and the placeholder's children are components of the importing model, then after the loop all names of the
   two forests are pairwise distinct, and none of them is a name of the importing model -- except the placeholder's own
   children that kept their name (they ARE those components) *)
Theorem declash_tree_unique : forall fx N ck pk, fx_clash fx = true ->
  NoDup (comps_names ck) -> NoDup (comps_names pk) -> incl (comps_names pk) N ->
  exists ck' pk' done, declash fx N ck pk = FOk (ck', pk', done) /\
    NoDup (comps_names ck' ++ comps_names pk') /\
    (forall x, In x (comps_names ck') -> ~ In x N) /\
    (forall x, In x (comps_names pk') -> In x N -> In x (comps_names pk)).
Proof.
  intros fx N ck pk Hfx Hc Hp HP. unfold declash. fold (declash_keys ck pk).
  assert (Hinv0 : dtree_inv N (declash_keys ck pk) (declash_keys ck pk) (comps_names pk) (N ++ declash_keys ck pk) ck pk).
  { constructor; try assumption.
    - apply incl_refl.
    - intros x Hx. apply in_or_app. right. apply declash_keys_in. apply in_app_or in Hx. exact Hx.
    - intros x Hx _. apply declash_keys_in. left. exact Hx.
    - intros x Hx _. apply declash_keys_in. left. exact Hx.
    - intros x Hx. left. exact Hx. }
  destruct (declash_fold_tree fx N (declash_keys ck pk) (comps_names pk) (declash_keys ck pk) _ ck pk [] Hfx HP (incl_refl _) Hinv0)
    as [ck' [pk' [u' [d' [E [Hc' Hp' _ _ Hsh Hcn Hpn]]]]]].
  rewrite E. cbn [fbind]. exists ck', pk', d'. split; [reflexivity|]. split.
  - apply NoDup_app_intro; [exact Hc' | exact Hp'|]. intros x H1 H2. destruct (Hsh x H1 H2).
  - split.
    + intros x Hx HxN. destruct (Hcn x Hx HxN).
    + intros x Hx HxN. destruct (Hpn x Hx) as [H|[H _]]; [exact H | contradiction].
Qed.
