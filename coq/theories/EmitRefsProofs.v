(** EmitRefsProofs.v — C17, proof depth: the hypothesis [refs_resolve] of C17_every_index_below_count as a decidable
    premise, evaluated on the accessor dump of a real generated model.  No change to EmitDefs. *)
From Coq Require Import String Ascii List Bool Arith Lia.
From LC Require Import Common AstDefs GenDefs EmitDefs EmitProofs EmitIndexProofs.
From LCGen Require Import AstTypes ProfileStrings.
Import ListNotations.
Local Open Scope string_scope.
Local Open Scope bool_scope.

(* does (type, index) name a state (type STATE) resp. a variable (any other type) of the model? *)
Definition ref_resolvesb (m : amodel) (ti : vtype * nat) : bool :=
  existsb (fun v => Nat.eqb (av_index v) (snd ti)) (if vtype_beq (fst ti) VState then am_states m else am_variables m).

Definition refs_resolveb (m : amodel) : bool :=
  forallb (fun e => forallb (ref_resolvesb m) (ae_vars e)) (am_equations m).

Lemma refs_resolveb_spec : forall m, refs_resolveb m = true <-> refs_resolve m.
Proof.
  intros m. unfold refs_resolveb, refs_resolve. rewrite forallb_forall. split.
  - intros H e t i He Hti. specialize (H e He). rewrite forallb_forall in H. specialize (H (t, i) Hti).
    unfold ref_resolvesb in H. cbn [fst snd] in H. apply existsb_exists in H as [v [Hv E]]. apply Nat.eqb_eq in E.
    exists v. split; [assumption|]. destruct (vtype_beq t VState); assumption.
  - intros H e He. apply forallb_forall. intros [t i] Hti. destruct (H e t i He Hti) as [v [E Hv]].
    unfold ref_resolvesb. cbn [fst snd]. apply existsb_exists. exists v. split.
    + destruct (vtype_beq t VState); assumption.
    + now apply Nat.eqb_eq.
Qed.

(* index safety with computable premises only *)
Lemma every_index_below_count_b : forall m, wf_indices_b m = true -> refs_resolveb m = true ->
  (forall v, In v (am_states m) -> av_index v < length (am_states m))
  /\ (forall v, In v (am_variables m) -> av_index v < length (am_variables m))
  /\ (forall e t i, In e (am_equations m) -> In (t, i) (ae_vars e) -> i < array_length m t).
Proof.
  intros m W R. apply wf_indices_b_sound in W. apply refs_resolveb_spec in R.
  destruct (every_index_below_count m W) as [A [B C]]. split; [exact A|]. split; [exact B|]. exact (C R).
Qed.

(* the premise is not vacuous and not trivially true: it fails when an equation lists a cell the model does not have *)
Definition bad_refs_model : amodel :=
  mkAmodel MAlgebraic None [] [mkAvar 0 VConstant "a" "dimensionless" "main"] false
    [mkAeq EAlgebraic 0 [] [(VAlgebraic, 1)] Null] [].

(* the accessor dump of a real generated model (gen/c17_models.py: build("xor", "piece_condition", "dae_ext"), analysed by
   the library at /repo 85ba0d4 with main.a external, as printed by harness/c17_driver.cpp): voi t; state x; variables
   y, a (external), b, c, z; equations: algebraic (y), ode (x), nla system 0 (z), external (a) *)
Definition dumped_model : amodel :=
  mkAmodel MDae (Some (mkAvar 0 VVoi "t" "dimensionless" "main"))
    [mkAvar 0 VState "x" "dimensionless" "main"]
    [mkAvar 0 VAlgebraic "y" "dimensionless" "main"; mkAvar 1 VExternal "a" "dimensionless" "main";
     mkAvar 2 VConstant "b" "dimensionless" "main"; mkAvar 3 VConstant "c" "dimensionless" "main";
     mkAvar 4 VAlgebraic "z" "dimensionless" "main"]
    true
    [mkAeq EAlgebraic 0 [] [(VAlgebraic, 0)] Null; mkAeq EOde 0 [] [(VState, 0)] Null;
     mkAeq ENla 0 [] [(VAlgebraic, 4)] Null; mkAeq EExternal 0 [] [(VExternal, 1)] Null]
    [HXor].

Lemma refs_example :
  wf_indices_b dumped_model = true /\ refs_resolveb dumped_model = true /\ nla_systems dumped_model = [(0, 1)]
  /\ (forall e t i, In e (am_equations dumped_model) -> In (t, i) (ae_vars e) -> i < array_length dumped_model t)
  /\ array_length dumped_model VState = 1 /\ array_length dumped_model VAlgebraic = 5
  /\ refs_resolveb bad_refs_model = false /\ refs_resolveb ex_model = true.
Proof.
  assert (W : wf_indices_b dumped_model = true) by reflexivity.
  assert (R : refs_resolveb dumped_model = true) by reflexivity.
  repeat split; try reflexivity. exact (proj2 (proj2 (every_index_below_count_b dumped_model W R))).
Qed.
