(** RoundtripMapsProofs.v — buildMaps (C02, stage 4): for EVERY order of the equivalence list and every component
    tree, the list of variable pairs that Printer's buildMaps / buildMapsForComponentsVariables collect holds every
    equivalence edge exactly once (as a multiset, ids included), oriented from the variable that is visited first,
    and never holds two entries that join the same two components in opposite directions. *)
From Coq Require Import String Ascii List Bool ZArith Arith Lia Permutation.
From LC Require Import Common NumDefs XmlDefs EntTreeDefs PrintDefs LoadDefs RoundtripSpec RoundtripOrderProofs.
Import ListNotations.
Local Open Scope string_scope.
Local Open Scope bool_scope.
Local Open Scope list_scope.

(** * vpath equality *)
Lemma vpath_eqb_refl : forall v, vpath_eqb v v = true.
Proof. intros [p i]. unfold vpath_eqb. cbn. now rewrite path_eqb_refl, Nat.eqb_refl. Qed.

Lemma vpath_eqb_eq : forall v w, vpath_eqb v w = true -> v = w.
Proof.
  intros [p i] [q j] H. unfold vpath_eqb in H. cbn in H. apply andb_true_iff in H. destruct H as [H1 H2].
  apply path_eqb_eq in H1. apply Nat.eqb_eq in H2. now subst.
Qed.

Lemma vpath_eqb_neq : forall v w, v <> w -> vpath_eqb v w = false.
Proof. intros v w H. destruct (vpath_eqb v w) eqn:E; [|reflexivity]. apply vpath_eqb_eq in E. contradiction. Qed.

Lemma vpath_eqb_sym : forall v w, vpath_eqb v w = vpath_eqb w v.
Proof.
  intros v w. destruct (vpath_eqb v w) eqn:E.
  - apply vpath_eqb_eq in E. subst. symmetry. apply vpath_eqb_refl.
  - destruct (vpath_eqb w v) eqn:E2; [|reflexivity]. apply vpath_eqb_eq in E2. subst. rewrite vpath_eqb_refl in E. discriminate.
Qed.

(** * edges seen from a variable *)
Definition touches (v : vpath) (e : eqv) : bool := vpath_eqb (e_a e) v || vpath_eqb (e_b e) v.
Definition partner (v : vpath) (e : eqv) : vpath := if vpath_eqb (e_a e) v then e_b e else e_a e.
Definition mk_entry (v : vpath) (e : eqv) : mapentry :=
  {| me_v1 := v; me_v2 := partner v e; me_mid := e_mid e; me_cid := e_cid e |}.

Lemma eq_partners_touch : forall es v,
  eq_partners es v = map (fun e => (partner v e, e_mid e, e_cid e)) (filter (touches v) es).
Proof.
  induction es as [|e es IH]; intros v; [reflexivity|]. cbn [eq_partners flat_map filter]. unfold touches at 1.
  fold (eq_partners es v). rewrite IH.
  destruct (vpath_eqb (e_a e) v) eqn:Ea; cbn [orb app map].
  - unfold partner. rewrite Ea. reflexivity.
  - destruct (vpath_eqb (e_b e) v); cbn [app map]; [|reflexivity]. unfold partner. rewrite Ea. reflexivity.
Qed.

(** the two keys of an entry / an edge: both orientations, ids included *)
Definition key := (vpath * vpath * string * string)%type.
Definition okey (x : mapentry) : list key := [(me_v1 x, me_v2 x, me_mid x, me_cid x); (me_v2 x, me_v1 x, me_mid x, me_cid x)].
Definition ekey (e : eqv) : list key := [(e_a e, e_b e, e_mid e, e_cid e); (e_b e, e_a e, e_mid e, e_cid e)].

Lemma okey_mk : forall v e, touches v e = true -> Permutation (okey (mk_entry v e)) (ekey e).
Proof.
  intros v e H. unfold okey, ekey, mk_entry, partner, touches in *. cbn.
  destruct (vpath_eqb (e_a e) v) eqn:Ea.
  - apply vpath_eqb_eq in Ea. subst v. apply Permutation_refl.
  - cbn in H. apply vpath_eqb_eq in H. subst v. apply perm_swap.
Qed.

Lemma Permutation_flat_map_pointwise : forall {A B} (f g : A -> list B) l,
  (forall x, In x l -> Permutation (f x) (g x)) -> Permutation (flat_map f l) (flat_map g l).
Proof.
  induction l as [|x l IH]; intros H; [constructor|]. cbn [flat_map]. apply Permutation_app; [apply H; now left | apply IH; intros; apply H; now right].
Qed.

Lemma filter_or_perm : forall {A} (P Q : A -> bool) l,
  Permutation (filter (fun x => P x || Q x) l) (filter P l ++ filter (fun x => Q x && negb (P x)) l).
Proof.
  induction l as [|x l IH]; [constructor|]. cbn [filter]. destruct (P x); cbn [orb andb negb app].
  - rewrite andb_false_r. apply perm_skip. exact IH.
  - destruct (Q x); cbn [andb]; [apply (Permutation_cons_app _ _ _ IH) | exact IH].
Qed.

Lemma NoDup_app_disj : forall {A} (a b : list A) x, NoDup (a ++ b) -> In x a -> In x b -> False.
Proof.
  induction a as [|y a IH]; intros b x H Ha Hb; [contradiction|].
  cbn [app] in H. inversion H as [|? ? Hn Hr]; subst. destruct Ha as [->|Ha].
  - apply Hn. apply in_or_app. now right.
  - eapply IH; eassumption.
Qed.

Lemma filter_nil_iff : forall {A} (P : A -> bool) l, filter P l = [] <-> (forall x, In x l -> P x = false).
Proof.
  induction l as [|x l IH]; [split; [intros _ ? [] | reflexivity]|]. cbn [filter]. split.
  - intros H y [<-|Hy]; destruct (P x) eqn:E; try discriminate; [reflexivity | now apply IH].
  - intros H. rewrite (H x (or_introl eq_refl)). apply IH. intros y Hy. apply H. now right.
Qed.

Lemma filter_all_iff : forall {A} (P : A -> bool) l, filter P l = l <-> (forall x, In x l -> P x = true).
Proof.
  induction l as [|x l IH]; [split; [intros _ ? [] | reflexivity]|]. cbn [filter]. split.
  - intros H. destruct (P x) eqn:E.
    + injection H as H. intros y [<-|Hy]; [exact E | now apply IH].
    + exfalso. assert (Hl : forall l0 : list A, length (filter P l0) <= length l0).
      { induction l0 as [|a l0 IHl0]; [cbn; lia|]. cbn [filter]. destruct (P a); cbn [length]; lia. }
      specialize (Hl l). rewrite H in Hl. cbn in Hl. lia.
  - intros H. rewrite (H x (or_introl eq_refl)). f_equal. apply IH. intros y Hy. apply H. now right.
Qed.

Section Maps.
Variable es : list eqv.
(** no equivalence of a variable with itself (Variable::addEquivalence refuses it) *)
Hypothesis no_loops : forall e, In e es -> e_a e <> e_b e.

Definition rev_in (w v : vpath) (acc : list mapentry) : bool :=
  existsb (fun x => vpath_eqb (me_v1 x) w && vpath_eqb (me_v2 x) v) acc.

Definition step (v : vpath) (acc : list mapentry) (x : vpath * string * string) : list mapentry :=
  match x with (w, mid, cid) =>
    if rev_in w v acc then acc else acc ++ [{| me_v1 := v; me_v2 := w; me_mid := mid; me_cid := cid |}] end.

Lemma build_for_var_step : forall v acc, build_for_var es v acc = fold_left (step v) (eq_partners es v) acc.
Proof. intros. reflexivity. Qed.

Definition touched (Pr : vpath -> bool) (e : eqv) : bool := Pr (e_a e) || Pr (e_b e).

(** the invariant of the traversal; [Pr] = "already visited" *)
Record Inv (Pr : vpath -> bool) (acc : list mapentry) : Prop := {
  i_from : forall x, In x acc -> Pr (me_v1 x) = true /\ exists e, In e es /\ touches (me_v1 x) e = true /\ x = mk_entry (me_v1 x) e;
  i_all : forall e, In e es -> touched Pr e = true ->
          exists x, In x acc /\ ((me_v1 x = e_a e /\ me_v2 x = e_b e) \/ (me_v1 x = e_b e /\ me_v2 x = e_a e));
  i_perm : Permutation (flat_map okey acc) (flat_map ekey (filter (touched Pr) es));
  i_norev : forall x y, In x acc -> In y acc -> ~ (fst (me_v1 x) = fst (me_v2 y) /\ fst (me_v2 x) = fst (me_v1 y))
}.

Lemma partner_neq : forall v e, In e es -> touches v e = true -> partner v e <> v.
Proof.
  intros v e He Ht. unfold partner, touches in *. destruct (vpath_eqb (e_a e) v) eqn:Ea.
  - apply vpath_eqb_eq in Ea. subst v. intros Hc. apply (no_loops e He). now symmetry.
  - cbn in Ht. apply vpath_eqb_eq in Ht. subst v. exact (no_loops e He).
Qed.

Lemma partner_touch : forall v e, touches v e = true -> touches (partner v e) e = true.
Proof.
  intros v e H. unfold touches, partner in *. destruct (vpath_eqb (e_a e) v); [rewrite vpath_eqb_refl; apply orb_true_r | rewrite vpath_eqb_refl; reflexivity].
Qed.

(** what the "reversed pair already listed" test computes, under the invariant *)
Lemma rev_in_visited : forall Pr acc v e new, Inv Pr acc -> Pr v = false -> In e es -> touches v e = true ->
  (forall x, In x new -> me_v1 x = v) ->
  rev_in (partner v e) v (acc ++ new) = Pr (partner v e).
Proof.
  intros Pr acc v e new HI Hv He Ht Hnew. set (w := partner v e).
  assert (Hwv : w <> v) by (now apply partner_neq).
  unfold rev_in. rewrite existsb_app.
  assert (Hn : existsb (fun x => vpath_eqb (me_v1 x) w && vpath_eqb (me_v2 x) v) new = false).
  { apply not_true_iff_false. intros Hc. apply existsb_exists in Hc. destruct Hc as (x & Hx & Hm). apply andb_true_iff in Hm.
    destruct Hm as [Hm _]. apply vpath_eqb_eq in Hm. rewrite (Hnew x Hx) in Hm. now symmetry in Hm. }
  rewrite Hn, orb_false_r. destruct (Pr w) eqn:Ew.
  - (* visited partner: the edge is listed, from the partner *)
    assert (Htd : touched Pr e = true).
    { unfold touched. pose proof (partner_touch v e Ht) as Hp. fold w in Hp. unfold touches in Hp. apply orb_true_iff in Hp.
      destruct Hp as [Hp|Hp]; apply vpath_eqb_eq in Hp; rewrite Hp, Ew; [reflexivity | apply orb_true_r]. }
    destruct (i_all _ _ HI e He Htd) as (x & Hx & Hm). apply existsb_exists. exists x. split; [exact Hx|].
    destruct (i_from _ _ HI x Hx) as [Hp1 _].
    assert (Hends : (e_a e = v /\ e_b e = w) \/ (e_a e = w /\ e_b e = v)).
    { unfold w, partner, touches in *. destruct (vpath_eqb (e_a e) v) eqn:Ea.
      - apply vpath_eqb_eq in Ea. left. auto.
      - cbn in Ht. apply vpath_eqb_eq in Ht. right. auto. }
    destruct Hm as [[H1 H2]|[H1 H2]]; destruct Hends as [[Ha Hb]|[Ha Hb]]; rewrite ?Ha, ?Hb in *;
      try (rewrite H1 in Hp1; congruence); rewrite H1, H2, !vpath_eqb_refl; reflexivity.
  - apply not_true_iff_false. intros Hc. apply existsb_exists in Hc. destruct Hc as (x & Hx & Hm). apply andb_true_iff in Hm.
    destruct Hm as [Hm _]. apply vpath_eqb_eq in Hm. destruct (i_from _ _ HI x Hx) as [Hp _]. congruence.
Qed.

(** closed form of one variable's visit *)
Lemma build_for_var_closed : forall Pr acc v, Inv Pr acc -> Pr v = false ->
  build_for_var es v acc
  = acc ++ map (mk_entry v) (filter (fun e => negb (Pr (partner v e))) (filter (touches v) es)).
Proof.
  intros Pr acc v HI Hv. rewrite build_for_var_step, eq_partners_touch.
  assert (Hgen : forall L new, (forall e, In e L -> In e es /\ touches v e = true) -> (forall x, In x new -> me_v1 x = v) ->
            fold_left (step v) (map (fun e => (partner v e, e_mid e, e_cid e)) L) (acc ++ new)
            = acc ++ new ++ map (mk_entry v) (filter (fun e => negb (Pr (partner v e))) L)).
  { induction L as [|e L IH]; intros new HL Hnew; [cbn; now rewrite app_nil_r|].
    cbn [map fold_left filter]. unfold step at 2.
    destruct (HL e (or_introl eq_refl)) as [He Ht].
    rewrite (rev_in_visited Pr acc v e new HI Hv He Ht Hnew).
    destruct (Pr (partner v e)); cbn [negb].
    - apply IH; [intros; apply HL; now right | exact Hnew].
    - rewrite <- app_assoc. rewrite (IH (new ++ [{| me_v1 := v; me_v2 := partner v e; me_mid := e_mid e; me_cid := e_cid e |}])).
      + cbn [map]. rewrite <- app_assoc. reflexivity.
      + intros; apply HL; now right.
      + intros x Hx. apply in_app_or in Hx. destruct Hx as [Hx|[<-|[]]]; [now apply Hnew | reflexivity]. }
  specialize (Hgen (filter (touches v) es) []). rewrite !app_nil_r in Hgen. cbn [app] in Hgen. apply Hgen; [|intros ? []].
  intros e He. apply filter_In in He. exact He.
Qed.

(** the block property: a visited variable of ANOTHER component than v's means that component is done *)
Definition block (Pr : vpath -> bool) (v : vpath) : Prop :=
  forall x w, Pr x = true -> fst x = fst w -> fst x <> fst v -> Pr w = true.

Definition visit (Pr : vpath -> bool) (v : vpath) : vpath -> bool := fun x => Pr x || vpath_eqb x v.

Lemma inv_visit : forall Pr acc v, Inv Pr acc -> Pr v = false -> block Pr v ->
  (forall e, In e es -> fst (e_a e) <> fst (e_b e)) ->
  Inv (visit Pr v) (build_for_var es v acc).
Proof.
  intros Pr acc v HI Hv Hb Hcomp. rewrite (build_for_var_closed Pr acc v HI Hv).
  set (N := filter (fun e => negb (Pr (partner v e))) (filter (touches v) es)).
  assert (HN : forall e, In e N -> In e es /\ touches v e = true /\ Pr (partner v e) = false).
  { intros e He. unfold N in He. apply filter_In in He. destruct He as [He Hp]. apply filter_In in He. apply negb_true_iff in Hp. tauto. }
  constructor.
  - (* i_from *)
    intros x Hx. apply in_app_or in Hx. destruct Hx as [Hx|Hx].
    + destruct (i_from _ _ HI x Hx) as [Hp He]. split; [unfold visit; now rewrite Hp | exact He].
    + apply in_map_iff in Hx. destruct Hx as (e & <- & He). destruct (HN e He) as (He1 & Ht & _). cbn [mk_entry me_v1].
      split; [unfold visit; rewrite vpath_eqb_refl; apply orb_true_r | exists e; auto].
  - (* i_all *)
    intros e He Htd. unfold touched, visit in Htd.
    destruct (touched Pr e) eqn:Eold.
    + destruct (i_all _ _ HI e He Eold) as (x & Hx & Hm). exists x. split; [apply in_or_app; now left | exact Hm].
    + unfold touched in Eold. apply orb_false_iff in Eold. destruct Eold as [Ea Eb]. rewrite Ea, Eb in Htd. cbn [orb] in Htd.
      assert (Ht : touches v e = true) by exact Htd.
      assert (Hpn : Pr (partner v e) = false) by (unfold partner; destruct (vpath_eqb (e_a e) v); assumption).
      exists (mk_entry v e). split.
      * apply in_or_app. right. apply in_map. unfold N. apply filter_In. split; [apply filter_In; auto | now rewrite Hpn].
      * unfold mk_entry, partner. cbn. unfold touches in Ht. destruct (vpath_eqb (e_a e) v) eqn:E1.
        -- apply vpath_eqb_eq in E1. left. auto.
        -- cbn in Ht. apply vpath_eqb_eq in Ht. right. auto.
  - (* i_perm *)
    rewrite flat_map_app.
    assert (Hf : forall e, touched (visit Pr v) e = touched Pr e || touches v e).
    { intros e. unfold touched, visit, touches. destruct (Pr (e_a e)), (Pr (e_b e)), (vpath_eqb (e_a e) v), (vpath_eqb (e_b e) v); reflexivity. }
    rewrite (filter_ext _ _ Hf).
    eapply Permutation_trans; [|apply Permutation_sym; apply Permutation_flat_map; apply filter_or_perm].
    rewrite flat_map_app. apply Permutation_app; [exact (i_perm _ _ HI)|].
    assert (HNeq : N = filter (fun e => touches v e && negb (touched Pr e)) es).
    { unfold N. clear - Hv. induction es as [|e l IH]; [reflexivity|]. cbn [filter].
      destruct (touches v e) eqn:Et; cbn [andb filter]; [|exact IH].
      assert (Hp : touched Pr e = Pr (partner v e)).
      { unfold touched, partner, touches in *. destruct (vpath_eqb (e_a e) v) eqn:E1.
        - apply vpath_eqb_eq in E1. rewrite E1, Hv. reflexivity.
        - cbn in Et. apply vpath_eqb_eq in Et. rewrite Et, Hv. apply orb_false_r. }
      rewrite Hp. destruct (Pr (partner v e)); cbn [negb]; now rewrite IH. }
    rewrite <- HNeq. rewrite flat_map_concat_map, map_map, <- flat_map_concat_map.
    apply Permutation_flat_map_pointwise. intros e He. apply okey_mk. now apply HN.
  - (* i_norev *)
    intros x y Hx Hy [H1 H2]. apply in_app_or in Hx. apply in_app_or in Hy.
    assert (Hnew : forall z, In z (map (mk_entry v) N) -> me_v1 z = v /\ Pr (me_v2 z) = false /\ fst (me_v1 z) <> fst (me_v2 z)).
    { intros z Hz. apply in_map_iff in Hz. destruct Hz as (e & <- & He). destruct (HN e He) as (He1 & Ht & Hp). cbn [mk_entry me_v1 me_v2].
      repeat split; [exact Hp|]. unfold partner, touches in *. destruct (vpath_eqb (e_a e) v) eqn:E1.
      - apply vpath_eqb_eq in E1. subst v. now apply Hcomp.
      - cbn in Ht. apply vpath_eqb_eq in Ht. subst v. intros Hc. apply (Hcomp e He1). now symmetry. }
    destruct Hx as [Hx|Hx]; destruct Hy as [Hy|Hy].
    + exact (i_norev _ _ HI x y Hx Hy (conj H1 H2)).
    + (* x old, y new: x starts in the component of y's partner, which is not visited *)
      destruct (Hnew y Hy) as (Hy1 & Hy2 & Hy3). destruct (i_from _ _ HI x Hx) as [Hpx _].
      assert (Hpw : Pr (me_v2 y) = true).
      { apply (Hb (me_v1 x) (me_v2 y) Hpx H1). rewrite H1, <- Hy1. intros Hc. apply Hy3. now symmetry. }
      congruence.
    + destruct (Hnew x Hx) as (Hx1 & Hx2 & Hx3). destruct (i_from _ _ HI y Hy) as [Hpy _].
      assert (Hpw : Pr (me_v2 x) = true).
      { apply (Hb (me_v1 y) (me_v2 x) Hpy (eq_sym H2)). rewrite <- H2, <- Hx1. intros Hc. apply Hx3. now symmetry. }
      congruence.
    + destruct (Hnew x Hx) as (Hx1 & _ & Hx3). destruct (Hnew y Hy) as (Hy1 & _ & _). apply Hx3. rewrite H2, Hy1, <- Hx1. reflexivity.
Qed.

(** ** the traversal: components in order, the variables of each in order *)
Definition PrC (PC : list (list nat)) (x : vpath) : bool := existsb (path_eqb (fst x)) PC.
Definition Pr_of (PC : list (list nat)) (p : list nat) (k : nat) (x : vpath) : bool :=
  PrC PC x || (path_eqb (fst x) p && Nat.ltb (snd x) k).

Lemma path_eqb_sym : forall p q, path_eqb p q = path_eqb q p.
Proof.
  intros p q. destruct (path_eqb p q) eqn:E.
  - apply path_eqb_eq in E. subst. symmetry. apply path_eqb_refl.
  - destruct (path_eqb q p) eqn:E2; [|reflexivity]. apply path_eqb_eq in E2. subst. rewrite path_eqb_refl in E. discriminate.
Qed.

Lemma visit_Pr_of : forall PC p k x, visit (Pr_of PC p k) (p, k) x = Pr_of PC p (S k) x.
Proof.
  intros. unfold visit, Pr_of, vpath_eqb. cbn [fst snd]. destruct (PrC PC x); cbn [orb]; [reflexivity|].
  destruct (path_eqb (fst x) p); cbn [andb orb]; [|reflexivity].
  destruct (Nat.ltb_spec (snd x) k), (Nat.eqb_spec (snd x) k), (Nat.ltb_spec (snd x) (S k)); try reflexivity; lia.
Qed.

Lemma inv_ext_edges : forall Pr Pr' acc,
  (forall e, In e es -> Pr (e_a e) = Pr' (e_a e) /\ Pr (e_b e) = Pr' (e_b e)) -> Inv Pr acc -> Inv Pr' acc.
Proof.
  intros Pr Pr' acc H HI.
  assert (Ht : forall e, In e es -> touched Pr e = touched Pr' e).
  { intros e He. unfold touched. destruct (H e He) as [-> ->]. reflexivity. }
  constructor.
  - intros x Hx. destruct (i_from _ _ HI x Hx) as [Hp (e & He & Hte & Hxe)]. split; [|exists e; auto].
    unfold touches in Hte. apply orb_true_iff in Hte. destruct (H e He) as [Ha Hb].
    destruct Hte as [Hte|Hte]; apply vpath_eqb_eq in Hte; rewrite <- Hte in *; congruence.
  - intros e He Htd. rewrite <- (Ht e He) in Htd. exact (i_all _ _ HI e He Htd).
  - rewrite <- (filter_ext_in _ _ _ Ht). exact (i_perm _ _ HI).
  - exact (i_norev _ _ HI).
Qed.

Lemma inv_ext : forall Pr Pr' acc, (forall x, Pr x = Pr' x) -> Inv Pr acc -> Inv Pr' acc.
Proof. intros Pr Pr' acc H. apply inv_ext_edges. intros. split; apply H. Qed.

Hypothesis comps_differ : forall e, In e es -> fst (e_a e) <> fst (e_b e).

Lemma inv_component : forall PC p n k acc, ~ In p PC -> Inv (Pr_of PC p k) acc ->
  Inv (Pr_of PC p (k + n)) (fold_left (fun acc vi => build_for_var es (p, vi) acc) (seq k n) acc).
Proof.
  intros PC p. induction n as [|n IH]; intros k acc Hp HI.
  - cbn. rewrite Nat.add_0_r. exact HI.
  - cbn [seq fold_left]. replace (k + S n) with (S k + n) by lia. apply IH; [exact Hp|].
    eapply inv_ext; [apply visit_Pr_of|]. apply inv_visit; try assumption.
    + unfold Pr_of, PrC. cbn [fst snd]. rewrite path_eqb_refl, Nat.ltb_irrefl. cbn [andb]. rewrite orb_false_r.
      apply not_true_iff_false. intros Hc. apply existsb_exists in Hc. destruct Hc as (q & Hq & He). apply path_eqb_eq in He. subst. contradiction.
    + intros x w Hx Hfw Hne. unfold Pr_of in *. cbn [fst] in Hne.
      destruct (path_eqb (fst x) p) eqn:Ep; [apply path_eqb_eq in Ep; contradiction|]. cbn [andb] in Hx. rewrite orb_false_r in Hx.
      unfold PrC in *. rewrite <- Hfw. rewrite Hx. reflexivity.
Qed.

(** the listing of the components: paths distinct, every endpoint of an edge a variable of a listed component *)
Variable comps : list (list nat * component).
Hypothesis paths_nodup : NoDup (map fst comps).
Definition endpoint_ok (x : vpath) : Prop :=
  (exists c, In (fst x, c) comps) /\ (forall c, In (fst x, c) comps -> snd x < length (c_vars (shell c))).
Hypothesis endpoints_ok : forall e, In e es -> endpoint_ok (e_a e) /\ endpoint_ok (e_b e).

Definition maps_of (l : list (list nat * component)) (acc : list mapentry) : list mapentry :=
  fold_left (fun acc pc => build_for_comp es pc acc) l acc.

Lemma PrC_app : forall PC p x, PrC (PC ++ [p]) x = PrC PC x || path_eqb (fst x) p.
Proof. intros. unfold PrC. rewrite existsb_app. cbn. now rewrite orb_false_r. Qed.

Lemma inv_components : forall l PC acc, (forall pc, In pc l -> In pc comps) -> NoDup (PC ++ map fst l) ->
  Inv (PrC PC) acc -> Inv (PrC (PC ++ map fst l)) (maps_of l acc).
Proof.
  induction l as [|[p c] l IH]; intros PC acc Hsub Hnd HI.
  - cbn. rewrite app_nil_r. exact HI.
  - cbn [maps_of fold_left map fst]. change (fold_left (fun acc0 pc => build_for_comp es pc acc0) l ?a) with (maps_of l a).
    replace (PC ++ p :: map fst l) with ((PC ++ [p]) ++ map fst l) by (rewrite <- app_assoc; reflexivity).
    apply IH.
    + intros pc Hpc. apply Hsub. now right.
    + rewrite <- app_assoc. exact Hnd.
    + unfold build_for_comp. cbn [fst snd].
      assert (Hp : ~ In p PC).
      { intros Hc. apply (NoDup_app_disj PC (p :: map fst l) p Hnd Hc). now left. }
      assert (H0 : Inv (Pr_of PC p 0) acc).
      { eapply inv_ext; [|exact HI]. intros x. unfold Pr_of. cbn. now rewrite andb_false_r, orb_false_r. }
      pose proof (inv_component PC p (length (c_vars (shell c))) 0 acc Hp H0) as H1. cbn [Nat.add] in H1.
      eapply inv_ext_edges; [|exact H1].
      intros e He. destruct (endpoints_ok e He) as [[_ Ha] [_ Hb]].
      assert (Hx : forall x, (forall c0, In (fst x, c0) comps -> snd x < length (c_vars (shell c0))) ->
                   Pr_of PC p (length (c_vars (shell c))) x = PrC (PC ++ [p]) x).
      { intros x Hxv. rewrite PrC_app. unfold Pr_of. destruct (path_eqb (fst x) p) eqn:Ep; cbn [andb]; [|reflexivity].
        apply path_eqb_eq in Ep. f_equal. apply Nat.ltb_lt. apply Hxv. rewrite Ep. apply Hsub. now left. }
      split; apply Hx; assumption.
Qed.

Lemma inv_nil : Inv (PrC []) [].
Proof.
  constructor.
  - intros x [].
  - intros e He Ht. unfold touched, PrC in Ht. cbn in Ht. discriminate.
  - cbn [flat_map]. rewrite (proj2 (filter_nil_iff _ es)); [constructor|]. intros. reflexivity.
  - intros x y [].
Qed.

Theorem maps_inv : Inv (PrC (map fst comps)) (maps_of comps []).
Proof. apply (inv_components comps [] []); [auto | exact paths_nodup | exact inv_nil]. Qed.

Lemma all_touched : forall e, In e es -> touched (PrC (map fst comps)) e = true.
Proof.
  intros e He. destruct (endpoints_ok e He) as [[(c & Hc) _] _]. unfold touched, PrC. apply orb_true_iff. left.
  apply existsb_exists. exists (fst (e_a e)). split; [apply in_map_iff; exists (fst (e_a e), c); auto | apply path_eqb_refl].
Qed.

(** every edge exactly once (ids included, up to orientation) *)
Theorem maps_perm : Permutation (flat_map okey (maps_of comps [])) (flat_map ekey es).
Proof.
  eapply Permutation_trans; [exact (i_perm _ _ maps_inv)|].
  rewrite (proj2 (filter_all_iff _ es)); [apply Permutation_refl|]. exact all_touched.
Qed.

Theorem maps_from_edges : forall x, In x (maps_of comps []) ->
  exists e, In e es /\ touches (me_v1 x) e = true /\ x = mk_entry (me_v1 x) e.
Proof. intros x Hx. exact (proj2 (i_from _ _ maps_inv x Hx)). Qed.

Theorem maps_no_reversed_pairs : forall x y, In x (maps_of comps []) -> In y (maps_of comps []) ->
  ~ (fst (me_v1 x) = fst (me_v2 y) /\ fst (me_v2 x) = fst (me_v1 y)).
Proof. exact (i_norev _ _ maps_inv). Qed.

End Maps.
