(** IfaceOwnProofs.v — every history of the units / ownership API keeps the ownership invariant that
    C19_link_true_post needs, unless a units object is re-added to the model that already lists it. *)
From Coq Require Import String List Bool Arith Lia.
From LC Require Import IfaceDefs IfaceSpec IfaceProofs IfaceOwnDefs.
Import ListNotations.
Local Open Scope string_scope.

(** In every live model the units list has no repetition and every listed object answers that model as parent. *)
Definition Inv (s : ustate) : Prop :=
  forall m l, lists_get (us_models s) m = Some l ->
    NoDup l /\ forall t, In t l -> owner_of s t = Some m.

Definition Unlisted (s : ustate) (u : nat) : Prop :=
  forall m l, lists_get (us_models s) m = Some l -> ~ In u l.

(* ---- lists *)
Lemma remove_at_in {A} i (l : list A) x : In x (remove_at i l) -> In x l.
Proof.
  revert i. induction l as [|a l IH]; intros i H; [destruct i; exact H|].
  destruct i; cbn in H; [now right|]. destruct H as [H|H]; [now left | right; eauto].
Qed.

Lemma remove_at_nodup {A} i (l : list A) : NoDup l -> NoDup (remove_at i l).
Proof.
  revert i. induction l as [|a l IH]; intros i H; [destruct i; exact H|].
  inversion H as [|a' l' Ha Hl]; subst. destruct i; cbn; [exact Hl|].
  constructor; [|now apply IH]. intros X. apply Ha. eapply remove_at_in; eauto.
Qed.

Lemma remove_at_gone {A} i (l : list A) x : NoDup l -> nth_error l i = Some x -> ~ In x (remove_at i l).
Proof.
  revert i. induction l as [|a l IH]; intros i H Hn; [destruct i; discriminate|].
  inversion H as [|a' l' Ha Hl]; subst. destruct i; cbn in *.
  - injection Hn as ->. exact Ha.
  - intros [X|X].
    + subst. apply Ha. eapply nth_error_In; eauto.
    + exact (IH i Hl Hn X).
Qed.

Lemma insert_at_in {A} i (x : A) l y : In y (insert_at i x l) <-> y = x \/ In y l.
Proof.
  revert i. induction l as [|a l IH]; intros i.
  - destruct i; cbn; intuition.
  - destruct i; cbn; [intuition|]. rewrite IH. intuition.
Qed.

Lemma insert_at_nodup {A} i (x : A) l : NoDup l -> ~ In x l -> NoDup (insert_at i x l).
Proof.
  revert i. induction l as [|a l IH]; intros i H Hx.
  - destruct i; cbn; constructor; auto; constructor.
  - destruct i; cbn; [constructor; auto|]. inversion H as [|a' l' Ha Hl]; subst.
    constructor.
    + rewrite insert_at_in. intros [X|X]; [subst; apply Hx; now left | contradiction].
    + apply IH; [exact Hl|]. intros X. apply Hx. now right.
Qed.

Lemma index_where_found {A} (p : A -> bool) l :
  index_where p l < length l -> exists x, nth_error l (index_where p l) = Some x /\ p x = true.
Proof.
  induction l as [|a l IH]; cbn; [lia|]. destruct (p a) eqn:E; [exists a; auto|].
  intros H. apply IH. lia.
Qed.

Lemma index_where_none {A} (p : A -> bool) l :
  ~ (index_where p l < length l) -> forall x, In x l -> p x = false.
Proof.
  induction l as [|a l IH]; cbn; intros H x Hx; [contradiction|].
  destruct (p a) eqn:E; [lia|]. destruct Hx as [<-|Hx]; [exact E|]. apply IH; [lia | exact Hx].
Qed.

(* ---- state access *)
Lemma lists_get_set ms m l k :
  lists_get (lists_set ms m l) k =
  if Nat.eqb k m then (match lists_get ms m with Some _ => Some l | None => None end) else lists_get ms k.
Proof.
  induction ms as [|[k0 l0] ms IH]; cbn [lists_set lists_get].
  - now destruct (Nat.eqb k m).
  - destruct (Nat.eqb k0 m) eqn:E0; cbn [lists_get].
    + apply Nat.eqb_eq in E0. subst k0. destruct (Nat.eqb k m) eqn:E1.
      * apply Nat.eqb_eq in E1. subst k. now rewrite Nat.eqb_refl.
      * assert (X : Nat.eqb m k = false) by (rewrite Nat.eqb_sym; exact E1). now rewrite X.
    + destruct (Nat.eqb k0 k) eqn:E2.
      * apply Nat.eqb_eq in E2. subst k0. now rewrite E0.
      * exact IH.
Qed.

Lemma lists_get_set_live ms m l k :
  (exists x, lists_get (lists_set ms m l) k = Some x) <-> (exists x, lists_get ms k = Some x).
Proof.
  rewrite lists_get_set. destruct (Nat.eqb k m) eqn:E; [|reflexivity].
  apply Nat.eqb_eq in E. subst k. destruct (lists_get ms m); split; intros [x H]; try discriminate; eauto.
Qed.

Lemma uget_set_owner heap t o k :
  uget (map (set_owner_obj t o) heap) k =
  match uget heap k with
  | Some u => Some (if Nat.eqb k t then mkU (u_tag u) (u_name u) (u_id u) (u_nunit u) (u_import u) o else u)
  | None => None
  end.
Proof.
  induction heap as [|u heap IH]; [reflexivity|]. cbn [map uget].
  assert (T : u_tag (set_owner_obj t o u) = u_tag u) by (unfold set_owner_obj; destruct (Nat.eqb (u_tag u) t); reflexivity).
  rewrite T. destruct (Nat.eqb (u_tag u) k) eqn:E.
  - apply Nat.eqb_eq in E. subst k. unfold set_owner_obj. destruct (Nat.eqb (u_tag u) t); reflexivity.
  - exact IH.
Qed.

Definition live (s : ustate) (m : nat) : bool := match lists_get (us_models s) m with Some _ => true | None => false end.

Lemma owner_of_set_owner s t o k :
  owner_of (set_owner s t o) k =
  if Nat.eqb k t then (if has_obj s t then match o with Some m => if live s m then Some m else None | None => None end else None)
  else owner_of s k.
Proof.
  unfold owner_of, set_owner, has_obj, live. cbn [us_heap us_models]. rewrite uget_set_owner.
  destruct (Nat.eqb k t) eqn:E.
  - apply Nat.eqb_eq in E. subst k. destruct (uget (us_heap s) t); [|reflexivity]. cbn.
    destruct o as [m|]; [|reflexivity]. destruct (lists_get (us_models s) m); reflexivity.
  - destruct (uget (us_heap s) k); reflexivity.
Qed.

Lemma owner_of_set_list s m l k : owner_of (set_list s m l) k = owner_of s k.
Proof.
  unfold owner_of, set_list. cbn [us_heap us_models]. destruct (uget (us_heap s) k) as [u|]; [|reflexivity].
  destruct (u_owner u) as [w|]; [|reflexivity]. rewrite lists_get_set.
  destruct (Nat.eqb w m) eqn:E; [|reflexivity]. apply Nat.eqb_eq in E. subst w.
  destruct (lists_get (us_models s) m); reflexivity.
Qed.

Lemma has_obj_set_owner s t o k : has_obj (set_owner s t o) k = has_obj s k.
Proof.
  unfold has_obj, set_owner. cbn [us_heap]. rewrite uget_set_owner. destruct (uget (us_heap s) k); reflexivity.
Qed.
Lemma has_obj_set_list s m l k : has_obj (set_list s m l) k = has_obj s k.
Proof. reflexivity. Qed.
Lemma live_set_owner s t o k : live (set_owner s t o) k = live s k.
Proof. reflexivity. Qed.
Lemma live_set_list s m l k : live (set_list s m l) k = live s k.
Proof.
  unfold live, set_list. cbn [us_models]. rewrite lists_get_set. destruct (Nat.eqb k m) eqn:E; [|reflexivity].
  apply Nat.eqb_eq in E. subst k. destruct (lists_get (us_models s) m); reflexivity.
Qed.

Lemma inv_listed_owner s m l t : Inv s -> lists_get (us_models s) m = Some l -> In t l -> owner_of s t = Some m.
Proof. intros H Hl Ht. exact (proj2 (H m l Hl) t Ht). Qed.

Lemma inv_unlisted_of_owner s u : Inv s -> owner_of s u = None -> Unlisted s u.
Proof. intros H Ho m l Hl Hin. rewrite (inv_listed_owner s m l u H Hl Hin) in Ho. discriminate. Qed.

(* ---- primitives *)

(** changing the parent of an object that no model lists *)
Lemma inv_set_owner_unlisted s u o : Inv s -> Unlisted s u -> Inv (set_owner s u o).
Proof.
  intros H Hu m l Hl. change (us_models (set_owner s u o)) with (us_models s) in Hl.
  destruct (H m l Hl) as [A B]. split; [exact A|]. intros t Ht. rewrite owner_of_set_owner.
  destruct (Nat.eqb t u) eqn:E; [|now apply B]. apply Nat.eqb_eq in E. subst t. exfalso. exact (Hu m l Hl Ht).
Qed.

(** Model::removeUnits(index) *)
Lemma inv_remove_idx s m i : Inv s -> Inv (fst (remove_idx s m i)).
Proof.
  intros H. unfold remove_idx. destruct (lists_get (us_models s) m) as [l|] eqn:El; [|exact H].
  destruct (nth_error l i) as [u|] eqn:En; [|exact H]. cbn [fst].
  destruct (H m l El) as [Nl Ol].
  intros k lk Hk. cbn [set_list us_models set_owner] in Hk. rewrite lists_get_set in Hk.
  destruct (Nat.eqb k m) eqn:E.
  - apply Nat.eqb_eq in E. subst k. rewrite El in Hk. injection Hk as <-. split; [now apply remove_at_nodup|].
    intros t Ht. rewrite owner_of_set_list, owner_of_set_owner.
    destruct (Nat.eqb t u) eqn:Etu.
    + apply Nat.eqb_eq in Etu. subst t. exfalso. exact (remove_at_gone i l u Nl En Ht).
    + apply Ol. eapply remove_at_in; eauto.
  - destruct (H k lk Hk) as [Nk Ok]. split; [exact Nk|]. intros t Ht.
    rewrite owner_of_set_list, owner_of_set_owner. destruct (Nat.eqb t u) eqn:Etu; [|now apply Ok].
    apply Nat.eqb_eq in Etu. subst t. exfalso.
    pose proof (Ok u Ht) as X. rewrite (Ol u (nth_error_In _ _ En)) in X. injection X as ->. now rewrite Nat.eqb_refl in E.
Qed.

(** lists only shrink under removeUnits *)
Lemma remove_idx_lists s m i k lk :
  lists_get (us_models (fst (remove_idx s m i))) k = Some lk ->
  exists l0, lists_get (us_models s) k = Some l0 /\ forall t, In t lk -> In t l0.
Proof.
  unfold remove_idx. destruct (lists_get (us_models s) m) as [l|] eqn:El; [|intros H; exists lk; auto].
  destruct (nth_error l i) as [u|] eqn:En; [|intros H; exists lk; auto]. cbn [fst set_list us_models set_owner].
  rewrite lists_get_set. destruct (Nat.eqb k m) eqn:E.
  - apply Nat.eqb_eq in E. subst k. rewrite El. intros H. injection H as <-. exists l. split; [reflexivity|].
    intros t. apply remove_at_in.
  - intros H. exists lk. auto.
Qed.

Lemma remove_idx_has_obj s m i k : has_obj (fst (remove_idx s m i)) k = has_obj s k.
Proof.
  unfold remove_idx. destruct (lists_get (us_models s) m) as [l|]; [|reflexivity].
  destruct (nth_error l i); [|reflexivity]. cbn [fst]. now rewrite has_obj_set_list, has_obj_set_owner.
Qed.

Lemma remove_idx_live s m i k : live (fst (remove_idx s m i)) k = live s k.
Proof.
  unfold remove_idx. destruct (lists_get (us_models s) m) as [l|]; [|reflexivity].
  destruct (nth_error l i); [|reflexivity]. cbn [fst]. now rewrite live_set_list, live_set_owner.
Qed.

(** after removeUnits(index) the removed object is listed nowhere *)
Lemma remove_idx_unlisted s m i l u :
  Inv s -> lists_get (us_models s) m = Some l -> nth_error l i = Some u -> Unlisted (fst (remove_idx s m i)) u.
Proof.
  intros H El En k lk Hk Hin. unfold remove_idx in Hk. rewrite El, En in Hk. cbn [fst set_list us_models set_owner] in Hk.
  rewrite lists_get_set in Hk. destruct (H m l El) as [Nl Ol]. destruct (Nat.eqb k m) eqn:E.
  - apply Nat.eqb_eq in E. subst k. rewrite El in Hk. injection Hk as <-. exact (remove_at_gone i l u Nl En Hin).
  - pose proof (inv_listed_owner s k lk u H Hk Hin) as X. rewrite (Ol u (nth_error_In _ _ En)) in X.
    injection X as ->. now rewrite Nat.eqb_refl in E.
Qed.

(** Model::removeUnits(UnitsPtr) *)
Lemma inv_remove_ptr s m u : Inv s -> Inv (fst (remove_ptr s m u)).
Proof. intros H. unfold remove_ptr. destruct (lists_get (us_models s) m); [now apply inv_remove_idx | exact H]. Qed.

Lemma remove_ptr_lists s m u k lk :
  lists_get (us_models (fst (remove_ptr s m u))) k = Some lk ->
  exists l0, lists_get (us_models s) k = Some l0 /\ forall t, In t lk -> In t l0.
Proof.
  unfold remove_ptr. destruct (lists_get (us_models s) m); [apply remove_idx_lists | intros H; exists lk; auto].
Qed.

Lemma remove_ptr_has_obj s m u k : has_obj (fst (remove_ptr s m u)) k = has_obj s k.
Proof. unfold remove_ptr. destruct (lists_get (us_models s) m); [apply remove_idx_has_obj | reflexivity]. Qed.
Lemma remove_ptr_live s m u k : live (fst (remove_ptr s m u)) k = live s k.
Proof. unfold remove_ptr. destruct (lists_get (us_models s) m); [apply remove_idx_live | reflexivity]. Qed.

(** the object leaves the model that owns it: afterwards no model lists it *)
Lemma remove_ptr_owner_unlisted s m u : Inv s -> owner_of s u = Some m -> Unlisted (fst (remove_ptr s m u)) u.
Proof.
  intros H Ho. unfold remove_ptr. destruct (lists_get (us_models s) m) as [l|] eqn:El.
  - unfold find_ptr_idx. destruct (Nat.ltb (index_where (Nat.eqb u) l) (length l)) eqn:Elt.
    + apply Nat.ltb_lt in Elt. destruct (index_where_found _ _ Elt) as [x [Hx Hp]].
      apply Nat.eqb_eq in Hp. subst x. eapply remove_idx_unlisted; eauto.
    + apply Nat.ltb_ge in Elt.
      assert (Hnot : ~ In u l).
      { intros Hin. assert (X := index_where_none (Nat.eqb u) l (fun Y => proj1 (Nat.lt_nge _ _) Y Elt) u Hin).
        now rewrite Nat.eqb_refl in X. }
      intros k lk Hk Hin. destruct (remove_idx_lists _ _ _ _ _ Hk) as [l0 [Hl0 Hsub]].
      specialize (Hsub u Hin). pose proof (inv_listed_owner s k l0 u H Hl0 Hsub) as X. rewrite Ho in X.
      injection X as <-. rewrite El in Hl0. injection Hl0 as <-. contradiction.
  - intros k lk Hk Hin. cbn [fst] in Hk. pose proof (inv_listed_owner s k lk u H Hk Hin) as X. rewrite Ho in X.
    injection X as <-. congruence.
Qed.

(** listing an object that no model lists and making the model its parent *)
Lemma inv_attach s m l l' u :
  Inv s -> lists_get (us_models s) m = Some l -> Unlisted s u -> has_obj s u = true ->
  NoDup l' -> (forall t, In t l' -> t = u \/ In t l) ->
  Inv (set_owner (set_list s m l') u (Some m)).
Proof.
  intros H El Hu Ho Nl' Hsub k lk Hk. cbn [set_owner set_list us_models] in Hk. rewrite lists_get_set in Hk.
  assert (Lm : live (set_list s m l') m = true) by (rewrite live_set_list; unfold live; now rewrite El).
  destruct (Nat.eqb k m) eqn:E.
  - apply Nat.eqb_eq in E. subst k. rewrite El in Hk. injection Hk as <-. split; [exact Nl'|].
    intros t Ht. rewrite owner_of_set_owner, has_obj_set_list, Ho, Lm. destruct (Nat.eqb t u) eqn:Etu; [reflexivity|].
    rewrite owner_of_set_list. destruct (Hsub t Ht) as [->|Hin]; [now rewrite Nat.eqb_refl in Etu|].
    exact (inv_listed_owner s m l t H El Hin).
  - destruct (H k lk Hk) as [Nk Ok]. split; [exact Nk|]. intros t Ht.
    rewrite owner_of_set_owner. destruct (Nat.eqb t u) eqn:Etu.
    + apply Nat.eqb_eq in Etu. subst t. exfalso. exact (Hu k lk Hk Ht).
    + rewrite owner_of_set_list. now apply Ok.
Qed.

(* ---- the calls *)

Lemma unlisted_after_remove_idx s m i u : Unlisted s u -> Unlisted (fst (remove_idx s m i)) u.
Proof.
  intros Hu k lk Hk Hin. destruct (remove_idx_lists _ _ _ _ _ Hk) as [l0 [Hl0 Hsub]]. exact (Hu k l0 Hl0 (Hsub u Hin)).
Qed.

Lemma replace_tail s1 m idx u :
  Inv s1 -> Unlisted s1 u -> has_obj s1 u = true ->
  Inv (fst (let '(s2, ok) := remove_idx s1 m idx in
            if ok then match lists_get (us_models s2) m with
                       | Some l2 => (set_owner (set_list s2 m (insert_at idx u l2)) u (Some m), true)
                       | None => (s2, false)
                       end
            else (s2, false))).
Proof.
  intros H Hu Ho. pose proof (inv_remove_idx s1 m idx H) as H2. pose proof (unlisted_after_remove_idx s1 m idx u Hu) as Hu2.
  pose proof (remove_idx_has_obj s1 m idx u) as Ho2.
  destruct (remove_idx s1 m idx) as [s2 ok]. cbn [fst] in *. destruct ok; [|exact H2].
  destruct (lists_get (us_models s2) m) as [l2|] eqn:E2; [|exact H2]. cbn [fst].
  apply (inv_attach s2 m l2 (insert_at idx u l2) u H2 E2 Hu2); [congruence | |].
  - apply insert_at_nodup; [exact (proj1 (H2 m l2 E2)) | exact (Hu2 m l2 E2)].
  - intros t Ht. now apply insert_at_in in Ht.
Qed.

Lemma inv_replace_idx s m i u : Inv s -> has_obj s u = true -> Inv (fst (replace_idx s m i u)).
Proof.
  intros H Ho. unfold replace_idx. destruct (lists_get (us_models s) m) as [l|] eqn:El; [|exact H].
  destruct (nth_error l i) as [old|] eqn:En; [|exact H]. destruct (Nat.eqb old u); [exact H|].
  destruct (owner_of s u) as [m'|] eqn:Eo.
  - apply replace_tail.
    + now apply inv_remove_ptr.
    + now apply remove_ptr_owner_unlisted.
    + now rewrite remove_ptr_has_obj.
  - apply replace_tail; [exact H | now apply inv_unlisted_of_owner | exact Ho].
Qed.

Lemma inv_take_idx s m i : Inv s -> Inv (fst (take_idx s m i)).
Proof.
  intros H. unfold take_idx. destruct (lists_get (us_models s) m) as [l|] eqn:El; [|exact H].
  destruct (nth_error l i) as [u|] eqn:En; [|exact H]. cbn [fst].
  apply inv_set_owner_unlisted; [now apply inv_remove_idx | eapply remove_idx_unlisted; eauto].
Qed.

Lemma fold_clear_models l : forall s, us_models (fold_left (fun acc t => set_owner acc t None) l s) = us_models s.
Proof. induction l as [|a l IH]; intros s; [reflexivity|]. cbn [fold_left]. now rewrite IH. Qed.

Lemma fold_clear_owner l t : forall s,
  ~ In t l -> owner_of (fold_left (fun acc x => set_owner acc x None) l s) t = owner_of s t.
Proof.
  induction l as [|a l IH]; intros s Hn; [reflexivity|]. cbn [fold_left]. rewrite IH by (intros X; apply Hn; now right).
  rewrite owner_of_set_owner. destruct (Nat.eqb t a) eqn:E; [|reflexivity].
  apply Nat.eqb_eq in E. subst a. exfalso. apply Hn. now left.
Qed.

Lemma inv_remove_all s m l :
  Inv s -> lists_get (us_models s) m = Some l ->
  Inv (set_list (fold_left (fun acc t => set_owner acc t None) l s) m []).
Proof.
  intros H El k lk Hk. cbn [set_list us_models] in Hk. rewrite lists_get_set, fold_clear_models in Hk.
  destruct (Nat.eqb k m) eqn:E.
  - rewrite El in Hk. injection Hk as <-. split; [constructor | intros t []].
  - destruct (H k lk Hk) as [Nk Ok]. split; [exact Nk|]. intros t Ht. rewrite owner_of_set_list, fold_clear_owner; [now apply Ok|].
    intros Hin. pose proof (inv_listed_owner s m l t H El Hin) as X. rewrite (Ok t Ht) in X. injection X as ->.
    now rewrite Nat.eqb_refl in E.
Qed.

Lemma lists_get_filter ms m k :
  lists_get (filter (fun e : nat * list nat => negb (Nat.eqb (fst e) m)) ms) k =
  if Nat.eqb k m then None else lists_get ms k.
Proof.
  induction ms as [|[k0 l0] ms IH]; cbn [filter lists_get fst].
  - now destruct (Nat.eqb k m).
  - destruct (Nat.eqb k0 m) eqn:E0; cbn [negb lists_get].
    + rewrite IH. apply Nat.eqb_eq in E0. subst k0. destruct (Nat.eqb k m) eqn:E1; [reflexivity|].
      assert (X : Nat.eqb m k = false) by (rewrite Nat.eqb_sym; exact E1). now rewrite X.
    + destruct (Nat.eqb k0 k) eqn:E2.
      * apply Nat.eqb_eq in E2. subst k0. now rewrite E0.
      * exact IH.
Qed.

Lemma inv_destroy s m :
  Inv s -> Inv (mkUS (us_heap s) (filter (fun e => negb (Nat.eqb (fst e) m)) (us_models s)) (us_class s)).
Proof.
  intros H k lk Hk. cbn [us_models] in Hk. rewrite lists_get_filter in Hk. destruct (Nat.eqb k m) eqn:E; [discriminate|].
  destruct (H k lk Hk) as [Nk Ok]. split; [exact Nk|]. intros t Ht. specialize (Ok t Ht).
  unfold owner_of in *. cbn [us_heap us_models]. destruct (uget (us_heap s) t) as [u|]; [|discriminate].
  destruct (u_owner u) as [w|]; [|discriminate]. rewrite lists_get_filter.
  destruct (lists_get (us_models s) w) eqn:Ew; [|discriminate]. injection Ok as ->. now rewrite E.
Qed.

Lemma nodup_snoc {A} (l : list A) u : NoDup l -> ~ In u l -> NoDup (l ++ [u]).
Proof.
  induction l as [|a l IH]; intros H Hu; cbn; [constructor; [intros [] | constructor]|].
  inversion H as [|a' l' Ha Hl]; subst. constructor.
  - intros X. apply in_app_or in X. destruct X as [X|[X|[]]]; [contradiction | subst; apply Hu; now left].
  - apply IH; [exact Hl | intros X; apply Hu; now right].
Qed.

(** every call keeps the invariant, unless it re-adds a units object to the model that lists it *)
Lemma inv_step s o : Inv s -> readds s o = false -> Inv (fst (step s o)).
Proof.
  intros H Hr. destruct o as [m u|m i|m n|m u|m|m i|m n|m i u|m n u|m old u|m]; cbn [step];
    destruct (lists_get (us_models s) m) as [l|] eqn:El; try exact H; cbn [fst].
  - (* addUnits *)
    destruct (has_obj s u) eqn:Ho; cbn [negb]; [|exact H].
    set (s1 := match owner_of s u with
               | Some m' => if Nat.eqb m' m then s else fst (remove_ptr s m' u)
               | None => s end).
    assert (A : Inv s1 /\ Unlisted s1 u /\ has_obj s1 u = true).
    { unfold s1. destruct (owner_of s u) as [m'|] eqn:Eo.
      - destruct (Nat.eqb m' m) eqn:Em.
        + apply Nat.eqb_eq in Em. subst m'. split; [exact H|]. split; [|exact Ho].
          intros k lk Hk Hin. pose proof (inv_listed_owner s k lk u H Hk Hin) as X. rewrite Eo in X. injection X as <-.
          rewrite El in Hk. injection Hk as <-. cbn [readds] in Hr. rewrite El in Hr.
          assert (Y : existsb (Nat.eqb u) l = true) by (apply existsb_exists; exists u; split; [exact Hin | apply Nat.eqb_refl]).
          congruence.
        + split; [now apply inv_remove_ptr|]. split; [now apply remove_ptr_owner_unlisted | now rewrite remove_ptr_has_obj].
      - split; [exact H|]. split; [now apply inv_unlisted_of_owner | exact Ho]. }
    destruct A as [H1 [Hu1 Ho1]]. destruct (lists_get (us_models s1) m) as [l1|] eqn:E1; [|exact H1]. cbn [fst].
    apply (inv_attach s1 m l1 (l1 ++ [u]) u H1 E1 Hu1 Ho1).
    + apply nodup_snoc; [exact (proj1 (H1 m l1 E1)) | exact (Hu1 m l1 E1)].
    + intros t Ht. apply in_app_or in Ht. destruct Ht as [Ht|[<-|[]]]; auto.
  - now apply inv_remove_idx.
  - now apply inv_remove_idx.
  - destruct (has_obj s u); cbn [negb fst]; [now apply inv_remove_ptr | exact H].
  - now apply inv_remove_all.
  - now apply inv_take_idx.
  - now apply inv_take_idx.
  - destruct (has_obj s u) eqn:Ho; cbn [negb fst]; [now apply inv_replace_idx | exact H].
  - destruct (has_obj s u) eqn:Ho; cbn [negb fst]; [now apply inv_replace_idx | exact H].
  - destruct (has_obj s u) eqn:Ho; cbn [negb orb]; [|exact H]. destruct (has_obj s old); cbn [negb fst]; [now apply inv_replace_idx | exact H].
  - now apply inv_destroy.
Qed.

(* ---- histories *)

Lemma run_ops_cons s o r : fst (run_ops s (o :: r)) = fst (run_ops (fst (step s o)) r).
Proof. cbn [run_ops]. destruct (step s o) as [s1 x]. cbn [fst]. destruct (run_ops s1 r) as [s2 xs]. reflexivity. Qed.

Lemma inv_run_ops os : forall s, Inv s -> any_readd s os = false -> Inv (fst (run_ops s os)).
Proof.
  induction os as [|o r IH]; intros s H Hr; [exact H|]. rewrite run_ops_cons. cbn [any_readd] in Hr.
  apply orb_false_iff in Hr. destruct Hr as [Hr1 Hr2]. apply IH; [now apply inv_step | exact Hr2].
Qed.

(** objects that were just created: no model lists anything yet *)
Definition fresh (s : ustate) : Prop := forall m l, lists_get (us_models s) m = Some l -> l = [].

Lemma inv_fresh s : fresh s -> Inv s.
Proof. intros H m l Hl. rewrite (H m l Hl). split; [constructor | intros t []]. Qed.

Lemma uget_tag heap t u : uget heap t = Some u -> u_tag u = t.
Proof.
  induction heap as [|a heap IH]; [discriminate|]. cbn. destruct (Nat.eqb (u_tag a) t) eqn:E; [|exact IH].
  intros X. injection X as <-. now apply Nat.eqb_eq.
Qed.

Lemma uget_visible s t :
  uget (visible_heap s) t =
  match uget (us_heap s) t with
  | Some u => Some (mkU (u_tag u) (u_name u) (u_id u) (u_nunit u) (u_import u) (owner_of s (u_tag u)))
  | None => None
  end.
Proof.
  unfold visible_heap. generalize (owner_of s). intros f. induction (us_heap s) as [|a heap IH]; [reflexivity|].
  cbn [map uget u_tag]. destruct (Nat.eqb (u_tag a) t); [reflexivity | exact IH].
Qed.

(** the invariant is the hypothesis of C19_link_true_post, for every model of the state *)
Lemma inv_units_owned s m comps ext : Inv s -> units_owned (model_view s m comps ext).
Proof.
  intros H t Ht. unfold model_view in *. cbn [m_units m_heap m_tag] in *.
  destruct (lists_get (us_models s) m) as [l|] eqn:El; [|contradiction].
  pose proof (inv_listed_owner s m l t H El Ht) as Ho. rewrite uget_visible.
  unfold owner_of in Ho. destruct (uget (us_heap s) t) as [u|] eqn:Eu; [|discriminate].
  eexists. split; [reflexivity|]. cbn [u_owner]. rewrite (uget_tag _ _ _ Eu).
  unfold owner_of. rewrite Eu. exact Ho.
Qed.

(** Every state reached from freshly created objects by the units API satisfies [units_owned], provided no
    call re-adds a units object to the model that already lists it. *)
Lemma reach_owned s0 os m comps ext :
  fresh s0 -> any_readd s0 os = false -> units_owned (model_view (fst (run_ops s0 os)) m comps ext).
Proof. intros Hf Hr. apply inv_units_owned. apply inv_run_ops; [now apply inv_fresh | exact Hr]. Qed.

(** ... so the post-condition of linkUnits holds after every such history *)
Lemma link_true_post_histories s0 os m comps ext :
  fresh s0 -> any_readd s0 os = false ->
  let M := model_view (fst (run_ops s0 os)) m comps ext in
  snd (link_model M) = true ->
  has_unlinked (fst (link_model M)) = false /\
  forall o t u, In o (model_occs M) -> v_units (o_v o) = Some t -> uget (m_heap M) t = Some u ->
    is_standard_unit u = false ->
    exists t' u', v_units (o_v (link_occ M o)) = Some t' /\ uget (m_heap M) t' = Some u' /\
      u_owner u' = Some (m_tag M) /\ u_name u' = u_name u /\ (t' = t \/ FirstNamed M (u_name u) t').
Proof. intros Hf Hr M. apply link_true_post. now apply reach_owned. Qed.

(** The exclusion is needed: addUnits twice, removeUnits once. *)
Definition s_fresh : ustate := mkUS [mkU 10 "ua" "" 1 false None] [(0, [])] [].
Definition h_readd : list uop := [OAdd 0 10; OAdd 0 10; ORemoveIdx 0 0].
Definition tree_holding : list comp := [Comp 2 (ci0 "c") [mkV 4 "" [] (Some 10)] []].

Lemma reach_owned_refuted :
  fresh s_fresh /\ any_readd s_fresh h_readd = true /\
  snd (run_ops s_fresh h_readd) = [RBool true; RBool true; RBool true] /\
  let M := model_view (fst (run_ops s_fresh h_readd)) 0 tree_holding [] in
  m_units M = [10] /\ ~ units_owned M /\ snd (link_model M) = true /\ has_unlinked (fst (link_model M)) = true.
Proof.
  split.
  - intros m l H. destruct m as [|m]; cbn in H; [congruence | discriminate].
  - split; [reflexivity|]. split; [reflexivity|]. cbn zeta. split; [reflexivity|]. split; [|split; reflexivity].
    intros H. destruct (H 10 (or_introl eq_refl)) as [u [Hu Ho]]. vm_compute in Hu. injection Hu as <-. discriminate Ho.
Qed.

(** non-vacuity: a history with a move between models, a removal through an equal but distinct object, a
    replacement and the death of the other model keeps the invariant and changes who owns what *)
Definition s_two : ustate :=
  mkUS [mkU 10 "ua" "" 1 false None; mkU 11 "ua" "" 1 false None; mkU 12 "ub" "" 0 false None]
       [(0, []); (1, [])] [(10, 10); (11, 10); (12, 12)].
Definition h_moves : list uop :=
  [OAdd 1 10; OAdd 0 12; OAdd 0 10; OAdd 1 11; ORemovePtr 1 10; OReplaceIdx 0 0 11; ODestroy 1].

Lemma histories_nonvacuous :
  fresh s_two /\ any_readd s_two h_moves = false /\
  snd (run_ops s_two h_moves) = [RBool true; RBool true; RBool true; RBool true; RBool true; RBool true; RVoid] /\
  us_models (fst (run_ops s_two h_moves)) = [(0, [11; 10])] /\
  map u_owner (visible_heap (fst (run_ops s_two h_moves))) = [Some 0; Some 0; None].
Proof.
  split.
  - intros m l H. destruct m as [|[|m]]; cbn in H; try congruence; discriminate.
  - repeat split; reflexivity.
Qed.
