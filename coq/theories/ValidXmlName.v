(** ValidXmlName.v — C04: the table of isNameStartChar / isNameChar (validator.cpp compares UTF-8 byte sequences packed
    into integers) is the NameStartChar / NameChar production of the XML recommendation on code points — checked by
    computation for EVERY code point of the basic multilingual plane (0 .. 0xFFFF: one-, two- and three-byte sequences,
    which hold all but one of the ranges).  The same sweep over the supplementary planes (0x10000 .. 0x10FFFF, the single
    range [#x10000-#xEFFFF]) also evaluates to true, but takes minutes and is therefore not part of the build:
    `Lemma sweep_all : sweep 0x110000 = (0x110000, true). Proof. vm_compute. reflexivity. Qed.` *)
From Coq Require Import List Bool NArith.
From LC Require Import ValidDefs.
Import ListNotations.
Local Open Scope N_scope.

(** UTF-8 encoding of a code point, packed the way characterBreakdown / convertTextToUint32 pack it *)
Definition utf8_pack (cp : N) : N :=
  if cp <? 0x80 then cp
  else if cp <? 0x800 then pack2 (0xC0 + cp / 64) (0x80 + cp mod 64)
  else if cp <? 0x10000 then pack3 (0xE0 + cp / 4096) (0x80 + (cp / 64) mod 64) (0x80 + cp mod 64)
  else pack4 (0xF0 + cp / 262144) (0x80 + (cp / 4096) mod 64) (0x80 + (cp / 64) mod 64) (0x80 + cp mod 64).

(** https://www.w3.org/TR/xml11/#NT-NameStartChar *)
Definition name_start_cp (c : N) : bool :=
  (c =? 0x3A) || rng 0x41 0x5A c || (c =? 0x5F) || rng 0x61 0x7A c
  || rng 0xC0 0xD6 c || rng 0xD8 0xF6 c || rng 0xF8 0x2FF c || rng 0x370 0x37D c || rng 0x37F 0x1FFF c
  || rng 0x200C 0x200D c || rng 0x2070 0x218F c || rng 0x2C00 0x2FEF c || rng 0x3001 0xD7FF c
  || rng 0xF900 0xFDCF c || rng 0xFDF0 0xFFFD c || rng 0x10000 0xEFFFF c.
(** https://www.w3.org/TR/xml11/#NT-NameChar *)
Definition name_char_cp (c : N) : bool :=
  name_start_cp c || (c =? 0x2D) || (c =? 0x2E) || rng 0x30 0x39 c || (c =? 0xB7) || rng 0x300 0x36F c || rng 0x203F 0x2040 c.

Definition agree (cp : N) : bool :=
  Bool.eqb (is_name_start_char (utf8_pack cp)) (name_start_cp cp) && Bool.eqb (is_name_char (utf8_pack cp)) (name_char_cp cp).

Definition sweep (n : N) : N * bool := N.iter n (fun s => (fst s + 1, snd s && agree (fst s))) (0, true).

Lemma sweep_bmp : sweep 0x10000 = (0x10000, true).
Proof. vm_compute. reflexivity. Qed.

(** a few supplementary-plane points: both ends of [#x10000-#xEFFFF] and their neighbours *)
Lemma supplementary_ends :
  forallb agree [0x10000; 0x10001; 0x1F600; 0xEFFFE; 0xEFFFF; 0xF0000; 0xF0001; 0x10FFFF] = true.
Proof. vm_compute. reflexivity. Qed.

From Coq Require Import Lia.

Lemma sweep_inv : forall n, snd (sweep n) = true -> forall cp, cp < fst (sweep n) -> agree cp = true.
Proof.
  intro n. unfold sweep.
  apply (N.iter_invariant n (N * bool) (fun s => (fst s + 1, snd s && agree (fst s)))
           (fun s => snd s = true -> forall cp, cp < fst s -> agree cp = true)).
  - intros s IH. cbn [fst snd]. intros H cp Hcp. apply andb_true_iff in H. destruct H as [H1 H2].
    destruct (N.eq_dec cp (fst s)) as [->|Hne]; [exact H2|]. apply IH; [exact H1 | lia].
  - cbn. intros _ cp Hcp. lia.
Qed.

(** on the basic multilingual plane the packed-UTF-8 table of validator.cpp is exactly the W3C production *)
Theorem xml_name_table_bmp : forall cp, cp < 0x10000 ->
  is_name_start_char (utf8_pack cp) = name_start_cp cp /\ is_name_char (utf8_pack cp) = name_char_cp cp.
Proof.
  intros cp Hcp. assert (H : agree cp = true).
  { apply (sweep_inv 0x10000); rewrite sweep_bmp; [reflexivity | exact Hcp]. }
  unfold agree in H. apply andb_true_iff in H. destruct H as [H1 H2].
  split; apply Bool.eqb_prop; assumption.
Qed.
