(** EvalDefs.v — exact meaning of an expression tree over the rationals (Qc: canonical rationals, Leibniz
    equality), with arbitrary interpretations of variables, literals and function names (C03).  No proofs.
    Relational and logical operators yield 1 / 0 as in C and in the Python helper functions; a value is
    "true" when it is not 0.  Division is Coq's total division (x / 0 = 0); the theorems are equalities
    between two readings of the same text, which hold for every interpretation. *)
From Coq Require Import String QArith Qcanon.
From LC Require Import GramDefs.
Local Open Scope Qc_scope.

Record env : Type := {
  e_var : string -> Qc;
  e_lit : string -> Qc;
  e_f1 : string -> Qc -> Qc;
  e_f2 : string -> Qc -> Qc -> Qc
}.

Definition truth (x : Qc) : bool := if Qc_eq_dec x 0 then false else true.
Definition of_bool (b : bool) : Qc := if b then 1 else 0.
Definition ltb (x y : Qc) : bool := if Qclt_le_dec x y then true else false.
Definition eqb (x y : Qc) : bool := if Qc_eq_dec x y then true else false.

Definition eval_bin (op : binop) (x y : Qc) : Qc :=
  match op with
  | Add => x + y
  | Sub => x - y
  | Mul => x * y
  | Div => x / y
  | Lt => of_bool (ltb x y)
  | Le => of_bool (negb (ltb y x))
  | Gt => of_bool (ltb y x)
  | Ge => of_bool (negb (ltb x y))
  | Eq => of_bool (eqb x y)
  | Ne => of_bool (negb (eqb x y))
  | And => of_bool (truth x && truth y)
  | Or => of_bool (truth x || truth y)
  end.

Fixpoint eval (E : env) (t : tree) : Qc :=
  match t with
  | TVar s => e_var E s
  | TLit s => e_lit E s
  | TNeg a => - eval E a
  | TNot a => of_bool (negb (truth (eval E a)))
  | TBin op a b => eval_bin op (eval E a) (eval E b)
  | TCond c a b => if truth (eval E c) then eval E a else eval E b
  | TCall1 f a => e_f1 E f (eval E a)
  | TCall2 f a b => e_f2 E f (eval E a) (eval E b)
  end.
