(** AnalysisScopeProofs.v — C05, classification_perm_invariant_partial on a small scope, checked by the kernel:
    for EVERY one-component system with 3 variables (each with or without an initial value) and at most 3 equations
    drawn from the shapes  a = c,  a = b + c,  a + b = c,  a * a = c  (15 shapes), if the analysis solves the system
    without NLA detection (valid result of type ALGEBRAIC), then every re-ordering of the equations has the same
    classification up to the order of the variable list. *)
From Coq Require Import List Bool Arith PeanoNat Lia.
From LC Require Import AnalysisDefs AnalysisSpec AnalysisWitness.
Import ListNotations.
Local Open Scope bool_scope.

Scheme Equality for role.
Scheme Equality for mtype.

Definition shapes_k (k : nat) : list (expr * expr) :=
  flat_map (fun a => [(EVar a, ECn); (EOp (EVar a) (EVar a), ECn)]) (seq 0 k)
  ++ flat_map (fun a => flat_map (fun b => if a =? b then [] else [(EVar a, EOp (EVar b) ECn)]) (seq 0 k)) (seq 0 k)
  ++ flat_map (fun a => flat_map (fun b => if a <? b then [(EOp (EVar a) (EVar b), ECn)] else []) (seq 0 k)) (seq 0 k).

(* non-decreasing lists of n indices in [lo, m) *)
Fixpoint ndl (n lo m : nat) : list (list nat) :=
  match n with
  | 0 => [[]]
  | S n' => flat_map (fun i => map (cons i) (ndl n' i m)) (seq lo (m - lo))
  end.

Fixpoint ins_all {A} (x : A) (l : list A) : list (list A) :=
  match l with
  | [] => [[x]]
  | y :: r => (x :: l) :: map (cons y) (ins_all x r)
  end.
Fixpoint perms {A} (l : list A) : list (list A) :=
  match l with
  | [] => [[]]
  | x :: r => flat_map (ins_all x) (perms r)
  end.

Fixpoint inits_k (k : nat) : list (list init) :=
  match k with 0 => [[]] | S k' => flat_map (fun l => [INone :: l; IConst :: l]) (inits_k k') end.

Definition eqns_of (k : nat) (idx : list nat) : list eqn :=
  map (fun pi => let '(p, i) := pi in let '(l, r) := nth i (shapes_k k) (ECn, ECn) in mkEqn (1001 + p) l r) (combine (seq 0 (length idx)) idx).

Definition sys_of (ini : list init) (qs : list eqn) : system :=
  [mkComp (map (fun ni => mkVar (fst ni) (fst ni) (snd ni)) (combine (seq 0 (length ini)) ini)) qs].

Definition scope_k (k n : nat) : list (list init * list eqn) :=
  let m := length (shapes_k k) in
  flat_map (fun ini => map (fun idx => (ini, eqns_of k idx)) (flat_map (fun j => ndl j 0 m) (seq 0 (S n)))) (inits_k k).

Definition same_cls (a b : option (mtype * list (nat * role))) : bool :=
  match a, b with
  | Some (t, l), Some (t', l') =>
      mtype_beq t t' && (length l =? length l')
      && forallb (fun x => existsb (fun y => (fst x =? fst y) && role_beq (snd x) (snd y)) l') l
  | None, None => true
  | _, _ => false
  end.

Definition solved_directly (s : system) : bool :=
  match analyse s with Done r => mtype_beq (r_type r) MAlgebraic | _ => false end.

Definition scope_ok (scope : list (list init * list eqn)) : bool :=
  forallb (fun iq => let '(ini, qs) := iq in
             let s := sys_of ini qs in
             if solved_directly s
             then forallb (fun qs' => same_cls (classification_of s) (classification_of (sys_of ini qs'))) (perms qs)
             else true) scope.

Definition scope_count (scope : list (list init * list eqn)) : nat * nat :=
  (length scope, length (filter (fun iq => solved_directly (sys_of (fst iq) (snd iq))) scope)).
Lemma scope_3_3_ok : scope_ok (scope_k 3 3) = true.
Proof. vm_compute. reflexivity. Qed.

(** Small-scope order invariance: every system of the scope that is solved without NLA detection has the same
    classification (same model type, same role for every class) under every re-ordering of its equations. *)
Theorem small_scope_perm_invariant : forall ini qs,
  In (ini, qs) (scope_k 3 3) -> solved_directly (sys_of ini qs) = true ->
  forall qs', In qs' (perms qs) ->
  same_cls (classification_of (sys_of ini qs)) (classification_of (sys_of ini qs')) = true.
Proof.
  intros ini qs Hin Hs qs' Hq. pose proof scope_3_3_ok as H. unfold scope_ok in H.
  rewrite forallb_forall in H. specialize (H _ Hin). cbv beta iota zeta in H. rewrite Hs in H.
  rewrite forallb_forall in H. apply H. exact Hq.
Qed.

(* the re-orderings enumerated are permutations, and all of them *)
Lemma ins_all_perm : forall {A} (x : A) l l', In l' (ins_all x l) -> Permutation.Permutation (x :: l) l'.
Proof.
  intros A x l. induction l as [|y r IH]; intros l' H; cbn in H.
  - destruct H as [<-|[]]. apply Permutation.Permutation_refl.
  - destruct H as [<-|H]; [apply Permutation.Permutation_refl|].
    apply in_map_iff in H. destruct H as (m & <- & Hm).
    eapply Permutation.perm_trans; [apply Permutation.perm_swap|]. apply Permutation.perm_skip. apply IH. exact Hm.
Qed.
Lemma perms_perm : forall {A} (l l' : list A), In l' (perms l) -> Permutation.Permutation l l'.
Proof.
  intros A l. induction l as [|x r IH]; intros l' H; cbn in H.
  - destruct H as [<-|[]]. constructor.
  - apply in_flat_map in H. destruct H as (m & Hm & Hl').
    eapply Permutation.perm_trans; [apply Permutation.perm_skip; apply IH; exact Hm|]. apply ins_all_perm. exact Hl'.
Qed.

Fixpoint expr_beq (a b : expr) : bool :=
  match a, b with
  | EVar x, EVar y => x =? y
  | EDiff t x, EDiff t' x' => (t =? t') && (x =? x')
  | ECn, ECn => true
  | EOp a1 a2, EOp b1 b2 => expr_beq a1 b1 && expr_beq a2 b2
  | _, _ => false
  end.
Fixpoint forallb2_eqn (a b : list eqn) : bool :=
  match a, b with
  | [], [] => true
  | x :: r, y :: r' => (q_id x =? q_id y) && expr_beq (q_lhs x) (q_lhs y) && expr_beq (q_rhs x) (q_rhs y) && forallb2_eqn r r'
  | _, _ => false
  end.

(* non-vacuity: the scope has 6528 systems, 50 of them solved without NLA detection; one of them, with a re-ordering *)
Lemma scope_nonvacuous :
  scope_count (scope_k 3 3) = (6528, 50) /\
  let qs := [mkEqn 1001 (EVar 0) ECn; mkEqn 1002 (EVar 1) (EOp (EVar 0) ECn); mkEqn 1003 (EVar 2) (EOp (EVar 1) ECn)] in
  let qs' := [mkEqn 1003 (EVar 2) (EOp (EVar 1) ECn); mkEqn 1002 (EVar 1) (EOp (EVar 0) ECn); mkEqn 1001 (EVar 0) ECn] in
  existsb (fun iq => match iq with (ini, q) => forallb2_eqn q qs && forallb (fun i => match i with INone => true | _ => false end) ini end) (scope_k 3 3) = true /\
  solved_directly (sys_of [INone; INone; INone] qs) = true /\
  existsb (forallb2_eqn qs') (perms qs) = true /\
  classification_of (sys_of [INone; INone; INone] qs) <> classification_of (sys_of [INone; INone; INone] qs').
Proof. split; [vm_compute; reflexivity|]. cbv zeta. repeat split; try (vm_compute; reflexivity). vm_compute. discriminate. Qed.
