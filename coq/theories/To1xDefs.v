(** To1xDefs.v — [to1x]: the mechanical rewriting of a CellML 2.0 model into CellML 1.0 / 1.1 syntax (C14), the class of
    2.0 document trees it is defined on ([conv_ok]) and the models it can express ([expressible_1x]).  No proofs here.

    [to1x v ... E m = conv1x v ... (print_tree E m)]: the document the 2.0 Printer means (PrintDefs.print_tree), rewritten
    element by element.  The same rewriting is implemented in python (gen/c14_docs.py: to1x) on the text the real
    Printer produced; the check compares the two trees.

      namespace                 every CellML element moves to the 1.0 / 1.1 namespace
      ids                       id="x"  ->  cmeta:id="x" (namespace http://www.cellml.org/metadata/1.0#) when [cm], else kept
      variable interface        interface="public" | "private" | "public_and_private" (or none at all) ->
                                public_interface / private_interface = in | out | none: which of in / out is written, in
                                which ORDER the two attributes appear and whether an absent interface is written "none"
                                or left out is the style [ist] (any function of the variable's attributes)
      unit names                litre / metre written liter / meter when [us]
      MathML                    cellml:units (2.0 namespace) on elements below math -> the 1.x namespace
      encapsulation             <encapsulation> c_ref* </encapsulation> -> <group><relationship_ref relationship="encapsulation"/> c_ref* </group>
      connection                <connection component_1 component_2 id> mv* </connection> ->
                                <connection><map_components component_1 component_2 cmeta:id/> mv* </connection>, with
                                map_components at ANY position among the map_variables ([mcpos]); likewise relationship_ref
                                among the component_ref children of a group ([rrpos])
      component-level units     when [hoist]: the units elements standing immediately before the first component
                                element become the first children of that component
      resets                    do not exist in 1.x: not expressible;  imports exist only in 1.1. *)
From Coq Require Import String Ascii List Bool ZArith Arith.
From LC Require Import Common NumDefs XmlDefs EntTreeDefs PrintDefs LoadDefs RoundtripSpec Load1xDefs.
Import ListNotations.
Local Open Scope string_scope.
Local Open Scope bool_scope.
Local Open Scope list_scope.

Inductive version := V10 | V11.
Definition vns (v : version) : string := match v with V10 => CELLML_1_0_NS | V11 => CELLML_1_1_NS end.

(** how the interface of one variable is spelled *)
Record istyle := { is_priv_first : bool;   (* private_interface is written before public_interface *)
                   is_none : bool;         (* an interface the variable does not have is written ="none" (else left out) *)
                   is_pub_out : bool;      (* public_interface="out" rather than "in" *)
                   is_priv_out : bool }.   (* private_interface="out" rather than "in" *)

Definition iface_pub (val : string) : bool := String.eqb val "public" || String.eqb val "public_and_private".
Definition iface_priv (val : string) : bool := String.eqb val "private" || String.eqb val "public_and_private".
(** the interface values that 1.x can say (an absent attribute is the empty string) *)
Definition iface_expressible (val : string) : bool :=
  String.eqb val "" || String.eqb val "public" || String.eqb val "private" || String.eqb val "public_and_private".

Definition iface_attrs (s : istyle) (val : string) : list attr :=
  let pa := if iface_pub val then [at_ "public_interface" (if is_pub_out s then "out" else "in")]
            else if is_none s then [at_ "public_interface" "none"] else [] in
  let pr := if iface_priv val then [at_ "private_interface" (if is_priv_out s then "out" else "in")]
            else if is_none s then [at_ "private_interface" "none"] else [] in
  if is_priv_first s then pr ++ pa else pa ++ pr.

Definition is_legacy_spelling (s : string) : bool := String.eqb s "liter" || String.eqb s "meter".

Section Conv.
Variable v : version.
Variable ist : list attr -> istyle.
Variable cm : bool.
Variable us : bool.
Variable hoist : bool.
(** child ORDER: the 1.x specifications fix no order among the children of a connection or of a group: map_components is
    written after the first [mcpos] map_variables (at the end when there are fewer), relationship_ref after the first
    [rrpos] component_ref elements *)
Variable mcpos rrpos : nat.

Definition V : string := vns v.

Fixpoint insert_at {A : Type} (n : nat) (x : A) (l : list A) : list A :=
  match n, l with
  | S n', y :: r => y :: insert_at n' x r
  | _, _ => x :: l
  end.

Definition conv_id (a : attr) : attr :=
  if cm && attr_is "id" a then mkAttr CMETA_1_0_NS "id" (a_val a) else a.

Definition us_spell (s : string) : string :=
  if us then (if String.eqb s "litre" then "liter" else if String.eqb s "metre" then "meter" else s) else s.

Definition conv_units_attr (a : attr) : attr :=
  if attr_is "units" a then at_ "units" (us_spell (a_val a)) else conv_id a.

Definition retag (f : attr -> attr) (x : xml) : xml :=
  match x with Elem _ nm attrs ks => Elem V nm (map f attrs) ks | _ => x end.

Definition conv_unit (x : xml) : xml := retag conv_units_attr x.

Definition conv_units (x : xml) : xml :=
  match x with
  | Elem _ nm attrs ks => Elem V nm (map conv_id attrs) (map (fun k => if is_cellml20 "unit" k then conv_unit k else k) ks)
  | _ => x
  end.

Definition conv_var_attrs (l : list attr) : list attr :=
  flat_map (fun a => if attr_is "interface" a then iface_attrs (ist l) (a_val a) else [conv_units_attr a]) l
  ++ (if existsb (attr_is "interface") l then [] else iface_attrs (ist l) "").

Definition conv_variable (x : xml) : xml :=
  match x with Elem _ nm attrs ks => Elem V nm (conv_var_attrs attrs) ks | _ => x end.

(* below a math element: attributes of the 2.0 namespace (cellml:units) move to the 1.x namespace *)
Definition conv_math_attr (a : attr) : attr :=
  if String.eqb (a_ns a) CELLML_2_0_NS then mkAttr V (a_name a) (a_val a) else a.

Fixpoint conv_below (x : xml) : xml :=
  match x with
  | Elem ns nm attrs ks =>
    Elem ns nm (map conv_math_attr attrs)
         ((fix go (l : list xml) : list xml := match l with [] => [] | k :: r => conv_below k :: go r end) ks)
  | Text s => Text s
  | Comment => Comment
  end.

Definition conv_math (x : xml) : xml :=
  match x with Elem ns nm attrs ks => Elem ns nm attrs (map conv_below ks) | _ => x end.

Definition conv_component_kid (k : xml) : xml :=
  if is_cellml20 "variable" k then conv_variable k else if is_mathml "math" k then conv_math k else k.

Definition conv_component (x : xml) : xml :=
  match x with Elem _ nm attrs ks => Elem V nm (map conv_id attrs) (map conv_component_kid ks) | _ => x end.

Definition conv_import (x : xml) : xml :=
  match x with
  | Elem _ nm attrs ks =>
    Elem V nm (map conv_id attrs)
         (map (fun k => if is_cellml20 "component" k || is_cellml20 "units" k then retag conv_id k else k) ks)
  | _ => x
  end.

Fixpoint conv_cref (x : xml) : xml :=
  match x with
  | Elem _ nm attrs ks =>
    Elem V nm (map conv_id attrs)
         ((fix go (l : list xml) : list xml :=
             match l with [] => [] | k :: r => (if is_cellml20 "component_ref" k then conv_cref k else k) :: go r end) ks)
  | _ => x
  end.

Definition conv_cref_kid (k : xml) : xml := if is_cellml20 "component_ref" k then conv_cref k else k.

Definition relationship_ref : xml := Elem V "relationship_ref" [at_ "relationship" "encapsulation"] [].

Definition conv_encapsulation (x : xml) : xml :=
  match x with
  | Elem _ _ attrs ks => Elem V "group" (map conv_id attrs) (insert_at rrpos relationship_ref (map conv_cref_kid ks))
  | _ => x
  end.

Definition conv_connection (x : xml) : xml :=
  match x with
  | Elem _ nm attrs ks =>
    Elem V nm [] (insert_at mcpos (Elem V "map_components" (map conv_id attrs) [])
                            (map (fun k => if is_cellml20 "map_variables" k then retag conv_id k else k) ks))
  | _ => x
  end.

Definition conv_model_kid (k : xml) : xml :=
  if is_cellml20 "import" k then conv_import k
  else if is_cellml20 "units" k then conv_units k
  else if is_cellml20 "component" k then conv_component k
  else if is_cellml20 "connection" k then conv_connection k
  else if is_cellml20 "encapsulation" k then conv_encapsulation k
  else k.

(* the block of units elements standing immediately before the first component element moves into that component *)
Definition add_kids_front (pending : list xml) (x : xml) : xml :=
  match x with Elem ns nm attrs ks => Elem ns nm attrs (pending ++ ks) | _ => x end.

Fixpoint hoist_units (l pending : list xml) : list xml :=
  match l with
  | [] => pending
  | k :: r => if is_1x "units" k then hoist_units r (pending ++ [k])
              else if is_1x "component" k then add_kids_front pending k :: r
              else pending ++ k :: hoist_units r []
  end.

Definition conv1x (x : xml) : xml :=
  match x with
  | Elem _ nm attrs ks =>
    let ks' := map conv_model_kid ks in
    Elem V nm (map conv_id attrs) (if hoist then hoist_units ks' [] else ks')
  | _ => x
  end.

Definition to1x (E : env) (m : model) : xml := conv1x (print_tree E m).

(** * conv_ok: the CellML 2.0 documents written in the printer's vocabulary, without resets — the class of trees on which
      the 1.x loader applied to [conv1x t] is proved to do what the 2.0 loader does on [t] *)

Definition names_in (allowed : list string) (l : list attr) : bool :=
  forallb (fun a => String.eqb (a_ns a) "" && existsb (String.eqb (a_name a)) allowed) l
  && names_distinct (map a_name l).

Definition no_kids (x : xml) : bool := match xml_kids x with [] => true | _ => false end.

(* a units reference that the 1.x parser would respell (convertNonSiUnits) cannot be said *)
Definition units_attr_ok (a : attr) : bool := negb (attr_is "units" a) || negb (is_legacy_spelling (a_val a)).
Definition iface_attr_ok (a : attr) : bool := negb (attr_is "interface" a) || iface_expressible (a_val a).

Definition unit_ok1 (x : xml) : bool :=
  is_cellml20 "unit" x && names_in ["units"; "prefix"; "exponent"; "multiplier"; "id"] (xml_attrs x) && no_kids x
  && forallb units_attr_ok (xml_attrs x).

Definition units_ok1 (x : xml) : bool :=
  is_cellml20 "units" x && names_in ["name"; "id"] (xml_attrs x) && forallb unit_ok1 (xml_kids x).

Definition var_ok1 (x : xml) : bool :=
  is_cellml20 "variable" x && names_in ["name"; "id"; "units"; "interface"; "initial_value"] (xml_attrs x) && no_kids x
  && forallb iface_attr_ok (xml_attrs x) && forallb units_attr_ok (xml_attrs x).

(* attributes of the 2.0 namespace come last, none is in a 1.x namespace, local names are distinct *)
Fixpoint last_ok (l : list attr) : bool :=
  match l with
  | [] => true
  | a :: r => if String.eqb (a_ns a) CELLML_2_0_NS then forallb (fun b => String.eqb (a_ns b) CELLML_2_0_NS) r else last_ok r
  end.

Definition math_attrs_ok (l : list attr) : bool :=
  last_ok l && forallb (fun a => negb (ns_is_1x (a_ns a))) l && names_distinct (map a_name l).

Fixpoint below_ok (x : xml) : bool :=
  match x with
  | Elem _ _ attrs ks =>
    math_attrs_ok attrs
    && (fix go (l : list xml) : bool := match l with [] => true | k :: r => below_ok k && go r end) ks
  | _ => true
  end.

Definition math_ok1 (x : xml) : bool := is_mathml "math" x && forallb below_ok (xml_kids x).

Definition comp_ok1 (x : xml) : bool :=
  is_cellml20 "component" x && names_in ["name"; "id"] (xml_attrs x)
  && forallb (fun k => var_ok1 k || math_ok1 k) (xml_kids x).

Definition import_attr_ok (a : attr) : bool := attr_is_ns XLINK_NS "href" a || attr_is "id" a.

Definition import_ok1 (x : xml) : bool :=
  is_cellml20 "import" x && forallb import_attr_ok (xml_attrs x) && names_distinct (map a_name (xml_attrs x))
  && forallb (fun k => (is_cellml20 "component" k && names_in ["name"; "id"; "component_ref"] (xml_attrs k))
                       || (is_cellml20 "units" k && names_in ["name"; "id"; "units_ref"] (xml_attrs k))) (xml_kids x).

Fixpoint cref_ok1 (x : xml) : bool :=
  match x with
  | Elem _ _ attrs ks =>
    is_cellml20 "component_ref" x && names_in ["component"; "id"] attrs
    && (fix go (l : list xml) : bool := match l with [] => true | k :: r => cref_ok1 k && go r end) ks
  | _ => false
  end.

Definition enc_ok1 (x : xml) : bool :=
  is_cellml20 "encapsulation" x && match xml_attrs x with [] => true | _ => false end
  && negb (no_kids x) && forallb cref_ok1 (xml_kids x).

Definition mapvar_ok1 (x : xml) : bool :=
  is_cellml20 "map_variables" x && names_in ["variable_1"; "variable_2"; "id"] (xml_attrs x) && no_kids x.

Definition conn_ok1 (x : xml) : bool :=
  is_cellml20 "connection" x && names_in ["component_1"; "component_2"; "id"] (xml_attrs x)
  && negb (no_kids x) && forallb mapvar_ok1 (xml_kids x).

Definition model_kid_ok1 (k : xml) : bool := import_ok1 k || units_ok1 k || comp_ok1 k || conn_ok1 k || enc_ok1 k.

Definition conv_ok (x : xml) : bool :=
  is_cellml20 "model" x && names_in ["name"; "id"] (xml_attrs x) && existsb (attr_is "name") (xml_attrs x)
  && forallb model_kid_ok1 (xml_kids x).

(** the styles the loader as it was (before fix C14-interface-none) can read back: no explicit "none" *)
Definition style_ok (fi : bool) : Prop := fi = true \/ forall l, is_none (ist l) = false.

End Conv.

(** * expressible_1x: what a model must be like for CellML 1.0 / 1.1 to be able to say it *)
Section Expressible.
Variable E : env.

Definition variable_expressible (x : variable) : bool :=
  iface_expressible (v_iface x)
  && match v_units x with Some n => negb (is_legacy_spelling n) | None => true end.

Definition math_expressible (s : string) : bool := forallb math_ok1 (math_kids E ident s).

Fixpoint comp_expressible (c : component) : bool :=
  match c with
  | Comp s ks =>
    match c_resets s with [] => true | _ => false end                       (* resets do not exist in 1.x *)
    && forallb variable_expressible (c_vars s)
    && math_expressible (c_math s)
    && (fix go (l : list component) : bool := match l with [] => true | k :: r => comp_expressible k && go r end) ks
  end.

Definition expressible_1xb (v : version) (m : model) : bool :=
  negb (nonempty (m_encid m))                                               (* a group cannot carry the encapsulation id *)
  && forallb (fun u => forallb (fun d => negb (is_legacy_spelling (ud_ref d))) (u_defs u)) (m_units m)
  && forallb comp_expressible (m_comps m)
  && match v with V10 => no_imports m | V11 => true end.                    (* imports exist only in 1.1 *)

Definition expressible_1x (v : version) (m : model) : Prop := expressible_1xb v m = true.

End Expressible.
