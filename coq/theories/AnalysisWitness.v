(** AnalysisWitness.v — concrete systems on which the faithful model of the analyser (and the real analyser:
    each is replayed by checks/c05.py from corpus/C05.jsonl) violates a clause of C05.  All by computation. *)
From Coq Require Import List Bool Arith PeanoNat Permutation.
From LC Require Import AnalysisDefs AnalysisSpec.
Import ListNotations.

(* two listings of the same system: same components, same variables, the equations of each component permuted *)
Definition same_system_reordered (s s' : system) : Prop :=
  Forall2 (fun c c' => c_vars c = c_vars c' /\ Permutation (c_eqs c) (c_eqs c')) s s'.

(* the same system with the variables of some components renamed: same structure, the classes of the
   variables agree position by position, names inside a component stay distinct (decided by computation) *)
Definition names_distinct (c : comp) : bool := nodupb (map v_name (c_vars c)).

(** 1. Order.  x (no initial value), y (initial value);  x = 1001 ;  x = y + 1002.
    Listed this way: NLA (x computed constant, y algebraic).  Equations swapped: OVERCONSTRAINED. *)
Definition order_a : system :=
  [mkComp [mkVar 0 0 INone; mkVar 1 1 IConst]
          [mkEqn 1001 (EVar 0) ECn; mkEqn 1002 (EVar 0) (EOp (EVar 1) ECn)]].
Definition order_b : system :=
  [mkComp [mkVar 0 0 INone; mkVar 1 1 IConst]
          [mkEqn 1002 (EVar 0) (EOp (EVar 1) ECn); mkEqn 1001 (EVar 0) ECn]].

Definition type_of (o : outcome) : option mtype := match o with Done r => Some (r_type r) | _ => None end.

Lemma order_witness :
  same_system_reordered order_a order_b /\
  type_of (analyse order_a) = Some MNla /\ type_of (analyse order_b) = Some MOverconstrained.
Proof.
  split; [|split; vm_compute; reflexivity].
  constructor; [|constructor]. split; [reflexivity|]. apply perm_swap.
Qed.

(** 2. Names.  c0: a, b (initial values), z;  a + b = 1002 - z.   c1: z' (mapped to z);  z' = 1001.
    With z' called like z: NLA.  With z' renamed: OVERCONSTRAINED (variableOnLhsRhs compares names). *)
Definition rename_a : system :=
  [mkComp [mkVar 1 1 IConst; mkVar 2 2 IConst; mkVar 0 0 INone] [mkEqn 1002 (EOp (EVar 1) (EVar 2)) (EOp ECn (EVar 0))];
   mkComp [mkVar 0 0 INone] [mkEqn 1001 (EVar 0) ECn]].
Definition rename_b : system :=
  [mkComp [mkVar 1 1 IConst; mkVar 2 2 IConst; mkVar 0 0 INone] [mkEqn 1002 (EOp (EVar 1) (EVar 2)) (EOp ECn (EVar 0))];
   mkComp [mkVar 4 0 INone] [mkEqn 1001 (EVar 4) ECn]].

Lemma rename_witness :
  forallb names_distinct rename_a = true /\ forallb names_distinct rename_b = true /\
  map (fun c => map v_cls (c_vars c)) rename_a = map (fun c => map v_cls (c_vars c)) rename_b /\
  type_of (analyse rename_a) = Some MNla /\ type_of (analyse rename_b) = Some MOverconstrained.
Proof. repeat split; vm_compute; reflexivity. Qed.

(** 3. Dependencies.  c0: x (initial value), y;  y = x + 1001.   c1: x' (mapped to x);  x' * x' = 1002.
    Valid (NLA), yet the equation for y does not depend on the NLA equation that computes x. *)
Definition deps_sys : system :=
  [mkComp [mkVar 0 0 IConst; mkVar 1 1 INone] [mkEqn 1001 (EVar 1) (EOp (EVar 0) ECn)];
   mkComp [mkVar 0 0 INone] [mkEqn 1002 (EOp (EVar 0) (EVar 0)) ECn]].

Lemma deps_witness : dependency_fix = false ->
  exists r, analyse deps_sys = Done r /\ valid_type (r_type r) = true /\ wf_deps_complete deps_sys r = false.
Proof.
  intro H. first [ discriminate H | solve [eexists; split; [vm_compute; reflexivity|]; split; vm_compute; reflexivity] ].
Qed.

(* with fixes/C05-dependency-retarget.diff (dependency_fix = true) the same system is well formed *)
Lemma deps_witness_fixed : dependency_fix = true -> exists r, analyse deps_sys = Done r /\ wf deps_sys r = true.
Proof.
  intro H. first [ discriminate H | solve [eexists; split; vm_compute; reflexivity] ].
Qed.

(* the same two equations in ONE component keep the dependency *)
Definition deps_sys_one : system :=
  [mkComp [mkVar 0 0 IConst; mkVar 1 1 INone] [mkEqn 1001 (EVar 1) (EOp (EVar 0) ECn); mkEqn 1002 (EOp (EVar 0) (EVar 0)) ECn]].
Lemma deps_one_component : exists r, analyse deps_sys_one = Done r /\ wf deps_sys_one r = true.
Proof. eexists. split; vm_compute; reflexivity. Qed.

(** 4. One variable, two NLA systems.  Seven initialised variables, x+y = c1; y+z+a = c2; w+u = c3; z+w+b = c4.
    Valid (NLA); y is computed by equation 1001 (NLA system 0) and by equation 1002 (NLA system 1). *)
Definition chain (l : list nat) : expr :=
  match rev l with
  | [] => ECn
  | x :: r => fold_left (fun e v => EOp (EVar v) e) r (EVar x)
  end.
Definition split_sys : system :=
  [mkComp (map (fun i => mkVar i i IConst) (seq 0 7))
          [mkEqn 1001 (chain [0; 1]) ECn; mkEqn 1002 (chain [1; 2; 3]) ECn; mkEqn 1003 (chain [4; 5]) ECn; mkEqn 1004 (chain [2; 4; 6]) ECn]].

Lemma split_witness : exists r, analyse split_sys = Done r /\ valid_type (r_type r) = true /\ wf_definers r = false.
Proof. eexists. split; [vm_compute; reflexivity|]. split; vm_compute; reflexivity. Qed.

(** Non-vacuity: a system with an ODE, an algebraic equation, a computed constant and a constant spread over two
    components is analysed as ODE and is well formed in every clause. *)
Definition good_sys : system :=
  [mkComp [mkVar 0 0 INone; mkVar 1 1 IConst; mkVar 2 2 IConst; mkVar 3 3 INone]
          [mkEqn 1001 (EDiff 0 1) (EOp (EVar 3) (EOp (EVar 2) ECn))];
   mkComp [mkVar 5 1 INone; mkVar 6 3 INone; mkVar 7 4 INone; mkVar 0 0 INone]
          [mkEqn 1002 (EVar 6) (EOp (EVar 5) (EOp (EVar 0) (EOp (EVar 7) ECn))); mkEqn 1003 ECn (EVar 7)]].
Lemma good_witness : exists r, analyse good_sys = Done r /\ r_type r = MOde /\ wf good_sys r = true /\ wf_failures good_sys r = [].
Proof. eexists. split; [vm_compute; reflexivity|]. repeat split; vm_compute; reflexivity. Qed.

(** 5. The first pass agrees on WHICH variables get typed whatever the order (AnalysisConfluenceProofs), but not on
    their types: in [order_a] x is computed by x = 1001 (a true constant), in [order_b] by x = y + 1002
    (a variable-based constant). *)
Definition types_after_first_pass (s : system) : option (list vtype) :=
  match first_pass s with Some (st, _) => Some (map iv_type (cs_ivs st)) | None => None end.
Lemma pass1_types_witness :
  types_after_first_pass order_a = Some [VCompTrue; VInitialised] /\
  types_after_first_pass order_b = Some [VCompVarBased; VInitialised].
Proof. split; vm_compute; reflexivity. Qed.

Definition classification_of (s : system) : option (mtype * list (nat * role)) :=
  match analyse s with Done r => Some (classification s r) | _ => None end.

(** 6. Requalification in one sweep.  x (initial guess), b, c;  c = b + 1001;  b = x + 1002;  x*x = 1003.
    In this order c stays a computed constant although b (which it reads) becomes algebraic; with b's equation
    listed first c is algebraic. *)
Definition requal_a : system :=
  [mkComp [mkVar 0 0 IConst; mkVar 1 1 INone; mkVar 2 2 INone]
          [mkEqn 1001 (EVar 2) (EOp (EVar 1) ECn); mkEqn 1002 (EVar 1) (EOp (EVar 0) ECn); mkEqn 1003 (EOp (EVar 0) (EVar 0)) ECn]].
Definition requal_b : system :=
  [mkComp [mkVar 0 0 IConst; mkVar 1 1 INone; mkVar 2 2 INone]
          [mkEqn 1002 (EVar 1) (EOp (EVar 0) ECn); mkEqn 1001 (EVar 2) (EOp (EVar 1) ECn); mkEqn 1003 (EOp (EVar 0) (EVar 0)) ECn]].
Lemma requal_witness :
  same_system_reordered requal_a requal_b /\
  classification_of requal_a = Some (MNla, [(2, RoCompConst); (1, RoAlgebraic); (0, RoAlgebraic)]) /\
  classification_of requal_b = Some (MNla, [(1, RoAlgebraic); (0, RoAlgebraic); (2, RoAlgebraic)]).
Proof.
  split; [|split; vm_compute; reflexivity].
  constructor; [|constructor]. split; [reflexivity|]. apply perm_swap.
Qed.

(** 7. Two equivalent variables in one component (x ~ z ~ y with z in another component), equation x = 1001.
    With x listed before y the model is ALGEBRAIC; with y first the equation is typed NLA and the model is NLA:
    the variables of a component merely re-ordered. *)
Definition twin_a : system := [mkComp [mkVar 0 0 INone; mkVar 1 0 INone] [mkEqn 1001 (EVar 0) ECn]; mkComp [mkVar 2 0 INone] []].
Definition twin_b : system := [mkComp [mkVar 1 0 INone; mkVar 0 0 INone] [mkEqn 1001 (EVar 0) ECn]; mkComp [mkVar 2 0 INone] []].
Lemma twin_witness :
  Forall2 (fun c c' => Permutation (c_vars c) (c_vars c') /\ c_eqs c = c_eqs c') twin_a twin_b /\
  classification_of twin_a = Some (MAlgebraic, [(0, RoCompConst)]) /\
  classification_of twin_b = Some (MNla, [(0, RoCompConst)]).
Proof.
  split; [|split; vm_compute; reflexivity].
  constructor; [split; [apply perm_swap|reflexivity]|]. constructor; [split; [apply Permutation_refl|reflexivity]|constructor].
Qed.

(** 8. States without an equation.  x, y initialised, t;  d x/d t + d y/d t = 1001.  Two states are left without
    index, the equation never gets a type and is discarded without any issue: a valid ODE model with two states
    and no equation at all. *)
Definition two_states_sys : system :=
  [mkComp [mkVar 0 0 INone; mkVar 1 1 IConst; mkVar 2 2 IConst] [mkEqn 1001 (EOp (EDiff 0 1) (EDiff 0 2)) ECn]].
Lemma two_states_witness :
  exists r, analyse two_states_sys = Done r /\ r_type r = MOde /\ length (r_states r) = 2 /\ r_eqs r = [] /\ wf_definers r = false.
Proof. eexists. split; [vm_compute; reflexivity|]. repeat split; vm_compute; reflexivity. Qed.
