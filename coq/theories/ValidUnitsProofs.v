(** ValidUnitsProofs.v — C04 proofs, part 5: validateUnits / validateUnitsUnitsItem on the units of the validated model:
    the local rules, and the cycle detector (history of names) against the units reference graph. *)
From Coq Require Import String Ascii List Bool Arith ZArith Lia Relations Operators_Properties.
From LC Require Import Common NumDefs NumSpec MathDefs ValidDefs ValidSpec ValidLeaf.
From LC Require ValidCompProofs.
Import ListNotations.
Local Open Scope string_scope.
Local Open Scope list_scope.
Local Open Scope nat_scope.

(** the hypotheses under which validateUnits stays inside the validated model: no import source of its units has a model
    attached, and imported units have no unit children (what the parser builds) *)
Definition units_stay_local (m : model) : Prop :=
  forall u, In u (m_units m) ->
            match u_imp u with Some (s, _) => is_model s = None /\ u_items u = [] | None => True end.

(* ------------------------------------------------------------------ one call, unfolded *)

Definition epoch_of (u : units) : epoch :=
  mkEp (u_name u) ORIGIN (match u_imp u with Some (s, _) => is_url s | None => "" end) 0
       (match u_imp u with Some (s, _) => is_model s | None => None end).

(** the issues of one validateUnits call that do not come from a nested call *)
Definition item_local (m : model) (it : unit_item) : list vrule :=
  (if is_ident (ui_ref it) then
     if is_std_unit (ui_ref it) then [] else if has_units m (ui_ref it) then [] else [V_UNIT_UNITS_REFERENCE]
   else [V_UNIT_UNITS_REFERENCE])
  ++ (if is_xml_name (ui_id it) then [] else [V_XML_ID_ATTRIBUTE])
  ++ validate_prefix (ui_prefix it).

Definition cnt_name (m : model) (u : units) : nat := count_if (fun t => String.eqb (u_name t) (u_name u)) (m_units m).
Definition cnt_imp (m : model) (u : units) : nat :=
  match u_imp u with
  | Some (s, r) => count_if (fun t => match u_imp t with
                                      | Some (s', r') => String.eqb r' r && String.eqb (is_url s') (is_url s)
                                      | None => false
                                      end) (m_units m)
  | None => 0
  end.

Definition units_local_ok (m : model) (u : units) : Prop :=
  match u_imp u with
  | Some (s, r) => is_ident r = true /\ validate_import_source s = [] /\ cnt_imp m u <= 1
  | None => True
  end
  /\ cnt_name m u <= 1
  /\ is_ident (u_name u) = true /\ is_std_unit (u_name u) = false /\ is_xml_name (u_id u) = true
  /\ Forall (fun it => item_local m it = []) (u_items u).

Definition nested_ok (fuel : nat) (W : world) (hist : list epoch) (u : units) : Prop :=
  forall it t, In it (u_items u) -> is_ident (ui_ref it) = true -> is_std_unit (ui_ref it) = false ->
               find_units (m_units (model_at W 0)) (ui_ref it) = Some t ->
               validate_units fuel W 0 true (hist ++ [epoch_of u]) t ORIGIN = [].

Lemma leb1_false : forall n, (1 <? n) = false <-> n <= 1.
Proof. intro n. rewrite Nat.ltb_ge. tauto. Qed.

Lemma plains_nil : forall l, plains l = [] <-> l = [].
Proof. intro l. unfold plains. apply map_nil_iff. Qed.

Lemma validate_units_step : forall f W hist u, units_stay_local (model_at W 0) -> In u (m_units (model_at W 0)) ->
  local_cycle hist (epoch_of u) = false ->
  (validate_units (S f) W 0 true hist u ORIGIN = [] <->
   units_local_ok (model_at W 0) u /\ nested_ok f W hist u).
Proof.
  intros f W hist u Hloc Hu Hcyc. cbn [validate_units]. fold (epoch_of u). rewrite Hcyc.
  specialize (Hloc u Hu). unfold units_local_ok, nested_ok, cnt_imp, cnt_name.
  set (m := model_at W 0) in *.
  destruct (u_imp u) as [[s r]|] eqn:Eimp.
  - destruct Hloc as [Hm Hit]. rewrite Hm, Hit. cbn [flat_map]. unfold is_import_u. rewrite Eimp.
    rewrite !app_nil_iff, !plains_nil, !app_nil_iff, (if_nil_iff (is_ident r) V_IMPORT_UNITS_UNITS_REFERENCE_VALUE).
    assert (Hdup : forall (A : Type) (b : bool) (x : A), (if b then [x] else []) = [] <-> b = false)
      by (intros A [] x; split; intro H; try reflexivity; discriminate H).
    rewrite (Hdup _ (1 <? count_if (fun t => String.eqb (u_name t) (u_name u)) (m_units m))), leb1_false.
    rewrite (if_nil_iff (is_xml_name (u_id u)) V_XML_ID_ATTRIBUTE).
    split.
    + intros [[[H1 H2] [H3 _]] [H4 [H5 [H6 _]]]]. split.
      * split; [|split; [exact H4|]].
        -- split; [exact H1|]. split; [exact H2|].
           rewrite H1, H2 in H3. cbn [app] in H3. apply Hdup in H3. apply leb1_false in H3. exact H3.
        -- destruct (is_ident (u_name u)); [|discriminate H5]. cbn [negb] in H5.
           destruct (is_std_unit (u_name u)); [discriminate H5|]. repeat split; [exact H6 | constructor].
      * intros it t [].
    + intros [[[H1 [H2 H3]] [H4 [H5 [H6 [H7 _]]]]] _]. repeat split; try assumption.
      * rewrite H1, H2. cbn [app]. apply Hdup. apply leb1_false. exact H3.
      * rewrite H5. cbn [negb]. rewrite H6. reflexivity.
  - cbn [app]. unfold is_import_u. rewrite Eimp.
    assert (Hdup : forall (A : Type) (b : bool) (x : A), (if b then [x] else []) = [] <-> b = false)
      by (intros A [] x; split; intro H; try reflexivity; discriminate H).
    rewrite !app_nil_iff, !plains_nil, (Hdup _ (1 <? count_if (fun t => String.eqb (u_name t) (u_name u)) (m_units m))), leb1_false.
    rewrite (if_nil_iff (is_xml_name (u_id u)) V_XML_ID_ATTRIBUTE), flat_map_nil_iff, !Forall_forall.
    assert (Hname : (if negb (is_ident (u_name u)) then [V_UNITS_NAME_VALUE]
                     else if is_std_unit (u_name u) then [V_UNITS_STANDARD] else []) = [] <->
                    is_ident (u_name u) = true /\ is_std_unit (u_name u) = false).
    { destruct (is_ident (u_name u)); cbn [negb]; [|split; [intro H; discriminate H | intros [H _]; discriminate H]].
      destruct (is_std_unit (u_name u)); split; intro H; try (split; reflexivity); try reflexivity; try discriminate H.
      destruct H as [_ H]; discriminate H. }
    rewrite Hname.
    assert (Hitem : forall it, In it (u_items u) ->
              (((if is_ident (ui_ref it) then
                   if is_std_unit (ui_ref it) then []
                   else match find_units (m_units m) (ui_ref it) with
                        | Some t => validate_units f W 0 true (hist ++ [epoch_of u]) t ORIGIN
                        | None => [plain V_UNIT_UNITS_REFERENCE]
                        end
                 else [plain V_UNIT_UNITS_REFERENCE])
                ++ plains (if is_xml_name (ui_id it) then [] else [V_XML_ID_ATTRIBUTE])
                ++ plains (validate_prefix (ui_prefix it))) = [] <->
               item_local m it = [] /\
               (forall t, is_ident (ui_ref it) = true -> is_std_unit (ui_ref it) = false ->
                          find_units (m_units m) (ui_ref it) = Some t ->
                          validate_units f W 0 true (hist ++ [epoch_of u]) t ORIGIN = []))).
    { intros it _. unfold item_local. rewrite !app_nil_iff, !plains_nil. unfold has_units.
      destruct (is_ident (ui_ref it)); [|split; [intros [H _]; discriminate H | intros [[H _] _]; discriminate H]].
      destruct (is_std_unit (ui_ref it)).
      - split; [intros [_ H]; split; [split; [reflexivity | exact H] | intros t _ H0; discriminate H0] | intros [[_ H] _]; split; [reflexivity | exact H]].
      - destruct (find_units (m_units m) (ui_ref it)) as [t|].
        + split.
          * intros [H1 H2]. split; [split; [reflexivity | exact H2]|]. intros t' _ _ Ht. inversion Ht; subst. exact H1.
          * intros [[_ H2] H3]. split; [apply H3; reflexivity | exact H2].
        + split; [intros [H _]; discriminate H | intros [[H _] _]; discriminate H]. }
    split.
    + intros [H1 [H2 [H3 H4]]]. split.
      * split; [exact I|]. split; [exact H1|]. destruct H2 as [H2 H2']. repeat split; try assumption.
        intros it Hit. apply (proj1 (Hitem it Hit) (H4 it Hit)).
      * intros it t Hit Hid Hstd Hf. apply (proj2 (proj1 (Hitem it Hit) (H4 it Hit)) t Hid Hstd Hf).
    + intros [[_ [H1 [H2 [H2' [H3 H4]]]]] H5]. repeat split; try assumption.
      intros it Hit. apply (Hitem it Hit). split; [apply H4; exact Hit|]. intros t Hid Hstd Hf. apply (H5 it t Hit Hid Hstd Hf).
Qed.

(* ------------------------------------------------------------------ the reference graph *)

Definition first_named (m : model) (u : units) : Prop := find_units (m_units m) (u_name u) = Some u.

Lemma find_first_named : forall m n t, find_units (m_units m) n = Some t -> first_named m t /\ In t (m_units m) /\ u_name t = n.
Proof.
  intros m n t H. destruct (find_units_some _ _ _ H) as [H1 H2]. unfold first_named. rewrite H2. repeat split; assumption.
Qed.

Lemma uedge_of_item : forall m u it t, first_named m u -> In it (u_items u) -> is_ident (ui_ref it) = true ->
  is_std_unit (ui_ref it) = false -> find_units (m_units m) (ui_ref it) = Some t -> uedge m (u_name u) (u_name t).
Proof.
  intros m u it t Hu Hit Hid Hstd Hf. destruct (find_first_named _ _ _ Hf) as [_ [Ht Hn]].
  exists u, it. rewrite Hn. repeat split; try assumption.
  - apply is_ident_iff. exact Hid.
  - apply is_std_unit_false_iff. exact Hstd.
  - exists t. split; assumption.
Qed.

Lemma uedge_inv : forall m n r, uedge m n r ->
  exists u it t, find_units (m_units m) n = Some u /\ In it (u_items u) /\ ui_ref it = r
                 /\ is_ident r = true /\ is_std_unit r = false /\ find_units (m_units m) r = Some t.
Proof.
  intros m n r [u [it [H1 [H2 [H3 [H4 [H5 H6]]]]]]]. destruct (find_units_in _ _ H6) as [t Ht].
  exists u, it, t. repeat split; try assumption; [apply is_ident_iff; exact H4 | apply is_std_unit_false_iff; exact H5].
Qed.

(** from [n] a cycle can be reached *)
Definition reaches_cycle (m : model) (n : string) : Prop :=
  exists x, clos_refl_trans string (uedge m) n x /\ clos_trans string (uedge m) x x.

Lemma clos_trans_in_rt : forall m a b, clos_trans string (uedge m) a b -> clos_refl_trans string (uedge m) a b.
Proof.
  intros m a b H. induction H as [x y H|x y z _ IH1 _ IH2]; [apply rt_step; exact H | apply rt_trans with y; assumption].
Qed.

Lemma clos_trans_first : forall m a b, clos_trans string (uedge m) a b ->
  exists r, uedge m a r /\ (r = b \/ clos_trans string (uedge m) r b).
Proof.
  intros m a b H. apply clos_trans_t1n in H. destruct H as [y Hay|y z Hay Hyz].
  - exists y. split; [exact Hay | left; reflexivity].
  - exists y. split; [exact Hay | right; apply clos_t1n_trans; exact Hyz].
Qed.

Lemma clos_rt_first : forall m a b, clos_refl_trans string (uedge m) a b ->
  a = b \/ exists r, uedge m a r /\ clos_refl_trans string (uedge m) r b.
Proof.
  intros m a b H. apply clos_rt_rt1n in H. destruct H as [|y z Hay Hyz].
  - left. reflexivity.
  - right. exists y. split; [exact Hay | apply clos_rt1n_rt; exact Hyz].
Qed.

Lemma reaches_cycle_step : forall m n, reaches_cycle m n -> exists r, uedge m n r /\ reaches_cycle m r.
Proof.
  intros m n [x [H1 H2]]. destruct (clos_rt_first _ _ _ H1) as [Heq|[r [Hr1 Hr2]]].
  - subst x. destruct (clos_trans_first _ _ _ H2) as [r [Hr [Heq|Hrn]]].
    + subst r. exists n. split; [exact Hr|]. exists n. split; [apply rt_refl | exact H2].
    + exists r. split; [exact Hr|]. exists n. split; [apply (clos_trans_in_rt m); exact Hrn | exact H2].
  - exists r. split; [exact Hr1|]. exists x. split; [exact Hr2 | exact H2].
Qed.

(** the detector never stays silent below a cycle: whatever the fuel and the history *)
Lemma cycle_detected : forall W, units_stay_local (model_at W 0) ->
  forall fuel hist u, In u (m_units (model_at W 0)) -> first_named (model_at W 0) u ->
                      reaches_cycle (model_at W 0) (u_name u) ->
                      validate_units fuel W 0 true hist u ORIGIN <> [].
Proof.
  intros W Hloc. induction fuel as [|f IH]; intros hist u Hu Hfn Hc.
  - cbn. intro H; discriminate H.
  - destruct (local_cycle hist (epoch_of u)) eqn:E.
    + cbn [validate_units]. fold (epoch_of u). rewrite E. intro H; discriminate H.
    + intro H. apply (validate_units_step f W hist u Hloc Hu E) in H. destruct H as [_ Hn].
      destruct (reaches_cycle_step _ _ Hc) as [r [He Hr]].
      destruct (uedge_inv _ _ _ He) as [u' [it [t [H1 [H2 [H3 [H4 [H5 H6]]]]]]]].
      unfold first_named in Hfn. rewrite Hfn in H1. inversion H1; subst u'. subst r.
      destruct (find_first_named _ _ _ H6) as [Ht1 [Ht2 Ht3]].
      apply (IH (hist ++ [epoch_of u]) t Ht2 Ht1); [rewrite Ht3; exact Hr|].
      apply (Hn it t H2 H4 H5 H6).
Qed.

(* ------------------------------------------------------------------ chains of references *)

Definition chain (m : model) (l : list string) : Prop :=
  forall i a b, nth_error l i = Some a -> nth_error l (S i) = Some b -> uedge m a b.

Lemma chain_reach : forall m l, chain m l -> forall d i a b, nth_error l i = Some a -> nth_error l (S (i + d)) = Some b ->
  clos_trans string (uedge m) a b.
Proof.
  intros m l Hc. induction d as [|d IH]; intros i a b Ha Hb.
  - rewrite Nat.add_0_r in Hb. apply t_step. apply (Hc i); assumption.
  - assert (Hlen : S (i + d) < length l).
    { replace (S (i + S d)) with (S (S (i + d))) in Hb by lia.
      assert (S (S (i + d)) < length l) by (apply nth_error_Some; rewrite Hb; discriminate). lia. }
    destruct (nth_error l (S (i + d))) as [c|] eqn:Ec; [|apply nth_error_Some in Hlen; contradiction].
    apply t_trans with c; [apply (IH i a c Ha Ec)|]. apply t_step. apply (Hc (S (i + d))); [exact Ec|].
    replace (S (S (i + d))) with (S (i + S d)) by lia. exact Hb.
Qed.

Lemma chain_nodup : forall m l, UnitsAcyclic m -> chain m l -> NoDup l.
Proof.
  intros m l Hac Hc. apply NoDup_nth_error. intros i j Hi Hij.
  destruct (Nat.lt_trichotomy i j) as [Hlt|[Heq|Hgt]]; [exfalso | exact Heq | exfalso].
  - destruct (nth_error l i) as [a|] eqn:Ea; [|apply nth_error_Some in Hi; contradiction].
    apply (Hac a). apply (chain_reach m l Hc (j - i - 1) i a a Ea). replace (S (i + (j - i - 1))) with j by lia. symmetry. exact Hij.
  - destruct (nth_error l i) as [a|] eqn:Ea; [|apply nth_error_Some in Hi; contradiction].
    apply (Hac a). apply (chain_reach m l Hc (i - j - 1) j a a); [symmetry; exact Hij|].
    replace (S (j + (i - j - 1))) with i by lia. exact Ea.
Qed.

Lemma chain_snoc : forall m l a b, chain m (l ++ [a]) -> uedge m a b -> chain m ((l ++ [a]) ++ [b]).
Proof.
  intros m l a b Hc He i x y Hx Hy.
  assert (Hlen : length (l ++ [a]) = S (length l)) by (rewrite app_length; simpl; lia).
  destruct (Nat.lt_ge_cases (S i) (length (l ++ [a]))) as [Hlt|Hge].
  - rewrite nth_error_app1 in Hx by lia. rewrite nth_error_app1 in Hy by lia. apply (Hc i); assumption.
  - assert (Hi : i = length l).
    { assert (S i < length ((l ++ [a]) ++ [b])) by (apply nth_error_Some; rewrite Hy; discriminate).
      rewrite app_length in H. simpl in H. lia. }
    subst i. rewrite nth_error_app1 in Hx by lia. rewrite nth_error_app2 in Hx by lia.
    rewrite Nat.sub_diag in Hx. simpl in Hx. inversion Hx; subst x.
    rewrite nth_error_app2 in Hy by lia. replace (S (length l) - length (l ++ [a])) with 0 in Hy by lia.
    simpl in Hy. inversion Hy; subst y. exact He.
Qed.

(** with an acyclic reference graph and every units locally fine, the detector stays silent and never runs out of fuel *)
Lemma acyclic_silent : forall W, units_stay_local (model_at W 0) -> UnitsAcyclic (model_at W 0) ->
  (forall u, In u (m_units (model_at W 0)) -> units_local_ok (model_at W 0) u) ->
  forall fuel hist u, In u (m_units (model_at W 0)) -> first_named (model_at W 0) u ->
    chain (model_at W 0) (map ep_name hist ++ [u_name u]) ->
    (forall n, In n (map ep_name hist ++ [u_name u]) -> UnitsNamed (model_at W 0) n) ->
    length hist + fuel > length (m_units (model_at W 0)) ->
    validate_units fuel W 0 true hist u ORIGIN = [].
Proof.
  intros W Hloc Hac Hok. set (m := model_at W 0) in *.
  induction fuel as [|f IH]; intros hist u Hu Hfn Hch Hnm Hlen.
  - exfalso. pose proof (chain_nodup m _ Hac Hch) as Hnd.
    assert (Hincl : incl (map ep_name hist ++ [u_name u]) (map u_name (m_units m))).
    { intros n Hn. destruct (Hnm n Hn) as [t [Ht1 Ht2]]. apply in_map_iff. exists t. split; assumption. }
    pose proof (NoDup_incl_length Hnd Hincl) as Hle. rewrite app_length, !map_length in Hle. simpl in Hle. lia.
  - pose proof (chain_nodup m _ Hac Hch) as Hnd.
    assert (Hcyc : local_cycle hist (epoch_of u) = false).
    { unfold local_cycle. apply not_true_is_false. intro H. apply existsb_exists in H. destruct H as [e [He H]].
      apply andb_true_iff in H. destruct H as [H _]. apply String.eqb_eq in H. cbn in H.
      apply nodup_app_iff in Hnd. destruct Hnd as [_ [_ Hd]]. apply (Hd (u_name u)).
      - apply in_map_iff. exists e. split; assumption.
      - left. reflexivity. }
    apply (validate_units_step f W hist u Hloc Hu Hcyc). split; [apply Hok; exact Hu|].
    intros it t Hit Hid Hstd Hf. destruct (find_first_named _ _ _ Hf) as [Ht1 [Ht2 Ht3]].
    assert (He : uedge m (u_name u) (u_name t)) by (apply (uedge_of_item m u it t); assumption).
    apply IH; try assumption.
    + rewrite map_app. cbn [map]. replace (ep_name (epoch_of u)) with (u_name u) by reflexivity.
      apply chain_snoc; assumption.
    + intros n Hn. rewrite map_app in Hn. cbn [map] in Hn. apply in_app_or in Hn. destruct Hn as [Hn|[Hn|[]]].
      * apply Hnm. replace (ep_name (epoch_of u)) with (u_name u) in Hn by reflexivity. exact Hn.
      * subst n. exists t. split; [exact Ht2 | reflexivity].
    + rewrite app_length. simpl. lia.
Qed.

(* ------------------------------------------------------------------ counting *)

Lemma count_if_map : forall {A B} (f : B -> bool) (g : A -> B) l, count_if (fun t => f (g t)) l = count_if f (map g l).
Proof.
  intros A B f g l. unfold count_if. induction l as [|x l IH]; [reflexivity|]. cbn [filter map]. destruct (f (g x)); cbn [length]; rewrite IH; reflexivity.
Qed.

Section Count.
  Variable K : Type.
  Variable eqb : K -> K -> bool.
  Hypothesis eqb_spec : forall a b, eqb a b = true <-> a = b.

  Lemma count_zero : forall k ks, count_if (eqb k) ks = 0 <-> ~ In k ks.
  Proof.
    intros k ks. unfold count_if. induction ks as [|x ks IH]; cbn [filter].
    - split; [intros _ [] | reflexivity].
    - destruct (eqb k x) eqn:E; cbn [length].
      + apply eqb_spec in E. subst. split; [intro H; discriminate H | intro H; exfalso; apply H; left; reflexivity].
      + rewrite IH. split; [intros H [Hx|Hx]; [subst; assert (eqb k k = true) by (apply eqb_spec; reflexivity); congruence | contradiction]
                           | intros H Hx; apply H; right; exact Hx].
  Qed.

  Lemma count_nodup : forall ks, (forall k, In k ks -> count_if (eqb k) ks <= 1) <-> NoDup ks.
  Proof.
    induction ks as [|x ks IH].
    - split; [constructor | intros _ k []].
    - split.
      + intro H. constructor.
        * intro Hin. specialize (H x (or_introl eq_refl)). unfold count_if in H. cbn [filter] in H.
          assert (E : eqb x x = true) by (apply eqb_spec; reflexivity). rewrite E in H. cbn [length] in H.
          assert (Hz : count_if (eqb x) ks = 0) by (unfold count_if; lia). apply count_zero in Hz. contradiction.
        * apply IH. intros k Hk. specialize (H k (or_intror Hk)). unfold count_if in *. cbn [filter] in H.
          destruct (eqb k x); cbn [length] in H; lia.
      + intros H k Hk. inversion H; subst. unfold count_if. cbn [filter]. destruct (eqb k x) eqn:E; cbn [length].
        * apply eqb_spec in E. subst k. assert (Hz : count_if (eqb x) ks = 0) by (apply count_zero; exact H2).
          unfold count_if in Hz. lia.
        * destruct Hk as [Hk|Hk]; [subst; assert (eqb k k = true) by (apply eqb_spec; reflexivity); congruence|].
          apply (proj2 IH H3 k Hk).
  Qed.
End Count.

Definition pair_eqb (a b : string * string) : bool := String.eqb (fst a) (fst b) && String.eqb (snd a) (snd b).
Lemma pair_eqb_spec : forall a b, pair_eqb a b = true <-> a = b.
Proof.
  intros [a1 a2] [b1 b2]. unfold pair_eqb. cbn [fst snd]. rewrite andb_true_iff, !String.eqb_eq. split.
  - intros [-> ->]. reflexivity.
  - intro H. inversion H. split; reflexivity.
Qed.

Lemma cnt_name_count : forall m u, cnt_name m u = count_if (String.eqb (u_name u)) (map u_name (m_units m)).
Proof.
  intros m u. unfold cnt_name. rewrite <- (count_if_map (String.eqb (u_name u)) u_name). unfold count_if. f_equal.
  apply filter_ext. intro t. apply String.eqb_sym.
Qed.

Lemma cnt_imp_count : forall m u k, import_key u = Some k -> cnt_imp m u = count_if (pair_eqb k) (import_keys m).
Proof.
  intros m u k Hk. unfold cnt_imp, import_key in *. destruct (u_imp u) as [[s r]|]; [|discriminate Hk]. inversion Hk; subst k. clear Hk.
  unfold import_keys, count_if. induction (m_units m) as [|t l IH]; [reflexivity|].
  cbn [flat_map]. rewrite filter_app, app_length, <- IH. clear IH. cbn [filter]. unfold import_key.
  destruct (u_imp t) as [[s' r']|].
  - cbn [filter]. unfold pair_eqb. cbn [fst snd]. rewrite (String.eqb_sym (is_url s) (is_url s')), (String.eqb_sym r r').
    destruct (String.eqb r' r), (String.eqb (is_url s') (is_url s)); reflexivity.
  - reflexivity.
Qed.

(* ------------------------------------------------------------------ the local rules against the specification *)

Lemma item_local_nil : forall m it, item_local m it = [] <-> ItemOK m it.
Proof.
  intros m it. unfold item_local, ItemOK, XmlName. rewrite !app_nil_iff, validate_prefix_nil,
    (if_nil_iff (is_xml_name (ui_id it)) V_XML_ID_ATTRIBUTE), <- units_ref_ok_iff.
  destruct (is_ident (ui_ref it)); cbn [andb]; [|split; [intros [H _]; discriminate H | intros [H _]; discriminate H]].
  destruct (is_std_unit (ui_ref it)); cbn [orb]; [tauto|]. destruct (has_units m (ui_ref it)); [tauto|].
  split; [intros [H _]; discriminate H | intros [H _]; discriminate H].
Qed.

Lemma units_local_all : forall m,
  (forall u, In u (m_units m) -> units_local_ok m u) <->
  Forall (UnitsOK m) (m_units m) /\ NoDup (map u_name (m_units m)) /\ ImportsDistinct m.
Proof.
  intro m. split.
  - intro H. split; [|split].
    + rewrite Forall_forall. intros u Hu. destruct (H u Hu) as [H1 [H2 [H3 [H4 [H5 H6]]]]]. unfold UnitsOK, XmlName.
      split; [apply is_ident_iff; exact H3|]. split; [apply is_std_unit_false_iff; exact H4|]. split; [exact H5|]. split.
      * rewrite Forall_forall in *. intros it Hit. apply item_local_nil. apply H6. exact Hit.
      * destruct (u_imp u) as [[s r]|]; [|exact I]. destruct H1 as [H1 [H1' _]]. split; [apply is_ident_iff; exact H1|].
        apply ValidCompProofs.validate_import_source_nil. exact H1'.
    + apply (count_nodup string String.eqb String.eqb_eq). intros k Hk. apply in_map_iff in Hk. destruct Hk as [u [Hk Hu]]. subst k.
      rewrite <- cnt_name_count. apply (H u Hu).
    + unfold ImportsDistinct. apply (count_nodup _ pair_eqb pair_eqb_spec). intros k Hk. unfold import_keys in Hk.
      apply in_flat_map in Hk. destruct Hk as [u [Hu Hk]]. destruct (import_key u) as [k'|] eqn:Ek; [|destruct Hk].
      destruct Hk as [Hk|[]]. subst k'. rewrite <- (cnt_imp_count m u k Ek).
      destruct (H u Hu) as [H1 _]. unfold import_key in Ek. destruct (u_imp u) as [[s r]|]; [|discriminate Ek]. apply H1.
  - intros [HF [HN HI]] u Hu. rewrite Forall_forall in HF. destruct (HF u Hu) as [H1 [H2 [H3 [H4 H5]]]]. unfold units_local_ok.
    split; [|split; [|split; [|split; [|split]]]].
    + destruct (u_imp u) as [[s r]|] eqn:Ei; [|exact I]. destruct H5 as [H5 H5']. split; [apply is_ident_iff; exact H5|].
      split; [apply ValidCompProofs.validate_import_source_nil; exact H5'|].
      assert (Ek : import_key u = Some (is_url s, r)) by (unfold import_key; rewrite Ei; reflexivity).
      rewrite (cnt_imp_count m u _ Ek). apply (proj2 (count_nodup _ pair_eqb pair_eqb_spec (import_keys m)) HI).
      unfold import_keys. apply in_flat_map. exists u. split; [exact Hu|]. rewrite Ek. left. reflexivity.
    + rewrite cnt_name_count. apply (proj2 (count_nodup string String.eqb String.eqb_eq _) HN).
      apply in_map_iff. exists u. split; [reflexivity | exact Hu].
    + apply is_ident_iff. exact H1.
    + apply is_std_unit_false_iff. exact H2.
    + exact H3.
    + rewrite Forall_forall in *. intros it Hit. apply item_local_nil. apply H4. exact Hit.
Qed.

(* ------------------------------------------------------------------ the whole units pass *)

Lemma find_units_nodup : forall us u, NoDup (map u_name us) -> In u us -> find_units us (u_name u) = Some u.
Proof.
  induction us as [|x us IH]; intros u Hnd Hin; [destruct Hin|]. cbn [find_units]. cbn [map] in Hnd. inversion Hnd; subst.
  destruct Hin as [Hin|Hin].
  - subst. rewrite String.eqb_refl. reflexivity.
  - destruct (String.eqb (u_name x) (u_name u)) eqn:E.
    + apply String.eqb_eq in E. exfalso. apply H1. rewrite E. apply in_map_iff. exists u. split; [reflexivity | exact Hin].
    + apply IH; assumption.
Qed.

Lemma units_fuel_enough : forall W, length (m_units (model_at W 0)) < units_fuel W.
Proof.
  intros [|m W]; unfold units_fuel, model_at; cbn; lia.
Qed.

Theorem units_pass_nil : forall W, units_stay_local (model_at W 0) ->
  (flat_map (fun u => validate_units (units_fuel W) W 0 true [] u ORIGIN) (m_units (model_at W 0)) = [] <->
   Forall (UnitsOK (model_at W 0)) (m_units (model_at W 0)) /\ NoDup (map u_name (m_units (model_at W 0)))
   /\ ImportsDistinct (model_at W 0) /\ UnitsAcyclic (model_at W 0)).
Proof.
  intros W Hloc. set (m := model_at W 0) in *. rewrite flat_map_nil_iff, Forall_forall.
  pose proof (units_fuel_enough W) as Hfuel. fold m in Hfuel.
  destruct (units_fuel W) as [|f] eqn:Ef; [lia|].
  split.
  - intro H.
    assert (Hall : forall u, In u (m_units m) -> units_local_ok m u).
    { intros u Hu. apply (validate_units_step f W [] u Hloc Hu eq_refl). apply H. exact Hu. }
    apply units_local_all in Hall. destruct Hall as [H1 [H2 H3]]. repeat split; try assumption.
    intros n Hc. destruct (clos_trans_first _ _ _ Hc) as [r [Hr _]].
    destruct (uedge_inv _ _ _ Hr) as [u [it [t [Hu _]]]]. destruct (find_first_named _ _ _ Hu) as [Hfn [Hin Hn]].
    apply (cycle_detected W Hloc (S f) [] u Hin Hfn).
    + exists n. rewrite Hn. split; [apply rt_refl | exact Hc].
    + apply H. exact Hin.
  - intros [H1 [H2 [H3 H4]]] u Hu.
    assert (Hall : forall u, In u (m_units m) -> units_local_ok m u) by (apply units_local_all; repeat split; assumption).
    apply (acyclic_silent W Hloc H4 Hall).
    + exact Hu.
    + apply find_units_nodup; assumption.
    + cbn. intros i a b Ha Hb. destruct i; cbn in Hb; [discriminate Hb | destruct i; discriminate Hb].
    + cbn. intros n [Hn|[]]. subst n. exists u. split; [exact Hu | reflexivity].
    + cbn [length]. fold m. lia.
Qed.
