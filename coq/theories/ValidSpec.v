(** ValidSpec.v — C04: the declarative specification [WF] of "a model the CellML 2.0 rules implemented by the
    validator allow", one clause per rule, written from the rule texts (reference headings of issue.cpp) and NOT from
    the way validator.cpp computes: uniqueness is [NoDup], references are [exists ... In], reachability and cycles are
    relations / closures, the reset-order rule quantifies over the connected variable set.

    Only ValidDefs' DATA (the records, the look-up of a variable's place [model_locs], the regenerated tables) is used;
    none of its validate_* functions. *)
From Coq Require Import String Ascii List Bool Arith ZArith NArith QArith Relations.
From LC Require Import Common NumDefs NumPosDefs NumSpec MathDefs ValidDefs.
From LC Require UnitsDefs.
From LCGen Require Import UnitTables PrefixTable.
Import ListNotations.
Local Open Scope string_scope.
Local Open Scope list_scope.
Local Open Scope nat_scope.

(* ================================================================================================ lexical *)

Fixpoint chars (s : string) : list ascii := match s with EmptyString => [] | String c r => c :: chars r end.

Definition digit_char (c : ascii) : Prop := 48 <= nat_of_ascii c <= 57.
(** "basic Latin alphanumeric characters and underscores" *)
Definition ident_char (c : ascii) : Prop :=
  let n := nat_of_ascii c in (97 <= n <= 122) \/ (65 <= n <= 90) \/ (48 <= n <= 57) \/ n = 95.
(** CellML identifier: at least one character, only [A-Za-z0-9_], not beginning with a digit *)
Definition IsIdent (s : string) : Prop :=
  exists c r, s = String c r /\ ~ digit_char c /\ Forall ident_char (chars s).

(** XML Name: in this file the W3C production as validator.cpp tabulates it on UTF-8 bytes (is_xml_name is a table, not
    an algorithm; ValidXmlName.v relates the table to the code-point ranges of the XML recommendation). An absent id is
    the empty string. *)
Definition XmlName (s : string) : Prop := is_xml_name s = true.

Definition StdUnit (n : string) : Prop := In n (map fst standard_units_list).
Definition StdPrefix (p : string) : Prop := In p (map fst standard_prefix_list).
(** prefix: absent, an SI prefix name, or an integer (that fits the C++ int the library stores it in) *)
Definition PrefixOK (p : string) : Prop :=
  p = "" \/ StdPrefix p \/ (IntG p /\ exists z, to_int p = Value z).

(* ================================================================================================ MathML *)

(** every element below the root, with the MathML children of its parent and its position among them — only for the
    places the arity rules speak about: operands of apply / piecewise / piece / otherwise, and (with the repair) the
    content of degree / logbase / bvar *)
Section Math.
  Variable q : bool.             (* fixes.fx_math_qual: is the content of qualifiers subject to the rules? *)
  Variables vars units : list string.

  (** the element classes whose content the arity rules go through: apply, piecewise, piece, otherwise and (with the
      repair [q]) the qualifiers degree, logbase, bvar *)
  Definition descends (n : string) : Prop :=
    match vclass_of n with
    | VApply | VPiecewise | VPiece | VOtherwise => True
    | VDegree | VLogbase | VBvar => q = true
    | _ => False
    end.

  (** the arity / sibling / token rule for ONE element in its context ([sub] = its content is fine) *)
  Definition NodeRule (pk : list xml) (idx : nat) (n : string) (attrs : list attr) (kids : list xml) : Prop :=
    dwrap diff_ci_fix_committed pk n (val_node arity_fix_committed pk idx n attrs kids []) = [].

  (** the name a <ci> gives: its first text child, stripped (after 064d865: comments before it are skipped) *)
  Definition ci_text (kids : list xml) : string :=
    if ci_comment_fix_committed
    then match first_non_comment (visible kids) with Some (Text s) => strip s | _ => "" end
    else text_of (first_child kids).

  (** all elements of a tree (any depth) *)
  Fixpoint elements (x : xml) : list xml :=
    match x with
    | Elem _ _ _ kids => x :: (fix go (ks : list xml) : list xml := match ks with [] => [] | k :: r => elements k ++ go r end) kids
    | _ => []
    end.

  (** <ci>: its text names a variable of the component; <cn>: carries cellml:units naming units of the model or a
      standard unit (the rules MATH_CI_VARIABLE_REFERENCE, MATH_CN_UNITS_ATTRIBUTE, MATH_CN_UNITS_ATTRIBUTE_REFERENCE) *)
  Definition TokenOK (x : xml) : Prop :=
    match x with
    | Elem _ _ attrs kids =>
        (is_mathml_el "ci" x = true ->
           let t := ci_text kids in t = "" \/ In t vars) /\
        (is_mathml_el "cn" x = true -> val_cn_units units attrs = [])
    | _ => True
    end.
  (** only elements of the CellML subset of MathML (MATH_CHILD) *)
  Definition SupportedOK (x : xml) : Prop := is_supported x = true.

  (** the structure rules, by structural descent exactly where the rules apply *)
  Inductive StructOK : list xml -> nat -> xml -> Prop :=
  | S_other : forall pk i x, is_mathml x = false -> StructOK pk i x
  | S_elem : forall pk i n attrs kids,
      NodeRule pk i n attrs kids ->
      (descends n -> forall j k, nth_error (mkids kids) j = Some k -> StructOK (mkids kids) j k) ->
      StructOK pk i (Elem MATHML_NS n attrs kids).

  Definition MathDocOK (root : xml) : Prop :=
    is_mathml_el "math" root = true /\
    (forall k, In k (kids_of root) -> forall x, In x (elements k) -> SupportedOK x) /\
    (forall x, In x (elements root) -> TokenOK x) /\
    (forall j k, nth_error (mkids (kids_of root)) j = Some k -> StructOK (mkids (kids_of root)) j k).
  Definition MathsOK (docs : list xml) : Prop := Forall MathDocOK docs.
End Math.

(* ================================================================================================ entities *)

Definition UnitsNamed (m : model) (n : string) : Prop := exists u, In u (m_units m) /\ u_name u = n.
(** a units reference: an identifier naming a standard unit or units of the model *)
Definition UnitsRefOK (m : model) (n : string) : Prop := IsIdent n /\ (StdUnit n \/ UnitsNamed m n).

Definition valid_iface (s : string) : Prop := s = "" \/ In s valid_interfaces.

Definition VarOK (m : model) (c : cinfo) (v : var) : Prop :=
  IsIdent (v_name v) /\ XmlName (v_id v)
  /\ (exists un, v_units v = Some un /\ UnitsRefOK m un)
  /\ valid_iface (v_iface v)
  /\ (v_init v = "" \/ RealG (v_init v) \/ exists w, In w (c_vars c) /\ v_name w = v_init v).

Definition owns (c : cinfo) (t : nat) : Prop := exists v, In v (c_vars c) /\ v_tag v = t.

Definition ResetOK (q : bool) (m : model) (c : cinfo) (r : reset) : Prop :=
  XmlName (r_id r) /\ XmlName (r_tv_id r) /\ XmlName (r_rv_id r)
  /\ r_order r <> None
  /\ (exists t, r_var r = Some t /\ owns c t)
  /\ (exists t, r_tvar r = Some t /\ owns c t)
  /\ r_tv r <> [] /\ MathsOK q (map v_name (c_vars c)) (units_names m) (r_tv r)
  /\ r_rv r <> [] /\ MathsOK q (map v_name (c_vars c)) (units_names m) (r_rv r).

(** import source: an XML-name id and a locator *)
Definition ISrcOK (s : isrc) : Prop := XmlName (is_id s) /\ is_url s <> "" /\ is_url_ok s = true.

(** a component of the model (own content; encapsulated components are clauses of their own).  An imported
    component has a reference instead of content; when the import is resolved the reference must hit. *)
Definition CompOK (q : bool) (W : world) (mi : nat) (c : cinfo) : Prop :=
  let m := model_at W mi in
  IsIdent (c_name c) /\ XmlName (c_id c)
  /\ match c_imp c with
     | Some (s, cref) => IsIdent cref /\ ISrcOK s
     | None =>
         Forall (VarOK m c) (c_vars c) /\ NoDup (map v_name (c_vars c))
         /\ Forall (ResetOK q m c) (c_resets c)
         /\ MathsOK q (map v_name (c_vars c)) (units_names m) (c_math c)
     end.

(** units: own content *)
Definition ItemOK (m : model) (it : unit_item) : Prop :=
  UnitsRefOK m (ui_ref it) /\ XmlName (ui_id it) /\ PrefixOK (ui_prefix it).
Definition UnitsOK (m : model) (u : units) : Prop :=
  IsIdent (u_name u) /\ ~ StdUnit (u_name u) /\ XmlName (u_id u)
  /\ Forall (ItemOK m) (u_items u)
  /\ match u_imp u with Some (s, r) => IsIdent r /\ ISrcOK s | None => True end.

(** the units reference graph of a model: n -> r when the (first) units named n has a unit child referencing the
    units named r *)
Definition uedge (m : model) (n r : string) : Prop :=
  exists u it, find_units (m_units m) n = Some u /\ In it (u_items u) /\ ui_ref it = r
               /\ IsIdent r /\ ~ StdUnit r /\ UnitsNamed m r.
Definition UnitsAcyclic (m : model) : Prop := forall n, ~ clos_trans string (uedge m) n n.

(** no two imported units take the same units from the same place *)
Definition import_key (u : units) : option (string * string) :=
  match u_imp u with Some (s, r) => Some (is_url s, r) | None => None end.
Definition import_keys (m : model) : list (string * string) :=
  flat_map (fun u => match import_key u with Some k => [k] | None => [] end) (m_units m).
Definition ImportsDistinct (m : model) : Prop := NoDup (import_keys m).

(* ================================================================================================ connections *)

Definition Sibling (a b : vloc) : Prop := l_parent a = l_parent b.
Definition ChildOf (a b : vloc) : Prop := l_parent a = PComp (l_comp b).     (* a's component is encapsulated by b's *)

Section Conn.
  Variable ueq : world -> string -> string -> option bool.

  (** one mapping of a variable [me] (of a component that is not an import) *)
  Definition MapOK (W : world) (L : list vloc) (me : vloc) (e : eqv) : Prop :=
    exists o, lookup_var L (e_to e) = Some o                                  (* the other variable is in a component *)
              /\ (Sibling me o \/ ChildOf me o \/ ChildOf o me)               (* components are siblings or parent/child *)
              /\ (l_import o = false ->
                  forall un un2, v_units (l_var me) = Some un -> v_units (l_var o) = Some un2 -> ueq W un un2 = Some true).
  (** the interface the mappings of [me] need *)
  Definition NeedsPublic (L : list vloc) (me : vloc) : Prop :=
    exists e o, In e (v_eqs (l_var me)) /\ lookup_var L (e_to e) = Some o /\ (Sibling me o \/ ChildOf me o).
  Definition NeedsPrivate (L : list vloc) (me : vloc) : Prop :=
    exists e o, In e (v_eqs (l_var me)) /\ lookup_var L (e_to e) = Some o /\ ~ (Sibling me o \/ ChildOf me o) /\ ChildOf o me.
  Definition InterfaceOK (L : list vloc) (me : vloc) : Prop :=
    let i := v_iface (l_var me) in
    (NeedsPublic L me -> i = "public" \/ i = "public_and_private")
    /\ (NeedsPrivate L me -> i = "private" \/ i = "public_and_private").

  Definition ConnectionsOK (W : world) : Prop :=
    let L := model_locs (model_at W 0) in
    forall me, In me L -> l_import me = false ->
               Forall (MapOK W L me) (v_eqs (l_var me)) /\ InterfaceOK L me.
End Conn.

(* ================================================================================================ identifiers *)

(** every id of the document, each element once: model, units, unit, import elements (one per ImportSource object),
    encapsulation, components (own id, component_ref id), variables, resets (reset, test_value, reset_value), the ids
    on MathML elements, map_variables (one per unordered pair of variables) and connection (one per unordered pair of
    components) elements *)
Definition isrcs_of_model (m : model) : list isrc :=
  flat_map (fun u => match u_imp u with Some (s, _) => [s] | None => [] end) (m_units m)
  ++ flat_map (fun c => match c_imp (c_info c) with Some (s, _) => [s] | None => [] end) (model_comps m).
Fixpoint dedup_isrc (seen : list nat) (l : list isrc) : list isrc :=
  match l with
  | [] => []
  | s :: r => if existsb (Nat.eqb (is_tag s)) seen then dedup_isrc seen r else s :: dedup_isrc (is_tag s :: seen) r
  end.

(** the mappings of the model as unordered pairs, each listed once: (variable, its component, other, its component) *)
Definition mapping := (vloc * vloc * eqv)%type.
Definition mappings (m : model) : list mapping :=
  let L := model_locs m in
  flat_map (fun me => flat_map (fun e => match lookup_var L (e_to e) with
                                         | Some o => if v_tag (l_var me) <? v_tag (l_var o) then [(me, o, e)] else []
                                         | None => []
                                         end) (v_eqs (l_var me))) L.

Definition entity_ids (m : model) : list string :=
  opt_id (m_id m) ++ opt_id (m_encid m)
  ++ flat_map (fun u => opt_id (u_id u) ++ flat_map (fun it => opt_id (ui_id it)) (u_items u)) (m_units m)
  ++ flat_map (fun c => let i := c_info c in
                        opt_id (c_id i) ++ opt_id (c_encid i)
                        ++ flat_map (fun v => opt_id (v_id v)) (c_vars i)
                        ++ flat_map (fun r => opt_id (r_id r) ++ opt_id (r_tv_id r) ++ maths_ids (r_tv r)
                                              ++ opt_id (r_rv_id r) ++ maths_ids (r_rv r)) (c_resets i)
                        ++ maths_ids (c_math i)) (model_comps m)
  ++ flat_map (fun s => opt_id (is_id s)) (dedup_isrc [] (isrcs_of_model m)).

(* ================================================================================================ reset orders *)

(** two variables are in the same connected variable set *)
Definition mapped (L : list vloc) (a b : nat) : Prop :=
  exists l e, lookup_var L a = Some l /\ In e (v_eqs (l_var l)) /\ e_to e = b.
Definition Connected (L : list vloc) : nat -> nat -> Prop :=
  clos_refl_sym_trans nat (mapped L).

(** all resets of the model with their variable and order *)
Definition model_resets (m : model) : list reset := flat_map (fun c => c_resets (c_info c)) (model_comps m).
Definition ResetOrdersUnique (m : model) : Prop :=
  let L := model_locs m in
  forall i j r1 r2 t1 t2 o, nth_error (model_resets m) i = Some r1 -> nth_error (model_resets m) j = Some r2 ->
    r_var r1 = Some t1 -> r_var r2 = Some t2 -> r_order r1 = Some o -> r_order r2 = Some o ->
    Connected L t1 t2 -> i = j.

(* ================================================================================================ the model *)

(** what the tags stand for: distinct objects have distinct tags (a property of the encoding, not a CellML rule) *)
Definition Repr (m : model) : Prop :=
  NoDup (map (fun l => v_tag (l_var l)) (model_locs m)) /\ NoDup (map (fun c => c_tag (c_info c)) (model_comps m)).

Section WF.
  Variable fx : fixes.
  Variable ueq : world -> string -> string -> option bool.

  Record WF (W : world) : Prop := mkWF {
    wf_model_name : IsIdent (m_name (model_at W 0));                                       (* MODEL_NAME_VALUE *)
    wf_model_id : XmlName (m_id (model_at W 0));                                            (* XML_ID_ATTRIBUTE *)
    wf_comps : Forall (fun c => CompOK (fx_math_qual fx) W 0 (c_info c))
                      (model_comps (model_at W 0));                                         (* COMPONENT_*, VARIABLE_*, RESET_*, MATH_* *)
    wf_comp_names : NoDup (map (fun c => c_name (c_info c)) (model_comps (model_at W 0)));  (* (IMPORT_)COMPONENT_NAME_UNIQUE *)
    wf_units : Forall (UnitsOK (model_at W 0)) (m_units (model_at W 0));                    (* UNITS_*, UNIT_*, IMPORT_UNITS_* *)
    wf_units_names : NoDup (map u_name (m_units (model_at W 0)));                           (* (IMPORT_)UNITS_NAME_UNIQUE *)
    wf_units_acyclic : UnitsAcyclic (model_at W 0);                                         (* UNIT_UNITS_CIRCULAR_REFERENCE *)
    wf_imports_distinct : ImportsDistinct (model_at W 0);                                   (* IMPORT_UNITS_UNITS_REFERENCE *)
    wf_connections : ConnectionsOK ueq W                                                    (* MAP_VARIABLES_* *)
  }.
End WF.
