(** Properties_C02.v — C02 "printing then parsing a model preserves its content": statements only.

    Models: XmlDefs (trees + the attribute-value text layer), EntTreeDefs (entity model), PrintDefs (Printer::printModel),
    LoadDefs (the CellML 2.0 paths of Parser::parseModel), RoundtripSpec (canon, printable, content_eq).
    [fixed = true] is the code with fixes/C02-escape-attribute-values.diff and fixes/C02-crossed-map-variables.diff,
    [fixed = false] the pinned tree.  The environment [E] (15-digit printing, strtod, libxml2's treatment of a math
    string) is universally quantified: the theorems hold for every environment, because every use that matters is
    guarded by an executable conjunct of [printable] ([num_ok], [order_ok], [math_ok]). *)
From Coq Require Import String Ascii List Bool ZArith.
From LC Require Import Common NumDefs XmlDefs EntTreeDefs PrintDefs LoadDefs RoundtripSpec XmlTextProofs
     RoundtripReadProofs RoundtripLoadProofs RoundtripFlatProofs RoundtripEncProofs RoundtripOrderProofs
     RoundtripStableProofs RoundtripMapsProofs RoundtripPathProofs RoundtripConnProofs RoundtripConnTopProofs
     RoundtripConnFinalProofs RoundtripImportProofs RoundtripImportContentProofs RoundtripWitness RoundtripStableEncProofs RoundtripStableConnProofs.
From LCGen Require RuleTable.
Import ListNotations.
Local Open Scope string_scope.

(** * the attribute text layer (fix C02-escape-attribute-values) *)

(** what the repaired printer writes between the quotes is read back unchanged, for every string of XML characters *)
Theorem C02_escape_roundtrip : forall s, no_ctrl s = true -> decode_attr (escape_attr s) = Some s.
Proof. exact XmlTextProofs.decode_escape. Qed.
Print Assumptions C02_escape_roundtrip.

(** the unrepaired printer: raw text is refused (no document, silently) or comes back changed *)
Theorem C02_raw_text_refuted :
  decode_attr "a<b" = None /\ decode_attr "m?a=1&b=2" = None /\ decode_attr (String c_quot "") = None
  /\ decode_attr "a&amp;b" = Some "a&b" /\ decode_attr (String c_tab "x") = Some " x"
  /\ decode_attr (String c_cr (String c_lf "x")) = Some " x".
Proof. exact XmlTextProofs.decode_raw_refuted. Qed.
Print Assumptions C02_raw_text_refuted.

(** * print_nonempty: on every printable model (ALL features: imports, encapsulation, connections, resets, math) the
      repaired printer yields a document, and it is the tree the printer means *)
Theorem C02_print_nonempty : forall E m, printable E true m -> print_model E true m = Some (print_tree E m).
Proof. exact RoundtripReadProofs.print_model_printable. Qed.
Print Assumptions C02_print_nonempty.

(** the pinned printer does not: DESIGN.md section 5 row 5 (and the same models round-trip once repaired) *)
Theorem C02_print_refuted :
  outcome_of false (w_initial_value "a<b") = NoDocument /\ outcome_of false (w_href "m?a=1&b=2") = NoDocument
  /\ outcome_of false (w_initial_value "a&amp;b") = ContentDiffers
  /\ outcome_of false (w_initial_value (String (ascii_of_nat 9) "x")) = ContentDiffers
  /\ outcome_of true (w_initial_value "a<b") = RoundTrips /\ outcome_of true (w_href "m?a=1&b=2") = RoundTrips
  /\ outcome_of true (w_initial_value "a&amp;b") = RoundTrips
  /\ outcome_of true (w_initial_value (String (ascii_of_nat 9) "x")) = RoundTrips.
Proof. exact RoundtripWitness.unrepaired_printer_outcomes. Qed.
Print Assumptions C02_print_refuted.

(** * roundtrip, stages 1 and 2 (flat models: units with unit children, components with variables, resets, math):
      strict parsing of the printed document gives EXACTLY canon m, without any issue *)
Theorem C02_roundtrip_flat : forall E fx m, printable E true m -> flat m = true ->
  print_model E true m = Some (print_tree E m) /\ load E fx true (print_tree E m) = (canon E m, []).
Proof. exact RoundtripFlatProofs.roundtrip_flat. Qed.
Print Assumptions C02_roundtrip_flat.

(** * roundtrip, stage 3 (as above plus an encapsulation hierarchy of any depth with encapsulation ids; no imports, no
      connections): the re-parsed model is canon m with the top-level components that head a hierarchy moved behind the
      others ([enc_order]); hence the same content up to child order, and no issue *)
Theorem C02_roundtrip_encapsulation_exact : forall E fx m, printable E true m -> no_imports m = true -> no_connections m = true ->
  load E fx true (print_tree E m)
  = ({| m_name := m_name m; m_id := m_id m; m_encid := m_encid m; m_units := map (canon_units E) (m_units m);
        m_comps := map (canon_comp E) (enc_order (m_comps m)); m_eqv := [] |}, []).
Proof. exact RoundtripEncProofs.load_print_tree_enc. Qed.
Print Assumptions C02_roundtrip_encapsulation_exact.

Theorem C02_roundtrip_partial : forall E fx m, printable E true m -> no_imports m = true -> no_connections m = true ->
  exists m', print_model E true m = Some (print_tree E m) /\ load E fx true (print_tree E m) = (m', [])
             /\ content_eq m' (canon E m).
Proof. exact RoundtripEncProofs.roundtrip_enc. Qed.
Print Assumptions C02_roundtrip_partial.

(** loadComponentRef rebuilds the subtree under a component_ref from the flat components, by name *)
Theorem C02_component_ref_subtree : forall E c F used is, conds E (dfs c) F used ->
  load_cref (print_encapsulation ident c) (mk_st F used is)
  = (Some (canon_comp E c), mk_st (remove_names (names (dfs c)) F) (used ++ names (dfs c)) is).
Proof. exact RoundtripEncProofs.cref_ok. Qed.
Print Assumptions C02_component_ref_subtree.

(** content equality up to child order is reflexive (so the exact theorems above are instances of the property) *)
Theorem C02_content_eq_refl : forall m, content_eq m m.
Proof. exact RoundtripEncProofs.content_eq_refl. Qed.
Print Assumptions C02_content_eq_refl.

(** * second_print_stable (flat models): if the environment is stable — a value that went through 15 digits prints the
      same 15 digits again; the serialisation of normalised mathematics normalises to itself: the round-trip hypothesis
      on libc / libxml2, stated as hypotheses — then the re-parsed model is printable again, canon is idempotent on it,
      and printing + strict parsing it gives it back, without any issue *)
Theorem C02_second_print_stable_flat : forall E,
  (forall x, num_ok E x = true -> num_ok E (round15 E x) = true /\ round15 E (round15 E x) = round15 E x) ->
  (forall s, math_ok E s = true -> math_ok E (canon_math E s) = true /\ canon_math E (canon_math E s) = canon_math E s
                                  /\ has_math E (canon_math E s) = has_math E s) ->
  forall fx m, printable E true m -> flat m = true ->
    printable E true (canon E m) /\ canon E (canon E m) = canon E m
    /\ print_model E true (canon E m) = Some (print_tree E (canon E m))
    /\ load E fx true (print_tree E (canon E m)) = (canon E m, []).
Proof. exact RoundtripStableProofs.second_print_flat. Qed.
Print Assumptions C02_second_print_stable_flat.

(** the two hypotheses are satisfiable *)
Example C02_stable_env_exists :
  (forall x, num_ok E_stable x = true -> num_ok E_stable (round15 E_stable x) = true /\ round15 E_stable (round15 E_stable x) = round15 E_stable x)
  /\ (forall s, math_ok E_stable s = true ->
        math_ok E_stable (canon_math E_stable s) = true /\ canon_math E_stable (canon_math E_stable s) = canon_math E_stable s
        /\ has_math E_stable (canon_math E_stable s) = has_math E_stable s).
Proof. exact RoundtripStableProofs.stable_env_exists. Qed.
Print Assumptions C02_stable_env_exists.

(** * second_print_stable with an ENCAPSULATION HIERARCHY of any depth (no imports, no connections), every printable model:
      the model m1 the strict parser builds from the first document (canon m, hierarchy heads moved behind the childless
      top-level components) is printable again, and printing m1 and parsing strictly gives EXACTLY m1 without any issue -
      so the second document prints and parses to itself for ever: print (parse (print m1)) = print m1. *)
Theorem C02_second_print_stable_encapsulation : forall E,
  (forall x, num_ok E x = true -> num_ok E (round15 E x) = true /\ round15 E (round15 E x) = round15 E x) ->
  (forall s, math_ok E s = true ->
     math_ok E (canon_math E s) = true /\ canon_math E (canon_math E s) = canon_math E s
     /\ has_math E (canon_math E s) = has_math E s) ->
  forall fx m, printable E true m -> no_imports m = true -> no_connections m = true ->
  let m1 := canon E {| m_name := m_name m; m_id := m_id m; m_encid := m_encid m; m_units := m_units m;
                       m_comps := enc_order (m_comps m); m_eqv := [] |} in
  load E fx true (print_tree E m) = (m1, [])
  /\ printable E true m1 /\ print_model E true m1 = Some (print_tree E m1)
  /\ load E fx true (print_tree E m1) = (m1, []).
Proof. exact RoundtripStableEncProofs.second_print_stable_enc. Qed.
Print Assumptions C02_second_print_stable_encapsulation.

(** the stronger reading "the FIRST print is already stable" is false of the faithful model (and of the library: replayed):
    component a with child b, then childless c - printable, in the fragment, with a hierarchy (non-vacuity of the theorem
    above); the document of the re-parsed model lists c before a, so it differs from the first; the third equals the second *)
Example C02_first_print_stable_refuted :
  printableb E_stable true RoundtripStableEncProofs.w_order = true
  /\ no_imports RoundtripStableEncProofs.w_order = true /\ no_connections RoundtripStableEncProofs.w_order = true
  /\ print_tree E_stable (RoundtripStableEncProofs.reparsed E_stable RoundtripStableEncProofs.w_order)
     <> print_tree E_stable RoundtripStableEncProofs.w_order
  /\ print_tree E_stable (RoundtripStableEncProofs.reparsed E_stable (RoundtripStableEncProofs.reparsed E_stable RoundtripStableEncProofs.w_order))
     = print_tree E_stable (RoundtripStableEncProofs.reparsed E_stable RoundtripStableEncProofs.w_order).
Proof. exact RoundtripStableEncProofs.first_print_differs. Qed.
Print Assumptions C02_first_print_stable_refuted.

(** * the SECOND round with CONNECTIONS (no imports; any hierarchy, ids, resets, math), every printable model: the model m'
      the strict parser builds from the first document has no imports and satisfies every conjunct of `printable` except
      possibly eqv_ok; so under ONE decidable premise about its resolved equivalences - eqv_ok true m' = true - it is
      printable, prints to the intended tree, and the strict parser reads that second document without any issue into a
      model with the content of canon m' (up to child order) *)
Theorem C02_second_round_connections : forall E,
  (forall x, num_ok E x = true -> num_ok E (round15 E x) = true /\ round15 E (round15 E x) = round15 E x) ->
  (forall s, math_ok E s = true ->
     math_ok E (canon_math E s) = true /\ canon_math E (canon_math E s) = canon_math E s
     /\ has_math E (canon_math E s) = has_math E s) ->
  forall m, printable E true m -> no_imports m = true ->
  exists m', print_model E true m = Some (print_tree E m) /\ load E true true (print_tree E m) = (m', [])
    /\ content_eq m' (canon E m) /\ no_imports m' = true
    /\ (eqv_ok true m' = true ->
        printable E true m'
        /\ exists m'', print_model E true m' = Some (print_tree E m') /\ load E true true (print_tree E m') = (m'', [])
                       /\ content_eq m'' (canon E m')).
Proof. exact RoundtripStableConnProofs.second_round_conn. Qed.
Print Assumptions C02_second_round_connections.

(** non-vacuity: a printable model with crossed connections, no imports; the premise holds of its re-parsed model *)
Example C02_second_round_connections_nonvacuous :
  printableb E_stable true w_crossed_names = true /\ no_imports w_crossed_names = true
  /\ negb (no_connections w_crossed_names) = true
  /\ eqv_ok true (fst (load E_stable true true (print_tree E_stable w_crossed_names))) = true.
Proof. exact RoundtripStableConnProofs.second_round_conn_nonvacuous. Qed.
Print Assumptions C02_second_round_connections_nonvacuous.

(** * the grouping logic of the printer, for EVERY input order *)

(** printConnections = one connection element per group of [conn_groups] *)
Theorem C02_connections_are_groups : forall av cs l done,
  print_connections av cs l done = map (render_group av cs) (conn_groups l done).
Proof. exact RoundtripOrderProofs.print_connections_groups. Qed.
Print Assumptions C02_connections_are_groups.

(** no map_variables is lost, none is written twice *)
Theorem C02_connections_complete : forall l, Permutation.Permutation (concat (conn_groups l [])) l.
Proof. exact RoundtripOrderProofs.conn_groups_complete. Qed.
Print Assumptions C02_connections_complete.

(** every connection joins one ordered component pair, and no two connections share it *)
Theorem C02_connections_uniform : forall l done grp, In grp (conn_groups l done) ->
  exists e rest, grp = e :: rest /\ forall x, In x rest -> me_pair x = me_pair e.
Proof. exact RoundtripOrderProofs.conn_groups_uniform. Qed.
Print Assumptions C02_connections_uniform.

Theorem C02_connections_distinct : forall l,
  NoDup (map (fun grp => match grp with e :: _ => me_pair e | [] => ([], []) end) (conn_groups l [])).
Proof. intros l. exact (proj1 (RoundtripOrderProofs.conn_groups_distinct l [])). Qed.
Print Assumptions C02_connections_distinct.

(** printImports: one import element per ImportSource object, and every imported units has its element *)
Theorem C02_import_sources_distinct : forall m, NoDup (map is_tag (the_sources m)).
Proof. exact RoundtripOrderProofs.the_sources_nodup. Qed.
Print Assumptions C02_import_sources_distinct.

Theorem C02_imported_units_covered : forall m u i, In u (m_units m) -> u_src u = Some i ->
  exists j, In j (the_sources m) /\ tag_is (is_tag j) (u_src u) = true.
Proof. exact RoundtripOrderProofs.imported_units_covered. Qed.
Print Assumptions C02_imported_units_covered.

(** * stage 4 (connections), what is proved *)

(** buildMaps, for EVERY printable model (any component tree, any order of the equivalences): the collected variable
    pairs are the equivalence edges, each exactly once with its ids (as multisets of oriented keys), every entry comes
    from an edge, and no two entries join the same two components in opposite directions *)
Theorem C02_build_maps_complete : forall E m, printable E true m ->
  Permutation.Permutation (flat_map okey (build_maps m)) (flat_map ekey (m_eqv m))
  /\ (forall x, In x (build_maps m) -> exists e, In e (m_eqv m) /\ touches (me_v1 x) e = true /\ x = mk_entry (me_v1 x) e)
  /\ (forall x y, In x (build_maps m) -> In y (build_maps m) -> ~ (fst (me_v1 x) = fst (me_v2 y) /\ fst (me_v2 x) = fst (me_v1 y))).
Proof. exact RoundtripConnTopProofs.build_maps_printable. Qed.
Print Assumptions C02_build_maps_complete.

(** the printer's listing of components is exactly what index paths resolve, each path once; and
    component(name, searchEncapsulated) finds THE component of a name when names are unique *)
Theorem C02_all_comps_comp_at : forall cs p c, In (p, c) (all_comps cs) <-> comp_at cs p = Some c.
Proof. exact RoundtripPathProofs.all_comps_comp_at. Qed.
Print Assumptions C02_all_comps_comp_at.

Theorem C02_find_comp_unique : forall q G d, NoDup (names (flat_map dfs G)) -> comp_at G q = Some d -> find_comp (cname d) G = Some q.
Proof. exact RoundtripPathProofs.find_comp_unique. Qed.
Print Assumptions C02_find_comp_unique.

(** loadConnection on ONE printed connection element (the invariant step of the fold over connections): in a forest G
    where every component of the printed model is found again by name, it adds exactly the group's equivalences (resolved
    variable positions, mapping ids, the group's connection id), records the component pair, raises no issue *)
Theorem C02_load_connection_group : forall E cs G,
  NoDup (map (fun pc => cname (snd pc)) (all_comps cs)) -> NoDup (names (flat_map dfs G)) ->
  (forall p c, comp_at cs p = Some c -> exists q, comp_at G q = Some (canon_comp E c) /\ names_along G q = names_along cs p) ->
  (forall p c, comp_at cs p = Some c ->
     nonempty (cname c) = true /\ is_import_comp c = false /\ NoDup (map v_name (c_vars (shell c)))
     /\ (forall x, In x (c_vars (shell c)) -> nonempty (v_name x) = true)) ->
  forall x rest eqs used is,
  Forall (entry_ok cs) (x :: rest) -> (forall y, In y rest -> me_pair y = me_pair x) -> NoDup (map (np_of cs) (x :: rest)) ->
  ~ In (sort2 (comp_name_at cs (fst (me_v1 x))) (comp_name_at cs (fst (me_v2 x)))) used ->
  load_connection true (st_of G eqs used is) (render_group ident cs (x :: rest))
  = st_of G (add_list eqs (map (Re cs G (gcid (x :: rest))) (x :: rest)))
          (used ++ [(comp_name_at cs (fst (me_v1 x)), comp_name_at cs (fst (me_v2 x)))]) is.
Proof. exact RoundtripConnProofs.load_group. Qed.
Print Assumptions C02_load_connection_group.

(** the whole round trip with connections and any encapsulation hierarchy (no imports), CONDITIONAL on [groups_ok]:
    the printed groups are well formed (entries exist, one ordered component pair per group, distinct variable-name
    pairs inside a group, no earlier connection between the same two components in either direction).  The re-parsed
    model is canon m up to [enc_order], its equivalences are the groups' entries at their resolved positions, no issue. *)
Theorem C02_roundtrip_connections_partial : forall E m, printable E true m -> no_imports m = true ->
  let cs := m_comps m in
  let G := map (canon_comp E) (enc_order cs) in
  let groups := conn_groups (build_maps m) [] in
  groups_ok cs [] groups ->
  print_model E true m = Some (print_tree E m)
  /\ load E true true (print_tree E m)
     = ({| m_name := m_name m; m_id := m_id m; m_encid := m_encid m; m_units := map (canon_units E) (m_units m);
           m_comps := G; m_eqv := add_list [] (flat_map (fun g => map (Re cs G (gcid g)) g) groups) |}, []).
Proof. exact RoundtripConnTopProofs.roundtrip_conn_partial. Qed.
Print Assumptions C02_roundtrip_connections_partial.

(** * roundtrip, stage 4, NO extra hypothesis: every printable model without imports — connections with mapping and
      connection ids, encapsulation of any depth, resets, math — prints to the intended tree, the strict parser (with fix
      C02-crossed-map-variables) raises no issue on it, and the re-parsed model has the same content as canon m (up to
      child order; the equivalences as name paths with their ids) *)
Theorem C02_roundtrip_connections : forall E m, printable E true m -> no_imports m = true ->
  exists m', print_model E true m = Some (print_tree E m) /\ load E true true (print_tree E m) = (m', [])
             /\ content_eq m' (canon E m).
Proof.
  intros E m H Hni. destruct (RoundtripConnFinalProofs.roundtrip_conn_final E m H Hni) as (m' & H1 & H2 & H3 & _). eauto.
Qed.
Print Assumptions C02_roundtrip_connections.

(** the hypothesis of C02_roundtrip_connections_partial always holds *)
Theorem C02_printed_groups_well_formed : forall E m, printable E true m -> no_imports m = true ->
  groups_ok (m_comps m) [] (conn_groups (build_maps m) []).
Proof. exact RoundtripConnFinalProofs.groups_ok_printable. Qed.
Print Assumptions C02_printed_groups_well_formed.

(** non-vacuity: a printable model with crossed connections between two components, no imports *)
Example C02_roundtrip_connections_nonvacuous : printableb E0 true w_crossed_names = true /\ no_imports w_crossed_names = true.
Proof. vm_compute. split; reflexivity. Qed.
Print Assumptions C02_roundtrip_connections_nonvacuous.

(** * stage 5 (imports), what is proved *)

(** loadImport on ONE printed import element, for every model and every collated source: a fresh import source (numbered
    by the element's position) with the url and id written, exactly the imported units and components the printer listed
    under it (names, ids, references, in order), no issue *)
Theorem C02_load_import_element : forall m j k, units_of m j <> [] \/ comps_of m j <> [] ->
  load_import k (print_import ident m j) = (map (lu k j) (units_of m j), map (lc k j) (comps_of m j), []).
Proof. exact RoundtripImportProofs.load_print_import. Qed.
Print Assumptions C02_load_import_element.

(** flat models WITH imports (imported units, imported components; no hierarchy, no connections): the re-parsed model,
    exactly: imported entities first, grouped by import element and renumbered, then the canonical local ones; no issue *)
Theorem C02_roundtrip_flat_imports_exact : forall E fx m, printable E true m -> no_hierarchy m = true -> no_connections m = true ->
  load E fx true (print_tree E m)
  = ({| m_name := m_name m; m_id := m_id m; m_encid := m_encid m; m_units := U' E m; m_comps := C' E m; m_eqv := [] |}, []).
Proof. exact RoundtripImportProofs.load_print_tree_flat_imports. Qed.
Print Assumptions C02_roundtrip_flat_imports_exact.

(** ... and it has the same content as canon m: grouping the imported entities by import element is a permutation, and
    what is read back differs from the canonical entity only in the number of its import source *)
Theorem C02_roundtrip_flat_imports : forall E m, printable E true m -> no_hierarchy m = true -> no_connections m = true ->
  forall fx, exists m', print_model E true m = Some (print_tree E m) /\ load E fx true (print_tree E m) = (m', [])
                        /\ content_eq m' (canon E m).
Proof. exact RoundtripImportContentProofs.roundtrip_flat_imports. Qed.
Print Assumptions C02_roundtrip_flat_imports.

(** the loader, element by element (used by every stage) *)
Theorem C02_load_unit : forall E d, unitdef_ok E true d = true -> load_unit E (print_unit E ident d) = (canon_unitdef E d, []).
Proof. exact RoundtripLoadProofs.load_print_unit. Qed.
Print Assumptions C02_load_unit.

Theorem C02_load_variable : forall us v, variable_ok true us v = true -> load_variable (print_variable ident v) = (v, []).
Proof. exact RoundtripLoadProofs.load_print_variable. Qed.
Print Assumptions C02_load_variable.

Theorem C02_load_reset : forall E vs r, reset_ok E true vs r = true ->
  load_reset E vs (print_reset E ident ident r) = (canon_reset E r, []).
Proof. exact RoundtripLoadProofs.load_print_reset. Qed.
Print Assumptions C02_load_reset.

(** no namespace issue on any printed tree *)
Theorem C02_no_namespace_issues : forall E m, forallb (comp_ok E true (m_units m)) (m_comps m) = true ->
  namespace_issues (print_tree E m) = [].
Proof. intros E m H. apply RoundtripLoadProofs.clean_no_namespace_issues. now apply RoundtripLoadProofs.clean_print_tree. Qed.
Print Assumptions C02_no_namespace_issues.

(** * every hypothesis of [printable] is needed: one witness each (outside printable, round trip fails) *)
Theorem C02_printable_conjuncts_refuted :
  forallb (fun p => negb (printableb E0 true (snd p)) && negb (is_round_trip (outcome_of true (snd p)))) witnesses = true.
Proof. exact RoundtripWitness.witnesses_fail. Qed.
Print Assumptions C02_printable_conjuncts_refuted.

(** crossed variable names between two components (fix C02-crossed-map-variables) *)
Theorem C02_crossed_names_refuted :
  outcome_of false w_crossed_names = Issues 1 /\ outcome_of true w_crossed_names = RoundTrips
  /\ printableb E0 false w_crossed_names = false /\ printableb E0 true w_crossed_names = true.
Proof. exact RoundtripWitness.crossed_names_outcomes. Qed.
Print Assumptions C02_crossed_names_refuted.

(** * non-vacuity: a printable model using every feature, and its round trip (by computation) *)
Example C02_full_model_printable : printableb E0 true full_model = true.
Proof. exact RoundtripWitness.full_model_printable. Qed.
Print Assumptions C02_full_model_printable.

Example C02_full_model_round_trips : outcome_of true full_model = RoundTrips.
Proof. exact RoundtripWitness.full_model_round_trips. Qed.
Print Assumptions C02_full_model_round_trips.

(** * tie of the loader's rule names to the regenerated rule table *)
Theorem C02_rules_in_table : forallb (fun r => existsb (String.eqb r) LCGen.RuleTable.rule_names) loader_rules = true.
Proof. vm_compute. reflexivity. Qed.
Print Assumptions C02_rules_in_table.

(* NOT PROVED (see design_notes/C02.md):
   (5) roundtrip with IMPORTS in general.  Proved: C02_print_nonempty (all features), C02_load_import_element (one import
       element, any model), C02_import_sources_distinct / C02_imported_units_covered (collation), and
       C02_roundtrip_flat_imports_exact / C02_roundtrip_flat_imports (flat models with imports: exact re-parsed model, and
       content_eq with canon m).  Missing (time): imports together with an encapsulation hierarchy (loadComponentRef's
       forest invariant with renumbered import sources; RoundtripEncProofs would have to be generalised over the shell
       transformation) and with connections (placeholder variables created by loadConnection inside imported components
       change the forest during the fold over connections, so RoundtripConnProofs.load_group's "forest unchanged"
       no longer holds).
   second_print_stable with CONNECTIONS or IMPORTS (C02_second_print_stable_flat and
       C02_second_print_stable_encapsulation are proved: flat models and hierarchies of any depth).  With connections
       C02_second_round_connections reduces the second round to ONE decidable premise, eqv_ok of the re-parsed model
       (edges_distinct / one_cid_per_pair / vpath_valid for the RESOLVED equivalences); that premise for every printable
       model, and the exact fixed point (m'' = m'), are not proved.  With imports: not done.
   Both statements are CHECKED on every generated model by the correspondence run (extracted printableb / load / canon
   compared up to child order; second print and second parse compared with the model and with the first). *)
