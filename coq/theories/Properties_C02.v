(** Properties_C02.v — statements only (placeholder while the model is being tied to the code). *)
From Coq Require Import String List.
From LC Require Import XmlDefs EntTreeDefs PrintDefs LoadDefs RoundtripSpec.
Local Open Scope string_scope.
Example C02_decode_example : decode_attr "a&amp;b" = Some "a&b".
Proof. reflexivity. Qed.
Print Assumptions C02_decode_example.
