(** ValidCitedProofs.v — C04 proofs: the traversal reaches every location (location_free) and a violated rule is cited
    (rule_cited): membership versions of the checks. *)
From Coq Require Import String Ascii List Bool Arith ZArith Lia.
From LC Require Import Common NumDefs NumSpec NumProofs MathDefs ValidDefs ValidSpec ValidLeaf ValidMathProofs ValidCompProofs
  ValidConnProofs ValidUnitsProofs.
Import ListNotations.
Local Open Scope string_scope.
Local Open Scope list_scope.
Local Open Scope nat_scope.

(* ------------------------------------------------------------------ what de-duplication keeps *)

(** two rules that one description-keyed de-duplication can exchange: the two "names must be unique" rules of units *)
Definition same_class (r r' : vrule) : Prop :=
  r = r' \/ (In r [V_UNITS_NAME_UNIQUE; V_IMPORT_UNITS_NAME_UNIQUE] /\ In r' [V_UNITS_NAME_UNIQUE; V_IMPORT_UNITS_NAME_UNIQUE]).

Lemma key_hits_class : forall k' k, key_hits k' k = true -> same_class (key_rule k) (key_rule k').
Proof.
  intros [i n|u r|a|a b|a b] [i' n'|u' r'|a'|a' b'|a' b'] H; cbn in H; try discriminate H; try (left; reflexivity).
  right. destruct i, i'; cbn; tauto.
Qed.

Lemma same_class_refl : forall r, same_class r r.
Proof. intro r. left. reflexivity. Qed.

Lemma dedup_from_keeps : forall l seen i, In i l ->
  (exists j, In j (dedup_from seen l) /\ same_class (rule_of i) (rule_of j))
  \/ (exists k k', i = Keyed k /\ In k' seen /\ key_hits k' k = true).
Proof.
  induction l as [|[r|k0] t IH]; intros seen i Hi; [destruct Hi| |]; cbn [dedup_from].
  - destruct Hi as [Hi|Hi].
    + subst i. left. exists (Plain r). split; [left; reflexivity | apply same_class_refl].
    + destruct (IH seen i Hi) as [[j [Hj Hc]]|H]; [left; exists j; split; [right; exact Hj | exact Hc] | right; exact H].
  - destruct (existsb (fun j => key_hits j k0) seen) eqn:E.
    + destruct Hi as [Hi|Hi].
      * subst i. right. apply existsb_exists in E. destruct E as [k' [Hk' Hh]]. exists k0, k'. repeat split; assumption.
      * apply IH. exact Hi.
    + destruct Hi as [Hi|Hi].
      * subst i. left. exists (Keyed k0). split; [left; reflexivity | apply same_class_refl].
      * destruct (IH (k0 :: seen) i Hi) as [[j [Hj Hc]]|[k [k' [Hik [Hk' Hh]]]]].
        -- left. exists j. split; [right; exact Hj | exact Hc].
        -- destruct Hk' as [Hk'|Hk'].
           ++ subst k'. left. exists (Keyed k0). split; [left; reflexivity|]. subst i. cbn [rule_of]. apply key_hits_class. exact Hh.
           ++ right. exists k, k'. repeat split; assumption.
Qed.

Lemma dedup_keeps : forall l i, In i l -> exists j, In j (dedup l) /\ same_class (rule_of i) (rule_of j).
Proof.
  intros l i Hi. destruct (dedup_from_keeps l [] i Hi) as [H|[k [k' [_ [[] _]]]]]. exact H.
Qed.

Section Cited.
  Variable fx : fixes.
  Variable ueq : world -> string -> string -> option bool.
  Variable early : bool.

  (** an issue raised by any check survives (possibly as the other "unique units name" rule), at level ERROR *)
  Lemma raw_cited : forall W i, In i (validate_raw fx ueq early W) ->
    exists r, In (Error, r) (validate fx ueq early W) /\ same_class (rule_of i) r.
  Proof.
    intros W i Hi. destruct (dedup_keeps _ i Hi) as [j [Hj Hc]]. exists (rule_of j). split; [|exact Hc].
    unfold validate. apply in_map_iff. exists j. split; [reflexivity | exact Hj].
  Qed.

  Lemma plain_cited : forall W r, In (Plain r) (validate_raw fx ueq early W) -> In (Error, r) (validate fx ueq early W).
  Proof.
    intros W r Hi. destruct (raw_cited W _ Hi) as [r' [H1 [H2|[H2 H3]]]]; cbn in H2.
    - subst r'. exact H1.
    - destruct (dedup_keeps _ _ Hi) as [j [Hj Hc]].
      (* a plain issue is kept as it is *)
      clear H1 H2 H3 Hc j Hj.
      unfold validate. apply in_map_iff. exists (Plain r). split; [reflexivity|].
      unfold dedup. generalize (@nil key). induction (validate_raw fx ueq early W) as [|[r0|k0] t IH]; intro seen; [destruct Hi| |]; cbn [dedup_from].
      + destruct Hi as [Hi|Hi]; [inversion Hi; left; reflexivity | right; apply IH; exact Hi].
      + destruct Hi as [Hi|Hi]; [discriminate Hi|]. destruct (existsb (fun j => key_hits j k0) seen); [apply IH; exact Hi | right; apply IH; exact Hi].
  Qed.

  (** all issues of the validator are errors *)
  Lemma all_errors : forall W i, In i (validate fx ueq early W) -> fst i = Error.
  Proof. intros W i H. unfold validate in H. apply in_map_iff in H. destruct H as [j [Hj _]]. subst i. reflexivity. Qed.

  (* ---------------------------------------------------------------- the component traversal reaches every component *)

  Lemma tree_list_incl : forall q fuel W ks,
    Forall (fun c => forall names c', In c' (comp_all c) ->
                     incl (validate_component q fuel W 0 [] (c_info c')) (fst (validate_tree q fuel W names c))) ks ->
    forall names c', In c' (flat_map comp_all ks) ->
                     incl (validate_component q fuel W 0 [] (c_info c')) (fst (validate_tree_list q fuel W ks names)).
  Proof.
    intros q fuel W ks HF. induction HF as [|k r Hk Hr IH]; intros names c' Hc'; [destruct Hc'|].
    cbn [flat_map] in Hc'. cbn [validate_tree_list]. specialize (Hk names c').
    destruct (validate_tree q fuel W names k) as [a ns1]. specialize (IH ns1 c').
    destruct (validate_tree_list q fuel W r ns1) as [b ns2]. cbn [fst] in *.
    apply in_app_or in Hc'. destruct Hc' as [Hc'|Hc'].
    - intros x Hx. apply in_or_app. left. apply (Hk Hc'). exact Hx.
    - intros x Hx. apply in_or_app. right. apply (IH Hc'). exact Hx.
  Qed.

  Lemma tree_incl : forall q fuel W c names c', In c' (comp_all c) ->
    incl (validate_component q fuel W 0 [] (c_info c')) (fst (validate_tree q fuel W names c)).
  Proof.
    intros q fuel W. induction c as [i kids IH] using comp_ind2. intros names c' Hc'.
    rewrite validate_tree_unfold. rewrite comp_all_unfold in Hc'.
    pose proof (tree_list_incl q fuel W kids IH) as HL.
    destruct (if nonempty (c_name i) then if str_in (c_name i) names then ([unique_name_rule i], names) else ([], names ++ [c_name i])
              else ([], names)) as [own names1].
    specialize (HL names1 c'). destruct (validate_tree_list q fuel W kids names1) as [sub names2]. cbn [fst] in *.
    destruct Hc' as [Hc'|Hc'].
    - subst c'. intros x Hx. apply in_or_app. right. apply in_or_app. right. exact Hx.
    - intros x Hx. apply in_or_app. right. apply in_or_app. left. apply (HL Hc'). exact Hx.
  Qed.

  Lemma trees_incl : forall q fuel W cs names c', In c' (flat_map comp_all cs) ->
    incl (validate_component q fuel W 0 [] (c_info c')) (validate_trees q fuel W names cs).
  Proof.
    intros q fuel W cs. induction cs as [|c r IH]; intros names c' Hc'; [destruct Hc'|].
    cbn [flat_map] in Hc'. cbn [validate_trees]. pose proof (tree_incl q fuel W c names c') as Hc.
    destruct (validate_tree q fuel W names c) as [a ns]. cbn [fst] in Hc. apply in_app_or in Hc'. destruct Hc' as [Hc'|Hc'].
    - intros x Hx. apply in_or_app. left. apply (Hc Hc'). exact Hx.
    - intros x Hx. apply in_or_app. right. apply (IH ns c' Hc'). exact Hx.
  Qed.

  (** LOCATION-FREE, components: whatever validateComponent raises on ANY component of the encapsulation hierarchy
      (top level or encapsulated at any depth) is among the validator's issues *)
  Theorem component_reached : forall W c r, In c (model_comps (model_at W 0)) ->
    In r (validate_component (fx_math_qual fx) (comp_fuel W) W 0 [] (c_info c)) ->
    In (Error, r) (validate fx ueq early W).
  Proof.
    intros W c r Hc Hr. apply plain_cited. unfold validate_raw. cbv zeta.
    apply in_or_app. right. apply in_or_app. right. apply in_or_app. left.
    unfold plains. apply in_map. apply (trees_incl _ _ _ _ [] c Hc). exact Hr.
  Qed.

  (* ---------------------------------------------------------------- inside a component *)

  Lemma validate_variables_incl : forall m c vs prev v pre post, vs = pre ++ v :: post ->
    incl (validate_variable m c (prev ++ map v_name pre) v) (validate_variables m c prev vs).
  Proof.
    intros m c vs. induction vs as [|x vs IH]; intros prev v pre post Heq.
    - destruct pre; discriminate Heq.
    - destruct pre as [|p pre]; cbn [app] in Heq; inversion Heq; subst.
      + cbn [map]. rewrite app_nil_r. cbn [validate_variables]. intros y Hy. apply in_or_app. left. exact Hy.
      + cbn [validate_variables map]. intros y Hy. apply in_or_app. right.
        apply (IH (prev ++ [v_name p]) v pre post eq_refl). rewrite <- app_assoc. exact Hy.
  Qed.

  (** every variable (first, last, any position), every reset, the component's math and the math of every reset's
      test_value and reset_value are looked at *)
  Lemma in_component : forall q f W c,
    c_imp c = None ->
    (forall v pre post, c_vars c = pre ++ v :: post ->
       incl (validate_variable (model_at W 0) c (map v_name pre) v) (validate_component q (S f) W 0 [] c))
    /\ (forall r, In r (c_resets c) ->
          incl (validate_reset q (model_at W 0) (model_locs (model_at W 0)) c r) (validate_component q (S f) W 0 [] c))
    /\ incl (validate_math q (map v_name (c_vars c)) (units_names (model_at W 0)) (c_math c)) (validate_component q (S f) W 0 [] c).
  Proof.
    intros q f W c Himp. cbn [validate_component]. rewrite Himp. repeat split.
    - intros v pre post Heq y Hy. apply in_or_app. right. apply in_or_app. right. apply in_or_app. left.
      apply (validate_variables_incl _ _ _ [] v pre post Heq). exact Hy.
    - intros r Hr y Hy. apply in_or_app. right. apply in_or_app. right. apply in_or_app. right. apply in_or_app. left.
      apply in_flat_map. exists r. split; assumption.
    - intros y Hy. apply in_or_app. right. apply in_or_app. right. apply in_or_app. right. apply in_or_app. right. exact Hy.
  Qed.

  Lemma in_reset : forall q m L c r,
    incl (validate_math q (map v_name (c_vars c)) (units_names m) (r_tv r)) (validate_reset q m L c r)
    /\ incl (validate_math q (map v_name (c_vars c)) (units_names m) (r_rv r)) (validate_reset q m L c r).
  Proof.
    intros q m L c r. unfold validate_reset.
    destruct (reset_var_check L c (r_var r) V_RESET_VARIABLE_REFERENCE) as [v_now v_end].
    destruct (reset_var_check L c (r_tvar r) V_RESET_TEST_VARIABLE_REFERENCE) as [t_now t_end].
    split; intros y Hy.
    - apply in_or_app. right. apply in_or_app. right. apply in_or_app. right. apply in_or_app. left. exact Hy.
    - apply in_or_app. right. apply in_or_app. right. apply in_or_app. right. apply in_or_app. right. apply in_or_app. left. exact Hy.
  Qed.

  (** LOCATION-FREE, the content of components: variables, resets, math, math in reset values *)
  Theorem variable_reached : forall W c v pre post r, In c (model_comps (model_at W 0)) -> c_imp (c_info c) = None ->
    c_vars (c_info c) = pre ++ v :: post ->
    In r (validate_variable (model_at W 0) (c_info c) (map v_name pre) v) -> In (Error, r) (validate fx ueq early W).
  Proof.
    intros W c v pre post r Hc Himp Heq Hr. apply (component_reached W c r Hc). unfold comp_fuel.
    destruct (in_component (fx_math_qual fx) (length W) W (c_info c) Himp) as [H _]. apply (H v pre post Heq). exact Hr.
  Qed.

  Theorem reset_reached : forall W c rs r, In c (model_comps (model_at W 0)) -> c_imp (c_info c) = None ->
    In rs (c_resets (c_info c)) ->
    In r (validate_reset (fx_math_qual fx) (model_at W 0) (model_locs (model_at W 0)) (c_info c) rs) ->
    In (Error, r) (validate fx ueq early W).
  Proof.
    intros W c rs r Hc Himp Hrs Hr. apply (component_reached W c r Hc). unfold comp_fuel.
    destruct (in_component (fx_math_qual fx) (length W) W (c_info c) Himp) as [_ [H _]]. apply (H rs Hrs). exact Hr.
  Qed.

  Theorem component_math_reached : forall W c r, In c (model_comps (model_at W 0)) -> c_imp (c_info c) = None ->
    In r (validate_math (fx_math_qual fx) (map v_name (c_vars (c_info c))) (units_names (model_at W 0)) (c_math (c_info c))) ->
    In (Error, r) (validate fx ueq early W).
  Proof.
    intros W c r Hc Himp Hr. apply (component_reached W c r Hc). unfold comp_fuel.
    destruct (in_component (fx_math_qual fx) (length W) W (c_info c) Himp) as [_ [_ H]]. apply H. exact Hr.
  Qed.

  Theorem reset_math_reached : forall W c rs r, In c (model_comps (model_at W 0)) -> c_imp (c_info c) = None ->
    In rs (c_resets (c_info c)) ->
    (In r (validate_math (fx_math_qual fx) (map v_name (c_vars (c_info c))) (units_names (model_at W 0)) (r_tv rs))
     \/ In r (validate_math (fx_math_qual fx) (map v_name (c_vars (c_info c))) (units_names (model_at W 0)) (r_rv rs))) ->
    In (Error, r) (validate fx ueq early W).
  Proof.
    intros W c rs r Hc Himp Hrs Hr. apply (reset_reached W c rs r Hc Himp Hrs).
    destruct (in_reset (fx_math_qual fx) (model_at W 0) (model_locs (model_at W 0)) (c_info c) rs) as [H1 H2].
    destruct Hr as [Hr|Hr]; [apply H1 | apply H2]; exact Hr.
  Qed.

  (** LOCATION-FREE, imported items: when the import source of a component has a model, the reference hits and the
      url-based cycle test does not fire, everything validateComponent raises on the imported component (in ITS model)
      is among the validator's issues *)
  Theorem imported_component_reached : forall W c s cref mj ic r,
    In c (model_comps (model_at W 0)) -> c_imp (c_info c) = Some (s, cref) -> is_model s = Some mj ->
    find_comp (model_at W mj) cref = Some ic ->
    import_cycle [] (mkEp (c_name (c_info c)) (importee_url [] (is_url s)) (is_url s) 0 (Some mj)) = false ->
    In r (validate_component (fx_math_qual fx) (length W) W mj
            [mkEp (c_name (c_info c)) (importee_url [] (is_url s)) (is_url s) 0 (Some mj)] (c_info ic)) ->
    In (Error, r) (validate fx ueq early W).
  Proof.
    intros W c s cref mj ic r Hc Himp Hm Hf Hcy Hr. apply (component_reached W c r Hc). unfold comp_fuel.
    cbn [validate_component]. rewrite Himp, Hm, Hf, Hcy. cbn [app].
    apply in_or_app. right. apply in_or_app. right. apply in_or_app. right. apply in_or_app. right. exact Hr.
  Qed.

  (* ---------------------------------------------------------------- units *)

  (** LOCATION-FREE, units: every units of the model (first, last, imported or not) is validated *)
  Theorem units_reached : forall W u i, In u (m_units (model_at W 0)) ->
    In i (validate_units (units_fuel W) W 0 true [] u ORIGIN) ->
    exists r, In (Error, r) (validate fx ueq early W) /\ same_class (rule_of i) r.
  Proof.
    intros W u i Hu Hi. apply raw_cited. unfold validate_raw. cbv zeta.
    apply in_or_app. right. apply in_or_app. right. apply in_or_app. right. apply in_or_app. left.
    apply in_flat_map. exists u. split; assumption.
  Qed.
End Cited.

(* ------------------------------------------------------------------ local rules: a violated rule is cited by its check *)

Ltac in_app_search tac :=
  first [ tac
        | apply in_or_app; left; in_app_search tac
        | apply in_or_app; right; in_app_search tac ].

Lemma in_if_not : forall {A} (b : bool) (x : A), b = false -> In x (if b then [] else [x]).
Proof. intros A b x H. rewrite H. left. reflexivity. Qed.
Lemma in_if : forall {A} (b : bool) (x : A), b = true -> In x (if b then [x] else []).
Proof. intros A b x H. rewrite H. left. reflexivity. Qed.

(** what can be wrong with one variable, and the rule the specification files it under *)
Inductive var_violation (m : model) (c : cinfo) (prev : list string) (v : var) : vrule -> Prop :=
| VV_name : ~ IsIdent (v_name v) -> var_violation m c prev v V_VARIABLE_NAME_VALUE
| VV_unique : v_name v <> "" -> In (v_name v) prev -> var_violation m c prev v V_VARIABLE_NAME_UNIQUE
| VV_id : ~ XmlName (v_id v) -> var_violation m c prev v V_XML_ID_ATTRIBUTE
| VV_units : ~ (exists un, v_units v = Some un /\ UnitsRefOK m un) -> var_violation m c prev v V_VARIABLE_UNITS_VALUE
| VV_iface : ~ valid_iface (v_iface v) -> var_violation m c prev v V_VARIABLE_INTERFACE_VALUE
| VV_init : ~ (v_init v = "" \/ RealG (v_init v) \/ exists w, In w (c_vars c) /\ v_name w = v_init v) ->
            var_violation m c prev v V_VARIABLE_INITIAL_VALUE_VALUE.

Lemma var_violation_cited : forall m c prev v r, var_violation m c prev v r -> In r (validate_variable m c prev v).
Proof.
  intros m c prev v r H. unfold validate_variable. destruct H.
  - apply in_or_app. right. apply in_or_app. left. apply in_if_not. apply is_ident_false_iff. assumption.
  - apply in_or_app. left. apply in_if. apply andb_true_iff. split; [apply nonempty_iff; assumption | apply str_in_iff; assumption].
  - do 2 (apply in_or_app; right). apply in_or_app. left. apply in_if_not. unfold XmlName in H. destruct (is_xml_name (v_id v)); [exfalso; apply H; reflexivity | reflexivity].
  - do 3 (apply in_or_app; right). apply in_or_app. left.
    destruct (v_units v) as [un|]; [|left; reflexivity].
    destruct (is_ident un) eqn:E1; cbn [negb]; [|left; reflexivity].
    destruct (is_std_unit un) eqn:E2.
    + exfalso. apply H. exists un. split; [reflexivity|]. apply units_ref_ok_iff. rewrite E1, E2. reflexivity.
    + destruct (has_units m un) eqn:E3; [|left; reflexivity].
      exfalso. apply H. exists un. split; [reflexivity|]. apply units_ref_ok_iff. rewrite E1, E2, E3. reflexivity.
  - do 4 (apply in_or_app; right). apply in_or_app. left. apply in_if.
    destruct (nonempty (v_iface v) && negb (str_in (v_iface v) valid_interfaces)) eqn:E; [reflexivity|].
    exfalso. apply H. apply valid_iface_iff. exact E.
  - do 5 (apply in_or_app; right). apply in_if.
    destruct (nonempty (v_init v) && negb (has_variable c (v_init v)) && negb (is_real (v_init v))) eqn:E; [reflexivity|].
    exfalso. apply H. rewrite !andb_false_iff, !negb_false_iff, is_real_iff, has_variable_iff in E.
    unfold nonempty in E. rewrite negb_false_iff, str_is_empty_iff in E. tauto.
Qed.

(** what can be wrong with one reset *)
Inductive reset_violation (c : cinfo) (L : list vloc) (r : reset) : vrule -> Prop :=
| RV_id : ~ XmlName (r_id r) \/ ~ XmlName (r_tv_id r) \/ ~ XmlName (r_rv_id r) -> reset_violation c L r V_XML_ID_ATTRIBUTE
| RV_order : r_order r = None -> reset_violation c L r V_RESET_ORDER_VALUE
| RV_novar : r_var r = None -> reset_violation c L r V_RESET_VARIABLE_REFERENCE
| RV_notvar : r_tvar r = None -> reset_violation c L r V_RESET_TEST_VARIABLE_REFERENCE
| RV_var_elsewhere : forall t l, r_var r = Some t -> lookup_var L t = Some l -> l_cname l <> c_name c ->
                     reset_violation c L r V_RESET_VARIABLE_REFERENCE
| RV_tvar_elsewhere : forall t l, r_tvar r = Some t -> lookup_var L t = Some l -> l_cname l <> c_name c ->
                      reset_violation c L r V_RESET_TEST_VARIABLE_REFERENCE
| RV_var_nowhere : forall t, r_var r = Some t -> lookup_var L t = None -> reset_violation c L r V_RESET_VARIABLE_REFERENCE
| RV_tvar_nowhere : forall t, r_tvar r = Some t -> lookup_var L t = None -> reset_violation c L r V_RESET_TEST_VARIABLE_REFERENCE
| RV_notv : r_tv r = [] -> reset_violation c L r V_TEST_VALUE_ELEMENT
| RV_norv : r_rv r = [] -> reset_violation c L r V_RESET_VALUE_ELEMENT.

Lemma not_xml_name : forall s, ~ XmlName s -> is_xml_name s = false.
Proof. intros s H. unfold XmlName in H. destruct (is_xml_name s); [exfalso; apply H; reflexivity | reflexivity]. Qed.

Lemma reset_violation_cited : forall q m c L r x, reset_violation c L r x -> In x (validate_reset q m L c r).
Proof.
  intros q m c L r x H. unfold validate_reset.
  destruct (reset_var_check L c (r_var r) V_RESET_VARIABLE_REFERENCE) as [v_now v_end] eqn:Ev.
  destruct (reset_var_check L c (r_tvar r) V_RESET_TEST_VARIABLE_REFERENCE) as [t_now t_end] eqn:Et.
  destruct H as [[H|[H|H]]|H|H|H|t l H1 H2 H3|t l H1 H2 H3|t H1 H2|t H1 H2|H|H].
  - apply in_or_app. left. apply in_if_not. apply not_xml_name. exact H.
  - do 5 (apply in_or_app; right). apply in_or_app. left. apply in_if_not. apply not_xml_name. exact H.
  - do 6 (apply in_or_app; right). apply in_or_app. left. apply in_if_not. apply not_xml_name. exact H.
  - do 7 (apply in_or_app; right). apply in_or_app. left. rewrite H. left. reflexivity.
  - do 8 (apply in_or_app; right). apply in_or_app. left. rewrite H. left. reflexivity.
  - do 9 (apply in_or_app; right). apply in_or_app. left. rewrite H. left. reflexivity.
  - do 12 (apply in_or_app; right). apply in_or_app. left.
    unfold reset_var_check in Ev. rewrite H1, H2 in Ev. apply String.eqb_neq in H3. rewrite H3 in Ev. cbn in Ev.
    inversion Ev; subst. left. reflexivity.
  - do 13 (apply in_or_app; right).
    unfold reset_var_check in Et. rewrite H1, H2 in Et. apply String.eqb_neq in H3. rewrite H3 in Et. cbn in Et.
    inversion Et; subst. left. reflexivity.
  - do 12 (apply in_or_app; right). apply in_or_app. left.
    unfold reset_var_check in Ev. rewrite H1, H2 in Ev. inversion Ev; subst. left. reflexivity.
  - do 13 (apply in_or_app; right).
    unfold reset_var_check in Et. rewrite H1, H2 in Et. inversion Et; subst. left. reflexivity.
  - do 10 (apply in_or_app; right). apply in_or_app. left. rewrite H. left. reflexivity.
  - do 11 (apply in_or_app; right). apply in_or_app. left. rewrite H. left. reflexivity.
Qed.

(** MathML: faults at ANY depth of a <math> document are seen by the passes that walk the whole tree *)
Lemma in_flat_map_elements : forall k x, In x (elements k) -> forall y, In y (elements x) -> In y (elements k).
Proof.
  induction k as [ns n attrs kids IH|s|s] using xml_ind3; intros x Hx y Hy; [|destruct Hx|destruct Hx].
  rewrite elements_elem in Hx. destruct Hx as [Hx|Hx]; [subst; exact Hy|].
  rewrite elements_elem. right. apply in_flat_map in Hx. destruct Hx as [k [Hk Hx]]. apply in_flat_map. exists k.
  split; [exact Hk|]. rewrite Forall_forall in IH. apply (IH k Hk x Hx y Hy).
Qed.

Lemma unsupported_cited : forall x y, In y (elements x) -> is_supported y = false -> In R_MATH_CHILD (val_supported x).
Proof.
  induction x as [ns n attrs kids IH|s|s] using xml_ind3; intros y Hy Hs; [|destruct Hy|destruct Hy].
  rewrite elements_elem in Hy. rewrite val_supported_elem. destruct Hy as [Hy|Hy].
  - subst y. apply in_or_app. left. rewrite Hs. left. reflexivity.
  - apply in_or_app. right. apply in_flat_map in Hy. destruct Hy as [k [Hk Hy]]. apply in_flat_map. exists k. split; [exact Hk|].
    rewrite Forall_forall in IH. apply (IH k Hk y Hy Hs).
Qed.

Lemma ci_unknown_cited : forall vars units x ns n attrs kids, In (Elem ns n attrs kids) (elements x) ->
  is_mathml_el "ci" (Elem ns n attrs kids) = true -> ci_text kids <> "" -> ~ In (ci_text kids) vars ->
  In R_MATH_CI_VARIABLE_REFERENCE (val_cicn_gen ci_comment_fix_committed vars units x).
Proof.
  intros vars units. induction x as [ns0 n0 attrs0 kids0 IH|s|s] using xml_ind3; intros ns n attrs kids Hy Hci Ht Hv; [|destruct Hy|destruct Hy].
  rewrite elements_elem in Hy. rewrite val_cicn_elem. destruct Hy as [Hy|Hy].
  - inversion Hy; subst. apply in_or_app. left.
    assert (Hcn : is_mathml_el "cn" (Elem ns n attrs kids) = false).
    { destruct (is_mathml_el "cn" (Elem ns n attrs kids)) eqn:E; [|reflexivity]. apply cn_not_ci in E. congruence. }
    rewrite Hcn, Hci. destruct (val_ci_name_gen ci_comment_fix_committed vars kids) as [|r0 l0] eqn:E.
    + exfalso. apply val_ci_name_nil in E. destruct E as [E|E]; contradiction.
    + assert (Hr : r0 = R_MATH_CI_VARIABLE_REFERENCE).
      { unfold val_ci_name_gen, val_ci_name in E. destruct ci_comment_fix_committed; cbv zeta in E;
          repeat match type of E with context [if ?b then _ else _] => destruct b end; inversion E; reflexivity. }
      subst r0. left. reflexivity.
  - apply in_or_app. right. apply in_flat_map in Hy. destruct Hy as [k [Hk Hy]]. apply in_flat_map. exists k. split; [exact Hk|].
    rewrite Forall_forall in IH. apply (IH k Hk ns n attrs kids Hy Hci Ht Hv).
Qed.

Lemma cn_units_cited : forall vars units x ns n attrs kids r, In (Elem ns n attrs kids) (elements x) ->
  is_mathml_el "cn" (Elem ns n attrs kids) = true -> In r (val_cn_units units attrs) ->
  In r (val_cicn_gen ci_comment_fix_committed vars units x).
Proof.
  intros vars units. induction x as [ns0 n0 attrs0 kids0 IH|s|s] using xml_ind3; intros ns n attrs kids r Hy Hcn Hr; [|destruct Hy|destruct Hy].
  rewrite elements_elem in Hy. rewrite val_cicn_elem. destruct Hy as [Hy|Hy].
  - inversion Hy; subst. apply in_or_app. left. rewrite Hcn. exact Hr.
  - apply in_or_app. right. apply in_flat_map in Hy. destruct Hy as [k [Hk Hy]]. apply in_flat_map. exists k. split; [exact Hk|].
    rewrite Forall_forall in IH. apply (IH k Hk ns n attrs kids r Hy Hcn Hr).
Qed.

(** a math string = its documents in order; validateMath stops at the first root that is not <math> *)
Inductive math_violation (q : bool) (vars units : list string) : list xml -> vrule -> Prop :=
| MV_root : forall pre d post, Forall (fun x => is_mathml_el "math" x = true) pre -> is_mathml_el "math" d = false ->
            math_violation q vars units (pre ++ d :: post) V_MATH_ELEMENT
| MV_doc : forall pre d post r, Forall (fun x => is_mathml_el "math" x = true) pre -> is_mathml_el "math" d = true ->
           In r (val_math_env_q q vars units d) -> math_violation q vars units (pre ++ d :: post) (conv_math_rule r).

Lemma math_violation_cited : forall q vars units docs r, math_violation q vars units docs r -> In r (validate_math q vars units docs).
Proof.
  intros q vars units docs r H. destruct H as [pre d post Hpre Hd|pre d post r Hpre Hd Hr].
  - induction Hpre as [|x l Hx Hl IH]; cbn [app validate_math]; [rewrite Hd; left; reflexivity|].
    rewrite Hx. apply in_or_app. right. exact IH.
  - induction Hpre as [|x l Hx Hl IH]; cbn [app validate_math].
    + rewrite Hd. apply in_or_app. left. apply in_map. exact Hr.
    + rewrite Hx. apply in_or_app. right. exact IH.
Qed.

(** inside one <math> document: an unsupported element, an unknown <ci>, a <cn> with bad units — at any depth *)
Lemma doc_unsupported : forall q vars units d k y, is_mathml_el "math" d = true -> In k (kids_of d) -> In y (elements k) ->
  is_supported y = false -> In R_MATH_CHILD (val_math_env_q q vars units d).
Proof.
  intros q vars units d k y Hd Hk Hy Hs. unfold val_math_env_q, val_math_env_gen3. rewrite Hd. cbn [negb]. apply in_or_app. left.
  change ((fix go (ks : list xml) : list rule := match ks with [] => [] | k :: r => val_supported k ++ go r end) (kids_of d))
    with (flat_map val_supported (kids_of d)).
  apply in_flat_map. exists k. split; [exact Hk|]. apply (unsupported_cited k y Hy Hs).
Qed.

Lemma doc_ci_unknown : forall q vars units d ns n attrs kids, is_mathml_el "math" d = true ->
  In (Elem ns n attrs kids) (elements d) -> is_mathml_el "ci" (Elem ns n attrs kids) = true ->
  ci_text kids <> "" -> ~ In (ci_text kids) vars ->
  In R_MATH_CI_VARIABLE_REFERENCE (val_math_env_q q vars units d).
Proof.
  intros q vars units d ns n attrs kids Hd Hy Hci Ht Hv. unfold val_math_env_q, val_math_env_gen3. rewrite Hd. cbn [negb].
  apply in_or_app. right. apply in_or_app. left. apply (ci_unknown_cited vars units d ns n attrs kids Hy Hci Ht Hv).
Qed.

Lemma doc_cn_units : forall q vars units d ns n attrs kids r, is_mathml_el "math" d = true ->
  In (Elem ns n attrs kids) (elements d) -> is_mathml_el "cn" (Elem ns n attrs kids) = true ->
  In r (val_cn_units units attrs) -> In r (val_math_env_q q vars units d).
Proof.
  intros q vars units d ns n attrs kids r Hd Hy Hcn Hr. unfold val_math_env_q, val_math_env_gen3. rewrite Hd. cbn [negb].
  apply in_or_app. right. apply in_or_app. left. apply (cn_units_cited vars units d ns n attrs kids r Hy Hcn Hr).
Qed.

(* ------------------------------------------------------------------ rule_cited: location + local rule *)

Section RuleCited.
  Variable fx : fixes.
  Variable ueq : world -> string -> string -> option bool.
  Variable early : bool.

  (** a rule violated by a variable — of a top-level or encapsulated component, first, last or in between — is cited *)
  Theorem variable_rule_cited : forall W c v pre post R, In c (model_comps (model_at W 0)) -> c_imp (c_info c) = None ->
    c_vars (c_info c) = pre ++ v :: post -> var_violation (model_at W 0) (c_info c) (map v_name pre) v R ->
    In (Error, R) (validate fx ueq early W).
  Proof.
    intros W c v pre post R Hc Himp Heq HV. apply (variable_reached fx ueq early W c v pre post R Hc Himp Heq).
    apply var_violation_cited. exact HV.
  Qed.

  (** a rule violated by a reset of any component is cited *)
  Theorem reset_rule_cited : forall W c rs R, In c (model_comps (model_at W 0)) -> c_imp (c_info c) = None ->
    In rs (c_resets (c_info c)) -> reset_violation (c_info c) (model_locs (model_at W 0)) rs R ->
    In (Error, R) (validate fx ueq early W).
  Proof.
    intros W c rs R Hc Himp Hrs HV. apply (reset_reached fx ueq early W c rs R Hc Himp Hrs).
    apply reset_violation_cited. exact HV.
  Qed.

  (** a MathML rule violated in the math of a component, or in the test_value / reset_value of one of its resets, is cited *)
  Theorem math_rule_cited : forall W c docs R, In c (model_comps (model_at W 0)) -> c_imp (c_info c) = None ->
    (docs = c_math (c_info c) \/ exists rs, In rs (c_resets (c_info c)) /\ (docs = r_tv rs \/ docs = r_rv rs)) ->
    math_violation (fx_math_qual fx) (map v_name (c_vars (c_info c))) (units_names (model_at W 0)) docs R ->
    In (Error, R) (validate fx ueq early W).
  Proof.
    intros W c docs R Hc Himp Hwhere HV. apply math_violation_cited in HV. destruct Hwhere as [Hd|[rs [Hrs [Hd|Hd]]]]; subst docs.
    - apply (component_math_reached fx ueq early W c R Hc Himp HV).
    - apply (reset_math_reached fx ueq early W c rs R Hc Himp Hrs). left. exact HV.
    - apply (reset_math_reached fx ueq early W c rs R Hc Himp Hrs). right. exact HV.
  Qed.

  (** the name of the model *)
  Theorem model_name_cited : forall W, ~ IsIdent (m_name (model_at W 0)) -> In (Error, V_MODEL_NAME_VALUE) (validate fx ueq early W).
  Proof.
    intros W H. apply plain_cited. unfold validate_raw. cbv zeta. apply in_or_app. left.
    apply is_ident_false_iff in H. rewrite H. left. reflexivity.
  Qed.

  (** the name of a component anywhere in the hierarchy *)
  Theorem component_name_cited : forall W c, In c (model_comps (model_at W 0)) -> ~ IsIdent (c_name (c_info c)) ->
    In (Error, if is_import_c (c_info c) then V_IMPORT_COMPONENT_NAME_VALUE else V_COMPONENT_NAME_VALUE) (validate fx ueq early W).
  Proof.
    intros W c Hc H. apply (component_reached fx ueq early W c _ Hc). unfold comp_fuel. cbn [validate_component].
    apply in_or_app. left. apply is_ident_false_iff in H. rewrite H. left. reflexivity.
  Qed.
End RuleCited.
