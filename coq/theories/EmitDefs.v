(** EmitDefs.v — executable model of the DECLARED STRUCTURE of libcellml's generated code (C17).  No proofs.

    Transcribes, as the code is now:
      /repo/src/analyser.cpp       AnalyserImpl::analyseNode  (MathML node -> AST node, mNeed*Function flags)
      /repo/src/analysermodel.cpp  AnalyserModel::isValid, need*Function guards
      /repo/src/generator.cpp      GeneratorImpl::modelHasOdes, modelHasNlas, updateVariableInfoSizes, newLineIfNeeded,
                                   addOriginCommentCode, addInterfaceHeaderCode, addImplementationHeaderCode,
                                   addVersionAndLibcellmlVersionCode, addStateAndVariableCountCode,
                                   addVariableTypeObjectCode, generateVariableInfoObjectCode, addVariableInfoObjectCode,
                                   generateVariableInfoEntryCode, addInterfaceVoiStateAndVariableInfoCode,
                                   addImplementationVoiInfoCode, addImplementationStateInfoCode,
                                   addImplementationVariableInfoCode, addArithmeticFunctionsCode,
                                   addTrigonometricFunctionsCode, addInterfaceCreateDeleteArrayMethodsCode,
                                   addExternalVariableMethodTypeDefinitionCode,
                                   addImplementationCreateStatesArrayMethodCode, ...CreateVariablesArray..., ...DeleteArray...,
                                   addRootFindingInfoObjectCode, addExternNlaSolveMethodCode, addNlaSystemsCode (the method
                                   frames, not the bodies), addInterfaceComputeModelMethodsCode, the frames of
                                   addImplementation{InitialiseVariables,ComputeComputedConstants,ComputeRates,
                                   ComputeVariables}MethodCode, Generator::interfaceCode, Generator::implementationCode
      /repo/src/generatorprofile.cpp  the (forDifferentialModel, withExternalVariables) selectors
                                   variableTypeObjectString, externalVariableMethodTypeDefinitionString,
                                   rootFindingInfoObjectString, findRootMethodString, nlaSolveCallString,
                                   objectiveFunctionMethodString, interface/implementationInitialiseVariablesMethodString,
                                   interface/implementationComputeRatesMethodString,
                                   interface/implementationComputeVariablesMethodString
      /repo/src/utilities.cpp      replace (first occurrence; GenDefs.replace_first), convertToString(size_t)

    The profile strings are LCGen.ProfileStrings, regenerated from generatorprofile.cpp on every run.

    Scope notes (stated, not hidden):
    * Method BODIES (generateEquationCode, generateInitialisationCode, ...) belong to C03.  The implementation is
      modelled as a list of pieces: literal text and [Hole]s where a method body goes ("[CODE]" of a method template).
    * modifiedProfile() (a SHA-1 of the profile's contents) is not modelled: the model is the generator with an
      UNMODIFIED built-in profile ("the C profile of", no ".post0").  The check normalises those two spots.
    * analyseNode: a MathML shape on which the C++ dereferences a missing child (an <apply> without operand, an empty
      <piecewise>, a <piece> with one child...) is outside the model's claim; the model returns a Null child there.
      The validator / MathML DTD exclude those shapes.  The first child of an <apply> is analysed INTO the node that
      is being built (its type and value are taken; an operator element has no children of its own).
    * has_odes with a null voi cannot occur (the analyser sets ODE/DAE exactly when mVoi != nullptr,
      analyser.cpp: "Determine the type of our model"); the model skips the voi then, the C++ would crash. *)
From Coq Require Import String Ascii List Bool Arith.
From LC Require Import Common AstDefs GenDefs.
From LCGen Require Import AstTypes ProfileStrings ProfileMembers.
Import ListNotations.
Local Open Scope string_scope.
Local Open Scope bool_scope.

(** ** strings *)

Definition nl : string := String (ascii_of_nat 10) EmptyString.

Definition is_empty (s : string) : bool := match s with EmptyString => true | _ => false end.

(* first occurrence of [from] in [s]: (text before, text after) *)
Fixpoint split_first (s from : string) : option (string * string) :=
  match prefix_drop from s with
  | Some r => Some (EmptyString, r)
  | None =>
      match s with
      | EmptyString => None
      | String c s' =>
          match split_first s' from with
          | Some (a, b) => Some (String c a, b)
          | None => None
          end
      end
  end.

(* s without the suffix [suf] (s itself when it does not end with it) *)
Fixpoint strip_suffix (suf s : string) : string :=
  if String.eqb s suf then EmptyString
  else match s with
       | EmptyString => EmptyString
       | String c s' => String c (strip_suffix suf s')
       end.

(* text before the first occurrence of [marker] (all of s when absent) *)
Definition before (marker s : string) : string :=
  match split_first s marker with Some (a, _) => a | None => s end.

(* text after the LAST space of s that precedes the first "(" : the function name of a C / Python signature *)
Fixpoint after_last_space (s acc : string) : string :=
  match s with
  | EmptyString => acc
  | String c s' => if Ascii.eqb c " "%char then after_last_space s' s' else after_last_space s' acc
  end.
Definition sig_name (sig : string) : string :=
  let h := before "(" sig in after_last_space h h.

(** ** need-flags: the 24 helper functions *)

Inductive helper : Set :=
| HEq | HNeq | HLt | HLeq | HGt | HGeq | HAnd | HOr | HXor | HNot | HMin | HMax
| HSec | HCsc | HCot | HSech | HCsch | HCoth | HAsec | HAcsc | HAcot | HAsech | HAcsch | HAcoth.

Scheme Equality for helper.

(* emission order of addArithmeticFunctionsCode then addTrigonometricFunctionsCode *)
Definition all_helpers : list helper :=
  [HEq; HNeq; HLt; HLeq; HGt; HGeq; HAnd; HOr; HXor; HNot; HMin; HMax;
   HSec; HCsc; HCot; HSech; HCsch; HCoth; HAsec; HAcsc; HAcot; HAsech; HAcsch; HAcoth].

(* analyser.cpp analyseNode: populate(Type::X, ...) is followed by mNeedXFunction = true for exactly these types *)
Definition helper_of_ty (t : ty) : option helper :=
  match t with
  | EQ => Some HEq | NEQ => Some HNeq | LT => Some HLt | LEQ => Some HLeq | GT => Some HGt | GEQ => Some HGeq
  | AND => Some HAnd | OR => Some HOr | XOR => Some HXor | NOT => Some HNot
  | MIN => Some HMin | MAX => Some HMax
  | SEC => Some HSec | CSC => Some HCsc | COT => Some HCot
  | SECH => Some HSech | CSCH => Some HCsch | COTH => Some HCoth
  | ASEC => Some HAsec | ACSC => Some HAcsc | ACOT => Some HAcot
  | ASECH => Some HAsech | ACSCH => Some HAcsch | ACOTH => Some HAcoth
  | _ => None
  end.

Definition ty_of_helper (h : helper) : ty :=
  match h with
  | HEq => EQ | HNeq => NEQ | HLt => LT | HLeq => LEQ | HGt => GT | HGeq => GEQ
  | HAnd => AND | HOr => OR | HXor => XOR | HNot => NOT | HMin => MIN | HMax => MAX
  | HSec => SEC | HCsc => CSC | HCot => COT | HSech => SECH | HCsch => CSCH | HCoth => COTH
  | HAsec => ASEC | HAcsc => ACSC | HAcot => ACOT | HAsech => ASECH | HAcsch => ACSCH | HAcoth => ACOTH
  end.

(* the set of mNeed*Function members that are true *)
Definition flags := list helper.
Definition get_flag (h : helper) (fl : flags) : bool := existsb (helper_beq h) fl.
Definition set_flag (h : helper) (fl : flags) : flags := if get_flag h fl then fl else h :: fl.
Definition set_ty_flag (t : ty) (fl : flags) : flags :=
  match helper_of_ty t with Some h => set_flag h fl | None => fl end.

(* the flags as a function of the AST that analyseNode builds: one populate(Type::X) per node, one flag per populate *)
Fixpoint need_flags_acc (a : ast) (fl : flags) : flags :=
  match a with
  | Null => fl
  | Node t _ l r => need_flags_acc r (need_flags_acc l (set_ty_flag t fl))
  end.
Definition need_flags (a : ast) : flags := need_flags_acc a [].
Definition need_flags_list (l : list ast) : flags := fold_left (fun fl a => need_flags_acc a fl) l [].

(** ** analyseNode on MathML *)

(* a MathML element with its element children; <ci> / <cn> carry their stripped text; <cn type="e-notation"> its two texts *)
Inductive mml : Set :=
| El (name : string) (kids : list mml)
| MCi (v : string)
| MCn (v : string)
| MCnE (mantissa exponent : string).

(* the else-if chain for the elements that only populate a type (eq is handled apart: it looks at its grandparent) *)
Definition leaf_ty (name : string) : ty :=
  if name =? "neq" then NEQ else if name =? "lt" then LT else if name =? "leq" then LEQ
  else if name =? "gt" then GT else if name =? "geq" then GEQ else if name =? "and" then AND
  else if name =? "or" then OR else if name =? "xor" then XOR else if name =? "not" then NOT
  else if name =? "plus" then PLUS else if name =? "minus" then MINUS else if name =? "times" then TIMES
  else if name =? "divide" then DIVIDE else if name =? "power" then POWER else if name =? "root" then ROOT
  else if name =? "abs" then ABS else if name =? "exp" then EXP else if name =? "ln" then LN
  else if name =? "log" then LOG else if name =? "ceiling" then CEILING else if name =? "floor" then FLOOR
  else if name =? "min" then MIN else if name =? "max" then MAX else if name =? "rem" then REM
  else if name =? "diff" then DIFF
  else if name =? "sin" then SIN else if name =? "cos" then COS else if name =? "tan" then TAN
  else if name =? "sec" then SEC else if name =? "csc" then CSC else if name =? "cot" then COT
  else if name =? "sinh" then SINH else if name =? "cosh" then COSH else if name =? "tanh" then TANH
  else if name =? "sech" then SECH else if name =? "csch" then CSCH else if name =? "coth" then COTH
  else if name =? "arcsin" then ASIN else if name =? "arccos" then ACOS else if name =? "arctan" then ATAN
  else if name =? "arcsec" then ASEC else if name =? "arccsc" then ACSC else if name =? "arccot" then ACOT
  else if name =? "arcsinh" then ASINH else if name =? "arccosh" then ACOSH else if name =? "arctanh" then ATANH
  else if name =? "arcsech" then ASECH else if name =? "arccsch" then ACSCH else if name =? "arccoth" then ACOTH
  else if name =? "true" then TRUE else if name =? "false" then FALSE else if name =? "exponentiale" then E
  else if name =? "pi" then PI else if name =? "infinity" then INF
  else NAN.

Definition ast_ty (a : ast) : ty := match a with Node t _ _ _ => t | Null => EQUALITY end.
Definition ast_val (a : ast) : string := match a with Node _ v _ _ => v | Null => "" end.

Definition kid (i : nat) (kids : list mml) : option mml := nth_error kids i.

(* the two right-folding loops of analyseNode, over the operands that follow the first one; [an] analyses one child.
   apply:     "for (auto i = childCount - 2; i > 1; --i)": the operator element is analysed again for every
              intermediate node (tempAst), the last operand is the innermost right child;
   piecewise: "for (auto i = childCount - 2; i > 0; --i)": intermediate nodes are PIECEWISE nodes. *)
Section Chains.
  Variable an : mml -> flags -> ast * flags.
  Variable anop : flags -> ast * flags.       (* analysis of the operator element (child 0) into a fresh node *)
  Fixpoint apply_chain (rs : list mml) (fl : flags) {struct rs} : ast * flags :=
    match rs with
    | [] => (Null, fl)
    | y :: ys =>
        match ys with
        | [] => an y fl
        | _ :: _ =>
            let '(h', fla) := anop fl in
            let '(ly, flb) := an y fla in
            let '(ry, flc) := apply_chain ys flb in
            (Node (ast_ty h') (ast_val h') ly ry, flc)
        end
    end.
  Fixpoint piecewise_chain (rs : list mml) (fl : flags) {struct rs} : ast * flags :=
    match rs with
    | [] => (Null, fl)
    | y :: ys =>
        match ys with
        | [] => an y fl
        | _ :: _ =>
            let '(ly, fla) := an y fl in
            let '(ry, flb) := piecewise_chain ys fla in
            (Node PIECEWISE "" ly ry, flb)
        end
    end.
End Chains.

(* analyseNode(node, ast, ...).  [pm]: node's parent is <math>; [gp]: node's grandparent is <math>.
   A fresh AnalyserEquationAst has type EQUALITY (analyserequationast_p.h). *)
Fixpoint analyse (pm gp : bool) (n : mml) (fl : flags) {struct n} : ast * flags :=
  match n with
  | MCi v => (Node CI v Null Null, fl)
  | MCn v => (Node CN v Null Null, fl)
  | MCnE mant ex => (Node CN (mant ++ "e" ++ ex) Null Null, fl)
  | El name kids =>
      if name =? "apply" then
        match kids with
        | [] => (Node EQUALITY "" Null Null, fl)
        | op :: args =>
            let '(h, fl1) := analyse false pm op fl in
            match args with
            | [] => (Node (ast_ty h) (ast_val h) Null Null, fl1)
            | x :: rest =>
                let '(l, fl2) := analyse false pm x fl1 in
                let '(r, fl3) := apply_chain (analyse false pm) (analyse false pm op) rest fl2 in
                (Node (ast_ty h) (ast_val h) l r, fl3)
            end
        end
      else if name =? "eq" then
        if gp then (Node EQUALITY "" Null Null, fl)
        else (Node EQ "" Null Null, set_flag HEq fl)
      else if name =? "piecewise" then
        match kids with
        | [] => (Node PIECEWISE "" Null Null, fl)
        | k0 :: rest =>
            let '(l, fl1) := analyse false pm k0 fl in
            let '(r, fl2) := piecewise_chain (analyse false pm) rest fl1 in
            (Node PIECEWISE "" l r, fl2)
        end
      else if name =? "piece" then
        match kids with
        | k0 :: k1 :: _ =>
            let '(l, fl1) := analyse false pm k0 fl in
            let '(r, fl2) := analyse false pm k1 fl1 in
            (Node PIECE "" l r, fl2)
        | [k0] => let '(l, fl1) := analyse false pm k0 fl in (Node PIECE "" l Null, fl1)
        | [] => (Node PIECE "" Null Null, fl)
        end
      else if (name =? "otherwise") || (name =? "degree") || (name =? "logbase") then
        let t := if name =? "otherwise" then OTHERWISE else if name =? "degree" then DEGREE else LOGBASE in
        match kids with
        | k0 :: _ => let '(l, fl1) := analyse false pm k0 fl in (Node t "" l Null, fl1)
        | [] => (Node t "" Null Null, fl)
        end
      else if name =? "bvar" then
        match kids with
        | k0 :: k1 :: _ =>
            let '(l, fl1) := analyse false pm k0 fl in
            let '(r, fl2) := analyse false pm k1 fl1 in
            (Node BVAR "" l r, fl2)
        | [k0] => let '(l, fl1) := analyse false pm k0 fl in (Node BVAR "" l Null, fl1)
        | [] => (Node BVAR "" Null Null, fl)
        end
      else
        let t := leaf_ty name in (Node t "" Null Null, set_ty_flag t fl)
  end.

(* analyseComponent: every element child of every <math> is analysed with a fresh equation; the flags accumulate in
   the AnalyserModel over all components (analyseComponent recurses into encapsulated components) *)
Definition analyse_equation (n : mml) (fl : flags) : ast * flags := analyse true false n fl.
Definition analyse_math (eqs : list mml) : list ast * flags :=
  fold_left (fun '(asts, fl) n => let '(a, fl') := analyse_equation n fl in ((asts ++ [a])%list, fl')) eqs ([], []).

(** ** the analysed model, as the generator sees it through the AnalyserModel accessors *)

(* AnalyserVariable::Type *)
Inductive vtype : Set := VVoi | VState | VConstant | VComputedConstant | VAlgebraic | VExternal.
Scheme Equality for vtype.

(* AnalyserVariable: index(), type(), variable()->name(), variable()->units()->name(), owningComponent(variable())->name() *)
Record avar := mkAvar { av_index : nat; av_type : vtype; av_name : string; av_units : string; av_comp : string }.

(* AnalyserModel::Type *)
Inductive mtype : Set :=
| MUnknown | MOde | MDae | MNla | MAlgebraic | MInvalid | MUnderconstrained | MOverconstrained | MUnsuitablyConstrained.

(* AnalyserEquation::Type *)
Inductive etype : Set := ETrueConstant | EVariableBasedConstant | EOde | ENla | EAlgebraic | EExternal.
Definition is_nla (t : etype) : bool := match t with ENla => true | _ => false end.

(* AnalyserEquation: type(), nlaSystemIndex(), nlaSiblings() (as positions in equations()), variables() (type, index), ast() *)
Record aeq := mkAeq { ae_type : etype; ae_nla_index : nat; ae_sibs : list nat; ae_vars : list (vtype * nat); ae_ast : ast }.

Record amodel := mkAmodel {
  am_type : mtype;
  am_voi : option avar;
  am_states : list avar;
  am_variables : list avar;
  am_has_ext : bool;          (* mHasExternalVariables *)
  am_equations : list aeq;
  am_flags : flags            (* the mNeed*Function members *)
}.

(* analysermodel.cpp: AnalyserModel::isValid *)
Definition is_valid (m : amodel) : bool :=
  match am_type m with MOde | MDae | MNla | MAlgebraic => true | _ => false end.

(* analysermodel.cpp: needXFunction() = isValid() && mNeedXFunction *)
Definition need (m : amodel) (h : helper) : bool := is_valid m && get_flag h (am_flags m).

(* generator.cpp: modelHasOdes / modelHasNlas *)
Definition has_odes (m : amodel) : bool := match am_type m with MOde | MDae => true | _ => false end.
Definition has_nlas (m : amodel) : bool := match am_type m with MNla | MDae => true | _ => false end.

(** ** profile selectors (generatorprofile.cpp) *)

(* GeneratorProfile::Profile *)
Inductive pkind : Set := PC | PPy.
Definition prof (k : pkind) : profile := match k with PC => profile_C | PPy => profile_Py end.

Section Selectors.
  Variable p : profile.
  Definition sel4 (fdm wev : bool) (fam_woev fam_wev fdm_woev fdm_wev : string) : string :=
    if fdm then (if wev then fdm_wev else fdm_woev) else (if wev then fam_wev else fam_woev).
  Definition variable_type_object_string (fdm wev : bool) : string :=
    sel4 fdm wev (variable_type_object_fam_woev_string p) (variable_type_object_fam_wev_string p)
         (variable_type_object_fdm_woev_string p) (variable_type_object_fdm_wev_string p).
  Definition external_variable_method_type_definition_string (fdm : bool) : string :=
    if fdm then external_variable_method_type_definition_fdm_string p else external_variable_method_type_definition_fam_string p.
  Definition root_finding_info_object_string (fdm : bool) : string :=
    if fdm then root_finding_info_object_fdm_string p else root_finding_info_object_fam_string p.
  Definition find_root_method_string (fdm : bool) : string :=
    if fdm then find_root_method_fdm_string p else find_root_method_fam_string p.
  Definition nla_solve_call_string (fdm : bool) : string :=
    if fdm then nla_solve_call_fdm_string p else nla_solve_call_fam_string p.
  Definition objective_function_method_string (fdm : bool) : string :=
    if fdm then objective_function_method_fdm_string p else objective_function_method_fam_string p.
  Definition interface_initialise_variables_method_string (fdm wev : bool) : string :=
    sel4 fdm wev (interface_initialise_variables_method_fam_woev_string p) (interface_initialise_variables_method_fam_wev_string p)
         (interface_initialise_variables_method_fdm_woev_string p) (interface_initialise_variables_method_fdm_wev_string p).
  Definition implementation_initialise_variables_method_string (fdm wev : bool) : string :=
    sel4 fdm wev (implementation_initialise_variables_method_fam_woev_string p) (implementation_initialise_variables_method_fam_wev_string p)
         (implementation_initialise_variables_method_fdm_woev_string p) (implementation_initialise_variables_method_fdm_wev_string p).
  Definition interface_compute_rates_method_string (wev : bool) : string :=
    if wev then interface_compute_rates_method_wev_string p else interface_compute_rates_method_woev_string p.
  Definition implementation_compute_rates_method_string (wev : bool) : string :=
    if wev then implementation_compute_rates_method_wev_string p else implementation_compute_rates_method_woev_string p.
  Definition interface_compute_variables_method_string (fdm wev : bool) : string :=
    sel4 fdm wev (interface_compute_variables_method_fam_woev_string p) (interface_compute_variables_method_fam_wev_string p)
         (interface_compute_variables_method_fdm_woev_string p) (interface_compute_variables_method_fdm_wev_string p).
  Definition implementation_compute_variables_method_string (fdm wev : bool) : string :=
    sel4 fdm wev (implementation_compute_variables_method_fam_woev_string p) (implementation_compute_variables_method_fam_wev_string p)
         (implementation_compute_variables_method_fdm_woev_string p) (implementation_compute_variables_method_fdm_wev_string p).

  (* the has*Operator flag and the *FunctionString of a helper (min, max and the trigonometric helpers have no flag:
     addArithmeticFunctionsCode / addTrigonometricFunctionsCode only test the function string for them) *)
  Definition has_operator (h : helper) : bool :=
    match h with
    | HEq => has_eq_operator p | HNeq => has_neq_operator p | HLt => has_lt_operator p | HLeq => has_leq_operator p
    | HGt => has_gt_operator p | HGeq => has_geq_operator p | HAnd => has_and_operator p | HOr => has_or_operator p
    | HXor => has_xor_operator p | HNot => has_not_operator p
    | _ => false
    end.
  Definition function_string (h : helper) : string :=
    match h with
    | HEq => eq_function_string p | HNeq => neq_function_string p | HLt => lt_function_string p
    | HLeq => leq_function_string p | HGt => gt_function_string p | HGeq => geq_function_string p
    | HAnd => and_function_string p | HOr => or_function_string p | HXor => xor_function_string p
    | HNot => not_function_string p | HMin => min_function_string p | HMax => max_function_string p
    | HSec => sec_function_string p | HCsc => csc_function_string p | HCot => cot_function_string p
    | HSech => sech_function_string p | HCsch => csch_function_string p | HCoth => coth_function_string p
    | HAsec => asec_function_string p | HAcsc => acsc_function_string p | HAcot => acot_function_string p
    | HAsech => asech_function_string p | HAcsch => acsch_function_string p | HAcoth => acoth_function_string p
    end.
  (* the text generateCode prints for the operator when the profile has no native operator: the called name *)
  Definition call_string (h : helper) : string :=
    match h with
    | HEq => eq_string p | HNeq => neq_string p | HLt => lt_string p | HLeq => leq_string p | HGt => gt_string p
    | HGeq => geq_string p | HAnd => and_string p | HOr => or_string p | HXor => xor_string p | HNot => not_string p
    | HMin => min_string p | HMax => max_string p
    | HSec => sec_string p | HCsc => csc_string p | HCot => cot_string p | HSech => sech_string p | HCsch => csch_string p
    | HCoth => coth_string p | HAsec => asec_string p | HAcsc => acsc_string p | HAcot => acot_string p
    | HAsech => asech_string p | HAcsch => acsch_string p | HAcoth => acoth_string p
    end.
End Selectors.

(** ** the generator *)

Inductive piece : Set := Lit (s : string) | Hole.

Definition piece_empty (x : piece) : bool := match x with Lit s => is_empty s | Hole => false end.

(* "[CODE]" of a method template replaced by a body that is not modelled *)
Definition method_pieces (tmpl : string) : list piece :=
  match split_first tmpl "[CODE]" with
  | Some (a, b) => [Lit a; Hole; Lit b]
  | None => [Lit tmpl]
  end.

Record sizes := mkSizes { sz_component : nat; sz_name : nat; sz_units : nat }.

(* one row of an info table: what generateVariableInfoEntryCode is given *)
Record info := mkInfo { i_name : string; i_units : string; i_component : string; i_type : string }.

Section Generator.
  Variable k : pkind.         (* mProfile->profile() *)
  Variable p : profile.       (* the strings of mProfile *)
  Variable ver : string.      (* versionString() *)
  Variable m : amodel.        (* *mModel *)

  Definition fdm : bool := has_odes m.
  Definition wev : bool := am_has_ext m.     (* mModel->hasExternalVariables(), model valid *)

  (* newLineIfNeeded on a code that is still a plain string *)
  Definition nlin (code : string) : string := if is_empty code then "" else nl.

  (* updateVariableInfoSizes *)
  Definition update_sizes (s : sizes) (v : avar) : sizes :=
    let c := String.length (av_comp v) + 1 in
    let n := String.length (av_name v) + 1 in
    let u := String.length (av_units v) + 1 in
    mkSizes (if Nat.ltb c (sz_component s) then sz_component s else c)
            (if Nat.ltb n (sz_name s) then sz_name s else n)
            (if Nat.ltb u (sz_units s) then sz_units s else u).

  (* the size loop of generateVariableInfoObjectCode *)
  Definition info_sizes : sizes :=
    let s0 := mkSizes 0 0 0 in
    let s1 := if has_odes m
              then fold_left update_sizes (am_states m) (match am_voi m with Some v => update_sizes s0 v | None => s0 end)
              else s0 in
    fold_left update_sizes (am_variables m) s1.

  (* generateVariableInfoObjectCode *)
  Definition variable_info_object_code (object_string : string) : string :=
    let s := info_sizes in
    replace_first (replace_first (replace_first object_string
                   "[COMPONENT_SIZE]" (nat_to_string (sz_component s)))
                   "[NAME_SIZE]" (nat_to_string (sz_name s)))
                   "[UNITS_SIZE]" (nat_to_string (sz_units s)).

  (* generateVariableInfoEntryCode *)
  Definition info_entry_code (i : info) : string :=
    replace_first (replace_first (replace_first (replace_first (variable_info_entry_string p)
                   "[NAME]" (i_name i)) "[UNITS]" (i_units i)) "[COMPONENT]" (i_component i)) "[TYPE]" (i_type i).

  (* the switch of addImplementationVariableInfoCode: default = EXTERNAL *)
  Definition variable_type_string (t : vtype) : string :=
    match t with
    | VConstant => constant_variable_type_string p
    | VComputedConstant => computed_constant_variable_type_string p
    | VAlgebraic => algebraic_variable_type_string p
    | _ => external_variable_type_string p
    end.

  Definition voi_info (v : avar) : info :=
    mkInfo (av_name v) (av_units v) (av_comp v) (variable_of_integration_variable_type_string p).
  Definition state_info (v : avar) : info :=
    mkInfo (av_name v) (av_units v) (av_comp v) (state_variable_type_string p).
  Definition variable_info (v : avar) : info :=
    mkInfo (av_name v) (av_units v) (av_comp v) (variable_type_string (av_type v)).

  (* the structured tables: row i of STATE_INFO / VARIABLE_INFO, in emission order *)
  Definition state_info_table : list info := map state_info (am_states m).
  Definition variable_info_table : list info := map variable_info (am_variables m).

  (* the loops of addImplementationStateInfoCode / addImplementationVariableInfoCode *)
  Definition info_elements_code (rows : list info) : string :=
    fold_left (fun code i =>
                 (if is_empty code then code else code ++ array_element_separator_string p ++ nl)
                 ++ indent_string p ++ info_entry_code i) rows "".

  (** *** pieces shared by interface and implementation (they work on the code as a string) *)

  (* addOriginCommentCode, unmodified profile *)
  Definition add_origin_comment (code : string) : string :=
    if negb (is_empty (comment_string p)) && negb (is_empty (origin_comment_string p)) then
      let info := "the " ++ (match k with PC => "C" | PPy => "Python" end) ++ " profile of" in
      code ++ replace_first (comment_string p) "[CODE]"
                (replace_first (replace_first (origin_comment_string p) "[PROFILE_INFORMATION]" info)
                               "[LIBCELLML_VERSION]" ver)
    else code.

  Definition add_interface_header (code : string) : string :=
    if negb (is_empty (interface_header_string p)) then code ++ nlin code ++ interface_header_string p else code.

  Definition add_implementation_header (code : string) : string :=
    let has_name := if is_empty (implementation_header_string p) then false
                    else match split_first (implementation_header_string p) "[INTERFACE_FILE_NAME]" with Some _ => true | None => false end in
    if negb (is_empty (implementation_header_string p))
       && ((has_name && negb (is_empty (interface_file_name_string p))) || negb has_name)
    then code ++ nlin code ++ replace_first (implementation_header_string p) "[INTERFACE_FILE_NAME]" (interface_file_name_string p)
    else code.

  (* addVersionAndLibcellmlVersionCode, unmodified profile *)
  Definition add_version (interface : bool) (code : string) : string :=
    let v := if (interface && negb (is_empty (interface_version_string p)))
                || (negb interface && negb (is_empty (implementation_version_string p)))
             then (if interface then interface_version_string p else implementation_version_string p) else "" in
    let v := if (interface && negb (is_empty (interface_libcellml_version_string p)))
                || (negb interface && negb (is_empty (implementation_libcellml_version_string p)))
             then v ++ (if interface then interface_libcellml_version_string p
                        else replace_first (implementation_libcellml_version_string p) "[LIBCELLML_VERSION]" ver)
             else v in
    code ++ (if is_empty v then "" else nl) ++ v.

  (* addStateAndVariableCountCode *)
  Definition state_and_variable_count_code (interface : bool) : string :=
    let c := if has_odes m && ((interface && negb (is_empty (interface_state_count_string p)))
                               || (negb interface && negb (is_empty (implementation_state_count_string p))))
             then (if interface then interface_state_count_string p
                   else replace_first (implementation_state_count_string p) "[STATE_COUNT]" (nat_to_string (length (am_states m))))
             else "" in
    if (interface && negb (is_empty (interface_variable_count_string p)))
       || (negb interface && negb (is_empty (implementation_variable_count_string p)))
    then c ++ (if interface then interface_variable_count_string p
               else replace_first (implementation_variable_count_string p) "[VARIABLE_COUNT]" (nat_to_string (length (am_variables m))))
    else c.
  Definition add_state_and_variable_count (interface : bool) (code : string) : string :=
    let c := state_and_variable_count_code interface in
    code ++ (if is_empty c then "" else nl) ++ c.

  Definition add_variable_type_object (code : string) : string :=
    let s := variable_type_object_string p fdm wev in
    if negb (is_empty s) then code ++ nlin code ++ s else code.

  Definition add_variable_info_object (code : string) : string :=
    if negb (is_empty (variable_info_object_string p))
    then code ++ nlin code ++ variable_info_object_code (variable_info_object_string p) else code.

  (** *** interface *)

  Definition add_interface_voi_state_and_variable_info (code : string) : string :=
    let c := if has_odes m && negb (is_empty (interface_voi_info_string p)) then interface_voi_info_string p else "" in
    let c := if has_odes m && negb (is_empty (interface_state_info_string p)) then c ++ interface_state_info_string p else c in
    let c := if negb (is_empty (interface_variable_info_string p)) then c ++ interface_variable_info_string p else c in
    code ++ (if is_empty c then "" else nl) ++ c.

  (* the declarations appended by addInterfaceCreateDeleteArrayMethodsCode, in order *)
  Definition interface_create_delete_array_methods : list string :=
    ((if has_odes m && negb (is_empty (interface_create_states_array_method_string p))
      then [interface_create_states_array_method_string p] else [])
     ++ (if negb (is_empty (interface_create_variables_array_method_string p))
         then [interface_create_variables_array_method_string p] else [])
     ++ (if negb (is_empty (interface_delete_array_method_string p))
         then [interface_delete_array_method_string p] else []))%list.
  Definition add_interface_create_delete_array_methods (code : string) : string :=
    let c := String.concat "" interface_create_delete_array_methods in
    code ++ (if is_empty c then "" else nl) ++ c.

  Definition add_external_variable_method_type_definition (code : string) : string :=
    if am_has_ext m then
      let s := external_variable_method_type_definition_string p fdm in
      if negb (is_empty s) then code ++ nl ++ s else code
    else code.

  (* the declarations appended by addInterfaceComputeModelMethodsCode, in order *)
  Definition interface_compute_model_methods : list string :=
    ((let s := interface_initialise_variables_method_string p fdm wev in if negb (is_empty s) then [s] else [])
     ++ (if negb (is_empty (interface_compute_computed_constants_method_string p))
         then [interface_compute_computed_constants_method_string p] else [])
     ++ (let s := interface_compute_rates_method_string p wev in if has_odes m && negb (is_empty s) then [s] else [])
     ++ (let s := interface_compute_variables_method_string p fdm wev in if negb (is_empty s) then [s] else []))%list.
  Definition add_interface_compute_model_methods (code : string) : string :=
    let c := String.concat "" interface_compute_model_methods in
    code ++ (if is_empty c then "" else nl) ++ c.

  (* Generator::interfaceCode after the guards *)
  Definition interface_body : string :=
    add_interface_compute_model_methods
      (add_external_variable_method_type_definition
         (add_interface_create_delete_array_methods
            (add_interface_voi_state_and_variable_info
               (add_variable_info_object
                  (add_variable_type_object
                     (add_state_and_variable_count true
                        (add_version true
                           (add_interface_header
                              (add_origin_comment ""))))))))).

  (** *** implementation, part 1: everything before the NLA systems is plain text *)

  Definition add_implementation_voi_info (code : string) : string :=
    if has_odes m && negb (is_empty (implementation_voi_info_string p)) && negb (is_empty (variable_info_entry_string p))
       && negb (is_empty (variable_of_integration_variable_type_string p)) then
      match am_voi m with
      | Some v => code ++ nlin code ++ replace_first (implementation_voi_info_string p) "[CODE]" (info_entry_code (voi_info v))
      | None => code
      end
    else code.

  Definition add_implementation_state_info (code : string) : string :=
    if has_odes m && negb (is_empty (implementation_state_info_string p)) && negb (is_empty (variable_info_entry_string p))
       && negb (is_empty (state_variable_type_string p)) && negb (is_empty (array_element_separator_string p)) then
      code ++ nlin code ++ replace_first (implementation_state_info_string p) "[CODE]" (info_elements_code state_info_table ++ nl)
    else code.

  Definition add_implementation_variable_info (code : string) : string :=
    if negb (is_empty (implementation_variable_info_string p)) && negb (is_empty (variable_info_entry_string p))
       && negb (is_empty (array_element_separator_string p)) && negb (is_empty (variable_of_integration_variable_type_string p))
       && negb (is_empty (state_variable_type_string p)) && negb (is_empty (constant_variable_type_string p))
       && negb (is_empty (computed_constant_variable_type_string p)) && negb (is_empty (algebraic_variable_type_string p))
       && negb (is_empty (external_variable_type_string p)) then
      let e := info_elements_code variable_info_table in
      code ++ nlin code ++ replace_first (implementation_variable_info_string p) "[CODE]" (if is_empty e then e else e ++ nl)
    else code.

  (* addArithmeticFunctionsCode + addTrigonometricFunctionsCode: which helper definitions are appended, in order *)
  Definition helper_emitted (h : helper) : bool :=
    need m h && negb (has_operator p h) && negb (is_empty (function_string p h)).
  Definition helpers_emitted : list helper := filter helper_emitted all_helpers.
  Definition add_helper_functions (code : string) : string :=
    fold_left (fun c h => c ++ nlin c ++ function_string p h) helpers_emitted code.

  Definition add_if (cond : bool) (s : string) (code : string) : string :=
    if cond && negb (is_empty s) then code ++ nlin code ++ s else code.

  (* Generator::implementationCode after the guards, up to and including addExternNlaSolveMethodCode *)
  Definition implementation_prefix : string :=
    let c := add_origin_comment "" in
    let c := add_implementation_header c in
    let c := add_version false c in
    let c := add_state_and_variable_count false c in
    let c := if negb (has_interface p) then add_variable_info_object (add_variable_type_object c) else c in
    let c := add_implementation_voi_info c in
    let c := add_implementation_state_info c in
    let c := add_implementation_variable_info c in
    let c := add_helper_functions c in
    let c := add_if (has_odes m) (implementation_create_states_array_method_string p) c in
    let c := add_if true (implementation_create_variables_array_method_string p) c in
    let c := add_if true (implementation_delete_array_method_string p) c in
    let c := add_if (has_nlas m) (root_finding_info_object_string p fdm) c in
    let c := add_if (has_nlas m) (extern_nla_solve_method_string p) c in
    c.

  (** *** implementation, part 2: method frames with holes *)

  (* addNlaSystemsCode: the (system index, number of unknowns) of the systems in emission order.
     handled = positions of the equations already emitted as part of a system *)
  Fixpoint nla_systems_from (pos : nat) (eqs : list aeq) (handled : list nat) : list (nat * nat) :=
    match eqs with
    | [] => []
    | e :: rest =>
        if is_nla (ae_type e) && negb (existsb (Nat.eqb pos) handled)
        then (ae_nla_index e, length (ae_vars e)) :: nla_systems_from (S pos) rest (handled ++ pos :: ae_sibs e)%list
        else nla_systems_from (S pos) rest handled
    end.
  Definition nla_systems : list (nat * nat) := nla_systems_from 0 (am_equations m) [].

  Definition nla_enabled : bool :=
    has_nlas m && negb (is_empty (objective_function_method_string p fdm))
    && negb (is_empty (find_root_method_string p fdm)) && negb (is_empty (nla_solve_call_string p fdm)).

  Definition objective_function_template (idx : nat) : string :=
    replace_first (objective_function_method_string p fdm) "[INDEX]" (nat_to_string idx).
  Definition find_root_template (idx size : nat) : string :=
    replace_first (replace_first (find_root_method_string p fdm) "[INDEX]" (nat_to_string idx)) "[SIZE]" (nat_to_string size).

  (* the method templates of the implementation after the prefix, in emission order (mCode is not empty there, so
     each is preceded by newLineIfNeeded() = "\n") *)
  Definition implementation_method_templates : list string :=
    ((if nla_enabled
      then flat_map (fun '(idx, size) => [objective_function_template idx; find_root_template idx size]) nla_systems
      else [])
     ++ (let s := implementation_initialise_variables_method_string p fdm wev in if negb (is_empty s) then [s] else [])
     ++ (if negb (is_empty (implementation_compute_computed_constants_method_string p))
         then [implementation_compute_computed_constants_method_string p] else [])
     ++ (let s := implementation_compute_rates_method_string p wev in if has_odes m && negb (is_empty s) then [s] else [])
     ++ (let s := implementation_compute_variables_method_string p fdm wev in if negb (is_empty s) then [s] else []))%list.

  Definition implementation_pieces : list piece :=
    fold_left (fun code t => (code ++ (if forallb piece_empty code then [] else [Lit nl]) ++ method_pieces t)%list)
              implementation_method_templates [Lit implementation_prefix].

  (** *** declared / defined functions *)

  (* a C declaration is "<signature>;\n"; a definition template starts with "<signature>\n{" (C) or with
     "\ndef <name>(<args>):\n" (Python).  [def_sig] is the text of the first non-empty line of the template. *)
  Definition decl_sig (s : string) : string := strip_suffix (";" ++ nl) s.
  Definition drop_leading_nl (s : string) : string :=
    match prefix_drop nl s with Some r => r | None => s end.
  Definition def_sig (t : string) : string := before nl (drop_leading_nl t).

  Definition declared_sigs : list string :=
    map decl_sig (interface_create_delete_array_methods ++ interface_compute_model_methods)%list.

  (* every function the implementation defines: helpers, array methods, NLA methods, the four model methods *)
  Definition defined_templates : list string :=
    (map (function_string p) helpers_emitted
     ++ (if has_odes m && negb (is_empty (implementation_create_states_array_method_string p))
         then [implementation_create_states_array_method_string p] else [])
     ++ (if negb (is_empty (implementation_create_variables_array_method_string p))
         then [implementation_create_variables_array_method_string p] else [])
     ++ (if negb (is_empty (implementation_delete_array_method_string p))
         then [implementation_delete_array_method_string p] else [])
     ++ implementation_method_templates)%list.
  Definition defined_sigs : list string := map def_sig defined_templates.
End Generator.

(* Generator::interfaceCode / implementationCode with their guards: mModel / mProfile may be null *)
Definition interface_code (k : pkind) (p : option profile) (ver : string) (m : option amodel) : string :=
  match m, p with
  | Some m, Some p => if is_valid m && has_interface p then interface_body k p ver m else ""
  | _, _ => ""
  end.

Definition implementation_code (k : pkind) (p : option profile) (ver : string) (m : option amodel) : list piece :=
  match m, p with
  | Some m, Some p => if is_valid m then implementation_pieces k p ver m else []
  | _, _ => []
  end.

(* the code as text once the holes are filled *)
Fixpoint fill (ps : list piece) (bodies : list string) : string :=
  match ps with
  | [] => ""
  | Lit s :: r => s ++ fill r bodies
  | Hole :: r => match bodies with b :: bs => b ++ fill r bs | [] => fill r [] end
  end.

(** ** well-formedness of the analyser's output that the info-table claim relies on
    (C05: Properties_C05.C05_result_wf_indices — state indices are 0..n-1 in list order, variable indices likewise) *)
Definition wf_indices (m : amodel) : Prop :=
  map av_index (am_states m) = seq 0 (length (am_states m))
  /\ map av_index (am_variables m) = seq 0 (length (am_variables m)).
Fixpoint nat_list_eqb (a b : list nat) : bool :=
  match a, b with
  | [], [] => true
  | x :: a', y :: b' => Nat.eqb x y && nat_list_eqb a' b'
  | _, _ => false
  end.
Definition wf_indices_b (m : amodel) : bool :=
  nat_list_eqb (map av_index (am_states m)) (seq 0 (length (am_states m)))
  && nat_list_eqb (map av_index (am_variables m)) (seq 0 (length (am_variables m))).

(** ** entry points for the extracted driver *)
Definition helper_name (h : helper) : string :=
  match h with
  | HEq => "eq" | HNeq => "neq" | HLt => "lt" | HLeq => "leq" | HGt => "gt" | HGeq => "geq" | HAnd => "and" | HOr => "or"
  | HXor => "xor" | HNot => "not" | HMin => "min" | HMax => "max" | HSec => "sec" | HCsc => "csc" | HCot => "cot"
  | HSech => "sech" | HCsch => "csch" | HCoth => "coth" | HAsec => "asec" | HAcsc => "acsc" | HAcot => "acot"
  | HAsech => "asech" | HAcsch => "acsch" | HAcoth => "acoth"
  end.
Definition flags_bits (fl : flags) : list bool := map (fun h => get_flag h fl) all_helpers.

(** ** MathML shapes on which every child is analysed (what the MathML DTD / the validator let through) *)
Definition no_kids (n : mml) : bool := match n with El _ (_ :: _) => false | _ => true end.

Definition structural (name : string) : bool :=
  (name =? "apply") || (name =? "piecewise") || (name =? "piece") || (name =? "otherwise") || (name =? "degree")
  || (name =? "logbase") || (name =? "bvar").

(* arity: an apply has an operator (an element without children) and at least one operand, a piecewise at least one
   child, a piece two, otherwise / degree / logbase one, bvar one or two, every other element none *)
Fixpoint wf_mml (n : mml) : bool :=
  match n with
  | El name kids =>
      (if name =? "apply" then match kids with op :: _ :: _ => no_kids op | _ => false end
       else if name =? "piecewise" then negb (Nat.eqb (length kids) 0)
       else if name =? "piece" then Nat.eqb (length kids) 2
       else if (name =? "otherwise") || (name =? "degree") || (name =? "logbase") then Nat.eqb (length kids) 1
       else if name =? "bvar" then Nat.eqb (length kids) 1 || Nat.eqb (length kids) 2
       else Nat.eqb (length kids) 0)
      && forallb wf_mml kids
  | _ => true
  end.

(* the flag an element sets by itself: [gp] = its grandparent is <math> *)
Definition elem_flag (gp : bool) (name : string) : option helper :=
  if name =? "eq" then (if gp then None else Some HEq)
  else if structural name then None
  else helper_of_ty (leaf_ty name).

Definition opt_helper_is (o : option helper) (h : helper) : bool :=
  match o with Some g => helper_beq g h | None => false end.

(* the element of helper h occurs in the tree (an `eq` that is the equality of an equation does not count) *)
Fixpoint uses (pm gp : bool) (h : helper) (n : mml) : bool :=
  match n with
  | El name kids => opt_helper_is (elem_flag gp name) h || existsb (uses false pm h) kids
  | _ => false
  end.

(* the element name whose occurrence sets the flag of h *)
Definition element_name (h : helper) : string :=
  match h with
  | HEq => "eq" | HNeq => "neq" | HLt => "lt" | HLeq => "leq" | HGt => "gt" | HGeq => "geq" | HAnd => "and" | HOr => "or"
  | HXor => "xor" | HNot => "not" | HMin => "min" | HMax => "max" | HSec => "sec" | HCsc => "csc" | HCot => "cot"
  | HSech => "sech" | HCsch => "csch" | HCoth => "coth" | HAsec => "arcsec" | HAcsc => "arccsc" | HAcot => "arccot"
  | HAsech => "arcsech" | HAcsch => "arccsch" | HAcoth => "arccoth"
  end.

(** ** generateMethodBodyCode: what fills a [Hole] — an empty body is replaced by the profile's empty-method text *)
Definition method_body_code (p : profile) (body : string) : string :=
  if is_empty body
  then (if is_empty (empty_method_string p) then "" else indent_string p ++ empty_method_string p)
  else body.

(** ** the GeneratorProfile object and its history
    generatorprofile.cpp: every data member of GeneratorProfileImpl has a public setter that assigns it;
    GeneratorProfileImpl::loadProfile assigns the members of LCGen.ProfileMembers.assigned_members (the same list in the C
    and in the PYTHON branch: the translator fails otherwise) and leaves every other member as it is;
    GeneratorProfile::setProfile(profile) = mPimpl->loadProfile(profile), and so does the constructor. *)
Section ProfileObject.
  Variable value : Type.
  Variable builtin : pkind -> string -> value.     (* the right-hand sides in the two branches of loadProfile *)
  Definition pstate := string -> value.            (* member name -> current value *)
  Definition set_member (n : string) (v : value) (st : pstate) : pstate :=
    fun x => if String.eqb x n then v else st x.
  Definition load_profile (k : pkind) (st : pstate) : pstate :=
    fun x => if existsb (String.eqb x) assigned_members then builtin k x else st x.
  Definition set_profile (k : pkind) (st : pstate) : pstate := load_profile k st.
  (* a history: setter calls on an object, oldest first *)
  Definition apply_history (h : list (string * value)) (st : pstate) : pstate :=
    fold_left (fun st nv => set_member (fst nv) (snd nv) st) h st.
End ProfileObject.

Definition known_unassigned_members : list string := ["mPiecewiseIfString"; "mPiecewiseElseString"].
