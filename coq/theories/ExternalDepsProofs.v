(** ExternalDepsProofs.v — the declared dependencies of an external variable ARE dependencies of its placeholder equation
    (packaging of AnalysisDefs.make_aeq / package), and hence, by ExternalEmitProofs, the callback is emitted after the
    equations that compute them. *)
From Coq Require Import List Bool Arith PeanoNat Lia.
From LC Require Import AnalysisDefs AnalysisSpec AnalysisWfProofs ExternalDefs ExternalEmitProofs ExternalProofs ExternalWitness.
Import ListNotations.
Local Open Scope bool_scope.

Lemma dedup_app_In : forall l acc x, In x acc \/ In x l -> In x (dedup_app acc l).
Proof.
  induction l as [|y t IH]; intros acc x H; cbn [dedup_app].
  - destruct H as [H|[]]. exact H.
  - destruct (mem_nat y acc) eqn:M.
    + apply IH. destruct H as [H|[<-|H]]; [left; exact H|left; apply mem_nat_In; exact M|right; exact H].
    + apply IH. destruct H as [H|[<-|H]]; [left; apply in_or_app; left; exact H|left; apply in_or_app; right; left; reflexivity|right; exact H].
Qed.

Lemma fold_dedup_In : forall (look : vref -> option avar) vdeps acc x,
  (In x acc \/ exists d a, In d vdeps /\ look d = Some a /\ In x (av_eqs a)) ->
  In x (fold_left (fun acc d => match look d with Some a => dedup_app acc (av_eqs a) | None => acc end) vdeps acc).
Proof.
  intros look vdeps. induction vdeps as [|d t IH]; intros acc x H; cbn [fold_left].
  - destruct H as [H|(d & a & [] & _)]. exact H.
  - apply IH. destruct H as [H|(d0 & a & [<-|Hd] & Hl & Hx)].
    + left. destruct (look d); [apply dedup_app_In; left; exact H|exact H].
    + left. rewrite Hl. apply dedup_app_In. right. exact Hx.
    + right. exists d0, a. split; [exact Hd|]. split; assumption.
Qed.

(** one API equation: if it is EXTERNAL, every equation of the analyser variable of a declared dependency of a variable it
    computes is among its dependencies *)
Lemma make_aeq_external_deps : forall s ivs es avs j q,
  make_aeq s ivs es avs j = Some q -> ae_type q = QExternal ->
  ae_pos q = j /\
  forall p d a k, In p (ie_unknown (gete es j)) -> In d (iv_deps (geti ivs p)) ->
    dep_lookup dependency_fix s ivs avs d = Some a -> In k (av_eqs a) -> In k (ae_deps q).
Proof.
  intros s ivs es avs j q H Ht. unfold make_aeq in H.
  set (e := gete es j) in *. set (vars := filter_map (lookup_avar avs) (ie_unknown e)) in *.
  destruct (forallb (fun a => atype_eqb (av_type a) AExternal) vars) eqn:Ex.
  - inversion H; subst q. cbn [ae_pos ae_deps]. split; [reflexivity|].
    intros p d a k Hp Hd Hl Hk. apply fold_dedup_In. right. exists d, a. split; [|split; assumption].
    apply in_flat_map. exists p. split; assumption.
  - destruct (ie_type e); try discriminate; inversion H; subst q; cbn in Ht; discriminate.
Qed.

Lemma filter_map_In : forall {A B} (f : A -> option B) l y, In y (filter_map f l) -> exists x, In x l /\ f x = Some y.
Proof.
  intros A B f l y. induction l as [|x t IH]; intro H; cbn [filter_map] in H; [destruct H|].
  destruct (f x) as [z|] eqn:E.
  - destruct H as [<-|H]; [exists x; split; [left; reflexivity|exact E]|].
    destruct (IH H) as (x0 & A0 & B0). exists x0. split; [right; exact A0|exact B0].
  - destruct (IH H) as (x0 & A0 & B0). exists x0. split; [right; exact A0|exact B0].
Qed.

Lemma find_aeq_of_In : forall r e, NoDup (all_pos r) -> In e (r_eqs r) -> find_aeq r (ae_pos e) = Some e.
Proof.
  intros r e. unfold all_pos, find_aeq. induction (r_eqs r) as [|x t IH]; intros Hn Hin; [destruct Hin|].
  cbn [map] in Hn. inversion Hn as [|? ? Hx Ht]; subst. cbn [find]. destruct Hin as [->|Hin].
  - rewrite Nat.eqb_refl. reflexivity.
  - destruct (ae_pos x =? ae_pos e) eqn:E.
    + apply Nat.eqb_eq in E. exfalso. apply Hx. rewrite E. apply in_map. exact Hin.
    + apply IH; assumption.
Qed.

Section Package.
Variables (s : system) (ty : mtype) (voi : option vref) (ivs : list ivar) (es : list ieq).
Let es3 := es ++ map (new_var_eq ivs) (filter (fun p => vtype_eqb (iv_type (geti ivs p)) VConstant) (seq 0 (length ivs))).
Let avs := make_avars es3 ivs 0 0 0.
Let r := package s ty voi ivs es.

(** the packaged result: the dependencies of an EXTERNAL equation contain every equation of the API that computes a
    declared dependency (mDependencies of the internal variable, looked up through its internal variable) of a variable it computes *)
Theorem declared_dependencies_are_equation_dependencies : forall e,
  In e (r_eqs r) -> ae_type e = QExternal ->
  forall p d a k, In p (ie_unknown (gete es3 (ae_pos e))) -> In d (iv_deps (geti ivs p)) ->
    dep_lookup dependency_fix s ivs avs d = Some a -> In k (av_eqs a) -> In k (all_pos r) -> In k (ae_deps e).
Proof.
  intros e He Ht p d a k Hp Hd Hl Hk Hpop.
  unfold r, package in He. cbn [r_eqs] in He. fold es3 in He. fold avs in He.
  apply in_map_iff in He. destruct He as (q & <- & Hq).
  apply filter_map_In in Hq. destruct Hq as (j & _ & Hj).
  cbn [clean_deps ae_type ae_pos ae_deps] in *.
  destruct (make_aeq_external_deps s ivs es3 avs j q Hj Ht) as (Hpos & Hdeps). rewrite Hpos in Hp.
  apply filter_In. split; [eapply Hdeps; eassumption|].
  apply mem_nat_In. unfold all_pos, r, package in Hpop. cbn [r_eqs] in Hpop. fold es3 in Hpop. fold avs in Hpop.
  rewrite map_map in Hpop. cbn [clean_deps ae_pos] in Hpop. exact Hpop.
Qed.

(** callback_after_dependencies, in terms of the DECLARED dependencies: in computeVariables (and likewise in the other
    computing methods), when the dependency graph is acyclic, the callback of an external equation stands after the code
    of every equation — or of an NLA sibling of it — that computes a declared dependency of the external variable and
    that the generator wants (not an ODE, not a constant, still to be generated or to be computed again). *)
Theorem dependencies_computed_before_callback : forall sfx rank rem e l1 l2,
  acyclic_by r rank ->
  In e (r_eqs r) -> ae_type e = QExternal ->
  eq_positions (variables_body r sfx rem) = l1 ++ ae_pos e :: l2 ->
  forall p d a k ke, In p (ie_unknown (gete es3 (ae_pos e))) -> In d (iv_deps (geti ivs p)) ->
    dep_lookup dependency_fix s ivs avs d = Some a -> In k (av_eqs a) ->
    find_aeq r k = Some ke -> dep_wanted r false rem ke = true ->
    exists q, In q l1 /\ (k = q \/ exists eq, find_aeq r q = Some eq /\ In k (ae_sibs eq)).
Proof.
  intros sfx rank rem e l1 l2 Hacy He Ht Hcode p d a k ke Hp Hd Hl Hk Hke Hw.
  pose proof (package_pos_nodup s ty voi ivs es) as Hnd. fold r in Hnd.
  assert (Hkpop : In k (all_pos r)).
  { destruct (find_aeq_In _ _ _ Hke) as (A & B). unfold all_pos. rewrite <- B. apply in_map. exact A. }
  pose proof (declared_dependencies_are_equation_dependencies e He Ht p d a k Hp Hd Hl Hk Hkpop) as Hdep.
  pose proof (variables_body_ordered r sfx rank rem Hacy Hnd) as Hord.
  destruct (ordered_from_spelled r false rem (all_pos r) _ [] Hord l1 (ae_pos e) l2 e k ke Hcode
              (find_aeq_of_In r e Hnd He) Ht Hdep Hke Hw (proj2 (mem_nat_In k (all_pos r)) Hkpop)) as [[]|H].
  exact H.
Qed.

End Package.

(** non-vacuity: sysA with z marked and y (0,3) as its declared dependency: the placeholder equation of z (position 2)
    depends on equation 1, which computes y, and computeVariables emits equation 1 and then the callback *)
Lemma declared_dependency_example :
  match ExternalWitness.result_of (analyse_x true ExternalWitness.sysA ExternalWitness.mark_z_dep_y) with
  | Some r =>
      map (fun e => (ae_pos e, ae_type e, ae_vars e, ae_deps e)) (r_eqs r) =
        [(0, QOde, [(0, 1)], []); (1, QAlgebraic, [(0, 3)], [0]); (2, QExternal, [(1, 1)], [1])] /\
      eq_positions (variables_body r sibling_fix [1; 2]) = [1; 2] /\
      option_map (dep_wanted r false [1; 2]) (find_aeq r 1) = Some true
  | None => False
  end.
Proof. vm_compute. repeat split; reflexivity. Qed.
