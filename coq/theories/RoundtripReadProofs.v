(** RoundtripReadProofs.v — part A of the C02 round-trip proof: reading the SOURCE the repaired printer writes
    (attribute values escaped) gives the TREE the printer means ([print_tree]); for every printable model, with
    every feature (units, components at any depth, resets, math, imports, encapsulation, connections). *)
From Coq Require Import String Ascii List Bool ZArith Arith Lia.
From LC Require Import Common NumDefs XmlDefs EntTreeDefs PrintDefs LoadDefs RoundtripSpec XmlTextProofs.
Import ListNotations.
Local Open Scope string_scope.
Local Open Scope bool_scope.
Local Open Scope list_scope.

(** * generalities on map_opt / xml_read *)

Lemma map_opt_app : forall {A B} (f : A -> option B) (l1 l2 : list A) r1 r2,
  map_opt f l1 = Some r1 -> map_opt f l2 = Some r2 -> map_opt f (l1 ++ l2) = Some (r1 ++ r2).
Proof.
  induction l1 as [|x l1 IH]; intros l2 r1 r2 H1 H2; simpl in *.
  - injection H1 as <-. exact H2.
  - destruct (f x) as [y|]; [|discriminate]. destruct (map_opt f l1) as [ys|] eqn:E1; [|discriminate].
    injection H1 as <-. rewrite (IH l2 ys r2 eq_refl H2). reflexivity.
Qed.

Lemma map_opt_map : forall {A B C} (f : B -> option C) (g : A -> B) (h : A -> C) (l : list A),
  (forall x, In x l -> f (g x) = Some (h x)) -> map_opt f (map g l) = Some (map h l).
Proof.
  induction l as [|x l IH]; intros H; simpl; [reflexivity|].
  rewrite (H x (or_introl eq_refl)). rewrite IH; [reflexivity|]. intros y Hy. apply H. now right.
Qed.

Lemma map_opt_flat_map : forall {A B C} (f : B -> option C) (g : A -> list B) (h : A -> list C) (l : list A),
  (forall x, In x l -> map_opt f (g x) = Some (h x)) -> map_opt f (flat_map g l) = Some (flat_map h l).
Proof.
  induction l as [|x l IH]; intros H; simpl; [reflexivity|].
  apply map_opt_app; [apply H; now left | apply IH; intros y Hy; apply H; now right].
Qed.

Lemma map_opt_single : forall {A B} (f : A -> option B) x y, f x = Some y -> map_opt f [x] = Some [y].
Proof. intros. simpl. rewrite H. reflexivity. Qed.

Lemma xml_read_elem : forall ns nm attrs kids,
  xml_read (Elem ns nm attrs kids) =
  match map_opt read_attr attrs, map_opt xml_read kids with
  | Some a, Some k => Some (Elem ns nm a k)
  | _, _ => None
  end.
Proof.
  intros. simpl.
  assert (H : forall l, (fix go (l : list xml) : option (list xml) :=
                           match l with
                           | [] => Some []
                           | k :: r => match xml_read k, go r with Some y, Some ys => Some (y :: ys) | _, _ => None end
                           end) l = map_opt xml_read l).
  { induction l as [|k r IH]; simpl; [reflexivity | now rewrite IH]. }
  rewrite H. reflexivity.
Qed.

Lemma read_el : forall nm attrs attrs' kids kids',
  map_opt read_attr attrs = Some attrs' -> map_opt xml_read kids = Some kids' ->
  xml_read (el nm attrs kids) = Some (el nm attrs' kids').
Proof. intros. unfold el. rewrite xml_read_elem, H, H0. reflexivity. Qed.

(** a custom induction principle for xml (children in a list) *)
Section XmlInd.
  Variable P : xml -> Prop.
  Hypothesis HE : forall ns nm attrs kids, Forall P kids -> P (Elem ns nm attrs kids).
  Hypothesis HT : forall s, P (Text s).
  Hypothesis HC : P Comment.
  Fixpoint xml_ind' (x : xml) : P x :=
    match x with
    | Elem ns nm attrs kids =>
      HE ns nm attrs kids ((fix go (l : list xml) : Forall P l :=
                              match l with [] => Forall_nil P | k :: r => Forall_cons k (xml_ind' k) (go r) end) kids)
    | Text s => HT s
    | Comment => HC
    end.
End XmlInd.

Lemma xml_escape_elem : forall ns nm attrs kids,
  xml_escape (Elem ns nm attrs kids) =
  Elem ns nm (map (fun a => mkAttr (a_ns a) (a_name a) (escape_attr (a_val a))) attrs) (map xml_escape kids).
Proof. intros. reflexivity. Qed.

Lemma attrs_no_ctrl_elem : forall ns nm attrs kids,
  attrs_no_ctrl (Elem ns nm attrs kids) = forallb (fun a => no_ctrl (a_val a)) attrs && forallb attrs_no_ctrl kids.
Proof. intros. reflexivity. Qed.

(** what libxml2 serialised, libxml2 reads back *)
Lemma read_escape : forall x, attrs_no_ctrl x = true -> xml_read (xml_escape x) = Some x.
Proof.
  induction x as [ns nm attrs kids IH | s | ] using xml_ind'; intros H; try reflexivity.
  rewrite attrs_no_ctrl_elem in H. apply andb_true_iff in H. destruct H as [Ha Hk].
  rewrite xml_escape_elem, xml_read_elem, map_opt_read_escape by exact Ha.
  assert (Hm : map_opt xml_read (map xml_escape kids) = Some kids).
  { clear Ha. induction kids as [|k r IHr]; [reflexivity|].
    simpl in Hk. apply andb_true_iff in Hk. destruct Hk as [Hk1 Hk2].
    inversion IH as [|? ? Hk0 Hr0]; subst. simpl. rewrite (Hk0 Hk1), (IHr Hr0 Hk2). reflexivity. }
  rewrite Hm. reflexivity.
Qed.

Ltac bsplit_all :=
  repeat match goal with
         | H : (_ && _) = true |- _ => apply andb_true_iff in H; destruct H
         end.

Ltac by_forallb :=
  match goal with
  | Hf : forallb ?P ?l = true, Hi : In ?x ?l |- _ => exact (proj1 (forallb_forall P l) Hf x Hi)
  end.

(** * the printer, function by function: source (escape_attr, xml_escape) reads as tree (ident, ident) *)
Section Read.
Variable E : env.

Notation src := (fun f => f E escape_attr xml_escape).

Lemma read_at : forall nm v, no_ctrl v = true -> read_attr (at_ nm (escape_attr v)) = Some (at_ nm (ident v)).
Proof. intros. unfold read_attr, at_. simpl. rewrite decode_escape by assumption. reflexivity. Qed.

Lemma read_at_plain : forall nm v, opt_str_eqb (decode_attr v) (Some v) = true -> read_attr (at_ nm v) = Some (at_ nm v).
Proof.
  intros nm v H. unfold read_attr, at_. simpl. destruct (decode_attr v) as [w|]; [|discriminate].
  simpl in H. apply String.eqb_eq in H. subst. reflexivity.
Qed.

Lemma read_opt_attr : forall nm v, no_ctrl v = true ->
  map_opt read_attr (opt_attr escape_attr nm v) = Some (opt_attr ident nm v).
Proof.
  intros. unfold opt_attr. destruct (nonempty v); [|reflexivity].
  simpl. rewrite read_at by assumption. reflexivity.
Qed.

Lemma str_ok_true : forall s, str_ok true s = true -> no_ctrl s = true.
Proof. intros s H. unfold str_ok in H. rewrite orb_true_l, andb_true_r in H. exact H. Qed.

Lemma math_kids_read : forall s, math_ok E s = true ->
  map_opt xml_read (math_kids E xml_escape s) = Some (math_kids E ident s).
Proof.
  intros s H. unfold math_ok in H. unfold math_kids.
  destruct (nonempty s); [|reflexivity]. simpl in H.
  destruct (norm_math E s) as [xs|]; [|discriminate].
  apply map_opt_map. intros x Hx.
  rewrite forallb_forall in H. specialize (H x Hx).
  apply andb_true_iff in H. destruct H as [_ H]. unfold ident. apply read_escape. exact H.
Qed.

Lemma num_attr_read : forall nm x, num_ok E x = true -> String.eqb x num_one = false ->
  read_attr (at_ nm (show15 E x)) = Some (at_ nm (show15 E x)).
Proof.
  intros nm x H Hx. unfold num_ok in H. rewrite Hx in H. simpl in H.
  apply andb_true_iff in H. destruct H as [H _]. apply andb_true_iff in H. destruct H as [H _].
  apply read_at_plain. exact H.
Qed.

Opaque str_ok num_ok order_ok math_ok.


Lemma read_print_unit : forall d, unitdef_ok E true d = true ->
  xml_read (print_unit E escape_attr d) = Some (print_unit E ident d).
Proof.
  intros d H. unfold unitdef_ok in H.
  bsplit_all.
  unfold print_unit. apply read_el; [|reflexivity].
  repeat apply map_opt_app.
  - destruct (String.eqb (ud_exp d) num_one) eqn:Ee; [reflexivity|].
    simpl. rewrite (num_attr_read "exponent" (ud_exp d)); [reflexivity | assumption | assumption].
  - destruct (String.eqb (ud_mult d) num_one) eqn:Ee; [reflexivity|].
    simpl. rewrite (num_attr_read "multiplier" (ud_mult d)); [reflexivity | assumption | assumption].
  - apply read_opt_attr. now apply str_ok_true.
  - simpl. rewrite read_at by now apply str_ok_true. reflexivity.
  - apply read_opt_attr. now apply str_ok_true.
Qed.

Lemma read_print_units : forall u, units_ok E true u = true ->
  map_opt xml_read (print_units E escape_attr u) = Some (print_units E ident u).
Proof.
  intros u H. unfold print_units.
  destruct (is_import_units u || is_standard_unit u) eqn:Es; [reflexivity|].
  apply orb_false_iff in Es. destruct Es as [Ei Es].
  unfold units_ok in H. unfold is_import_units in Ei. destruct (u_src u); [discriminate|].
  bsplit_all.
  apply map_opt_single. apply read_el.
  - apply map_opt_app; apply read_opt_attr; now apply str_ok_true.
  - apply map_opt_map. intros d Hd. apply read_print_unit. by_forallb.
Qed.

Lemma read_print_variable : forall us v, variable_ok true us v = true ->
  xml_read (print_variable escape_attr v) = Some (print_variable ident v).
Proof.
  intros us v H. unfold variable_ok in H.
  bsplit_all.
  unfold print_variable. apply read_el; [|reflexivity].
  repeat apply map_opt_app; try (apply read_opt_attr; now apply str_ok_true).
  destruct (v_units v) as [n|]; [|discriminate].
  bsplit_all.
  apply read_opt_attr; now apply str_ok_true.
Qed.

Lemma read_print_reset_child : forall label id m, no_ctrl id = true -> math_ok E m = true ->
  map_opt xml_read (print_reset_child E escape_attr xml_escape label id m)
  = Some (print_reset_child E ident ident label id m).
Proof.
  intros label id m Hid Hm. unfold print_reset_child.
  destruct (nonempty id || nonempty m); [|reflexivity].
  apply map_opt_single. apply read_el; [apply read_opt_attr; assumption | apply math_kids_read; assumption].
Qed.

Lemma order_attr_read : forall z, order_ok E z = true ->
  read_attr (at_ "order" (show_int E z)) = Some (at_ "order" (show_int E z)).
Proof.
  intros z H. Transparent order_ok. unfold order_ok in H. Opaque order_ok.
  apply andb_true_iff in H. destruct H as [H _]. apply read_at_plain. exact H.
Qed.

Lemma vref_ok_no_ctrl : forall vs r x, vref_ok true vs r = true -> r = Some x -> no_ctrl (vref_name x) = true.
Proof.
  intros vs r x H ->. simpl in H. destruct x as [n|n]; [|discriminate].
  apply andb_true_iff in H. destruct H as [_ H]. now apply str_ok_true.
Qed.

Lemma read_print_reset : forall vs r, reset_ok E true vs r = true ->
  xml_read (print_reset E escape_attr xml_escape r) = Some (print_reset E ident ident r).
Proof.
  intros vs r H. unfold reset_ok in H.
  bsplit_all.
  unfold print_reset. apply read_el.
  - repeat apply map_opt_app.
    + destruct (r_var r) as [x|] eqn:Ev; [|reflexivity]. simpl.
      rewrite read_at; [reflexivity|]. match goal with Hv : vref_ok true vs (Some x) = true |- _ => exact (vref_ok_no_ctrl vs _ x Hv eq_refl) end.
    + destruct (r_test r) as [x|] eqn:Ev; [|reflexivity]. simpl.
      rewrite read_at; [reflexivity|]. match goal with Hv : vref_ok true vs (Some x) = true |- _ => exact (vref_ok_no_ctrl vs _ x Hv eq_refl) end.
    + destruct (r_order r) as [z|]; [|discriminate]. simpl. rewrite order_attr_read by assumption. reflexivity.
    + apply read_opt_attr. now apply str_ok_true.
  - apply map_opt_app; apply read_print_reset_child; try assumption; now apply str_ok_true.
Qed.

Lemma read_print_shell : forall us s, shell_ok E true us s = true -> c_src s = None ->
  xml_read (print_shell E escape_attr xml_escape s) = Some (print_shell E ident ident s).
Proof.
  intros us s H Hs. unfold shell_ok in H. rewrite Hs in H.
  bsplit_all.
  unfold print_shell. apply read_el.
  - apply map_opt_app; apply read_opt_attr; now apply str_ok_true.
  - repeat apply map_opt_app.
    + apply map_opt_map. intros v Hv. eapply read_print_variable. by_forallb.
    + apply map_opt_map. intros r Hr. eapply read_print_reset. by_forallb.
    + apply math_kids_read. assumption.
Qed.

(** induction on components (children in a list) *)
Section CompInd.
  Variable P : component -> Prop.
  Hypothesis HC : forall s ks, Forall P ks -> P (Comp s ks).
  Fixpoint comp_ind' (c : component) : P c :=
    match c with
    | Comp s ks => HC s ks ((fix go (l : list component) : Forall P l :=
                               match l with [] => Forall_nil P | k :: r => Forall_cons k (comp_ind' k) (go r) end) ks)
    end.
End CompInd.

Lemma comp_ok_unfold : forall fx us s ks,
  comp_ok E fx us (Comp s ks) = shell_ok E fx us s && forallb (comp_ok E fx us) ks.
Proof. intros. reflexivity. Qed.

Lemma print_component_unfold : forall av mq s ks,
  print_component E av mq (Comp s ks)
  = (match c_src s with Some _ => [] | None => [print_shell E av mq s] end) ++ flat_map (print_component E av mq) ks.
Proof. intros. reflexivity. Qed.

Lemma print_encapsulation_unfold : forall av s ks,
  print_encapsulation av (Comp s ks)
  = el "component_ref" (opt_attr av "component" (c_name s) ++ opt_attr av "id" (c_encid s)) (map (print_encapsulation av) ks).
Proof. intros. reflexivity. Qed.

Lemma read_print_component : forall us c, comp_ok E true us c = true ->
  map_opt xml_read (print_component E escape_attr xml_escape c) = Some (print_component E ident ident c).
Proof.
  intros us. induction c as [s ks IH] using comp_ind'. intros H.
  rewrite comp_ok_unfold in H. apply andb_true_iff in H. destruct H as [Hs Hk].
  rewrite !print_component_unfold. apply map_opt_app.
  - destruct (c_src s) eqn:Es; [reflexivity|]. apply map_opt_single. eapply read_print_shell; eauto.
  - apply map_opt_flat_map. intros k Hkin. rewrite Forall_forall in IH. apply IH; [exact Hkin|]. by_forallb.
Qed.

Lemma shell_ok_names : forall us s, shell_ok E true us s = true ->
  no_ctrl (c_name s) = true /\ no_ctrl (c_id s) = true /\ no_ctrl (c_encid s) = true /\ no_ctrl (c_ref s) = true.
Proof.
  intros us s H. unfold shell_ok in H.
  bsplit_all.
  repeat split; now apply str_ok_true.
Qed.

Lemma read_print_encapsulation : forall us c, comp_ok E true us c = true ->
  xml_read (print_encapsulation escape_attr c) = Some (print_encapsulation ident c).
Proof.
  intros us. induction c as [s ks IH] using comp_ind'. intros H.
  rewrite comp_ok_unfold in H. apply andb_true_iff in H. destruct H as [Hs Hk].
  destruct (shell_ok_names us s Hs) as (Hn & _ & He & _).
  rewrite !print_encapsulation_unfold. apply read_el.
  - apply map_opt_app; apply read_opt_attr; assumption.
  - apply map_opt_map. intros k Hkin. rewrite Forall_forall in IH. apply IH; [exact Hkin|]. by_forallb.
Qed.

(** ** imports *)
Lemma units_ok_strs : forall u, units_ok E true u = true ->
  no_ctrl (u_name u) = true /\ no_ctrl (u_id u) = true /\ no_ctrl (u_ref u) = true
  /\ (forall i, u_src u = Some i -> isrc_ok true i = true).
Proof.
  intros u H. unfold units_ok in H. bsplit_all. repeat split; try now apply str_ok_true.
  intros i Hi. rewrite Hi in *. bsplit_all. assumption.
Qed.

Lemma shell_ok_src : forall us s i, shell_ok E true us s = true -> c_src s = Some i -> isrc_ok true i = true.
Proof. intros us s i H Hi. unfold shell_ok in H. rewrite Hi in H. bsplit_all. assumption. Qed.

Lemma flat_c_unfold : forall p s ks, flat_c p (Comp s ks) = (p, Comp s ks) :: flat_cs p 0 ks.
Proof.
  intros. cbn [flat_c]. f_equal.
  generalize 0. induction ks as [|k r IH]; intros j; [reflexivity|]. cbn [flat_cs]. rewrite <- IH. reflexivity.
Qed.

(** every component of the forest, at any depth, is ok when the top-level ones are *)
Lemma flat_c_ok : forall us c p q d, comp_ok E true us c = true -> In (q, d) (flat_c p c) -> comp_ok E true us d = true.
Proof.
  intros us. induction c as [s ks IH] using comp_ind'. intros p q d H Hin.
  rewrite flat_c_unfold in Hin. destruct Hin as [Heq|Hin]; [injection Heq as _ <-; exact H|].
  rewrite comp_ok_unfold in H. apply andb_true_iff in H. destruct H as [_ Hk].
  revert Hin. generalize 0. induction ks as [|k r IHr]; intros j Hin; [contradiction|].
  cbn [flat_cs] in Hin. simpl in Hk. apply andb_true_iff in Hk. destruct Hk as [Hk1 Hk2].
  inversion IH as [|? ? Pk Pr]; subst. apply in_app_or in Hin. destruct Hin as [Hin|Hin].
  - eapply Pk; eassumption.
  - eapply IHr; eassumption.
Qed.

Lemma all_comps_ok : forall us cs p j q d, forallb (comp_ok E true us) cs = true -> In (q, d) (flat_cs p j cs) -> comp_ok E true us d = true.
Proof.
  intros us. induction cs as [|c cs IH]; intros p j q d H Hin; [contradiction|].
  simpl in H. apply andb_true_iff in H. destruct H as [Hc Hcs]. cbn [flat_cs] in Hin.
  apply in_app_or in Hin. destruct Hin as [Hin|Hin]; [eapply flat_c_ok; eassumption | eapply IH; eassumption].
Qed.

Lemma collate_subset : forall l acc i, In i (collate l acc) -> In i l \/ In i acc.
Proof.
  induction l as [|x l IH]; intros acc i H; simpl in H; [now right|].
  destruct (existsb _ acc).
  - destruct (IH _ _ H); [left; now right | now right].
  - destruct (IH _ _ H) as [Hl|Ha]; [left; now right|]. apply in_app_or in Ha. destruct Ha as [Ha|[<-|[]]]; [now right | left; now left].
Qed.

Lemma read_print_imports : forall m,
  forallb (units_ok E true) (m_units m) = true -> forallb (comp_ok E true (m_units m)) (m_comps m) = true ->
  map_opt xml_read (print_imports escape_attr m) = Some (print_imports ident m).
Proof.
  intros m Hu Hc. unfold print_imports. apply map_opt_map. intros i Hi.
  assert (Hiok : isrc_ok true i = true).
  { unfold the_sources in Hi. apply collate_subset in Hi. destruct Hi as [Hi|[]].
    apply in_app_or in Hi. destruct Hi as [Hi|Hi]; apply in_flat_map in Hi; destruct Hi as (x & Hx & Hxi).
    - unfold imported_components in Hx. apply filter_In in Hx. destruct Hx as [Hx _].
      apply in_map_iff in Hx. destruct Hx as ((q & d) & <- & Hqd). cbn [snd] in Hxi.
      pose proof (all_comps_ok _ _ _ _ _ _ Hc Hqd) as Hd. destruct d as [s ks]. rewrite comp_ok_unfold in Hd.
      apply andb_true_iff in Hd. destruct Hd as [Hs _]. cbn [shell] in Hxi.
      destruct (c_src s) as [i'|] eqn:Es; [|contradiction]. destruct Hxi as [<-|[]]. eapply shell_ok_src; eassumption.
    - unfold imported_units in Hx. apply filter_In in Hx. destruct Hx as [Hx _].
      rewrite forallb_forall in Hu. destruct (units_ok_strs x (Hu x Hx)) as (_ & _ & _ & Hsrc).
      destruct (u_src x) as [i'|]; [|contradiction]. destruct Hxi as [<-|[]]. now apply Hsrc. }
  unfold isrc_ok in Hiok. bsplit_all.
  unfold print_import. apply read_el.
  - cbn [map_opt]. unfold read_attr at 1. cbn [a_ns a_name a_val]. rewrite decode_escape by now apply str_ok_true.
    cbn [option_map]. rewrite read_opt_attr by now apply str_ok_true. reflexivity.
  - apply map_opt_app; apply map_opt_map.
    + intros u Hin. apply filter_In in Hin. destruct Hin as [Hin _]. unfold imported_units in Hin. apply filter_In in Hin. destruct Hin as [Hin _].
      rewrite forallb_forall in Hu. destruct (units_ok_strs u (Hu u Hin)) as (Hn & Hid & Hr & _).
      apply read_el; [|reflexivity]. apply map_opt_app; [|now apply read_opt_attr].
      cbn [map_opt]. rewrite !read_at by assumption. reflexivity.
    + intros c Hin. apply filter_In in Hin. destruct Hin as [Hin _]. unfold imported_components in Hin. apply filter_In in Hin. destruct Hin as [Hin _].
      apply in_map_iff in Hin. destruct Hin as ((q & d) & <- & Hqd). cbn [snd].
      pose proof (all_comps_ok _ _ _ _ _ _ Hc Hqd) as Hd. destruct d as [s ks]. rewrite comp_ok_unfold in Hd.
      apply andb_true_iff in Hd. destruct Hd as [Hs _]. destruct (shell_ok_names _ _ Hs) as (Hn & Hid & _ & Hr).
      apply read_el; [|reflexivity]. apply map_opt_app; [|now apply read_opt_attr].
      cbn [map_opt shell cname]. rewrite !read_at by assumption. reflexivity.
Qed.

(** ** connections *)
Lemma comp_at_ok : forall us p cs c, forallb (comp_ok E true us) cs = true -> comp_at cs p = Some c -> comp_ok E true us c = true.
Proof.
  intros us. induction p as [|i p IH]; intros cs c H Hc; [discriminate|].
  cbn [comp_at] in Hc. destruct (nth_error cs i) as [d|] eqn:En; [|discriminate].
  assert (Hd : comp_ok E true us d = true). { rewrite forallb_forall in H. apply H. eapply nth_error_In; eassumption. }
  destruct p as [|j p']; [injection Hc as <-; exact Hd|].
  destruct d as [s ks]. rewrite comp_ok_unfold in Hd. apply andb_true_iff in Hd. destruct Hd as [_ Hk].
  eapply IH; eassumption.
Qed.

Lemma comp_name_at_ok : forall us cs p, forallb (comp_ok E true us) cs = true -> no_ctrl (comp_name_at cs p) = true.
Proof.
  intros us cs p H. unfold comp_name_at. destruct (comp_at cs p) as [c|] eqn:Ec; [|reflexivity].
  pose proof (comp_at_ok _ _ _ _ H Ec) as Hc. destruct c as [s ks]. rewrite comp_ok_unfold in Hc.
  apply andb_true_iff in Hc. destruct Hc as [Hs _]. now destruct (shell_ok_names _ _ Hs).
Qed.

Lemma shell_ok_var_names : forall us s v, shell_ok E true us s = true -> In v (c_vars s) -> no_ctrl (v_name v) = true.
Proof.
  intros us s v H Hv. unfold shell_ok in H. bsplit_all. destruct (c_src s); bsplit_all.
  - match goal with Hf : forallb _ (c_vars s) = true |- _ => rewrite forallb_forall in Hf; specialize (Hf v Hv) end.
    bsplit_all. now apply str_ok_true.
  - match goal with Hf : forallb (variable_ok true us) (c_vars s) = true |- _ => rewrite forallb_forall in Hf; specialize (Hf v Hv); unfold variable_ok in Hf end.
    bsplit_all. now apply str_ok_true.
Qed.

Lemma var_name_at_ok : forall us cs v, forallb (comp_ok E true us) cs = true -> no_ctrl (var_name_at cs v) = true.
Proof.
  intros us cs v H. unfold var_name_at, var_at. destruct (comp_at cs (fst v)) as [c|] eqn:Ec; [|reflexivity].
  destruct (nth_error (c_vars (shell c)) (snd v)) as [x|] eqn:En; [|reflexivity].
  pose proof (comp_at_ok _ _ _ _ H Ec) as Hc. destruct c as [s ks]. rewrite comp_ok_unfold in Hc.
  apply andb_true_iff in Hc. destruct Hc as [Hs _]. eapply shell_ok_var_names; [eassumption|]. eapply nth_error_In; eassumption.
Qed.

(** ids carried by the map entries come from the edges *)
Definition entry_ids_ok (e : mapentry) : Prop := no_ctrl (me_mid e) = true /\ no_ctrl (me_cid e) = true.

Lemma fold_left_Forall : forall {A B} (P : A -> Prop) (f : list A -> B -> list A) (l : list B) (acc : list A),
  (forall acc x, In x l -> Forall P acc -> Forall P (f acc x)) -> Forall P acc -> Forall P (fold_left f l acc).
Proof.
  induction l as [|x l IH]; intros acc Hf Ha; [exact Ha|]. simpl. apply IH.
  - intros acc' y Hy. apply Hf. now right.
  - apply Hf; [now left | exact Ha].
Qed.

Lemma build_maps_ids_ok : forall m,
  Forall (fun e => no_ctrl (e_mid e) = true /\ no_ctrl (e_cid e) = true) (m_eqv m) -> Forall entry_ids_ok (build_maps m).
Proof.
  intros m H. unfold build_maps. apply fold_left_Forall; [|constructor].
  intros acc pc _ Hacc. unfold build_for_comp. apply fold_left_Forall; [|exact Hacc].
  intros acc2 vi _ Hacc2. unfold build_for_var. apply fold_left_Forall; [|exact Hacc2].
  intros acc3 [[w mid] cid] Hin Hacc3. destruct (existsb _ acc3); [exact Hacc3|].
  apply Forall_app. split; [exact Hacc3|]. constructor; [|constructor].
  unfold eq_partners in Hin. apply in_flat_map in Hin. destruct Hin as (e & He & Hin).
  rewrite Forall_forall in H. specialize (H e He).
  destruct (vpath_eqb (e_a e) (fst pc, vi)); [|destruct (vpath_eqb (e_b e) (fst pc, vi))];
    try (destruct Hin as [Heq|[]]; injection Heq as _ <- <-; exact H); contradiction.
Qed.

Lemma last_in_or_default : forall {A} (l : list A) d, l = [] \/ In (last l d) l.
Proof.
  induction l as [|x l IH]; intros d; [now left|]. right. destruct l as [|y l']; [now left|].
  destruct (IH d) as [Hn|Hin]; [discriminate|]. right. exact Hin.
Qed.

Lemma read_print_connections : forall us cs l done, forallb (comp_ok E true us) cs = true -> Forall entry_ids_ok l ->
  map_opt xml_read (print_connections escape_attr cs l done) = Some (print_connections ident cs l done).
Proof.
  intros us cs l done Hc. revert done. induction l as [|e r IH]; intros done Hl; [reflexivity|].
  inversion Hl as [|? ? He Hr]; subst. cbn [print_connections].
  destruct (existsb (ppair_eqb (me_pair e)) done); [now apply IH|].
  cbn [map_opt]. rewrite (IH _ Hr).
  set (grp := e :: filter (fun e' => ppair_eqb (me_pair e') (me_pair e)) r).
  assert (Hgrp : Forall entry_ids_ok grp).
  { constructor; [exact He|]. rewrite Forall_forall in *. intros x Hx. apply filter_In in Hx. now apply Hr. }
  erewrite read_el; [reflexivity | |].
  - apply map_opt_app.
    + cbn [map_opt]. rewrite !read_at by (eapply comp_name_at_ok; eassumption). reflexivity.
    + apply read_opt_attr. destruct (last_in_or_default (map me_cid grp) "") as [Hn|Hin].
      * rewrite Hn. reflexivity.
      * apply in_map_iff in Hin. destruct Hin as (x & Hx & Hxin). rewrite <- Hx. rewrite Forall_forall in Hgrp. now apply Hgrp.
  - apply map_opt_map. intros x Hx. unfold print_map_variables. apply read_el; [|reflexivity].
    apply map_opt_app.
    + cbn [map_opt]. rewrite !read_at by (eapply var_name_at_ok; eassumption). reflexivity.
    + apply read_opt_attr. rewrite Forall_forall in Hgrp. now apply Hgrp.
Qed.

(** the whole document, given that the import blocks and the connections read back (proved below for every
    printable model; trivially true for models without imports / connections) *)
Lemma read_print_gen : forall m,
  printable E true m ->
  map_opt xml_read (print_imports escape_attr m) = Some (print_imports ident m) ->
  map_opt xml_read (print_connections escape_attr (m_comps m) (build_maps m) [])
  = Some (print_connections ident (m_comps m) (build_maps m) []) ->
  xml_read (print_model_src E true m) = Some (print_tree E m).
Proof.
  intros m H Himp Hconn. unfold printable, printableb in H. bsplit_all.
  unfold print_model_src, print_tree, print_gen. apply read_el.
  - apply map_opt_app; apply read_opt_attr; now apply str_ok_true.
  - repeat apply map_opt_app.
    + exact Himp.
    + apply map_opt_flat_map. intros u Hu. apply read_print_units. by_forallb.
    + apply map_opt_flat_map. intros c Hc. eapply read_print_component. by_forallb.
    + exact Hconn.
    + assert (Henc : map_opt xml_read
                (flat_map (fun c => match kids c with [] => [] | _ => [print_encapsulation escape_attr c] end) (m_comps m))
              = Some (flat_map (fun c => match kids c with [] => [] | _ => [print_encapsulation ident c] end) (m_comps m))).
      { apply map_opt_flat_map. intros c Hc. destruct (kids c); [reflexivity|].
        apply map_opt_single. eapply read_print_encapsulation. by_forallb. }
      destruct (flat_map (fun c => match kids c with [] => [] | _ => [print_encapsulation escape_attr c] end) (m_comps m)) as [|x xs] eqn:E1;
      destruct (flat_map (fun c => match kids c with [] => [] | _ => [print_encapsulation ident c] end) (m_comps m)) as [|y ys] eqn:E2;
      try reflexivity; try (simpl in Henc; discriminate).
      * simpl in Henc. destruct (xml_read x); [|discriminate]. destruct (map_opt xml_read xs); discriminate.
      * apply map_opt_single. apply read_el; [apply read_opt_attr; now apply str_ok_true | exact Henc].
Qed.

(** the repaired printer never returns an empty document on a printable model: the text reads as [print_tree] *)
Theorem print_model_printable : forall m, printable E true m -> print_model E true m = Some (print_tree E m).
Proof.
  intros m H. unfold print_model. apply read_print_gen; [exact H | |]; unfold printable, printableb in H; bsplit_all.
  - apply read_print_imports; assumption.
  - eapply read_print_connections; [eassumption|]. apply build_maps_ids_ok.
    match goal with He : eqv_ok true m = true |- _ => unfold eqv_ok in He end. bsplit_all.
    rewrite Forall_forall. intros e He.
    match goal with Hf : forallb _ (m_eqv m) = true |- _ => rewrite forallb_forall in Hf; specialize (Hf e He) end.
    bsplit_all. split; now apply str_ok_true.
Qed.

End Read.
