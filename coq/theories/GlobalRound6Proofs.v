(** GlobalRound6Proofs.v — C12, proof depth round 6: composition laws of the flag state machine over arbitrary
    histories, and the exact condition under which the flag (hence every later parse) forgets where it started. *)
From Coq Require Import String Ascii List Bool Arith.
From LC Require Import GlobalDefs GlobalProofs.
Import ListNotations.

(** histories compose: running h1 then h2 is running h2 from the flag h1 left *)
Theorem flag_after_app : forall g0 h1 h2,
  flag_after g0 (h1 ++ h2) = flag_after (flag_after g0 h1) h2.
Proof. intros. unfold flag_after. apply fold_left_app. Qed.

(** the last decisive call of a concatenation is the one of the suffix when it has one, else the one of the prefix *)
Theorem last_decisive_app : forall h1 h2,
  last_decisive (h1 ++ h2) = match last_decisive h2 with Some b => Some b | None => last_decisive h1 end.
Proof.
  induction h1 as [|o r IH]; intros h2.
  - cbn. destruct (last_decisive h2); reflexivity.
  - cbn [app last_decisive]. rewrite IH. destruct (last_decisive h2); reflexivity.
Qed.

(** the flag after a history is independent of the initial value IFF the history contains a decisive call *)
Theorem flag_after_forgets_initial_iff : forall h,
  flag_after true h = flag_after false h <-> last_decisive h <> None.
Proof.
  intros h. rewrite !flag_after_last_decisive. destruct (last_decisive h); split; intros H.
  - discriminate.
  - reflexivity.
  - discriminate.
  - exfalso. apply H. reflexivity.
Qed.

(** a decisive suffix erases everything before it: initial value and prefix *)
Theorem flag_after_suffix_decides : forall h2 b, last_decisive h2 = Some b ->
  forall g0 g0' h1 h1', flag_after g0 (h1 ++ h2) = b /\ flag_after g0 (h1 ++ h2) = flag_after g0' (h1' ++ h2).
Proof.
  intros h2 b H g0 g0' h1 h1'. rewrite !flag_after_last_decisive, !last_decisive_app, H. split; reflexivity.
Qed.

(** ... hence so does every parse that follows *)
Theorem parse_after_suffix_decides : forall h2 b, last_decisive h2 = Some b ->
  forall g0 g0' h1 h1' doc, parse_after g0 (h1 ++ h2) doc = parse_after g0' (h1' ++ h2) doc.
Proof.
  intros h2 b H g0 g0' h1 h1' doc. unfold parse_after.
  destruct (flag_after_suffix_decides h2 b H g0 g0' h1 h1') as [_ E]. rewrite E. reflexivity.
Qed.

(** a history without printModel / xmlKeepBlanksDefault(0) never turns the flag off, whatever its length *)
Theorem flag_stays_on_without_clear : forall h,
  Forall (fun o => effect o <> SetF) h -> flag_after true h = true.
Proof.
  induction h as [|o r IH]; intros H; [reflexivity|].
  inversion H as [|? ? Ho Hr]; subst. unfold flag_after in *. cbn [fold_left].
  rewrite step_true by exact Ho. apply IH. exact Hr.
Qed.
