(** KeyDefs.v — C18, executable model of the memo cache of AnalyserModel::areEquivalentVariables
    and of its key functions.  No proofs here.

    src/analysermodel.cpp: equivalentVariablesCacheKey()        -> [pairkey]   (code as it is now)
    src/analysermodel.cpp (before commit 00f1ed0): the key was the Cantor pairing of the two
      addresses computed in uintptr_t                            -> [key64]     (kept: the property names it)
    src/analysermodel.cpp: AnalyserModel::areEquivalentVariables -> [query], [run]
    src/analysermodel_p.h: mCachedEquivalentVariables            -> [cache]
*)
From Coq Require Import List NArith Bool String HexadecimalString HexadecimalN.
Import ListNotations.
Local Open Scope N_scope.

(** Addresses are [N]; a [uintptr_t] is an [N] below [two64]. *)
Definition two64 : N := 18446744073709551616.

(** The swap at the head of both key computations:  if (v2 < v1) swap(v1, v2). *)
Definition sort2 (a b : N) : N * N := if b <? a then (b, a) else (a, b).

(** src/analysermodel.cpp before 00f1ed0:
      if (v2 < v1) { v1 += v2; v2 = v1 - v2; v1 = v1 - v2; }        (a swap, exact in modular arithmetic)
      auto key = ((v1 + v2) * (v1 + v2 + 1) >> 1U) + v2;            (every operation in uintptr_t)
    [*] and [+] bind tighter than [>>]. *)
Definition key64 (a b : N) : N :=
  let (x, y) := sort2 a b in
  let s := (x + y) mod two64 in
  let s1 := (s + 1) mod two64 in
  let p := (s * s1) mod two64 in
  (N.shiftr p 1 + y) mod two64.

(** The Cantor pairing the old comment appealed to, over unbounded naturals. *)
Definition cantor (a b : N) : N :=
  let (x, y) := sort2 a b in ((x + y) * (x + y + 1)) / 2 + y.

(** src/analysermodel.cpp: equivalentVariablesCacheKey (current code):
      return (v2 < v1) ? std::make_pair(v2, v1) : std::make_pair(v1, v2);  *)
Definition pairkey (a b : N) : N * N := if b <? a then (b, a) else (a, b).

Definition pair_eqb (p q : N * N) : bool := (fst p =? fst q) && (snd p =? snd q).

(** ** The memo cache, generic in the variable type [V], the key type [K] and the answer type [R].

    bool AnalyserModel::areEquivalentVariables(v1, v2) {
        auto key = equivalentVariablesCacheKey(addr v1, addr v2);
        auto cacheKey = mCachedEquivalentVariables.find(key);
        if (cacheKey != end) return cacheKey->second;
        auto res = libcellml::areEquivalentVariables(v1, v2);
        mCachedEquivalentVariables.emplace(key, res);
        return res; }

    std::map with find-before-emplace = association list, first match wins, a key is only added
    when it is absent. *)
Section Cache.
  Variables V K R : Type.
  Variable keqb : K -> K -> bool.
  Variable key : V -> V -> K.
  Variable compute : V -> V -> R.          (* libcellml::areEquivalentVariables, utilities.cpp *)

  Definition cache := list (K * R).

  Fixpoint lookup (k : K) (c : cache) : option R :=
    match c with
    | [] => None
    | (k', r) :: t => if keqb k k' then Some r else lookup k t
    end.

  Definition query (c : cache) (a b : V) : R * cache :=
    match lookup (key a b) c with
    | Some r => (r, c)
    | None => let r := compute a b in (r, (key a b, r) :: c)
    end.

  (** A history of queries on one AnalyserModel: answers in order, and the final cache. *)
  Fixpoint run (c : cache) (qs : list (V * V)) : list R * cache :=
    match qs with
    | [] => ([], c)
    | (a, b) :: t =>
        let (r, c1) := query c a b in
        let (rs, c2) := run c1 t in
        (r :: rs, c2)
    end.

  Definition answers (c : cache) (qs : list (V * V)) : list R := fst (run c qs).
End Cache.

Arguments lookup {K R} keqb k c.
Arguments query {V K R} keqb key compute c a b.
Arguments run {V K R} keqb key compute c qs.
Arguments answers {V K R} keqb key compute c qs.

(** Text interface for the key probe (glue-free: parsing and printing of hexadecimal happen here). *)
Definition n_of_hex (s : string) : option N :=
  match NilZero.uint_of_string s with
  | Some u => Some (N.of_hex_uint u)
  | None => None
  end.
Definition n_to_hex (n : N) : string := NilZero.string_of_uint (N.to_hex_uint n).
