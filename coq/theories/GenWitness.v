(** GenWitness.v — concrete ASTs whose generated text does not read back as the equation says (C03).
    Each is evaluated by the kernel (vm_compute) through the faithful printer model [gen] and the grammar
    reader of GramDefs; each was replayed against the real library (design_notes/C03.md). *)
From Coq Require Import String List Bool.
From LC Require Import AstDefs GenDefs GramDefs ReadDefs CGramDefs PyGramDefs.
Import ListNotations.
Local Open Scope string_scope.

Definition va := ci "a". Definition vb := ci "b". Definition vc := ci "c". Definition vd := ci "d".
Definition vx := ci "x". Definition vy := ci "y". Definition vw := ci "w".

(* not(a and b)  ->  "!a && b"  =  (!a) && b *)
Definition w_not := un NOT (bin AND va vb).
Lemma refuted_not :
  gen_C w_not = "!a && b" /\ readC (gen_C w_not) = Some (TBin And (TNot (TVar "a")) (TVar "b"))
  /\ trC w_not = TNot (TBin And (TVar "a") (TVar "b")) /\ reads_asC (gen_C w_not) w_not = false.
Proof. vm_compute. repeat split. Qed.

(* a < (b < d)  ->  "a < b < d"  =  (a < b) < d *)
Definition w_rel := bin LT va (bin LT vb vd).
Lemma refuted_rel :
  gen_C w_rel = "a < b < d" /\ readC (gen_C w_rel) = Some (TBin Lt (TBin Lt (TVar "a") (TVar "b")) (TVar "d"))
  /\ trC w_rel = TBin Lt (TVar "a") (TBin Lt (TVar "b") (TVar "d")) /\ reads_asC (gen_C w_rel) w_rel = false.
Proof. vm_compute. repeat split. Qed.

(* (a and b) < c  ->  "a && b < c"  =  a && (b < c) *)
Definition w_rel2 := bin LT (bin AND va vb) vc.
Lemma refuted_rel_logical :
  gen_C w_rel2 = "a && b < c" /\ reads_asC (gen_C w_rel2) w_rel2 = false.
Proof. vm_compute. repeat split. Qed.

(* a / -(b*c)  ->  "a/-b*c"  =  (a/(-b))*c, both profiles *)
Definition w_neg := bin DIVIDE va (un MINUS (bin TIMES vb vc)).
Lemma refuted_neg :
  gen_C w_neg = "a/-b*c" /\ gen_Py w_neg = "a/-b*c"
  /\ readC (gen_C w_neg) = Some (TBin Mul (TBin Div (TVar "a") (TNeg (TVar "b"))) (TVar "c"))
  /\ reads_asC (gen_C w_neg) w_neg = false /\ reads_asPy (gen_Py w_neg) w_neg = false.
Proof. vm_compute. repeat split. Qed.

(* Python: a piecewise as the condition of a piece is a syntax error, as its value it re-associates *)
Definition pw (v c o : ast) := bin PIECEWISE (bin PIECE v c) (un OTHERWISE o).
Definition w_pycond := pw vb (pw vx vy vw) vd.
Definition w_pyval := pw (pw vx vy vw) vc vd.
Lemma refuted_pypiece :
  gen_Py w_pycond = "b if x if y else w else d" /\ readPy (gen_Py w_pycond) = None
  /\ gen_Py w_pyval = "x if y else w if c else d"
  /\ readPy (gen_Py w_pyval) = Some (TCond (TVar "y") (TVar "x") (TCond (TVar "c") (TVar "w") (TVar "d")))
  /\ trPy w_pyval = TCond (TVar "c") (TCond (TVar "y") (TVar "x") (TVar "w")) (TVar "d")
  /\ reads_asPy (gen_Py w_pyval) w_pyval = false
  /\ reads_asC (gen_C w_pycond) w_pycond = true /\ reads_asC (gen_C w_pyval) w_pyval = true.
Proof. vm_compute. repeat split. Qed.

(* -(-3)  ->  "--3.0": a decrement of a literal in C (no reading); two signs in Python *)
Definition w_mm := un MINUS (cn "-3").
Lemma refuted_double_minus :
  gen_C w_mm = "--3.0" /\ readC (gen_C w_mm) = None /\ reads_asPy (gen_Py w_mm) w_mm = true.
Proof. vm_compute. repeat split. Qed.

(* a - +(b + c)  ->  "a-b+c"  =  (a-b)+c : the unary plus hides the sum from the parenthesisation test *)
Definition w_uplus := bin MINUS va (un PLUS (bin PLUS vb vc)).
Lemma refuted_unary_plus :
  gen_C w_uplus = "a-b+c" /\ reads_asC (gen_C w_uplus) w_uplus = false
  /\ reads_asPy (gen_Py w_uplus) w_uplus = false.
Proof. vm_compute. repeat split. Qed.

(* a / log_3(x)  ->  "a/log(x)/log(3.0)"  =  (a/log(x))/log(3.0) *)
Definition w_logb := bin DIVIDE va (bin LOG (un LOGBASE (cn "3")) vx).
Lemma refuted_logbase :
  gen_C w_logb = "a/log(x)/log(3.0)" /\ reads_asC (gen_C w_logb) w_logb = false
  /\ reads_asPy (gen_Py w_logb) w_logb = false.
Proof. vm_compute. repeat split. Qed.

(* <cn>1E5</cn>  ->  "1E5.0": not a literal of either language *)
Definition w_bigE := bin PLUS (cn "1E5") va.
Lemma refuted_upper_exponent :
  gen_C w_bigE = "1E5.0+a" /\ readC (gen_C w_bigE) = None /\ readPy (gen_Py w_bigE) = None.
Proof. vm_compute. repeat split. Qed.

(* non-vacuity of the safe class: n-ary sums, negated products, nested conditionals in C, qualifiers *)
Definition w_ok1 := bin PLUS va (bin PLUS vb (bin MINUS vc (bin TIMES vd (un MINUS (bin TIMES vx vy))))).
Definition w_ok2 := bin AND (bin LT va vb) (bin OR (un NOT vc) (bin EQ (bin PLUS va vb) (cn "-2.5e3"))).
Definition w_ok3 := pw (bin ROOT (un DEGREE (cn "3")) va) (bin GEQ vx (un SIN vy)) (pw vx vy vw).
Lemma safe_nonvacuous :
  safeC w_ok1 = true /\ safePy w_ok1 = true /\ safeC w_ok2 = true /\ safePy w_ok2 = true
  /\ safeC w_ok3 = true /\ safePy w_ok3 = true
  /\ gen_C w_ok1 = "a+b+c-d*-x*y" /\ gen_C w_ok2 = "(a < b) && (!c || (a+b == -2.5e3))"
  /\ gen_C w_ok3 = "(x >= sin(y))?pow(a, 1.0/3.0):(y)?x:w"
  /\ gen_Py w_ok3 = "pow(a, 1.0/3.0) if geq_func(x, sin(y)) else x if y else w"
  /\ reads_asC (gen_C w_ok1) w_ok1 = true /\ reads_asC (gen_C w_ok2) w_ok2 = true
  /\ reads_asC (gen_C w_ok3) w_ok3 = true /\ reads_asPy (gen_Py w_ok3) w_ok3 = true.
Proof. vm_compute. repeat split. Qed.
