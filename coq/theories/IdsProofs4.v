(** IdsProofs4.v — the id list is current at every look-up, for every history (property C13). *)
From Coq Require Import String Ascii List NArith Arith Bool Lia.
From LC Require Import Common IdsDefs IdsProofs IdsProofs2.
Import ListNotations.
Open Scope string_scope.
Open Scope list_scope.

(* the stored hash, when there is one, is the hash of the id vector the list was built from *)
Definition Inv (c : cfg) (st : structure) (s : state) : Prop :=
  a_hash (s_ann s) = None \/
  exists ids0, a_hash (s_ann s) = Some (hash_string c st ids0) /\ a_cache (s_ann s) = build_cache c st ids0.

(* the serialised string determines the id list (false for identifiers that contain '=': hash_ambiguous_witness;
   true for all others: IdsHash.hash_faithful) *)
Definition HashFaithfulAt (c : cfg) (st : structure) (ids : list string) : Prop :=
  forall ids0, hash_string c st ids0 = hash_string c st ids -> build_cache c st ids0 = build_cache c st ids.

Lemma inv_init : forall c st ids, Inv c st (init ids).
Proof. intros; left; reflexivity. Qed.

Lemma update_inv : forall c st s, Inv c st s -> Inv c st (update c st s).
Proof.
  intros c st s H. unfold update.
  destruct (negb (a_has_model (s_ann s))); [left; reflexivity|].
  destruct (opt_str_eqb (a_hash (s_ann s)) (hash_string c st (s_ids s))); [assumption|].
  right. exists (s_ids s). split; reflexivity.
Qed.

Lemma set_model_inv : forall c st s, Inv c st (set_model c st s).
Proof. intros. unfold set_model. apply update_inv. left; reflexivity. Qed.

Lemma assign_visit_hash : forall s v, a_hash (s_ann (assign_visit s v)) = a_hash (s_ann s).
Proof.
  intros s v. unfold assign_visit. destruct (is_empty _); [|reflexivity].
  destruct (make_unique _ _) as [[id n] ok]. reflexivity.
Qed.
Lemma assign_visits_hash : forall vs s, a_hash (s_ann (assign_visits s vs)) = a_hash (s_ann s).
Proof.
  induction vs as [|v vs IH]; intro s; [reflexivity|]. rewrite assign_visits_cons, IH. apply assign_visit_hash.
Qed.

Lemma step_inv : forall c st s o, fx_refresh c = true -> Inv c st s -> Inv c st (fst (step c st s o)).
Proof.
  intros c st s o Hf H. rewrite step_fst. destruct o; unfold step_state.
  1: apply set_model_inv.
  1: exact H.
  1: { unfold assign_all. destruct (a_has_model (s_ann s)); cbn [fst]; [|exact H].
       left. rewrite assign_visits_hash. unfold pre_assign. rewrite Hf. reflexivity. }
  1: { unfold assign_type. destruct (a_has_model (s_ann s)); cbn [fst]; [|exact H]. apply set_model_inv. }
  1: { unfold assign_item. destruct (a_has_model (s_ann s)); [|exact H]. rewrite Hf.
       destruct (make_unique _ _) as [[id n] ok]. left. reflexivity. }
  1: { unfold clear_all. destruct (a_has_model (s_ann s)); [|exact H]. left. reflexivity. }
  all: try (apply update_inv; exact H).
  exact H.
Qed.

Lemma run_inv : forall c st h s, fx_refresh c = true -> Inv c st s -> Inv c st (fst (run c st s h)).
Proof.
  induction h as [|o h IH]; intros s Hf H; [exact H|]. rewrite run_cons. apply IH; [assumption|]. apply step_inv; assumption.
Qed.

Lemma update_current : forall c st s,
  Inv c st s -> a_has_model (s_ann s) = true -> HashFaithfulAt c st (s_ids s) ->
  a_cache (s_ann (update c st s)) = build_cache c st (s_ids s).
Proof.
  intros c st s H Hm HF. unfold update. rewrite Hm. cbn [negb].
  destruct (opt_str_eqb (a_hash (s_ann s)) (hash_string c st (s_ids s))) eqn:E; [|reflexivity].
  destruct H as [H|[ids0 [Hh Hc]]].
  - rewrite H in E. discriminate.
  - rewrite Hh in E. unfold opt_str_eqb in E. apply String.eqb_eq in E. rewrite Hc. apply HF. exact E.
Qed.

(* with the repairs: after ANY history of setModel / edits / assign* / clearAllIds / look-ups, the list a look-up
   consults is the list of the model as it is now *)
Theorem lookups_current_after_any_history : forall c st h ids,
  fx_refresh c = true ->
  let s := fst (run c st (init ids) h) in
  a_has_model (s_ann s) = true -> HashFaithfulAt c st (s_ids s) ->
  a_cache (s_ann (update c st s)) = build_cache c st (s_ids s).
Proof.
  intros c st h ids Hf s Hm HF. apply update_current; auto. apply run_inv; [assumption | apply inv_init].
Qed.

(* the assignment theorems, instantiated at the state reached by an arbitrary history *)
Theorem assign_all_fresh_after_any_history : forall c st h ids0,
  fx_refresh c = true -> slots_in_range st (length ids0) = true ->
  let s := fst (run c st (init ids0) h) in
  a_has_model (s_ann s) = true -> no_math_ids st (s_ids s) ->
  let s' := fst (assign_all c st s) in
  forall slot, get (s_ids s) slot = "" -> get (s_ids s') slot <> "" ->
    (forall slot', In slot' (all_slots st) -> get (s_ids s) slot' <> get (s_ids s') slot) /\
    (forall slot', In slot' (all_slots st) -> slot' <> slot -> get (s_ids s') slot' <> get (s_ids s') slot).
Proof.
  intros c st h ids0 Hf Hr s Hm Hmath. apply assign_all_fresh; auto.
  subst s. rewrite run_length. exact Hr.
Qed.

Theorem assign_all_complete_after_any_history : forall c st h ids0,
  slots_in_range st (length ids0) = true ->
  let s := fst (run c st (init ids0) h) in
  a_has_model (s_ann s) = true ->
  forall p, In p (applicable_positions st) -> get (s_ids (fst (assign_all c st s))) (snd p) <> "".
Proof.
  intros c st h ids0 Hr s Hm. apply assign_all_complete; auto. subst s. rewrite run_length. exact Hr.
Qed.
