(** RoundtripStableProofs.v — the second print (C02): the canonical model is printable again and canon is
    idempotent, PROVIDED the environment is stable — the round-trip hypothesis on numbers and mathematics, stated here
    as section hypotheses: a value that went through 15 digits and back prints the same 15 digits again, and the
    serialisation of normalised mathematics normalises to itself.  Consequence for flat models: printing the
    re-parsed model and parsing again gives the re-parsed model again, without issues. *)
From Coq Require Import String Ascii List Bool ZArith Arith Lia Permutation.
From LC Require Import Common NumDefs XmlDefs EntTreeDefs PrintDefs LoadDefs RoundtripSpec XmlTextProofs
     RoundtripReadProofs RoundtripLoadProofs RoundtripFlatProofs RoundtripEncProofs.
Import ListNotations.
Local Open Scope string_scope.
Local Open Scope bool_scope.
Local Open Scope list_scope.

Opaque str_ok num_ok order_ok math_ok isrc_ok.

Section Stable.
Variable E : env.

Hypothesis num_stable : forall x, num_ok E x = true -> num_ok E (round15 E x) = true /\ round15 E (round15 E x) = round15 E x.
Hypothesis math_stable : forall s, math_ok E s = true ->
  math_ok E (canon_math E s) = true /\ canon_math E (canon_math E s) = canon_math E s
  /\ has_math E (canon_math E s) = has_math E s.

Lemma unitdef_ok_canon : forall d, unitdef_ok E true d = true -> unitdef_ok E true (canon_unitdef E d) = true.
Proof.
  intros d H. unfold unitdef_ok in *. cbn [canon_unitdef ud_ref ud_prefix ud_exp ud_mult ud_id]. bsplit_all.
  repeat (apply andb_true_iff; split); try assumption; now apply num_stable.
Qed.

Lemma canon_unitdef_idem : forall d, unitdef_ok E true d = true -> canon_unitdef E (canon_unitdef E d) = canon_unitdef E d.
Proof.
  intros d H. unfold unitdef_ok in H. bsplit_all.
  unfold canon_unitdef. cbn [ud_ref ud_prefix ud_exp ud_mult ud_id].
  repeat match goal with Hn : num_ok E _ = true |- _ => rewrite (proj2 (num_stable _ Hn)); clear Hn end. reflexivity.
Qed.

Lemma forallb_map_impl : forall {A} (P : A -> bool) (f : A -> A) l, (forall x, P x = true -> P (f x) = true) -> forallb P l = true -> forallb P (map f l) = true.
Proof.
  induction l as [|x l IH]; intros Hf H; [reflexivity|]. cbn [forallb map] in *. apply andb_true_iff in H. destruct H as [Hx Hl].
  rewrite (Hf x Hx), (IH Hf Hl). reflexivity.
Qed.

Lemma map_idem : forall {A} (P : A -> bool) (f : A -> A) l, (forall x, P x = true -> f (f x) = f x) -> forallb P l = true -> map f (map f l) = map f l.
Proof.
  induction l as [|x l IH]; intros Hf H; [reflexivity|]. cbn [forallb map] in *. apply andb_true_iff in H. destruct H as [Hx Hl].
  rewrite (Hf x Hx), (IH Hf Hl). reflexivity.
Qed.

Lemma units_ok_canon : forall u, units_ok E true u = true -> units_ok E true (canon_units E u) = true.
Proof.
  intros u H. unfold units_ok in *. cbn [canon_units u_name u_id u_src u_ref u_defs].
  assert (Hstd : is_standard_unit (canon_units E u) = is_standard_unit u).
  { unfold is_standard_unit. cbn [canon_units u_defs u_name]. destruct (u_defs u); reflexivity. }
  bsplit_all. destruct (u_src u).
  - bsplit_all. repeat (apply andb_true_iff; split); try assumption. destruct (u_defs u); [reflexivity | discriminate].
  - fold (canon_units E u). rewrite Hstd. bsplit_all.
    repeat (apply andb_true_iff; split); try assumption.
    apply forallb_map_impl; [apply unitdef_ok_canon | assumption].
Qed.

Lemma canon_units_idem : forall u, units_ok E true u = true -> canon_units E (canon_units E u) = canon_units E u.
Proof.
  intros u H. unfold canon_units at 1 3. cbn [canon_units u_name u_id u_src u_ref u_defs]. f_equal.
  unfold units_ok in H. bsplit_all. destruct (u_src u); bsplit_all.
  - destruct (u_defs u); [reflexivity | discriminate].
  - eapply map_idem; [apply canon_unitdef_idem | eassumption].
Qed.

(** ** resets, shells, components *)
Lemma reset_ok_canon : forall vs r, reset_ok E true vs r = true -> reset_ok E true vs (canon_reset E r) = true.
Proof.
  intros vs r H. unfold reset_ok in *. cbn [canon_reset r_id r_order r_var r_test r_tv r_tv_id r_rv r_rv_id]. bsplit_all.
  match goal with Hm : math_ok E (r_tv r) = true |- _ => destruct (math_stable _ Hm) as (Ht1 & _ & Ht3) end.
  match goal with Hm : math_ok E (r_rv r) = true |- _ => destruct (math_stable _ Hm) as (Hr1 & _ & Hr3) end.
  rewrite Ht3, Hr3.
  repeat (apply andb_true_iff; split); assumption.
Qed.

Lemma canon_reset_idem : forall vs r, reset_ok E true vs r = true -> canon_reset E (canon_reset E r) = canon_reset E r.
Proof.
  intros vs r H. unfold reset_ok in H. bsplit_all. unfold canon_reset. cbn [r_id r_order r_var r_test r_tv r_tv_id r_rv r_rv_id].
  match goal with Hm : math_ok E (r_tv r) = true |- _ => rewrite (proj1 (proj2 (math_stable _ Hm))) end.
  match goal with Hm : math_ok E (r_rv r) = true |- _ => rewrite (proj1 (proj2 (math_stable _ Hm))) end. reflexivity.
Qed.

Lemma variable_ok_canon_units : forall us v, variable_ok true us v = true -> variable_ok true (map (canon_units E) us) v = true.
Proof.
  intros us v H. unfold variable_ok in *. destruct (v_units v); [|exact H]. rewrite has_units_named_canon. exact H.
Qed.

Lemma shell_ok_canon : forall us s, shell_ok E true us s = true ->
  shell_ok E true (map (canon_units E) us) (canon_shell E s) = true.
Proof.
  intros us s H. unfold shell_ok in *. cbn [canon_shell c_name c_id c_encid c_src c_ref c_math c_vars c_resets]. bsplit_all.
  destruct (c_src s); bsplit_all.
  - repeat (apply andb_true_iff; split); try assumption.
    + destruct (c_resets s); [reflexivity | discriminate].
    + match goal with Hn : negb (nonempty (c_math s)) = true |- _ => apply negb_true_iff in Hn; apply nonempty_false in Hn; rewrite Hn end. reflexivity.
  - repeat (apply andb_true_iff; split); try assumption.
    + rewrite forallb_forall in *. intros v Hv. apply variable_ok_canon_units. auto.
    + apply forallb_map_impl; [apply reset_ok_canon | assumption].
    + now apply math_stable.
Qed.

Lemma canon_shell_idem : forall us s, shell_ok E true us s = true -> canon_shell E (canon_shell E s) = canon_shell E s.
Proof.
  intros us s H. unfold shell_ok in H. bsplit_all. unfold canon_shell at 1 3. cbn [canon_shell c_name c_id c_encid c_src c_ref c_math c_vars c_resets].
  destruct (c_src s); bsplit_all.
  - match goal with Hn : negb (nonempty (c_math s)) = true |- _ => apply negb_true_iff in Hn; apply nonempty_false in Hn; rewrite Hn end.
    destruct (c_resets s); [reflexivity | discriminate].
  - f_equal; [now apply math_stable | eapply map_idem; [apply canon_reset_idem | eassumption]].
Qed.

Lemma comp_ok_canon : forall us c, comp_ok E true us c = true -> comp_ok E true (map (canon_units E) us) (canon_comp E c) = true.
Proof.
  intros us. induction c as [s ks IH] using comp_ind'. intros H. cbn [canon_comp]. rewrite comp_ok_unfold in *.
  apply andb_true_iff in H. destruct H as [Hs Hk]. apply andb_true_iff. split; [now apply shell_ok_canon|].
  rewrite forallb_map. rewrite forallb_forall in *. rewrite Forall_forall in IH. intros k Hkin. apply IH; auto.
Qed.

Lemma canon_comp_idem : forall us c, comp_ok E true us c = true -> canon_comp E (canon_comp E c) = canon_comp E c.
Proof.
  intros us. induction c as [s ks IH] using comp_ind'. intros H. rewrite comp_ok_unfold in H.
  apply andb_true_iff in H. destruct H as [Hs Hk]. cbn [canon_comp]. f_equal; [eapply canon_shell_idem; eassumption|].
  rewrite map_map. apply map_ext_in. intros k Hkin. rewrite Forall_forall in IH. apply IH; [exact Hkin|].
  rewrite forallb_forall in Hk. now apply Hk.
Qed.

Lemma existsb_map_kids : forall cs,
  existsb (fun c => match kids c with [] => false | _ => true end) (map (canon_comp E) cs)
  = existsb (fun c => match kids c with [] => false | _ => true end) cs.
Proof. induction cs as [|c cs IH]; [reflexivity|]. cbn [map existsb]. rewrite IH. destruct c as [s [|k ks]]; reflexivity. Qed.

Lemma forallb_ext' : forall {A} (f g : A -> bool) l, (forall x, f x = g x) -> forallb f l = forallb g l.
Proof. induction l as [|x l IH]; intros H; [reflexivity|]. cbn [forallb]. now rewrite H, IH. Qed.

Lemma enc_ids_canon : forall m, enc_ids_representable m = true -> enc_ids_representable (canon E m) = true.
Proof.
  intros m H. unfold enc_ids_representable in *. cbn [canon m_comps m_encid]. rewrite forallb_map, existsb_map_kids.
  erewrite forallb_ext'; [exact H|]. intros [s [|k ks]]; reflexivity.
Qed.

(** ** flat models *)
Lemma flat_canon : forall m, flat m = true -> flat (canon E m) = true.
Proof.
  intros m H. unfold flat, no_imports, no_hierarchy, no_connections in *. cbn [canon m_units m_comps m_eqv]. bsplit_all.
  repeat (apply andb_true_iff; split).
  - rewrite forallb_map. assumption.
  - unfold all_comps in *. rewrite forallb_forall in *. intros pc Hpc.
    assert (Hin : In (snd pc) (flat_map dfs (map (canon_comp E) (m_comps m)))) by (rewrite <- (all_comps_dfs _ [] 0); now apply in_map).
    apply in_flat_map in Hin. destruct Hin as (c' & Hc' & Hd). apply in_map_iff in Hc'. destruct Hc' as (c & <- & Hc).
    rewrite dfs_canon in Hd. apply in_map_iff in Hd. destruct Hd as (d & Hd & Hdin). rewrite <- Hd.
    assert (Hdall : In d (map snd (flat_cs [] 0 (m_comps m)))) by (rewrite all_comps_dfs; apply in_flat_map; eauto).
    apply in_map_iff in Hdall. destruct Hdall as (pd & Hpd & Hpdin).
    match goal with Hn : forall x, In x (flat_cs [] 0 (m_comps m)) -> _ |- _ => specialize (Hn pd Hpdin); rewrite Hpd in Hn end.
    destruct d as [s ks]. unfold is_import_comp in *. cbn [shell canon_comp canon_shell c_src] in *. assumption.
  - rewrite forallb_map. rewrite forallb_forall in *. intros c Hc.
    match goal with Hk : forall x, In x (m_comps m) -> _ |- _ => specialize (Hk c Hc) end. destruct c as [s ks]. cbn [kids canon_comp] in *. destruct ks; [reflexivity | discriminate].
  - assumption.
Qed.

Lemma canon_idem_flat : forall m, printable E true m -> canon E (canon E m) = canon E m.
Proof.
  intros m H. unfold printable, printableb in H. bsplit_all. unfold canon at 1 3. cbn [canon m_name m_id m_encid m_units m_comps m_eqv]. f_equal.
  - eapply map_idem; [apply canon_units_idem | eassumption].
  - rewrite map_map. apply map_ext_in. intros c Hc. eapply canon_comp_idem.
    match goal with Hf : forallb (comp_ok E true (m_units m)) (m_comps m) = true |- _ => rewrite forallb_forall in Hf; now apply Hf end.
Qed.

Lemma flat_map_dfs_canon : forall cs, flat_map dfs (map (canon_comp E) cs) = map (canon_comp E) (flat_map dfs cs).
Proof. induction cs as [|c cs IH]; [reflexivity|]. cbn [map flat_map]. rewrite map_app, dfs_canon, IH. reflexivity. Qed.

Lemma all_comps_snd_canon : forall cs,
  map snd (all_comps (map (canon_comp E) cs)) = map (canon_comp E) (map snd (all_comps cs)).
Proof. intros. unfold all_comps. rewrite !all_comps_dfs. apply flat_map_dfs_canon. Qed.

Lemma names_all_canon : forall cs,
  map (fun pc => cname (snd pc)) (all_comps (map (canon_comp E) cs)) = map (fun pc => cname (snd pc)) (all_comps cs).
Proof.
  intros. rewrite <- !(map_map snd cname). rewrite all_comps_snd_canon, map_map. apply map_ext. intros. apply cname_canon.
Qed.

Lemma src_all_canon : forall cs,
  flat_map (fun pc => match c_src (shell (snd pc)) with Some i => [i] | None => [] end) (all_comps (map (canon_comp E) cs))
  = flat_map (fun pc => match c_src (shell (snd pc)) with Some i => [i] | None => [] end) (all_comps cs).
Proof.
  intros.
  assert (Hg : forall l : list (list nat * component), flat_map (fun pc => match c_src (shell (snd pc)) with Some i => [i] | None => [] end) l
                        = flat_map (fun c => match c_src (shell c) with Some i => [i] | None => [] end) (map snd l)).
  { induction l as [|x l IH]; [reflexivity|]. cbn [flat_map map]. now rewrite IH. }
  rewrite !Hg, all_comps_snd_canon. generalize (map snd (all_comps cs)). induction l as [|c l IH]; [reflexivity|].
  cbn [map flat_map]. rewrite IH. destruct c as [s ks]. reflexivity.
Qed.

Lemma src_units_canon : forall us,
  flat_map (fun u => match u_src u with Some i => [i] | None => [] end) (map (canon_units E) us)
  = flat_map (fun u => match u_src u with Some i => [i] | None => [] end) us.
Proof. induction us as [|u l IH]; [reflexivity|]. cbn [map flat_map canon_units u_src]. now rewrite IH. Qed.

Lemma printable_canon_flat : forall m, printable E true m -> flat m = true -> printable E true (canon E m).
Proof.
  intros m H Hf. pose proof (flat_canon m Hf) as Hfc. unfold printable, printableb in H. bsplit_all.
  assert (A1 : forallb (units_ok E true) (m_units (canon E m)) = true).
  { cbn [canon m_units]. apply forallb_map_impl; [apply units_ok_canon | assumption]. }
  assert (A2 : forallb (comp_ok E true (m_units (canon E m))) (m_comps (canon E m)) = true).
  { cbn [canon m_units m_comps]. rewrite forallb_map. apply forallb_forall. intros c Hc. apply comp_ok_canon. by_forallb. }
  assert (A3 : names_distinct (map (fun pc => cname (snd pc)) (all_comps (m_comps (canon E m)))) = true).
  { cbn [canon m_comps]. rewrite names_all_canon. assumption. }
  assert (A4 : enc_ids_representable (canon E m) = true) by now apply enc_ids_canon.
  assert (A5 : sources_consistent (canon E m) = true).
  { match goal with Hs : sources_consistent m = true |- _ => unfold sources_consistent, all_sources in *; cbn [canon m_units m_comps] end.
    rewrite src_all_canon.
    rewrite src_units_canon. assumption. }
  assert (A6 : eqv_ok true (canon E m) = true).
  { unfold flat, no_connections, no_imports in Hf, Hfc. cbn [canon m_eqv m_comps m_units] in *. bsplit_all.
    assert (Heqv : m_eqv m = []) by (destruct (m_eqv m); [reflexivity | discriminate]).
    unfold eqv_ok. cbn [canon m_eqv m_comps]. rewrite Heqv. cbn [forallb edges_distinct one_cid_per_pair andb orb].
    rewrite andb_true_r. unfold placeholders_connected. cbn [canon m_comps m_eqv].
    apply forallb_forall. intros pc Hpc.
    match goal with Hn : forallb (fun pc0 => negb (is_import_comp (snd pc0))) (all_comps (map (canon_comp E) (m_comps m))) = true |- _ =>
      rewrite (proj1 (forallb_forall _ _) Hn pc Hpc) end. reflexivity. }
  unfold printable, printableb. rewrite A1, A2, A3, A4, A5, A6. cbn [canon m_name m_id m_encid].
  repeat match goal with Hx : _ = true |- _ => rewrite Hx; clear Hx end. reflexivity.
Qed.

(** the second round on flat models: the re-parsed model prints and parses to itself *)
Theorem second_print_flat : forall fx m, printable E true m -> flat m = true ->
  printable E true (canon E m) /\ canon E (canon E m) = canon E m
  /\ print_model E true (canon E m) = Some (print_tree E (canon E m))
  /\ load E fx true (print_tree E (canon E m)) = (canon E m, []).
Proof.
  intros fx m H Hf. pose proof (printable_canon_flat m H Hf) as Hp. pose proof (flat_canon m Hf) as Hfc.
  split; [exact Hp|]. split; [now apply canon_idem_flat|].
  destruct (roundtrip_flat E fx (canon E m) Hp Hfc) as [Hpr Hl]. split; [exact Hpr|].
  rewrite Hl. rewrite canon_idem_flat by exact H. reflexivity.
Qed.

End Stable.

(** the two stability hypotheses are satisfiable (an environment that prints numbers as they are and finds no
    element in any math string) *)
Definition E_stable : env :=
  {| show15 := fun x => x; to_double := fun s => Some s; show_int := z_to_string;
     norm_math := fun _ => Some []; math_text := fun _ => "" |}.

Example stable_env_exists :
  (forall x, num_ok E_stable x = true -> num_ok E_stable (round15 E_stable x) = true /\ round15 E_stable (round15 E_stable x) = round15 E_stable x)
  /\ (forall s, math_ok E_stable s = true ->
        math_ok E_stable (canon_math E_stable s) = true /\ canon_math E_stable (canon_math E_stable s) = canon_math E_stable s
        /\ has_math E_stable (canon_math E_stable s) = has_math E_stable s).
Proof.
  split.
  - intros x H. unfold round15. cbn [E_stable show15 to_double]. destruct (String.eqb x num_one) eqn:Ex.
    + split; reflexivity.
    + rewrite Ex. split; [exact H | reflexivity].
  - intros s _. assert (Hc : canon_math E_stable s = "").
    { unfold canon_math, math_kids. cbn [E_stable norm_math]. destruct (nonempty s); reflexivity. }
    rewrite Hc. repeat split. unfold has_math, math_kids. cbn [E_stable norm_math]. destruct (nonempty s); reflexivity.
Qed.
