(** MathSpec.v — the grammar of the MathML the valid-model generators of /verif emit (gen/doc_mutate.py:
    gen_wf_math), as an inductive predicate over MathDefs.xml.  Every supported operator occurs with an arity the
    CellML 2.0 specification allows; n-ary operators with two or three operands; piecewise with one or two pieces. *)
From Coq Require Import String List Bool.
From LC Require Import NumDefs NumPosDefs MathDefs.
Import ListNotations.
Local Open Scope string_scope.

Definition trig_ops : list string :=
  ["sin"; "cos"; "tan"; "sec"; "csc"; "cot"; "sinh"; "cosh"; "tanh"; "sech"; "csch"; "coth";
   "arcsin"; "arccos"; "arctan"; "arcsec"; "arccsc"; "arccot";
   "arcsinh"; "arccosh"; "arctanh"; "arcsech"; "arccsch"; "arccoth"].
(** operators applied to one operand *)
Definition ops1 : list string := ["not"; "abs"; "exp"; "ln"; "ceiling"; "floor"; "minus"; "plus"; "root"; "log"] ++ trig_ops.
(** operators applied to two operands *)
Definition ops2 : list string :=
  ["eq"; "neq"; "lt"; "leq"; "gt"; "geq"; "divide"; "power"; "minus"; "plus"; "times"; "and"; "or"; "xor"; "min"; "max"; "rem"].
(** operators applied to three operands *)
Definition ops3 : list string := ["plus"; "times"; "and"; "or"; "xor"; "min"; "max"].
Definition constants : list string := ["true"; "false"; "exponentiale"; "pi"; "infinity"; "notanumber"].

Inductive WFExpr : xml -> Prop :=
| WF_ci : forall v, In v std_vars -> WFExpr (m_ci v)
| WF_cn : forall s, is_basic_real (strip s) = true -> WFExpr (m_cn s)
| WF_cne : forall m e, is_basic_real (strip m) = true -> node_is_integer (Text e) = true -> WFExpr (m_cn_e m e)
| WF_const : forall c, In c constants -> WFExpr (m_leaf c)
| WF_op1 : forall op a, In op ops1 -> WFExpr a -> WFExpr (m_apply op [a])
| WF_op2 : forall op a b, In op ops2 -> WFExpr a -> WFExpr b -> WFExpr (m_apply op [a; b])
| WF_op3 : forall op a b c, In op ops3 -> WFExpr a -> WFExpr b -> WFExpr c -> WFExpr (m_apply op [a; b; c])
| WF_root : forall d a, WFExpr d -> WFExpr a -> WFExpr (m_apply "root" [m_el "degree" [d]; a])
| WF_log : forall b a, WFExpr b -> WFExpr a -> WFExpr (m_apply "log" [m_el "logbase" [b]; a])
| WF_pw1 : forall v c, WFExpr v -> WFExpr c -> WFExpr (m_el "piecewise" [m_el "piece" [v; c]])
| WF_pw1o : forall v c o, WFExpr v -> WFExpr c -> WFExpr o ->
    WFExpr (m_el "piecewise" [m_el "piece" [v; c]; m_el "otherwise" [o]])
| WF_pw2o : forall v1 c1 v2 c2 o, WFExpr v1 -> WFExpr c1 -> WFExpr v2 -> WFExpr c2 -> WFExpr o ->
    WFExpr (m_el "piecewise" [m_el "piece" [v1; c1]; m_el "piece" [v2; c2]; m_el "otherwise" [o]]).

Inductive WFEqn : xml -> Prop :=
| WF_alg : forall lhs rhs, WFExpr lhs -> WFExpr rhs -> WFEqn (m_eqn lhs rhs)
| WF_ode : forall x t rhs, In x std_vars -> In t std_vars -> WFExpr rhs ->
    WFEqn (m_eqn (m_apply "diff" [m_el "bvar" [m_ci t]; m_ci x]) rhs).

(** one <math> document: any number of equations *)
Definition WellFormedMath (root : xml) : Prop := exists eqs, root = m_math eqs /\ Forall WFEqn eqs.
