(** NumProofs.v — proofs about the numeric-text recognisers of NumDefs.v against the grammar of
    NumSpec.v (property C16).  Route: recognisers <-> inductive grammar <-> automata. *)
From Coq Require Import String Ascii List Bool Arith ZArith NArith Lia.
From LC Require Import NumDefs NumSpec.
Local Open Scope string_scope.
Local Open Scope bool_scope.

(** * Characters *)

Definition not_special (c : ascii) : Prop :=
  Ascii.eqb c "-" = false /\ Ascii.eqb c "+" = false /\ Ascii.eqb c "." = false /\
  Ascii.eqb c "e" = false /\ Ascii.eqb c "E" = false.

Lemma char_class : forall c : ascii,
  (is_digit c = true /\ is_space c = false /\ not_special c)
  \/ c = "-"%char \/ c = "+"%char \/ c = "."%char \/ c = "e"%char \/ c = "E"%char
  \/ (is_digit c = false /\ not_special c).
Proof.
  intros [[] [] [] [] [] [] [] []]; unfold not_special;
  solve [ left; repeat split; reflexivity
        | right; left; reflexivity
        | do 2 right; left; reflexivity
        | do 3 right; left; reflexivity
        | do 4 right; left; reflexivity
        | do 5 right; left; reflexivity
        | do 6 right; repeat split; reflexivity ].
Qed.

Lemma digit_ns : forall c, is_digit c = true -> not_special c /\ is_space c = false.
Proof.
  intros c D.
  destruct (char_class c) as [(_ & S & N) | [-> | [-> | [-> | [-> | [-> | (D' & _)]]]]]];
    try (vm_compute in D; discriminate D).
  - split; assumption.
  - rewrite D in D'. discriminate D'.
Qed.

(** * Strings *)

Lemma app_assoc_s : forall a b c : string, (a ++ b) ++ c = a ++ b ++ c.
Proof.
  induction a as [|x a IH]; intros b c; cbn [append]; [reflexivity | rewrite IH; reflexivity].
Qed.

Lemma app_nil_r_s : forall a : string, a ++ "" = a.
Proof.
  induction a as [|x a IH]; cbn [append]; [reflexivity | rewrite IH; reflexivity].
Qed.

Lemma all_digits_app : forall a b, all_digits (a ++ b) = all_digits a && all_digits b.
Proof.
  induction a as [|x a IH]; intros b; cbn [append all_digits]; [reflexivity|].
  rewrite IH, andb_assoc. reflexivity.
Qed.

Lemma count_char_app : forall c a b, count_char c (a ++ b) = count_char c a + count_char c b.
Proof.
  intros c. induction a as [|x a IH]; intros b; cbn [append count_char]; [reflexivity|].
  rewrite IH. lia.
Qed.

Lemma norm_e_app : forall a b, norm_e (a ++ b) = norm_e a ++ norm_e b.
Proof.
  induction a as [|x a IH]; intros b; cbn [append norm_e]; [reflexivity|].
  rewrite IH. reflexivity.
Qed.

Lemma erase_app : forall c a b, count_char c a = 0 -> erase_first c (a ++ String c b) = a ++ b.
Proof.
  intros c. induction a as [|x a IH]; intros b H.
  - cbn [append erase_first]. rewrite Ascii.eqb_refl. reflexivity.
  - cbn [append erase_first count_char] in *.
    destruct (Ascii.eqb x c); [discriminate H|].
    rewrite IH; [reflexivity | exact H].
Qed.

Lemma split_app : forall c a b, count_char c a = 0 -> split_at c (a ++ String c b) = (a, b).
Proof.
  intros c. induction a as [|x a IH]; intros b H.
  - cbn [append split_at]. rewrite Ascii.eqb_refl. reflexivity.
  - cbn [append split_at count_char] in *.
    destruct (Ascii.eqb x c); [discriminate H|].
    rewrite IH; [reflexivity | exact H].
Qed.

Lemma Digits_cons : forall c r, is_digit c = true -> Digits r -> Digits (String c r).
Proof. unfold Digits. intros c r D H. cbn [all_digits]. rewrite D, H. reflexivity. Qed.

Lemma Digits_inv : forall c r, Digits (String c r) -> is_digit c = true /\ Digits r.
Proof. unfold Digits. intros c r H. cbn [all_digits] in H. apply andb_prop in H. exact H. Qed.

Lemma Digits_nil : Digits "".
Proof. reflexivity. Qed.

Lemma Digits1_cons : forall c r, is_digit c = true -> Digits r -> Digits1 (String c r).
Proof. intros c r D H. split; [apply Digits_cons; assumption | discriminate]. Qed.

Lemma Digits1_inv : forall s, Digits1 s -> exists c r, s = String c r /\ is_digit c = true /\ Digits r.
Proof.
  intros [|c r] [H N]; [congruence|].
  apply Digits_inv in H. destruct H as [D H]. exists c, r. auto.
Qed.

Lemma digits_props : forall a, Digits a ->
  count_char "." a = 0 /\ erase_first "." a = a /\ norm_e a = a /\ count_char "e" a = 0.
Proof.
  induction a as [|c r IH]; intros H.
  - repeat split.
  - apply Digits_inv in H. destruct H as [D Hr].
    destruct (digit_ns c D) as [(A & B & C & E1 & E2) _].
    destruct (IH Hr) as (I1 & I2 & I3 & I4).
    cbn [count_char erase_first norm_e]. rewrite C, E1, E2, I1, I2, I3, I4. repeat split.
Qed.

(** * Integers *)

Lemma nonneg_int_iff : forall s, is_nonneg_int s = true <-> Digits1 s.
Proof.
  intros [|c r]; cbn [is_nonneg_int]; split.
  - discriminate.
  - intros [_ N]. congruence.
  - intros H. split; [exact H | discriminate].
  - intros [H _]. exact H.
Qed.

Lemma is_sign_true : forall c, is_sign c = true -> c = "-"%char \/ c = "+"%char.
Proof.
  intros c H. unfold is_sign in H. apply orb_prop in H.
  destruct H as [H | H]; apply Ascii.eqb_eq in H; auto.
Qed.

Lemma digit_not_sign : forall c, is_digit c = true -> is_sign c = false.
Proof.
  intros c D. destruct (digit_ns c D) as [(A & B & _) _]. unfold is_sign. rewrite A, B. reflexivity.
Qed.

Lemma is_int_iff : forall s, is_int s = true <-> IntG s.
Proof.
  intros s. split.
  - destruct s as [|c r]; [discriminate|]. cbn [is_int].
    destruct (is_sign c) eqn:S; intros H; apply nonneg_int_iff in H.
    + apply is_sign_true in S. destruct S as [-> | ->].
      * change (String "-" r) with ("-" ++ r). apply IntIntro; auto.
      * change (String "+" r) with ("+" ++ r). apply IntIntro; auto.
    + change (String c r) with ("" ++ String c r). apply IntIntro; auto.
  - intros [sg ds Hs Hd].
    destruct Hs as [-> | [-> | ->]].
    + change ("" ++ ds) with ds.
      destruct (Digits1_inv _ Hd) as (c & r & -> & D & Hr).
      cbn [is_int]. rewrite (digit_not_sign c D). apply nonneg_int_iff. exact Hd.
    + change (is_int ("+" ++ ds)) with (is_nonneg_int ds). apply nonneg_int_iff. exact Hd.
    + change (is_int ("-" ++ ds)) with (is_nonneg_int ds). apply nonneg_int_iff. exact Hd.
Qed.

(** integer automaton *)

Definition iacc (st : istate) : bool := match st with IDig => true | _ => false end.

Lemma irun_bad : forall s, irun IBad s = IBad.
Proof. induction s as [|c r IH]; cbn [irun istep]; auto. Qed.

Lemma iacc_dig : forall s, iacc (irun IDig s) = all_digits s.
Proof.
  induction s as [|c r IH]; [reflexivity|].
  cbn [irun istep all_digits]. destruct (is_digit c); cbn [andb].
  - exact IH.
  - rewrite irun_bad. reflexivity.
Qed.

Lemma iacc_sign : forall s, iacc (irun ISign s) = is_nonneg_int s.
Proof.
  intros [|c r]; [reflexivity|].
  cbn [irun istep is_nonneg_int all_digits]. destruct (is_digit c); cbn [andb].
  - apply iacc_dig.
  - rewrite irun_bad. reflexivity.
Qed.

Lemma int_dfa_is_int : forall s, int_dfa s = is_int s.
Proof.
  intros [|c r]; [reflexivity|].
  change (int_dfa (String c r)) with (iacc (irun (istep I0 c) r)).
  cbn [istep is_int]. destruct (is_sign c).
  - apply iacc_sign.
  - cbn [is_nonneg_int all_digits]. destruct (is_digit c); cbn [andb].
    + apply iacc_dig.
    + rewrite irun_bad. reflexivity.
Qed.

Lemma int_dfa_iff : forall s, int_dfa s = true <-> IntG s.
Proof. intros s. rewrite int_dfa_is_int. apply is_int_iff. Qed.

(** * Mantissa: the global-operation recogniser against MantG *)

Definition um (s : string) : bool :=
  if (count_char "." s <? 2)%nat
  then negb (str_is_empty (erase_first "." s)) && all_digits (erase_first "." s)
  else false.

Lemma erase_digits : forall s, all_digits (erase_first "." s) = true ->
  (Digits s /\ erase_first "." s = s) \/
  exists a b, s = a ++ "." ++ b /\ Digits a /\ Digits b /\ erase_first "." s = a ++ b.
Proof.
  induction s as [|c r IH]; intros H.
  - left. split; reflexivity.
  - cbn [erase_first] in H |- *. destruct (Ascii.eqb c ".") eqn:E.
    + apply Ascii.eqb_eq in E. subst c. right. exists "", r.
      repeat split. exact H.
    + cbn [all_digits] in H. apply andb_prop in H. destruct H as [D H].
      destruct (IH H) as [[Hr Er] | (a & b & -> & Da & Db & Er)].
      * left. split; [apply Digits_cons; assumption | rewrite Er; reflexivity].
      * right. exists (String c a), b. rewrite Er.
        repeat split; try assumption. apply Digits_cons; assumption.
Qed.

Lemma str_nonempty : forall s, s <> "" <-> str_is_empty s = false.
Proof. intros [|c r]; cbn; split; intros; congruence. Qed.

Lemma um_iff : forall s, um s = true <-> MantG s.
Proof.
  intros s. unfold um. split.
  - destruct (count_char "." s <? 2)%nat; [|discriminate].
    intros H. apply andb_prop in H. destruct H as [N H].
    apply negb_true_iff, str_nonempty in N.
    destruct (erase_digits s H) as [[Hs Es] | (a & b & -> & Da & Db & Es)].
    + apply MantInt. split; [exact Hs | rewrite <- Es; exact N].
    + apply MantFrac; try assumption. rewrite <- Es. exact N.
  - intros [a [Ha Na] | a b Ha Hb N].
    + destruct (digits_props a Ha) as (C & E & _ & _).
      rewrite C, E. cbn [Nat.ltb Nat.leb]. apply str_nonempty in Na. rewrite Na, Ha. reflexivity.
    + destruct (digits_props a Ha) as (Ca & _).
      destruct (digits_props b Hb) as (Cb & _).
      change (a ++ "." ++ b) with (a ++ String "." b).
      rewrite erase_app by exact Ca.
      rewrite count_char_app. cbn [count_char]. rewrite Ca, Cb. cbn.
      apply str_nonempty in N. rewrite N. rewrite all_digits_app, Ha, Hb. reflexivity.
Qed.

Lemma MantG_nonempty : forall m, MantG m -> m <> "".
Proof.
  intros m [a [_ N] | a b _ _ _]; [exact N|].
  destruct a; cbn; discriminate.
Qed.

Definition first_minus (s : string) : bool :=
  match s with String c _ => Ascii.eqb c "-" | EmptyString => false end.

Lemma MantG_first : forall m, MantG m -> first_minus m = false.
Proof.
  intros m [a Ha | a b Ha Hb _].
  - destruct (Digits1_inv _ Ha) as (c & r & -> & D & _).
    destruct (digit_ns c D) as [(A & _) _]. exact A.
  - destruct a as [|c a]; [reflexivity|].
    apply Digits_inv in Ha. destruct Ha as [D _].
    destruct (digit_ns c D) as [(A & _) _]. exact A.
Qed.

Lemma basic_real_minus : forall m, is_basic_real (String "-" m) = um m.
Proof. reflexivity. Qed.

Lemma basic_real_nominus : forall s, s <> "" -> first_minus s = false -> is_basic_real s = um s.
Proof.
  intros [|c r] N F; [congruence|]. cbn [first_minus] in F.
  unfold is_basic_real, is_basic_real_gen, um. rewrite F. reflexivity.
Qed.

(** signed mantissa *)
Definition SMant (s : string) : Prop :=
  exists sg m, s = sg ++ m /\ (sg = "" \/ sg = "-") /\ MantG m.

Lemma basic_real_iff : forall s, is_basic_real s = true <-> SMant s.
Proof.
  intros s. split.
  - destruct s as [|c r]; [discriminate|].
    destruct (Ascii.eqb c "-") eqn:E.
    + apply Ascii.eqb_eq in E. subst c. rewrite basic_real_minus. intros H.
      apply um_iff in H. exists "-", r. auto.
    + rewrite basic_real_nominus; [|discriminate|exact E]. intros H.
      apply um_iff in H. exists "", (String c r). auto.
  - intros (sg & m & -> & [-> | ->] & Hm).
    + change ("" ++ m) with m. rewrite basic_real_nominus.
      * apply um_iff. exact Hm.
      * apply MantG_nonempty. exact Hm.
      * apply MantG_first. exact Hm.
    + change ("-" ++ m) with (String "-" m). rewrite basic_real_minus. apply um_iff. exact Hm.
Qed.

(** * e-free strings *)

Definition noE (s : string) : Prop := count_char "e" (norm_e s) = 0.

Lemma noE_norm : forall s, noE s -> norm_e s = s.
Proof.
  unfold noE. induction s as [|c r IH]; intros H; [reflexivity|].
  cbn [norm_e count_char] in H |- *.
  destruct (Ascii.eqb c "E") eqn:E1.
  - cbn in H. discriminate H.
  - destruct (Ascii.eqb c "e") eqn:E2; [discriminate H|].
    rewrite (IH H). reflexivity.
Qed.

Lemma noE_count : forall s, noE s -> count_char "e" s = 0.
Proof. intros s H. pose proof (noE_norm s H) as E. unfold noE in H. rewrite E in H. exact H. Qed.

Lemma noE_app : forall a b, noE a -> noE b -> noE (a ++ b).
Proof. unfold noE. intros a b Ha Hb. rewrite norm_e_app, count_char_app. lia. Qed.

Lemma noE_digits : forall a, Digits a -> noE a.
Proof. intros a H. destruct (digits_props a H) as (_ & _ & N & C). unfold noE. rewrite N. exact C. Qed.

Lemma noE_sign : forall sg, sg = "" \/ sg = "+" \/ sg = "-" -> noE sg.
Proof. intros sg [-> | [-> | ->]]; reflexivity. Qed.

Lemma MantG_noE : forall m, MantG m -> noE m.
Proof.
  intros m [a [Ha _] | a b Ha Hb _].
  - apply noE_digits. exact Ha.
  - apply noE_app; [apply noE_digits; exact Ha|].
    apply noE_app; [reflexivity | apply noE_digits; exact Hb].
Qed.

Lemma SMant_noE : forall s, SMant s -> noE s.
Proof.
  intros s (sg & m & -> & Hs & Hm). apply noE_app.
  - apply noE_sign. tauto.
  - apply MantG_noE. exact Hm.
Qed.

Lemma SMant_nonempty : forall s, SMant s -> s <> "".
Proof.
  intros s (sg & m & -> & Hs & Hm). apply MantG_nonempty in Hm.
  destruct sg; cbn [append]; [exact Hm | discriminate].
Qed.

Lemma IntG_noE : forall s, IntG s -> noE s.
Proof.
  intros s [sg ds Hs [Hd _]]. apply noE_app; [apply noE_sign; exact Hs | apply noE_digits; exact Hd].
Qed.

Lemma split_norm : forall s, count_char "e" (norm_e s) = 1 ->
  exists s1 ec s2, s = s1 ++ String ec s2 /\ (ec = "e"%char \/ ec = "E"%char) /\
                   noE s1 /\ noE s2 /\ split_at "e" (norm_e s) = (s1, s2).
Proof.
  induction s as [|c r IH]; intros H; [discriminate H|].
  cbn [norm_e count_char split_at] in H |- *.
  destruct (Ascii.eqb c "E") eqn:E1.
  - apply Ascii.eqb_eq in E1. subst c. cbn in H.
    assert (N : noE r) by (unfold noE; lia).
    exists "", "E"%char, r. rewrite (noE_norm r N).
    repeat split; auto.
  - destruct (Ascii.eqb c "e") eqn:E2.
    + apply Ascii.eqb_eq in E2. subst c.
      assert (N : noE r) by (unfold noE; lia).
      exists "", "e"%char, r. rewrite (noE_norm r N).
      repeat split; auto.
    + destruct (IH H) as (s1 & ec & s2 & -> & Hec & N1 & N2 & Sp).
      exists (String c s1), ec, s2. rewrite Sp.
      repeat split; auto.
      unfold noE. cbn [norm_e count_char]. rewrite E1, E2. exact N1.
Qed.

(** * The real recogniser against RealG *)

Lemma is_real_eq : forall s, is_real s =
  if str_is_empty s then false else
  let n := norm_e s in
  let k := count_char "e" n in
  if (k <? 2)%nat then
    if (k =? 1)%nat then (let (sig, ex) := split_at "e" n in is_basic_real sig && is_int ex)
    else is_basic_real n
  else false.
Proof. intros [|c r]; reflexivity. Qed.

Lemma RealG_alt : forall s,
  RealG s <-> exists x e, s = x ++ e /\ SMant x /\ ExpG e.
Proof.
  intros s. split.
  - intros [sg m e Hs Hm He]. exists (sg ++ m), e. rewrite app_assoc_s.
    split; [reflexivity|]. split; [|exact He]. exists sg, m. auto.
  - intros (x & e & -> & (sg & m & -> & Hs & Hm) & He).
    rewrite app_assoc_s. apply RealIntro; assumption.
Qed.

Lemma norm_e_char : forall ec, ec = "e"%char \/ ec = "E"%char ->
  (if Ascii.eqb ec "E" then "e"%char else ec) = "e"%char.
Proof. intros ec [-> | ->]; reflexivity. Qed.

Lemma is_real_iff : forall s, is_real s = true <-> RealG s.
Proof.
  intros s. rewrite RealG_alt, is_real_eq. split.
  - destruct (str_is_empty s); [discriminate|]. cbv zeta.
    destruct (count_char "e" (norm_e s) <? 2)%nat eqn:K2; [|discriminate].
    destruct (count_char "e" (norm_e s) =? 1)%nat eqn:K1.
    + apply Nat.eqb_eq in K1.
      destruct (split_norm s K1) as (s1 & ec & s2 & -> & Hec & N1 & N2 & Sp).
      rewrite Sp. intros H. apply andb_prop in H. destruct H as [H1 H2].
      apply basic_real_iff in H1. apply is_int_iff in H2.
      exists s1, (String ec s2). split; [reflexivity|]. split; [exact H1|].
      destruct H2 as [sg ds Hs Hd]. apply ExpSome; assumption.
    + apply Nat.eqb_neq in K1. apply Nat.ltb_lt in K2.
      assert (N : noE s) by (unfold noE; lia).
      rewrite (noE_norm s N). intros H. apply basic_real_iff in H.
      exists s, "". rewrite app_nil_r_s. split; [reflexivity|]. split; [exact H | constructor].
  - intros (x & e & -> & Hx & He).
    pose proof (SMant_noE x Hx) as Nx. pose proof (SMant_nonempty x Hx) as Ne.
    assert (Em : str_is_empty (x ++ e) = false).
    { destruct x; [congruence | reflexivity]. }
    rewrite Em. cbv zeta.
    destruct He as [| ec sg ds Hec Hs Hd].
    + rewrite app_nil_r_s, (noE_norm x Nx), (noE_count x Nx). cbn.
      apply basic_real_iff. exact Hx.
    + assert (Hy : IntG (sg ++ ds)) by (apply IntIntro; assumption).
      pose proof (IntG_noE _ Hy) as Ny.
      rewrite norm_e_app. cbn [norm_e]. rewrite (norm_e_char ec Hec).
      rewrite (noE_norm x Nx), (noE_norm _ Ny).
      rewrite count_char_app. cbn [count_char]. rewrite Ascii.eqb_refl.
      rewrite (noE_count x Nx), (noE_count _ Ny). cbn [Nat.add Nat.ltb Nat.leb Nat.eqb].
      rewrite split_app by (apply noE_count; exact Nx).
      apply andb_true_intro. split; [apply basic_real_iff; exact Hx | apply is_int_iff; exact Hy].
Qed.

(** * The real automaton *)

Definition dig_next (st : rstate) : rstate :=
  match st with
  | R0 | RSign | RInt => RInt
  | RDot0 | RFrac => RFrac
  | RE | RESign | REDig => REDig
  | RBad => RBad
  end.

Lemma rstep_digit : forall c st, is_digit c = true -> rstep st c = dig_next st.
Proof.
  intros c st D. destruct (digit_ns c D) as [(A & B & C & E1 & E2) _].
  destruct st; unfold rstep, is_sign; rewrite ?D, ?A, ?B, ?C, ?E1, ?E2; reflexivity.
Qed.

Lemma rstep_other : forall c st, is_digit c = false -> not_special c -> rstep st c = RBad.
Proof.
  intros c st D (A & B & C & E1 & E2).
  destruct st; unfold rstep, is_sign; rewrite ?D, ?A, ?B, ?C, ?E1, ?E2; reflexivity.
Qed.

Lemma rstep_minus : forall st,
  rstep st "-" = match st with R0 => RSign | RE => RESign | _ => RBad end.
Proof. intros []; reflexivity. Qed.

Lemma rstep_plus : forall st,
  rstep st "+" = match st with RE => RESign | _ => RBad end.
Proof. intros []; reflexivity. Qed.

Lemma rstep_dot : forall st,
  rstep st "." = match st with R0 | RSign => RDot0 | RInt => RFrac | _ => RBad end.
Proof. intros []; reflexivity. Qed.

Lemma rstep_e : forall st,
  rstep st "e" = match st with RInt | RFrac => RE | _ => RBad end.
Proof. intros []; reflexivity. Qed.

Lemma rstep_E : forall st,
  rstep st "E" = match st with RInt | RFrac => RE | _ => RBad end.
Proof. intros []; reflexivity. Qed.

Lemma rrun_bad : forall s, rrun RBad s = RBad.
Proof. induction s as [|c r IH]; cbn [rrun rstep]; auto. Qed.

Lemma rrun_app : forall a b st, rrun st (a ++ b) = rrun (rrun st a) b.
Proof. induction a as [|c a IH]; intros b st; cbn [append rrun]; [reflexivity | apply IH]. Qed.

Lemma dig_next_idem : forall st, dig_next (dig_next st) = dig_next st.
Proof. intros []; reflexivity. Qed.

Lemma run_digits : forall a st, Digits a ->
  rrun st a = match a with EmptyString => st | _ => dig_next st end.
Proof.
  induction a as [|c r IH]; intros st H; [reflexivity|].
  apply Digits_inv in H. destruct H as [D Hr].
  cbn [rrun]. rewrite (rstep_digit c st D), (IH _ Hr).
  destruct r; [reflexivity | apply dig_next_idem].
Qed.

Lemma run_digits1 : forall a st, Digits1 a -> rrun st a = dig_next st.
Proof.
  intros a st [H N]. rewrite (run_digits a st H). destruct a; [congruence | reflexivity].
Qed.

Lemma run_digits_fix : forall a st, Digits a -> dig_next st = st -> rrun st a = st.
Proof. intros a st H F. rewrite (run_digits a st H). destruct a; auto. Qed.

(** grammar -> automaton *)

Lemma mant_run : forall m st, (st = R0 \/ st = RSign) -> MantG m ->
  rrun st m = RInt \/ rrun st m = RFrac.
Proof.
  intros m st Hst [a Ha | a b Ha Hb N].
  - left. rewrite (run_digits1 a st Ha). destruct Hst as [-> | ->]; reflexivity.
  - right. rewrite rrun_app. change ("." ++ b) with (String "." b). cbn [rrun].
    destruct a as [|c a].
    + cbn [rrun]. rewrite rstep_dot.
      assert (Hb1 : Digits1 b) by (split; [exact Hb | exact N]).
      destruct Hst as [-> | ->]; rewrite (run_digits1 b _ Hb1); reflexivity.
    + assert (Ha1 : Digits1 (String c a)) by (split; [exact Ha | discriminate]).
      rewrite (run_digits1 _ st Ha1).
      assert (E : dig_next st = RInt) by (destruct Hst as [-> | ->]; reflexivity).
      rewrite E, rstep_dot. apply run_digits_fix; [exact Hb | reflexivity].
Qed.

Lemma int_run : forall s, IntG s -> rrun RE s = REDig.
Proof.
  intros s [sg ds Hs Hd]. rewrite rrun_app.
  destruct Hs as [-> | [-> | ->]]; cbn [rrun].
  - apply (run_digits1 ds RE Hd).
  - rewrite rstep_plus. apply (run_digits1 ds RESign Hd).
  - rewrite rstep_minus. apply (run_digits1 ds RESign Hd).
Qed.

Lemma exp_run : forall e st, (st = RInt \/ st = RFrac) -> ExpG e -> raccept (rrun st e) = true.
Proof.
  intros e st Hst [| ec sg ds Hec Hs Hd].
  - destruct Hst as [-> | ->]; reflexivity.
  - cbn [rrun].
    assert (E : rstep st ec = RE).
    { destruct Hec as [-> | ->]; [rewrite rstep_e | rewrite rstep_E];
        destruct Hst as [-> | ->]; reflexivity. }
    rewrite E, int_run; [reflexivity | apply IntIntro; assumption].
Qed.

Lemma RealG_dfa : forall s, RealG s -> real_dfa s = true.
Proof.
  intros s [sg m e Hs Hm He]. unfold real_dfa. rewrite rrun_app, rrun_app.
  apply exp_run; [|exact He].
  destruct Hs as [-> | ->].
  - cbn [rrun]. apply mant_run; auto.
  - cbn [rrun]. rewrite rstep_minus. apply mant_run; auto.
Qed.

(** automaton -> grammar: the language accepted from each state *)

Definition L (st : rstate) (s : string) : Prop :=
  match st with
  | R0 => RealG s
  | RSign => exists m e, s = m ++ e /\ MantG m /\ ExpG e
  | RInt => exists a t, s = a ++ t /\ Digits a /\
                        (ExpG t \/ exists b e, t = String "." (b ++ e) /\ Digits b /\ ExpG e)
  | RDot0 => exists b e, s = b ++ e /\ Digits1 b /\ ExpG e
  | RFrac => exists b e, s = b ++ e /\ Digits b /\ ExpG e
  | RE => IntG s
  | RESign => Digits1 s
  | REDig => Digits s
  | RBad => False
  end.

Lemma L_R0_minus : forall r, L RSign r -> L R0 (String "-" r).
Proof.
  intros r (m & e & -> & Hm & He). cbn [L].
  change (String "-" (m ++ e)) with ("-" ++ m ++ e). apply RealIntro; auto.
Qed.

Lemma L_sign_R0 : forall s, L RSign s -> L R0 s.
Proof.
  intros s (m & e & -> & Hm & He). cbn [L].
  change (m ++ e) with ("" ++ m ++ e). apply RealIntro; auto.
Qed.

Lemma L_sign_digit : forall c r, is_digit c = true -> L RInt r -> L RSign (String c r).
Proof.
  intros c r D (a & t & -> & Da & [He | (b & e & -> & Db & He)]).
  - exists (String c a), t. split; [reflexivity|]. split; [|exact He].
    apply MantInt. apply Digits1_cons; assumption.
  - exists (String c a ++ "." ++ b), e. split.
    { cbn [append]. rewrite app_assoc_s. reflexivity. }
    split; [|exact He].
    apply MantFrac; [apply Digits_cons; assumption | exact Db | cbn [append]; discriminate].
Qed.

Lemma L_sign_dot : forall r, L RDot0 r -> L RSign (String "." r).
Proof.
  intros r (b & e & -> & [Db Nb] & He).
  exists ("" ++ "." ++ b), e. split; [reflexivity|]. split; [|exact He].
  apply MantFrac; [reflexivity | exact Db | exact Nb].
Qed.

Lemma L_int_digit : forall c r, is_digit c = true -> L RInt r -> L RInt (String c r).
Proof.
  intros c r D (a & t & -> & Da & Ht).
  exists (String c a), t. split; [reflexivity|]. split; [apply Digits_cons; assumption | exact Ht].
Qed.

Lemma L_int_dot : forall r, L RFrac r -> L RInt (String "." r).
Proof.
  intros r (b & e & -> & Db & He).
  exists "", (String "." (b ++ e)). split; [reflexivity|]. split; [apply Digits_nil|].
  right. exists b, e. auto.
Qed.

Lemma L_exp : forall ec r, (ec = "e"%char \/ ec = "E"%char) -> L RE r -> ExpG (String ec r).
Proof. intros ec r Hec [sg ds Hs Hd]. apply ExpSome; assumption. Qed.

Lemma L_int_e : forall ec r, (ec = "e"%char \/ ec = "E"%char) -> L RE r -> L RInt (String ec r).
Proof.
  intros ec r Hec H. exists "", (String ec r). split; [reflexivity|]. split; [apply Digits_nil|].
  left. apply L_exp; assumption.
Qed.

Lemma L_frac_e : forall ec r, (ec = "e"%char \/ ec = "E"%char) -> L RE r -> L RFrac (String ec r).
Proof.
  intros ec r Hec H. exists "", (String ec r). split; [reflexivity|]. split; [apply Digits_nil|].
  apply L_exp; assumption.
Qed.

Lemma L_dot0_digit : forall c r, is_digit c = true -> L RFrac r -> L RDot0 (String c r).
Proof.
  intros c r D (b & e & -> & Db & He).
  exists (String c b), e. split; [reflexivity|]. split; [apply Digits1_cons; assumption | exact He].
Qed.

Lemma L_frac_digit : forall c r, is_digit c = true -> L RFrac r -> L RFrac (String c r).
Proof.
  intros c r D (b & e & -> & Db & He).
  exists (String c b), e. split; [reflexivity|]. split; [apply Digits_cons; assumption | exact He].
Qed.

Lemma L_e_digit : forall c r, is_digit c = true -> L REDig r -> L RE (String c r).
Proof.
  intros c r D H. cbn [L] in *. change (String c r) with ("" ++ String c r).
  apply IntIntro; [auto | apply Digits1_cons; assumption].
Qed.

Lemma L_e_minus : forall r, L RESign r -> L RE (String "-" r).
Proof. intros r H. cbn [L] in *. change (String "-" r) with ("-" ++ r). apply IntIntro; auto. Qed.

Lemma L_e_plus : forall r, L RESign r -> L RE (String "+" r).
Proof. intros r H. cbn [L] in *. change (String "+" r) with ("+" ++ r). apply IntIntro; auto. Qed.

Lemma run_L : forall s st, raccept (rrun st s) = true -> L st s.
Proof.
  induction s as [|c r IH]; intros st H.
  - destruct st; try discriminate H; cbn [L].
    + exists "", "". split; [reflexivity|]. split; [apply Digits_nil|]. left. constructor.
    + exists "", "". split; [reflexivity|]. split; [apply Digits_nil | constructor].
    + apply Digits_nil.
  - cbn [rrun] in H.
    destruct (char_class c) as [(D & _ & _) | [-> | [-> | [-> | [-> | [-> | (D & N)]]]]]].
    + rewrite (rstep_digit c st D) in H. apply IH in H.
      destruct st; cbn [dig_next] in H.
      * apply L_sign_R0, L_sign_digit; assumption.
      * apply L_sign_digit; assumption.
      * apply L_int_digit; assumption.
      * apply L_dot0_digit; assumption.
      * apply L_frac_digit; assumption.
      * apply L_e_digit; assumption.
      * cbn [L] in *. apply Digits1_cons; assumption.
      * cbn [L] in *. apply Digits_cons; assumption.
      * contradiction.
    + rewrite rstep_minus in H. apply IH in H.
      destruct st; try contradiction.
      * apply L_R0_minus; assumption.
      * apply L_e_minus; assumption.
    + rewrite rstep_plus in H. apply IH in H.
      destruct st; try contradiction.
      apply L_e_plus; assumption.
    + rewrite rstep_dot in H. apply IH in H.
      destruct st; try contradiction.
      * apply L_sign_R0, L_sign_dot; assumption.
      * apply L_sign_dot; assumption.
      * apply L_int_dot; assumption.
    + rewrite rstep_e in H. apply IH in H.
      destruct st; try contradiction.
      * apply L_int_e; auto.
      * apply L_frac_e; auto.
    + rewrite rstep_E in H. apply IH in H.
      destruct st; try contradiction.
      * apply L_int_e; auto.
      * apply L_frac_e; auto.
    + rewrite (rstep_other c st D N) in H. apply IH in H. contradiction.
Qed.

Lemma real_dfa_iff : forall s, real_dfa s = true <-> RealG s.
Proof.
  intros s. split.
  - intros H. apply (run_L s R0). exact H.
  - apply RealG_dfa.
Qed.

Lemma is_real_dfa : forall s, is_real s = true <-> real_dfa s = true.
Proof. intros s. rewrite is_real_iff, real_dfa_iff. reflexivity. Qed.

(** * Conversions never throw *)

Definition after_sign (u : string) : bool :=
  match u with
  | String c r => if is_digit c then true
                  else if Ascii.eqb c "." then match r with String d _ => is_digit d | _ => false end
                  else false
  | EmptyString => false
  end.

Lemma dot0_next : forall r, raccept (rrun RDot0 r) = true ->
  match r with String d _ => is_digit d | _ => false end = true.
Proof.
  intros [|d r] H; [discriminate H|].
  destruct (is_digit d) eqn:D; [reflexivity|].
  cbn [rrun] in H. unfold rstep in H. rewrite D in H. rewrite rrun_bad in H. discriminate H.
Qed.

Lemma sign_after : forall u, raccept (rrun RSign u) = true -> after_sign u = true.
Proof.
  intros [|c r] H; [discriminate H|].
  cbn [rrun] in H. cbn [after_sign].
  destruct (char_class c) as [(D & _ & _) | [-> | [-> | [-> | [-> | [-> | (D & N)]]]]]].
  - rewrite D. reflexivity.
  - rewrite rstep_minus, rrun_bad in H. discriminate H.
  - rewrite rstep_plus, rrun_bad in H. discriminate H.
  - rewrite rstep_dot in H. apply dot0_next in H. exact H.
  - rewrite rstep_e, rrun_bad in H. discriminate H.
  - rewrite rstep_E, rrun_bad in H. discriminate H.
  - rewrite (rstep_other c _ D N), rrun_bad in H. discriminate H.
Qed.

Lemma dfa_strtod : forall s, real_dfa s = true -> strtod_converts s = true.
Proof.
  intros [|c r] H; [discriminate H|].
  unfold real_dfa in H. cbn [rrun] in H.
  destruct (char_class c) as [(D & S & N) | [-> | [-> | [-> | [-> | [-> | (D & N)]]]]]].
  - unfold strtod_converts. cbn [skip_space]. rewrite S, (digit_not_sign c D), D. reflexivity.
  - rewrite rstep_minus in H. apply sign_after in H. exact H.
  - rewrite rstep_plus, rrun_bad in H. discriminate H.
  - rewrite rstep_dot in H. apply dot0_next in H. exact H.
  - rewrite rstep_e, rrun_bad in H. discriminate H.
  - rewrite rstep_E, rrun_bad in H. discriminate H.
  - rewrite (rstep_other c _ D N), rrun_bad in H. discriminate H.
Qed.

Lemma convert_double_total : forall s, convert_to_double s <> DThrowsInvalidArgument.
Proof.
  intros s. unfold convert_to_double, convert_to_double_gen.
  destruct (is_real_gen true s) eqn:H; [|discriminate].
  change (is_real s = true) in H. apply is_real_dfa, dfa_strtod in H. rewrite H. discriminate.
Qed.

Lemma int_strtol : forall s, is_int s = true -> strtol_converts s = true.
Proof.
  intros [|c r] H; [discriminate H|].
  cbn [is_int] in H. destruct (is_sign c) eqn:S.
  - apply nonneg_int_iff, Digits1_inv in H. destruct H as (d & r' & -> & D & _).
    apply is_sign_true in S. destruct S as [-> | ->]; cbn; exact D.
  - apply nonneg_int_iff in H. destruct H as [H _]. apply Digits_inv in H. destruct H as [D _].
    destruct (digit_ns c D) as [_ Sp].
    unfold strtol_converts. cbn [skip_space]. rewrite Sp, S. exact D.
Qed.

Lemma convert_int_total : forall s, convert_to_int_flow s <> IThrowsInvalidArgument.
Proof.
  intros s. unfold convert_to_int_flow.
  destruct (is_int s) eqn:H; [|discriminate].
  rewrite (int_strtol s H). discriminate.
Qed.

Lemma to_int_range : forall s z, to_int s = Value z ->
  IntG s /\ z = int_value s /\ (-2147483648 <= z <= 2147483647)%Z.
Proof.
  intros s z. unfold to_int.
  destruct (is_int s) eqn:H; [|discriminate].
  destruct ((-2147483648 <=? int_value s)%Z && (int_value s <=? 2147483647)%Z) eqn:R; [|discriminate].
  intros E. injection E as <-.
  apply andb_prop in R. destruct R as [R1 R2].
  apply Z.leb_le in R1. apply Z.leb_le in R2.
  split; [apply is_int_iff; exact H|]. split; [reflexivity | split; assumption].
Qed.

Lemma to_int_rejects : forall s, to_int s = Rejected <-> ~ IntG s.
Proof.
  intros s. unfold to_int. split.
  - destruct (is_int s) eqn:H.
    + destruct ((-2147483648 <=? int_value s)%Z && (int_value s <=? 2147483647)%Z); discriminate.
    + intros _ G. apply is_int_iff in G. congruence.
  - intros G. destruct (is_int s) eqn:H; [|reflexivity].
    exfalso. apply G, is_int_iff. exact H.
Qed.

(** * Printed shapes are reals *)

Definition gacc (st : gstate) : bool :=
  match st with GInt | GFrac | GEDig => true | _ => false end.

Definition g2r (g : gstate) : rstate :=
  match g with
  | G0 => R0 | GSign => RSign | GInt => RInt | GDot => RFrac | GFrac => RFrac
  | GE => RE | GESign => RESign | GEDig => REDig | GBad => RBad
  end.

Lemma grun_bad : forall s, grun GBad s = GBad.
Proof. induction s as [|c r IH]; cbn [grun gstep]; auto. Qed.

Lemma sim_step : forall g c, gstep g c = GBad \/ rstep (g2r g) c = g2r (gstep g c).
Proof.
  intros g c.
  destruct (char_class c) as [(D & _ & A & B & C & E1 & E2) | [-> | [-> | [-> | [-> | [-> | (D & A & B & C & E1 & E2)]]]]]];
    try (destruct g; vm_compute; auto; fail);
    destruct g; unfold gstep, rstep, g2r, is_sign; rewrite ?D, ?A, ?B, ?C, ?E1, ?E2; cbn; auto.
Qed.

Lemma sim_run : forall s g, gacc (grun g s) = true -> raccept (rrun (g2r g) s) = true.
Proof.
  induction s as [|c r IH]; intros g H.
  - destruct g; try discriminate H; reflexivity.
  - cbn [grun rrun] in *. destruct (sim_step g c) as [B | E].
    + rewrite B, grun_bad in H. discriminate H.
    + rewrite E. apply IH. exact H.
Qed.

Lemma g15_is_real : forall t, g15_shape t = true -> is_real t = true.
Proof.
  intros t H. apply is_real_dfa. unfold real_dfa.
  change R0 with (g2r G0). apply sim_run. exact H.
Qed.

(** * Refutation of the unfixed code, and non-vacuity *)

Lemma unfixed_refuted :
  exists s, is_real_gen false s = true /\ ~ RealG s /\
            convert_to_double_gen false s = DThrowsInvalidArgument.
Proof.
  exists "-". split; [reflexivity|]. split; [|reflexivity].
  intros G. apply real_dfa_iff in G. vm_compute in G. discriminate G.
Qed.

Lemma nonvacuous :
  RealG "-1.5e+07" /\ IntG "+12" /\ is_real "-1.5e+07" = true /\ to_int "+12" = Value 12%Z.
Proof.
  split; [apply real_dfa_iff; reflexivity|].
  split; [apply is_int_iff; reflexivity|].
  split; reflexivity.
Qed.
