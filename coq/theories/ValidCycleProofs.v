(** ValidCycleProofs.v — C04 proofs: the units-cycle detector of validateUnits is total and exact on EVERY reference graph
    (cyclic or not): it never recurses more than the fuel allows, and it reports a cycle iff one can be reached. *)
From Coq Require Import String Ascii List Bool Arith ZArith Lia Relations Operators_Properties.
From LC Require Import Common NumDefs NumSpec MathDefs ValidDefs ValidSpec ValidLeaf ValidUnitsProofs.
Import ListNotations.
Local Open Scope string_scope.
Local Open Scope list_scope.
Local Open Scope nat_scope.

Definition is_cycle_issue (i : rissue) : Prop := rule_of i = V_UNIT_UNITS_CIRCULAR_REFERENCE.
Definition is_fuel_issue (i : rissue) : Prop := rule_of i = V_OUT_OF_FUEL.

Lemma plains_rule : forall l i, In i (plains l) -> In (rule_of i) l.
Proof. intros l i H. unfold plains in H. apply in_map_iff in H. destruct H as [r [Hr Hin]]. subst i. exact Hin. Qed.

(** the issues of one call are its own (none of them a cycle or fuel issue) or those of a nested call on a referenced units *)
Lemma validate_units_mem : forall f W hist u i, units_stay_local (model_at W 0) -> In u (m_units (model_at W 0)) ->
  local_cycle hist (epoch_of u) = false -> In i (validate_units (S f) W 0 true hist u ORIGIN) ->
  (~ is_cycle_issue i /\ ~ is_fuel_issue i) \/
  (exists it t, In it (u_items u) /\ is_ident (ui_ref it) = true /\ is_std_unit (ui_ref it) = false
                /\ find_units (m_units (model_at W 0)) (ui_ref it) = Some t
                /\ In i (validate_units f W 0 true (hist ++ [epoch_of u]) t ORIGIN)).
Proof.
  intros f W hist u i Hloc Hu Hcyc Hi. cbn [validate_units] in Hi. fold (epoch_of u) in Hi. rewrite Hcyc in Hi.
  specialize (Hloc u Hu). set (m := model_at W 0) in *.
  assert (Hplain : forall l, In i (plains l) -> ~ In V_UNIT_UNITS_CIRCULAR_REFERENCE l -> ~ In V_OUT_OF_FUEL l ->
                   ~ is_cycle_issue i /\ ~ is_fuel_issue i).
  { intros l Hl H1 H2. apply plains_rule in Hl. unfold is_cycle_issue, is_fuel_issue. split; intro E; rewrite E in Hl; contradiction. }
  assert (Hkeyed : forall (b : bool) k, In i (if b then [Keyed k] else []) -> key_rule k <> V_UNIT_UNITS_CIRCULAR_REFERENCE ->
                   key_rule k <> V_OUT_OF_FUEL -> ~ is_cycle_issue i /\ ~ is_fuel_issue i).
  { intros b k Hl H1 H2. destruct b; [|destruct Hl]. destruct Hl as [Hl|[]]. subst i. unfold is_cycle_issue, is_fuel_issue. cbn. tauto. }
  destruct (u_imp u) as [[s r]|] eqn:Eimp.
  - destruct Hloc as [Hm Hit]. rewrite Hm, Hit in Hi. cbn [flat_map] in Hi. left.
    repeat (apply in_app_or in Hi; destruct Hi as [Hi|Hi]); try (destruct Hi; fail).
    + apply (Hplain _ Hi).
      * intro H. apply in_app_or in H. destruct H as [H|H].
        -- destruct (is_ident r); [destruct H | destruct H as [H|[]]; discriminate H].
        -- unfold validate_import_source in H. apply in_app_or in H. destruct H as [H|H].
           ++ destruct (is_xml_name (is_id s)); [destruct H | destruct H as [H|[]]; discriminate H].
           ++ destruct (str_is_empty (is_url s)); [destruct H as [H|[]]; discriminate H|].
              destruct (is_url_ok s); [destruct H | destruct H as [H|[]]; discriminate H].
      * intro H. apply in_app_or in H. destruct H as [H|H].
        -- destruct (is_ident r); [destruct H | destruct H as [H|[]]; discriminate H].
        -- unfold validate_import_source in H. apply in_app_or in H. destruct H as [H|H].
           ++ destruct (is_xml_name (is_id s)); [destruct H | destruct H as [H|[]]; discriminate H].
           ++ destruct (str_is_empty (is_url s)); [destruct H as [H|[]]; discriminate H|].
              destruct (is_url_ok s); [destruct H | destruct H as [H|[]]; discriminate H].
    + destruct ((if is_ident r then [] else [V_IMPORT_UNITS_UNITS_REFERENCE_VALUE]) ++ validate_import_source s); [|destruct Hi].
      apply (Hkeyed _ _ Hi); cbn; discriminate.
    + apply (Hkeyed _ _ Hi); destruct (is_import_u u); cbn; discriminate.
    + apply (Hplain _ Hi); intro H; destruct (negb (is_ident (u_name u))); try (destruct (is_import_u u)); try (destruct (is_std_unit (u_name u)));
        cbn in H; repeat (destruct H as [H|H]; try discriminate H); try contradiction.
    + apply (Hplain _ Hi); intro H; destruct (is_xml_name (u_id u)); cbn in H; repeat (destruct H as [H|H]; try discriminate H); try contradiction.
  - cbn [app] in Hi.
    repeat (apply in_app_or in Hi; destruct Hi as [Hi|Hi]).
    + left. apply (Hkeyed _ _ Hi); destruct (is_import_u u); cbn; discriminate.
    + left. apply (Hplain _ Hi); intro H; destruct (negb (is_ident (u_name u))); try (destruct (is_import_u u)); try (destruct (is_std_unit (u_name u)));
        cbn in H; repeat (destruct H as [H|H]; try discriminate H); try contradiction.
    + left. apply (Hplain _ Hi); intro H; destruct (is_xml_name (u_id u)); cbn in H; repeat (destruct H as [H|H]; try discriminate H); try contradiction.
    + apply in_flat_map in Hi. destruct Hi as [it [Hit Hi]].
      repeat (apply in_app_or in Hi; destruct Hi as [Hi|Hi]).
      * destruct (is_ident (ui_ref it)) eqn:E1.
        -- destruct (is_std_unit (ui_ref it)) eqn:E2; [destruct Hi|].
           destruct (find_units (m_units m) (ui_ref it)) as [t|] eqn:E3.
           ++ right. exists it, t. repeat split; assumption.
           ++ left. destruct Hi as [Hi|[]]. subst i. unfold is_cycle_issue, is_fuel_issue. cbn. split; discriminate.
        -- left. destruct Hi as [Hi|[]]. subst i. unfold is_cycle_issue, is_fuel_issue. cbn. split; discriminate.
      * left. apply (Hplain _ Hi); intro H; destruct (is_xml_name (ui_id it)); cbn in H; repeat (destruct H as [H|H]; try discriminate H); try contradiction.
      * left. apply (Hplain _ Hi); intro H; unfold validate_prefix in H;
          destruct (str_is_empty (ui_prefix it)); try (destruct H; fail);
          destruct (is_std_prefix (ui_prefix it)); try (destruct H; fail);
          destruct (is_int (ui_prefix it)); cbn in H; try (destruct (to_int (ui_prefix it))); cbn in H;
          repeat (destruct H as [H|H]; try discriminate H); try contradiction.
Qed.

(** the history of a call: names distinct, all names of units of the model, all epochs local *)
Definition hist_ok (m : model) (hist : list epoch) : Prop :=
  NoDup (map ep_name hist) /\ incl (map ep_name hist) (map u_name (m_units m)) /\ Forall (fun e => ep_src e = ORIGIN) hist.

Lemma local_cycle_false_notin : forall hist u, Forall (fun e => ep_src e = ORIGIN) hist ->
  local_cycle hist (epoch_of u) = false -> ~ In (u_name u) (map ep_name hist).
Proof.
  intros hist u Hsrc H Hin. apply in_map_iff in Hin. destruct Hin as [e [He1 He2]].
  unfold local_cycle in H. assert (Ht : existsb (fun i => String.eqb (ep_name i) (ep_name (epoch_of u)) && String.eqb (ep_src i) (ep_src (epoch_of u))) hist = true).
  { apply existsb_exists. exists e. split; [exact He2|]. rewrite Forall_forall in Hsrc. rewrite (Hsrc e He2). cbn. rewrite He1, !String.eqb_refl. reflexivity. }
  congruence.
Qed.

Lemma hist_ok_push : forall m hist u, hist_ok m hist -> In u (m_units m) -> local_cycle hist (epoch_of u) = false ->
  hist_ok m (hist ++ [epoch_of u]).
Proof.
  intros m hist u [H1 [H2 H3]] Hu Hc. unfold hist_ok. rewrite map_app. cbn [map]. repeat split.
  - apply nodup_app_iff. repeat split; [exact H1 | constructor; [intros [] | constructor]|].
    intros x Hx [Hx'|[]]. cbn in Hx'. subst x. apply (local_cycle_false_notin hist u H3 Hc Hx).
  - intros x Hx. apply in_app_or in Hx. destruct Hx as [Hx|[Hx|[]]]; [apply H2; exact Hx|]. subst x. cbn. apply in_map. exact Hu.
  - apply Forall_app. split; [exact H3 | constructor; [reflexivity | constructor]].
Qed.

(** TOTAL: with the fuel validateModel gives it, the recursion never exhausts it — on any graph *)
Lemma never_out_of_fuel : forall W, units_stay_local (model_at W 0) ->
  forall fuel hist u i, In u (m_units (model_at W 0)) -> hist_ok (model_at W 0) hist ->
    length hist + fuel > length (m_units (model_at W 0)) ->
    In i (validate_units fuel W 0 true hist u ORIGIN) -> ~ is_fuel_issue i.
Proof.
  intros W Hloc. set (m := model_at W 0) in *. induction fuel as [|f IH]; intros hist u i Hu Hh Hlen Hi.
  - exfalso. destruct Hh as [H1 [H2 _]]. pose proof (NoDup_incl_length H1 H2) as Hle. rewrite !map_length in Hle. lia.
  - destruct (local_cycle hist (epoch_of u)) eqn:Ec.
    + cbn [validate_units] in Hi. fold (epoch_of u) in Hi. rewrite Ec in Hi. destruct Hi as [Hi|[]]. subst i.
      unfold is_fuel_issue. cbn. discriminate.
    + destruct (validate_units_mem f W hist u i Hloc Hu Ec Hi) as [[_ H]|[it [t [_ [_ [_ [Hf Hn]]]]]]]; [exact H|].
      destruct (find_first_named _ _ _ Hf) as [_ [Ht _]].
      apply (IH (hist ++ [epoch_of u]) t i Ht); [apply hist_ok_push; assumption | rewrite app_length; simpl; lia | exact Hn].
Qed.

(** EXACT, one direction: a reported cycle is a cycle of the reference graph that the units reaches *)
Lemma cycle_issue_sound : forall W, units_stay_local (model_at W 0) ->
  forall fuel hist u i, In u (m_units (model_at W 0)) -> first_named (model_at W 0) u ->
    chain (model_at W 0) (map ep_name hist ++ [u_name u]) -> Forall (fun e => ep_src e = ORIGIN) hist ->
    In i (validate_units fuel W 0 true hist u ORIGIN) -> is_cycle_issue i -> reaches_cycle (model_at W 0) (u_name u).
Proof.
  intros W Hloc. set (m := model_at W 0) in *. induction fuel as [|f IH]; intros hist u i Hu Hfn Hch Hsrc Hi Hc.
  - cbn in Hi. destruct Hi as [Hi|[]]. subst i. discriminate Hc.
  - destruct (local_cycle hist (epoch_of u)) eqn:Ec.
    + (* the name is in the history: the chain from there to here closes a cycle *)
      unfold local_cycle in Ec. apply existsb_exists in Ec. destruct Ec as [e [He Hn]]. apply andb_true_iff in Hn.
      destruct Hn as [Hn _]. apply String.eqb_eq in Hn. cbn in Hn.
      apply In_nth_error in He. destruct He as [j Hj].
      assert (Hj' : nth_error (map ep_name hist ++ [u_name u]) j = Some (u_name u)).
      { rewrite nth_error_app1 by (rewrite map_length; apply nth_error_Some; rewrite Hj; discriminate).
        rewrite nth_error_map, Hj. cbn. rewrite Hn. reflexivity. }
      assert (Hlast : nth_error (map ep_name hist ++ [u_name u]) (length hist) = Some (u_name u)).
      { rewrite nth_error_app2 by (rewrite map_length; lia). rewrite map_length, Nat.sub_diag. reflexivity. }
      assert (Hjlt : j < length hist) by (apply nth_error_Some; rewrite Hj; discriminate).
      exists (u_name u). split; [apply rt_refl|].
      apply (chain_reach m _ Hch (length hist - j - 1) j (u_name u) (u_name u) Hj').
      replace (S (j + (length hist - j - 1))) with (length hist) by lia. exact Hlast.
    + destruct (validate_units_mem f W hist u i Hloc Hu Ec Hi) as [[H _]|[it [t [Hit [Hid [Hstd [Hf Hn]]]]]]]; [contradiction|].
      destruct (find_first_named _ _ _ Hf) as [Ht1 [Ht2 Ht3]].
      assert (He : uedge m (u_name u) (u_name t)) by (apply (uedge_of_item m u it t); assumption).
      assert (Hr : reaches_cycle m (u_name t)).
      { apply (IH (hist ++ [epoch_of u]) t i Ht2 Ht1); try assumption.
        - rewrite map_app. cbn [map]. replace (ep_name (epoch_of u)) with (u_name u) by reflexivity. apply chain_snoc; assumption.
        - apply Forall_app. split; [exact Hsrc | constructor; [reflexivity | constructor]]. }
      destruct Hr as [x [Hx1 Hx2]]. exists x. split; [|exact Hx2]. apply rt_trans with (u_name t); [apply rt_step; exact He | exact Hx1].
Qed.

(** EXACT, other direction: below a reachable cycle the output contains a cycle issue or a fuel issue *)
Lemma cycle_issue_complete : forall W, units_stay_local (model_at W 0) ->
  forall fuel hist u, In u (m_units (model_at W 0)) -> first_named (model_at W 0) u ->
    reaches_cycle (model_at W 0) (u_name u) ->
    exists i, In i (validate_units fuel W 0 true hist u ORIGIN) /\ (is_cycle_issue i \/ is_fuel_issue i).
Proof.
  intros W Hloc. set (m := model_at W 0) in *. induction fuel as [|f IH]; intros hist u Hu Hfn Hc.
  - exists (plain V_OUT_OF_FUEL). split; [left; reflexivity | right; reflexivity].
  - destruct (local_cycle hist (epoch_of u)) eqn:E.
    + cbn [validate_units]. fold (epoch_of u). rewrite E. eexists. split; [left; reflexivity | left; reflexivity].
    + destruct (reaches_cycle_step _ _ Hc) as [r [He Hr]].
      destruct (uedge_inv _ _ _ He) as [u' [it [t [H1 [H2 [H3 [H4 [H5 H6]]]]]]]].
      unfold first_named in Hfn. fold m in H1. rewrite Hfn in H1. inversion H1; subst u'. subst r.
      destruct (find_first_named _ _ _ H6) as [Ht1 [Ht2 Ht3]].
      destruct (IH (hist ++ [epoch_of u]) t Ht2 Ht1) as [i [Hi Hci]]; [rewrite Ht3; exact Hr|].
      exists i. split; [|exact Hci].
      (* the nested call's issues are part of this call's issues *)
      cbn [validate_units]. fold (epoch_of u). rewrite E.
      pose proof (Hloc u Hu) as Hl. destruct (u_imp u) as [[s r]|] eqn:Eimp.
      * destruct Hl as [_ Hl]. rewrite Hl in H2. destruct H2.
      * cbn [app]. apply in_or_app. right. apply in_or_app. right. apply in_or_app. right.
        apply in_flat_map. exists it. split; [exact H2|]. apply in_or_app. left. fold m. rewrite H4, H5, H6. exact Hi.
Qed.

Theorem unit_cycle_detector_total : forall W u, units_stay_local (model_at W 0) ->
  In u (m_units (model_at W 0)) -> first_named (model_at W 0) u ->
  let out := validate_units (units_fuel W) W 0 true [] u ORIGIN in
  (forall i, In i out -> ~ is_fuel_issue i)
  /\ ((exists i, In i out /\ is_cycle_issue i) <-> reaches_cycle (model_at W 0) (u_name u)).
Proof.
  intros W u Hloc Hu Hfn out.
  assert (Hfuel : forall i, In i out -> ~ is_fuel_issue i).
  { intros i Hi. apply (never_out_of_fuel W Hloc (units_fuel W) [] u i Hu); [|cbn [length]; pose proof (units_fuel_enough W); lia | exact Hi].
    repeat split; [constructor | intros x [] | constructor]. }
  split; [exact Hfuel|]. split.
  - intros [i [Hi Hc]]. apply (cycle_issue_sound W Hloc (units_fuel W) [] u i Hu Hfn); try assumption; [|constructor].
    cbn. intros j a b Ha Hb. destruct j; cbn in Hb; [discriminate Hb | destruct j; discriminate Hb].
  - intro Hc. destruct (cycle_issue_complete W Hloc (units_fuel W) [] u Hu Hfn Hc) as [i [Hi [H|H]]].
    + exists i. split; assumption.
    + exfalso. apply (Hfuel i Hi H).
Qed.
