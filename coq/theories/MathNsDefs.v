(** MathNsDefs.v — C14: the MathML branch of ParserImpl::loadComponent on trees that carry namespace DECLARATIONS and
    PREFIXES (a layer of its own: XmlDefs / Load1xDefs, shared with C02, know an attribute only as namespace URI + local
    name + value).  No proofs here.

    [nxml]: an element has its prefix, its resolved namespace URI, its local name, the xmlns declarations written ON it
    (prefix, URI; prefix "" = the default namespace) in order, its attributes (prefix, resolved URI, local name, value)
    and its children.  This is what libxml2 holds: node->ns (prefix, href), node->nsDef, attr->ns.

    [stored_math m] = the tree that XmlNode::convertToString() serialises for a math element m of a CellML 1.0 / 1.1
    component (src/parser.cpp loadComponent, math branch; src/xmlutils.cpp; src/xmlnode.cpp; src/xmlattribute.cpp):
      1. attributesWithCellml1XNamespace(math->firstChild()): the attributes below math whose namespace is 1.0 / 1.1;
      2. removeCellml1XNamespaces(math, true): on math and on every element below it the declarations of a 1.0 / 1.1
         URI are taken out of nsDef, and clearNamespace() resets node->ns / attr->ns of everything that pointed to the
         removed declaration (the nearest declaration of its prefix): such an element or attribute has no namespace
         and no prefix afterwards;
      3. if step 1 found something: addNamespaceDefinition(CellML 2.0, "cellml") on math (xmlNewNs refuses when math
         already declares the prefix cellml), then for each collected attribute XmlAttribute::setNamespacePrefix("cellml"):
         value() = value of the FIRST attribute of the element with that local name; xmlSetProp(parent, "cellml:<name>", value)
         resolves the prefix cellml with xmlSearchNs (nearest declaration upwards: the element itself ... math) and
         xmlSetNsProp overwrites the attribute of that namespace and name or appends a new one (prefix cellml); the old
         attribute is removed;
      4. traverseTreeForUndefinedNamespaces(math->firstChild()) / determineMissingNamespaces: every prefix used by an
         attribute of an element below math that is not declared ON that element and not on math is declared on math
         (std::map semantics: per prefix, the last element in document order wins).
    The serialisation writes prefix:name for elements and attributes and every nsDef entry; the check compares exactly
    that (qualified names, declarations, attributes, text) with the stored math string, up to the order of declarations
    and attributes. *)
From Coq Require Import String Ascii List Bool Arith.
From LC Require Import XmlDefs Load1xDefs.
Import ListNotations.
Local Open Scope string_scope.
Local Open Scope bool_scope.
Local Open Scope list_scope.

Record nattr := mkNA { nt_prefix : string; nt_ns : string; nt_name : string; nt_val : string }.

Inductive nxml :=
| NElem (prefix ns name : string) (decls : list (string * string)) (attrs : list nattr) (kids : list nxml)
| NText (s : string)
| NComment.

(** forget prefixes and declarations: the tree Load1xDefs works on *)
Fixpoint erase (x : nxml) : xml :=
  match x with
  | NElem _ ns nm _ attrs ks =>
    Elem ns nm (map (fun a => mkAttr (nt_ns a) (nt_name a) (nt_val a)) attrs)
         ((fix go (l : list nxml) : list xml := match l with [] => [] | k :: r => erase k :: go r end) ks)
  | NText s => Text s
  | NComment => Comment
  end.

Definition decl_is_1x (d : string * string) : bool := ns_is_1x (snd d).
Definition has_prefix (p : string) (ds : list (string * string)) : bool := existsb (fun d => String.eqb (fst d) p) ds.
Definition decl_uri (p : string) (ds : list (string * string)) : option string :=
  option_map snd (find (fun d => String.eqb (fst d) p) ds).

(** step 1 *)
Fixpoint has_1x_attr (x : nxml) : bool :=
  match x with
  | NElem _ _ _ _ attrs ks =>
    existsb (fun a => ns_is_1x (nt_ns a)) attrs
    || (fix go (l : list nxml) : bool := match l with [] => false | k :: r => has_1x_attr k || go r end) ks
  | _ => false
  end.

(** step 2: [env] = the declarations met from math downwards, innermost first: (prefix, was it removed?) *)
Definition removed_in (env : list (string * bool)) (p : string) : bool :=
  match find (fun e => String.eqb (fst e) p) env with Some e => snd e | None => false end.

(** step 3 on one element.  The attributes travel with a mark: collected in step 1 or not. *)
Definition first_nval (l : list (bool * nattr)) (name dflt : string) : string :=
  match find (fun e => String.eqb (nt_name (snd e)) name) l with Some e => nt_val (snd e) | None => dflt end.

(* xmlSetNsProp(node, ns = (cellml, target), name, val): overwrite the value of the first attribute of that namespace and
   local name, else append *)
Definition nhit (target name : string) (e : bool * nattr) : bool :=
  String.eqb (nt_name (snd e)) name && String.eqb (nt_ns (snd e)) target && negb (String.eqb (nt_prefix (snd e)) "").

Fixpoint nset_go (target name val : string) (l : list (bool * nattr)) (done : bool) : list (bool * nattr) :=
  match l with
  | [] => []
  | e :: r => if negb done && nhit target name e
              then (fst e, mkNA (nt_prefix (snd e)) (nt_ns (snd e)) (nt_name (snd e)) val) :: nset_go target name val r true
              else e :: nset_go target name val r done
  end.

Definition nset_prop (l : list (bool * nattr)) (target name val : string) : list (bool * nattr) :=
  if existsb (nhit target name) l then nset_go target name val l false
  else l ++ [(false, mkNA "cellml" target name val)].

(* the first marked attribute: (those before it, itself, those after it) *)
Fixpoint split_marked (l : list (bool * nattr)) : option (list (bool * nattr) * nattr * list (bool * nattr)) :=
  match l with
  | [] => None
  | e :: r => if fst e then Some ([], snd e, r)
              else match split_marked r with Some (a, x, b) => Some (e :: a, x, b) | None => None end
  end.

Fixpoint move_marked (fuel : nat) (target : string) (l : list (bool * nattr)) : list (bool * nattr) :=
  match fuel with
  | O => l
  | S f =>
    match split_marked l with
    | None => l
    | Some (a, x, b) =>
      (* value() looks at the element as it is (old attribute included); xmlSetNsProp cannot hit the old attribute (its
         namespace is a 1.x one or none), so setting the property and unlinking the old attribute commute *)
      let val := first_nval l (nt_name x) (nt_val x) in
      move_marked f target (nset_prop (a ++ b) target (nt_name x) val)
    end
  end.

(** steps 2 + 3 below (and on) the math element; [binding] = what the prefix cellml resolves to at the parent *)
Fixpoint process (env : list (string * bool)) (binding : string) (x : nxml) : nxml :=
  match x with
  | NElem p ns nm decls attrs ks =>
    let env' := map (fun d => (fst d, decl_is_1x d)) decls ++ env in
    let decls' := filter (fun d => negb (decl_is_1x d)) decls in
    let binding' := match decl_uri "cellml" decls' with Some u => u | None => binding end in
    let cleared_el := removed_in env' p in
    let marked := map (fun a => (ns_is_1x (nt_ns a),
                                 if negb (String.eqb (nt_prefix a) "") && removed_in env' (nt_prefix a)
                                 then mkNA "" "" (nt_name a) (nt_val a) else a)) attrs in
    let attrs' := map snd (move_marked (length attrs) binding' marked) in
    NElem (if cleared_el then "" else p) (if cleared_el then "" else ns) nm decls' attrs'
          ((fix go (l : list nxml) : list nxml := match l with [] => [] | k :: r => process env' binding' k :: go r end) ks)
  | NText s => NText s
  | NComment => NComment
  end.

(** step 4: prefix -> URI, a later entry overrides an earlier one *)
Fixpoint override (m : list (string * string)) (p u : string) : list (string * string) :=
  match m with
  | [] => [(p, u)]
  | e :: r => if String.eqb (fst e) p then (p, u) :: r else e :: override r p u
  end.

Definition first_per_prefix (attrs : list nattr) : list (string * string) :=
  fold_left (fun acc a => if String.eqb (nt_prefix a) "" || has_prefix (nt_prefix a) acc then acc
                          else acc ++ [(nt_prefix a, nt_ns a)]) attrs [].

Fixpoint undefined_ns (acc : list (string * string)) (x : nxml) : list (string * string) :=
  match x with
  | NElem _ _ _ decls attrs ks =>
    let missing := filter (fun e => negb (has_prefix (fst e) decls)) (first_per_prefix attrs) in
    let acc1 := fold_left (fun m e => override m (fst e) (snd e)) missing acc in
    (fix go (l : list nxml) (m : list (string * string)) : list (string * string) :=
       match l with [] => m | k :: r => go r (undefined_ns m k) end) ks acc1
  | _ => acc
  end.

(** the math element as it is serialised into the component's math string *)
Definition stored_math (x : nxml) : nxml :=
  match x with
  | NElem p ns nm decls attrs ks =>
    let found := existsb has_1x_attr ks in
    let env := map (fun d => (fst d, decl_is_1x d)) decls in
    let decls1 := filter (fun d => negb (decl_is_1x d)) decls in
    let decls2 := if found && negb (has_prefix "cellml" decls1) then decls1 ++ [("cellml", CELLML_2_0_NS)] else decls1 in
    let binding := match decl_uri "cellml" decls2 with Some u => u | None => "" end in
    let cleared_el := removed_in env p in
    (* the math element's own attributes are not collected, but a removed declaration clears them *)
    let attrs' := map (fun a => if negb (String.eqb (nt_prefix a) "") && removed_in env (nt_prefix a)
                                then mkNA "" "" (nt_name a) (nt_val a) else a) attrs in
    let ks' := map (process env binding) ks in
    let undefined := fold_left undefined_ns ks' [] in
    let decls3 := decls2 ++ filter (fun e => negb (has_prefix (fst e) decls2)) undefined in
    NElem (if cleared_el then "" else p) (if cleared_el then "" else ns) nm decls3 attrs' ks'
  | _ => x
  end.

(** no declaration of a 1.0 / 1.1 namespace anywhere *)
Fixpoint no_1x_decl (x : nxml) : bool :=
  match x with
  | NElem _ _ _ decls _ ks =>
    forallb (fun d => negb (decl_is_1x d)) decls
    && (fix go (l : list nxml) : bool := match l with [] => true | k :: r => no_1x_decl k && go r end) ks
  | _ => true
  end.

(** no declaration of a 1.x namespace and no attribute in one, anywhere *)
Definition attr_clean (a : nattr) : bool := negb (ns_is_1x (nt_ns a)).

Fixpoint clean_tree (x : nxml) : bool :=
  match x with
  | NElem _ _ _ decls attrs ks =>
    forallb (fun d => negb (decl_is_1x d)) decls && forallb attr_clean attrs
    && (fix go (l : list nxml) : bool := match l with [] => true | k :: r => clean_tree k && go r end) ks
  | _ => true
  end.


(** closed examples: the legacy prefix declared on math / on an inner element but not used; declared on math and used *)
Definition nmath (decls : list (string * string)) (ks : list nxml) : nxml := NElem "" MATHML_NS "math" (("", MATHML_NS) :: decls) [] ks.
Definition nel (name : string) (decls : list (string * string)) (attrs : list nattr) (ks : list nxml) : nxml :=
  NElem "" MATHML_NS name decls attrs ks.
Definition ex_unused_on_math : nxml :=
  nmath [("cellml", CELLML_1_0_NS)] [nel "apply" [] [] [nel "eq" [] [] []; nel "ci" [] [] [NText "x"]; nel "ci" [] [] [NText "x"]]].
Definition ex_unused_inner : nxml :=
  nmath [] [nel "apply" [("cellml", CELLML_1_1_NS)] [] [nel "eq" [] [] []; nel "ci" [("c", CELLML_1_0_NS)] [] [NText "x"]; nel "ci" [] [] [NText "x"]]].
Definition ex_used : nxml :=
  nmath [("cellml", CELLML_1_0_NS)]
        [nel "apply" [] [] [nel "eq" [] [] []; nel "ci" [] [] [NText "x"];
                            nel "cn" [] [mkNA "cellml" CELLML_1_0_NS "units" "second"; mkNA "" "" "type" "real"] [NText "1"]]].
