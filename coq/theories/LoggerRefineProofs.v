(** LoggerRefineProofs.v — the logger refines an abstract specification (C15).

    Abstract state: the list of issues in insertion order, nothing else.  Abstract operations: append, clear,
    "remove the k-th error".  Abstract observations: the k-th issue, the k-th issue of a level, lengths.
    The concrete logger of LoggerDefs.v (issue list + three index vectors, logger.cpp) is related to it by
    [Refines s l := issues s = l /\ Inv s]; every operation commutes with the abstraction, for every operation
    sequence in which each removal hits the last issue (stated on the ABSTRACT side), and every observation of
    the concrete state is the abstract one.  No executable definition of LoggerDefs.v is changed. *)
From Coq Require Import String List Bool Arith Lia.
From LC Require Import LoggerDefs LoggerProofs.
Import ListNotations.
Local Open Scope list_scope.
Local Open Scope nat_scope.

(* ------------------------------------------------------------------------------------------------ *)
(** * The specification *)

Definition spec := list issue.

(** remove the k-th element (counted from 0) that satisfies f; None when there are not that many *)
Fixpoint remove_kth {A} (f : A -> bool) (k : nat) (l : list A) : option (list A) :=
  match l with
  | [] => None
  | x :: r =>
    if f x then match k with
                | 0 => Some r
                | S k' => option_map (cons x) (remove_kth f k' r)
                end
    else option_map (cons x) (remove_kth f k r)
  end.

Definition spec_step (o : op) (l : spec) : option spec :=
  match o with
  | OAdd x => Some (l ++ [x])
  | ORemoveAll => Some []
  | ORemoveError k => remove_kth (has_level LError) k l
  end.

(** all operations, left to right; None = some removal asked for an error that is not there *)
Definition run_spec (ops : list op) (l : spec) : option spec :=
  fold_left (fun acc o => match acc with Some l => spec_step o l | None => None end) ops (Some l).

(** abstract observations *)
Definition spec_issue (l : spec) (k : nat) : option issue := nth_error l k.
Definition spec_of_level (lv : level) (l : spec) (k : nat) : option issue := nth_error (filter (has_level lv) l) k.
Definition spec_count (lv : level) (l : spec) : nat := length (filter (has_level lv) l).

Definition observe (o : option issue) : access := match o with Some x => AIssue x | None => ANull end.

(** the k-th error is the last issue of the list (the only removals the services make) *)
Definition spec_last_error (k : nat) (l : spec) : Prop :=
  exists l' x, l = l' ++ [x] /\ i_level x = LError /\ k = spec_count LError l'.

Fixpoint spec_wf (ops : list op) (l : spec) : Prop :=
  match ops with
  | [] => True
  | o :: r =>
    match o with ORemoveError k => spec_last_error k l | _ => True end /\
    match spec_step o l with Some l' => spec_wf r l' | None => False end
  end.

(** the refinement relation *)
Definition Refines (s : logger) (l : spec) : Prop := issues s = l /\ Inv s.

(* ------------------------------------------------------------------------------------------------ *)
(** * Lists *)

Lemma remove_nth_0 : forall A (x : A) r, remove_nth 0 (x :: r) = r.
Proof. reflexivity. Qed.

Lemma remove_nth_S : forall A (x : A) r n, remove_nth (S n) (x :: r) = x :: remove_nth n r.
Proof. reflexivity. Qed.

Lemma remove_kth_positions : forall lv l b k p,
  nth_error (positions_from b lv l) k = Some p ->
  b <= p /\ remove_kth (has_level lv) k l = Some (remove_nth (p - b) l).
Proof.
  intros lv l. induction l as [|x r IH]; intros b k p H; cbn [positions_from remove_kth] in *.
  - destruct k; discriminate.
  - destruct (has_level lv x) eqn:E.
    + destruct k as [|k]; cbn [nth_error] in H.
      * inversion H; subst. rewrite Nat.sub_diag. split; [lia|reflexivity].
      * apply IH in H. destruct H as [Hb Hr]. split; [lia|]. rewrite Hr.
        replace (p - b) with (S (p - S b)) by lia. reflexivity.
    + apply IH in H. destruct H as [Hb Hr]. split; [lia|]. rewrite Hr.
      replace (p - b) with (S (p - S b)) by lia. reflexivity.
Qed.

Lemma remove_kth_none : forall A (f : A -> bool) l k, length (filter f l) <= k -> remove_kth f k l = None.
Proof.
  intros A f l. induction l as [|x r IH]; intros k H; cbn [remove_kth filter] in *; [reflexivity|].
  destruct (f x); cbn [length] in H.
  - destruct k as [|k]; [lia|]. rewrite IH by lia. reflexivity.
  - rewrite IH by lia. reflexivity.
Qed.

Lemma remove_kth_last : forall A (f : A -> bool) l x, f x = true ->
  remove_kth f (length (filter f l)) (l ++ [x]) = Some l.
Proof.
  intros A f l x Hx. induction l as [|a r IH]; cbn [app filter length remove_kth].
  - rewrite Hx. reflexivity.
  - destruct (f a) eqn:E; cbn [length]; rewrite IH; reflexivity.
Qed.

Lemma filter_snoc : forall A (f : A -> bool) l x, filter f (l ++ [x]) = filter f l ++ (if f x then [x] else []).
Proof. intros. rewrite filter_app. cbn. destruct (f x); reflexivity. Qed.

(* ------------------------------------------------------------------------------------------------ *)
(** * Observations of a refining state are the abstract observations *)

Lemma refines_observe : forall s l, Refines s l ->
  (forall k, get_issue s k = observe (spec_issue l k)) /\
  (forall lv k, get_level lv s k = observe (spec_of_level lv l k)) /\
  (forall lv, level_count lv s = spec_count lv l) /\
  issue_count s = length l /\
  length l = spec_count LError l + spec_count LWarning l + spec_count LMessage l.
Proof.
  intros s l [Hi H]. subst l. split; [|split; [|split; [|split]]].
  - intros k. unfold get_issue, spec_issue, observe. destruct (nth_error (issues s) k); reflexivity.
  - intros lv k. rewrite level_enumeration_exact by assumption. reflexivity.
  - intros lv. apply level_count_filter. assumption.
  - reflexivity.
  - unfold spec_count. rewrite <- !level_count_filter by assumption. apply counts_add_up. assumption.
Qed.

(** in particular: never a throw, and null exactly from the count on *)
Lemma refines_no_throw : forall s l lv k, Refines s l -> get_level lv s k <> AThrows.
Proof.
  intros s l lv k H. destruct (refines_observe s l H) as (_ & Hl & _). rewrite Hl.
  unfold observe. destruct (spec_of_level lv l k); discriminate.
Qed.

Lemma refines_null_iff : forall s l lv k, Refines s l -> (get_level lv s k = ANull <-> level_count lv s <= k).
Proof.
  intros s l lv k H. destruct (refines_observe s l H) as (_ & Hl & Hc & _). rewrite Hl, Hc.
  unfold observe, spec_of_level, spec_count. split.
  - intros E. destruct (nth_error (filter (has_level lv) l) k) eqn:N; [discriminate|]. apply nth_error_None. assumption.
  - intros E. apply nth_error_None in E. rewrite E. reflexivity.
Qed.

(* ------------------------------------------------------------------------------------------------ *)
(** * Each operation commutes with the abstraction *)

Lemma refines_empty : Refines empty_logger [].
Proof. split; [reflexivity|apply inv_empty]. Qed.

Lemma refines_add : forall x s l, Refines s l -> Refines (add_issue x s) (l ++ [x]).
Proof. intros x s l [Hi H]. split; [rewrite add_issue_issues, Hi; reflexivity|apply inv_add; assumption]. Qed.

Lemma refines_remove_all : forall s, Refines (remove_all s) [].
Proof. intros. apply refines_empty. Qed.

(** removeError, unconditionally, on the issue list: it removes exactly the k-th error, and throws exactly when
    there is no k-th error (what may go wrong without the side condition is only the index vectors) *)
Lemma remove_error_abs_commutes : forall s k, Inv s ->
  match remove_error k s with
  | Ok s' => remove_kth (has_level LError) k (issues s) = Some (issues s')
  | ThrowsOutOfRange => remove_kth (has_level LError) k (issues s) = None
  | UndefinedBehaviour => False
  end.
Proof.
  intros s k H. unfold remove_error. pose proof (H LError) as HE. cbn [level_vec] in HE.
  destruct (nth_error (errs s) k) as [p|] eqn:Ep.
  - rewrite HE in Ep. unfold positions in Ep.
    pose proof (nth_error_In _ _ Ep) as Hin. apply positions_from_bounds in Hin.
    apply remove_kth_positions in Ep. destruct Ep as [_ Hr]. rewrite Nat.sub_0_r in Hr.
    assert (Hlt : (p <? length (issues s)) = true) by (apply Nat.ltb_lt; lia).
    rewrite Hlt. cbn [issues]. exact Hr.
  - apply nth_error_None in Ep. rewrite HE in Ep. unfold positions in Ep. rewrite positions_from_length in Ep.
    apply remove_kth_none. exact Ep.
Qed.

(** removeError of the last issue: the whole state refines the abstract removal *)
Lemma refines_remove_error : forall s l k, Refines s l -> spec_last_error k l ->
  exists s' l', remove_error k s = Ok s' /\ spec_step (ORemoveError k) l = Some l' /\ Refines s' l' /\ l = l' ++ [nth (length l') l (mk_error 0)].
Proof.
  intros s l k [Hi H] (l' & x & Hl & Hx & Hk). subst l.
  destruct (remove_error_last s l' x H Hl Hx) as (s' & Hr & Hi' & Hinv & _ & _).
  assert (Hk' : k = error_count s - 1).
  { unfold error_count. rewrite level_count_filter by assumption. rewrite Hl, filter_snoc, app_length.
    unfold has_level at 2. rewrite Hx. cbn. unfold spec_count in Hk. lia. }
  exists s', l'. rewrite Hk'. split; [assumption|]. split.
  - cbn [spec_step]. rewrite <- Hk', Hk, Hl. unfold spec_count. apply remove_kth_last. unfold has_level. rewrite Hx. reflexivity.
  - split; [split; assumption|]. rewrite Hl, app_nth2, Nat.sub_diag by lia. reflexivity.
Qed.

(** adding an error and removing it again restores exactly the state there was (all four vectors) *)
Lemma add_then_remove_restores : forall s x, i_level x = LError ->
  remove_error (error_count s) (add_issue x s) = Ok s.
Proof.
  intros [iss es ws ms] x Hx. unfold add_issue, remove_error, error_count, level_count. rewrite Hx.
  cbn [issues errs warns msgs level_vec]. rewrite nth_error_last.
  assert (Hlt : (length iss <? length (iss ++ [x])) = true) by (apply Nat.ltb_lt; rewrite app_length; cbn; lia).
  rewrite Hlt, !remove_nth_last. reflexivity.
Qed.

(* ------------------------------------------------------------------------------------------------ *)
(** * Lifted over operation sequences *)

Lemma run_spec_none : forall ops,
  fold_left (fun acc o => match acc with Some l => spec_step o l | None => None end) ops None = None.
Proof. induction ops as [|o r IH]; cbn; [reflexivity|exact IH]. Qed.

Lemma run_spec_cons : forall o r l,
  run_spec (o :: r) l = match spec_step o l with Some l' => run_spec r l' | None => None end.
Proof.
  intros o r l. unfold run_spec. cbn [fold_left]. destruct (spec_step o l); [reflexivity|apply run_spec_none].
Qed.

(** Forward simulation: from related states, every well-formed operation sequence runs to completion on the
    concrete logger, is defined on the specification, and ends in related states. *)
Lemma refinement_from : forall ops s l, Refines s l -> spec_wf ops l ->
  exists s' l', run_ops ops s = Ok s' /\ run_spec ops l = Some l' /\ Refines s' l'.
Proof.
  induction ops as [|o r IH]; intros s l HR Hwf.
  - exists s, l. auto.
  - cbn [spec_wf] in Hwf. destruct Hwf as [Hg Hw]. rewrite run_spec_cons. cbn [run_ops].
    destruct o as [x| |k]; cbn [spec_step step] in *.
    + apply (IH (add_issue x s) (l ++ [x])); [apply refines_add; assumption|assumption].
    + apply (IH (remove_all s) []); [apply refines_remove_all|assumption].
    + destruct (refines_remove_error s l k HR Hg) as (s' & l' & Hr & Hs & HR' & _).
      cbn [spec_step] in Hs. rewrite Hs in Hw |- *. rewrite Hr. apply (IH s' l'); assumption.
Qed.

Lemma refinement : forall ops, spec_wf ops [] ->
  exists s l, run_ops ops empty_logger = Ok s /\ run_spec ops [] = Some l /\ Refines s l.
Proof. intros ops H. apply refinement_from; [apply refines_empty|assumption]. Qed.

(** Even without well-formedness the ISSUE LIST always follows the specification (as long as the invariant held
    before each removal); only the index vectors can go wrong.  Witness that they do: *)
Lemma refinement_refuted :
  exists ops s l, ~ spec_wf ops [] /\ run_ops ops empty_logger = Ok s /\ run_spec ops [] = Some l /\
                  issues s = l /\ ~ Refines s l /\ get_message s 0 = AThrows.
Proof.
  exists [OAdd (wE 0); OAdd (wM 1); ORemoveError 0]. eexists. eexists.
  split; [|split; [reflexivity|split; [reflexivity|split; [reflexivity|split; [|reflexivity]]]]].
  - cbn. intros (_ & _ & (l' & x & Hl & Hx & _) & _).
    assert (E : rev [wE 0; wM 1] = rev (l' ++ [x])) by (rewrite Hl; reflexivity).
    rewrite rev_unit in E. cbn in E. inversion E; subst. discriminate.
  - intros [_ H]. specialize (H LMessage). cbn in H. discriminate.
Qed.

(** non-vacuity: a well-formed sequence with all three levels, a removal and a clear *)
Lemma refinement_nonvacuous :
  let ops := [OAdd (wW 0); ORemoveAll; OAdd (wM 1); OAdd (wE 2); OAdd (wE 3); ORemoveError 1; OAdd (wW 4)] in
  spec_wf ops [] /\ run_spec ops [] = Some [wM 1; wE 2; wW 4] /\
  exists s, run_ops ops empty_logger = Ok s /\ Refines s [wM 1; wE 2; wW 4] /\
            get_error s 0 = AIssue (wE 2) /\ get_warning s 0 = AIssue (wW 4) /\ get_message s 0 = AIssue (wM 1) /\
            get_error s 1 = ANull.
Proof.
  cbn zeta. split.
  - cbn. repeat split. exists [wM 1; wE 2], (wE 3). repeat split.
  - split; [reflexivity|]. eexists. split; [reflexivity|]. split.
    + split; [reflexivity|]. intros lv. destruct lv; reflexivity.
    + repeat split; reflexivity.
Qed.
