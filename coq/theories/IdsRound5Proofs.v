(** IdsRound5Proofs.v — idempotence of the assignment entry points (property C13, proof depth round 5).

    A second assignAllIds() / assignIds(type) right after the first one changes no identifier and reports
    "nothing assigned", for EVERY annotator state and id vector, every cfg (repaired or not). *)
From Coq Require Import String Ascii List NArith Arith Bool Lia.
From LC Require Import Common IdsDefs IdsProofs.
Import ListNotations.
Open Scope string_scope.
Open Scope list_scope.

(* a traversal whose positions all carry an identifier leaves the whole state (ids, list, hash, counter) as it is *)
Lemma assign_visits_noop : forall vs s,
  (forall v, In v vs -> get (s_ids s) (v_slot v) <> "") -> assign_visits s vs = s.
Proof.
  induction vs as [|v vs IH]; intros s H; [reflexivity|].
  rewrite assign_visits_cons.
  destruct (assign_visit_spec s v) as [_ [Hk _]].
  assert (E : assign_visit s v = s) by (apply Hk, H; left; reflexivity).
  rewrite E. apply IH. intros w Hw. apply H. right; assumption.
Qed.

Lemma pre_assign_has_model : forall c st s, a_has_model (s_ann (pre_assign c st s)) = a_has_model (s_ann s).
Proof. intros c st s. unfold pre_assign, refresh. destruct (fx_refresh c); reflexivity. Qed.

Lemma pre_assign_length : forall c st s, length (s_ids (pre_assign c st s)) = length (s_ids s).
Proof. intros. rewrite pre_assign_ids. reflexivity. Qed.

(* assignAllIds(); assignAllIds(): the second call changes no identifier and returns false *)
Theorem assign_all_idempotent : forall c st s,
  a_has_model (s_ann s) = true -> slots_in_range st (length (s_ids s)) = true ->
  let s1 := fst (assign_all c st s) in
  s_ids (fst (assign_all c st s1)) = s_ids s1 /\ snd (assign_all c st s1) = false.
Proof.
  intros c st s Hm Hr. cbv zeta.
  assert (E : fst (assign_all c st s) = assign_visits (pre_assign c st s) (assign_all_visits st)).
  { unfold assign_all. rewrite Hm. reflexivity. }
  rewrite E. clear E.
  set (s1 := assign_visits (pre_assign c st s) (assign_all_visits st)).
  assert (Hm1 : a_has_model (s_ann s1) = true).
  { unfold s1. rewrite assign_visits_has_model, pre_assign_has_model. exact Hm. }
  assert (Hfull : forall v, In v (assign_all_visits st) ->
                            get (s_ids (pre_assign c st s1)) (v_slot v) <> "").
  { intros v Hv. rewrite pre_assign_ids. unfold s1.
    apply assign_visits_complete; [exact Hv|].
    rewrite pre_assign_length.
    eapply slots_in_range_listed; [exact Hr|]. apply assign_all_visits_listed; exact Hv. }
  unfold assign_all. rewrite Hm1. cbn [fst snd].
  rewrite (assign_visits_noop _ _ Hfull).
  split; [apply pre_assign_ids | apply Nat.ltb_irrefl].
Qed.

(* assignIds(type); assignIds(type): the second call changes no identifier *)
Theorem assign_type_idempotent : forall c st k s,
  a_has_model (s_ann s) = true -> slots_in_range st (length (s_ids s)) = true ->
  let s1 := fst (assign_type c st k s) in
  s_ids (fst (assign_type c st k s1)) = s_ids s1.
Proof.
  intros c st k s Hm Hr. cbv zeta.
  assert (E : fst (assign_type c st k s)
              = set_model c st (assign_visits (pre_assign c st s) (assign_type_visits st k))).
  { unfold assign_type. rewrite Hm. reflexivity. }
  rewrite E. clear E.
  set (s0 := assign_visits (pre_assign c st s) (assign_type_visits st k)).
  set (s1 := set_model c st s0).
  assert (Hm1 : a_has_model (s_ann s1) = true).
  { unfold s1, set_model. rewrite update_has_model. reflexivity. }
  assert (Hfull : forall v, In v (assign_type_visits st k) ->
                            get (s_ids (pre_assign c st s1)) (v_slot v) <> "").
  { intros v Hv. rewrite pre_assign_ids. unfold s1. rewrite set_model_ids. unfold s0.
    apply assign_visits_complete; [exact Hv|].
    rewrite pre_assign_length.
    eapply slots_in_range_listed; [exact Hr|]. eapply assign_type_visits_listed; exact Hv. }
  unfold assign_type. rewrite Hm1. cbn [fst snd].
  rewrite (assign_visits_noop _ _ Hfull).
  rewrite set_model_ids. apply pre_assign_ids.
Qed.

(* assignAllIds() subsumes a following traversal of any already-identified positions: more generally, once every
   position of a visit list carries an id, ANY number of repetitions of the traversal is the identity on states *)
Theorem assign_visits_repeat_noop : forall n vs s,
  (forall v, In v vs -> get (s_ids s) (v_slot v) <> "") ->
  Nat.iter n (fun t => assign_visits t vs) s = s.
Proof.
  induction n as [|n IH]; intros vs s H; [reflexivity|].
  change (assign_visits (Nat.iter n (fun t => assign_visits t vs) s) vs = s).
  rewrite (IH vs s H). apply assign_visits_noop; exact H.
Qed.
