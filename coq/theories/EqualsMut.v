(** EqualsMut.v — every single mutation is seen, in both directions (C10, part E). *)
From Coq Require Import String List Bool ZArith QArith Arith Permutation Lia.
From LC Require Import EqualsDefs EqualsSpec EqualsProofs EqualsSimProofs EqualsCorrect EqualsAsIs.
Import ListNotations.
Local Close Scope Q_scope.
Local Open Scope bool_scope.

(** * list surgery *)

Lemma set_nth_split : forall {A} (f : A -> option A) i l l', set_nth i f l = Some l' ->
  exists la x lb x', l = la ++ x :: lb /\ l' = la ++ x' :: lb /\ f x = Some x' /\ nth_error l i = Some x.
Proof.
  intros A f. induction i as [|i IH]; intros [|a t] l' H; cbn [set_nth] in H; try discriminate.
  - destruct (f a) as [a'|] eqn:Hf; cbn [option_map] in H; [|discriminate]. injection H as <-.
    exists [], a, t, a'. repeat split; auto.
  - destruct (set_nth i f t) as [t'|] eqn:Hs; cbn [option_map] in H; [|discriminate]. injection H as <-.
    destruct (IH t t' Hs) as (la & x & lb & x' & -> & -> & Hf & Hn).
    exists (a :: la), x, lb, x'. repeat split; auto.
Qed.

Lemma remove_nth_length : forall {A} i (l l' : list A), remove_nth i l = Some l' -> length l = S (length l').
Proof.
  intros A. induction i as [|i IH]; intros [|a t] l' H; cbn [remove_nth] in H; try discriminate.
  - injection H as <-. reflexivity.
  - destruct (remove_nth i t) as [t'|] eqn:Hr; cbn [option_map] in H; [|discriminate]. injection H as <-.
    cbn [length]. f_equal. apply IH. exact Hr.
Qed.

(** * a permutation up to an equivalence preserves, for every x, the number of elements equivalent to x *)

Section Counting.
  Context {A : Type} (E : A -> A -> Prop) (dec : A -> A -> bool).
  Hypothesis Hdec : forall x y, dec x y = true <-> E x y.
  Hypothesis Erefl : forall x, E x x.
  Hypothesis Esym : forall x y, E x y -> E y x.
  Hypothesis Etrans : forall x y z, E x y -> E y z -> E x z.

  Definition cnt (x : A) (l : list A) : nat := length (filter (dec x) l).

  Lemma cnt_app : forall x l1 l2, cnt x (l1 ++ l2) = cnt x l1 + cnt x l2.
  Proof. intros. unfold cnt. rewrite filter_app, app_length. reflexivity. Qed.

  Lemma cnt_perm : forall x l l', Permutation l l' -> cnt x l = cnt x l'.
  Proof.
    intros x l l' Hp. unfold cnt. induction Hp as [|a l l' Hp IH|a b l|l l' l'' _ IH1 _ IH2]; cbn [filter].
    - reflexivity.
    - destruct (dec x a); cbn [length]; congruence.
    - destruct (dec x a), (dec x b); reflexivity.
    - congruence.
  Qed.

  Lemma dec_congr : forall x a b, E a b -> dec x a = dec x b.
  Proof.
    intros x a b Hab. apply eq_true_iff_eq. rewrite !Hdec. split; intros H.
    - eapply Etrans; eassumption.
    - eapply Etrans; [exact H|apply Esym; exact Hab].
  Qed.

  Lemma cnt_Forall2 : forall x l l', Forall2 E l l' -> cnt x l = cnt x l'.
  Proof.
    intros x l l' HF. unfold cnt. induction HF as [|a b t t' Hab HF IH]; cbn [filter]; [reflexivity|].
    rewrite (dec_congr x a b Hab). destruct (dec x b); cbn [length]; congruence.
  Qed.

  Lemma cnt_perm_rel : forall x l l', perm_rel E l l' -> cnt x l = cnt x l'.
  Proof.
    intros x l l' (l2 & Hp & HF). rewrite (cnt_Forall2 x l l2 HF). symmetry. apply cnt_perm. exact Hp.
  Qed.

  Lemma perm_rel_replace : forall la lb x x', ~ E x x' -> ~ perm_rel E (la ++ x :: lb) (la ++ x' :: lb).
  Proof.
    intros la lb x x' Hne Hp. apply (cnt_perm_rel x) in Hp. rewrite !cnt_app in Hp.
    unfold cnt in Hp at 2 4. cbn [filter] in Hp.
    assert (H1 : dec x x = true) by (apply Hdec; apply Erefl).
    assert (H2 : dec x x' = false).
    { destruct (dec x x') eqn:Hd; [|reflexivity]. exfalso. apply Hne. apply Hdec. exact Hd. }
    rewrite H1, H2 in Hp. cbn [length] in Hp. fold (cnt x lb) in Hp. lia.
  Qed.

  Lemma children_add : forall l d, ~ perm_rel E l (l ++ [d]).
  Proof. intros l d H. apply perm_rel_length in H. rewrite app_length in H. cbn in H. lia. Qed.

  Lemma children_remove : forall i l l', remove_nth i l = Some l' -> ~ perm_rel E l l'.
  Proof. intros i l l' Hr H. apply perm_rel_length in H. apply remove_nth_length in Hr. lia. Qed.

  Lemma children_change : forall (f : A -> option A) (ch : A -> bool) i l l',
    set_nth i f l = Some l' -> changes_at ch i l = true ->
    (forall x x', f x = Some x' -> ch x = true -> ~ E x x') ->
    ~ perm_rel E l l'.
  Proof.
    intros f ch i l l' Hs Hc Hx. destruct (set_nth_split f i l l' Hs) as (la & x & lb & x' & -> & -> & Hf & Hn).
    unfold changes_at in Hc. rewrite Hn in Hc. apply perm_rel_replace. apply (Hx x x' Hf Hc).
  Qed.
End Counting.

Lemma sneq_true : forall a b, sneq a b = true -> a <> b.
Proof. intros a b H. unfold sneq in H. apply negb_true_iff in H. apply String.eqb_neq. exact H. Qed.

(** * detection, level by level: the mutated entity is not [sim] to the original *)

Section Detect.
  Variable neq : Q -> Q -> bool.
  Hypothesis L : neq_laws neq.

  Lemma detect_imut : forall mu i i', apply_imut mu i = Some i' -> changes_imut mu i = true -> i <> i'.
  Proof.
    intros [s|s] [u d] i' Ha Hc; cbn in Ha, Hc; injection Ha as <-; apply sneq_true in Hc; congruence.
  Qed.

  Lemma detect_impmut : forall mu imp ref p, apply_impmut mu imp ref = Some p -> changes_impmut mu imp ref = true ->
    ~ (imp = fst p /\ ref = snd p).
  Proof.
    intros mu imp ref p Ha Hc [H1 H2]. destruct mu as [s|i| |m]; destruct imp as [i0|]; cbn in Ha, Hc; try discriminate.
    - injection Ha as <-. cbn in *. apply sneq_true in Hc. congruence.
    - injection Ha as <-. cbn in *. apply sneq_true in Hc. congruence.
    - injection Ha as <-. cbn in *. discriminate.
    - injection Ha as <-. cbn in *. discriminate.
    - destruct (apply_imut m i0) as [i'|] eqn:Hi; cbn in Ha; [|discriminate]. injection Ha as <-. cbn in *.
      apply (detect_imut m i0 i' Hi Hc). congruence.
  Qed.

  Lemma detect_dmut : forall mu d d', apply_dmut mu d = Some d' -> changes_dmut neq mu d = true -> ~ sim_unitdef neq d d'.
  Proof.
    intros mu d d' Ha Hc (H1 & H2 & H3 & H4 & H5). destruct mu as [s|s|q|q|s]; cbn in Ha; injection Ha as <-; cbn in *;
      try (apply sneq_true in Hc; congruence).
    - apply negb_true_iff in Hc. apply (neq_sym neq L) in H4. congruence.
    - apply negb_true_iff in Hc. apply (neq_sym neq L) in H5. congruence.
  Qed.

  Let ud_children_change := children_change (sim_unitdef neq) (eq_unitdef neq) (eq_unitdef_iff neq)
    (sim_unitdef_refl neq L) (sim_unitdef_sym neq L) (sim_unitdef_trans neq L).

  Lemma detect_umut : forall mu u u', apply_umut mu u = Some u' -> changes_umut neq mu u = true -> ~ sim_units neq u u'.
  Proof.
    intros mu u u' Ha Hc (H1 & H2 & H3 & H4 & H5). destruct mu as [s|s|m|d|i|i m]; cbn [apply_umut changes_umut] in Ha, Hc.
    - injection Ha as <-. cbn in *. apply sneq_true in Hc. congruence.
    - injection Ha as <-. cbn in *. apply sneq_true in Hc. congruence.
    - destruct (apply_impmut m (u_imp u) (u_impref u)) as [p|] eqn:Hp; cbn in Ha; [|discriminate]. injection Ha as <-. cbn in *.
      apply (detect_impmut m _ _ p Hp Hc). split; assumption.
    - injection Ha as <-. cbn in *. apply (children_add (sim_unitdef neq) _ _ H5).
    - destruct (remove_nth i (u_defs u)) as [l|] eqn:Hr; cbn in Ha; [|discriminate]. injection Ha as <-. cbn in *.
      apply (children_remove (sim_unitdef neq) i _ _ Hr H5).
    - destruct (set_nth i (apply_dmut m) (u_defs u)) as [l|] eqn:Hs; cbn in Ha; [|discriminate]. injection Ha as <-. cbn in *.
      apply (ud_children_change (apply_dmut m) (changes_dmut neq m) i _ _ Hs Hc); [|exact H5].
      intros x x'. apply detect_dmut.
  Qed.

  Lemma detect_vmut : forall mu v v', apply_vmut mu v = Some v' -> changes_vmut neq mu v = true -> ~ sim_variable neq v v'.
  Proof.
    intros mu v v' Ha Hc (H1 & H2 & H3 & H4 & H5). destruct mu as [s|s|s|s|u| |m]; cbn [apply_vmut changes_vmut] in Ha, Hc;
      try (injection Ha as <-; cbn in *; apply sneq_true in Hc; congruence).
    - destruct (v_units v) eqn:Hu; [discriminate|]. injection Ha as <-. cbn in H5. try rewrite Hu in H5. exact H5.
    - destruct (v_units v) eqn:Hu; [|discriminate]. injection Ha as <-. cbn in H5. try rewrite Hu in H5. exact H5.
    - destruct (v_units v) as [u|] eqn:Hu; [|discriminate].
      destruct (apply_umut m u) as [u'|] eqn:Hm; cbn in Ha; [|discriminate]. injection Ha as <-. cbn in H5. try rewrite Hu in H5.
      cbn in H5. apply (detect_umut m u u' Hm Hc H5).
  Qed.

  Lemma detect_ovmut : forall mu o o', apply_ovmut mu o = Some o' -> changes_ovmut neq mu o = true ->
    ~ opt_rel (sim_variable neq) o o'.
  Proof.
    intros mu o o' Ha Hc H. destruct mu as [v| |m]; destruct o as [v0|]; cbn in Ha, Hc; try discriminate.
    - injection Ha as <-. exact H.
    - injection Ha as <-. exact H.
    - destruct (apply_vmut m v0) as [v'|] eqn:Hm; cbn in Ha; [|discriminate]. injection Ha as <-. cbn in H.
      apply (detect_vmut m v0 v' Hm Hc H).
  Qed.

  Lemma detect_rmut : forall mu r r', apply_rmut mu r = Some r' -> changes_rmut neq mu r = true -> ~ sim_reset neq r r'.
  Proof.
    intros mu r r' Ha Hc (H1 & H2 & H3 & H4 & H5 & H6 & H7 & H8).
    destruct mu as [s|z|m|m|s|s|s|s]; cbn [apply_rmut changes_rmut] in Ha, Hc;
      try (injection Ha as <-; cbn in *; apply sneq_true in Hc; congruence).
    - injection Ha as <-. cbn in *. apply negb_true_iff in Hc. apply Z.eqb_neq in Hc. congruence.
    - destruct (apply_ovmut m (r_var r)) as [o|] eqn:Hm; cbn in Ha; [|discriminate]. injection Ha as <-. cbn in *.
      apply (detect_ovmut m _ o Hm Hc H7).
    - destruct (apply_ovmut m (r_test r)) as [o|] eqn:Hm; cbn in Ha; [|discriminate]. injection Ha as <-. cbn in *.
      apply (detect_ovmut m _ o Hm Hc H8).
  Qed.

  Let var_children_change := children_change (sim_variable neq) (eq_variable neq) (eq_variable_iff neq L)
    (sim_variable_refl neq L) (sim_variable_sym neq L) (sim_variable_trans neq L).
  Let reset_children_change := children_change (sim_reset neq) (eq_reset neq) (eq_reset_iff neq L)
    (sim_reset_refl neq L) (sim_reset_sym neq L) (sim_reset_trans neq L).
  Let units_children_change := children_change (sim_units neq) (eq_units neq) (eq_units_iff neq L)
    (sim_units_refl neq L) (sim_units_sym neq L) (sim_units_trans neq L).
  Let comp_children_change := children_change (sim_component neq) (eq_component neq flags_fixed) (eq_component_iff neq L)
    (sim_component_refl neq L) (sim_component_sym neq L) (sim_component_trans neq L).

  Lemma detect_shell_mut : forall mu s s', apply_shell_mut mu s = Some s' ->
    (forall ks, changes_cmut neq mu (Comp s ks) = true -> ~ sim_shell neq s s').
  Proof.
    intros mu s s' Ha ks Hc (H1 & H2 & H3 & H4 & H5 & H6 & H7 & H8).
    destruct mu as [x|x|x|x|m|v|i|i m|r|i|i m|k|i|i m]; cbn [apply_shell_mut changes_cmut] in Ha, Hc; try discriminate;
      try (injection Ha as <-; cbn in *; apply sneq_true in Hc; congruence).
    - destruct (apply_impmut m (c_imp s) (c_impref s)) as [p|] eqn:Hp; cbn in Ha; [|discriminate]. injection Ha as <-. cbn in *.
      apply (detect_impmut m _ _ p Hp Hc). split; assumption.
    - injection Ha as <-. cbn in *. apply (children_add (sim_variable neq) _ _ H7).
    - destruct (remove_nth i (c_vars s)) as [l|] eqn:Hr; cbn in Ha; [|discriminate]. injection Ha as <-. cbn in *.
      apply (children_remove (sim_variable neq) i _ _ Hr H7).
    - destruct (set_nth i (apply_vmut m) (c_vars s)) as [l|] eqn:Hs; cbn in Ha; [|discriminate]. injection Ha as <-. cbn in *.
      apply (var_children_change (apply_vmut m) (changes_vmut neq m) i _ _ Hs Hc); [|exact H7]. intros a a'. apply detect_vmut.
    - injection Ha as <-. cbn in *. apply (children_add (sim_reset neq) _ _ H8).
    - destruct (remove_nth i (c_resets s)) as [l|] eqn:Hr; cbn in Ha; [|discriminate]. injection Ha as <-. cbn in *.
      apply (children_remove (sim_reset neq) i _ _ Hr H8).
    - destruct (set_nth i (apply_rmut m) (c_resets s)) as [l|] eqn:Hs; cbn in Ha; [|discriminate]. injection Ha as <-. cbn in *.
      apply (reset_children_change (apply_rmut m) (changes_rmut neq m) i _ _ Hs Hc); [|exact H8]. intros a a'. apply detect_rmut.
  Qed.

  Lemma detect_cmut : forall mu c c', apply_cmut mu c = Some c' -> changes_cmut neq mu c = true -> ~ sim_component neq c c'.
  Proof.
    induction mu as [x|x|x|x|m|v|i|i m|r|i|i m|k|i|i m IHm]; intros [s ks] c' Ha Hc Hsim;
      try (cbn [apply_cmut] in Ha;
           match type of Ha with
           | option_map _ (apply_shell_mut ?mu s) = _ =>
               destruct (apply_shell_mut mu s) as [s'|] eqn:Hs; cbn [option_map] in Ha; [|discriminate];
               injection Ha as <-; apply (sim_component_inv neq) in Hsim; destruct Hsim as [Hsh _];
               exact (detect_shell_mut mu s s' Hs ks Hc Hsh)
           end).
    - cbn [apply_cmut] in Ha. injection Ha as <-. apply (sim_component_inv neq) in Hsim. destruct Hsim as [_ Hk].
      apply (children_add (sim_component neq) _ _ Hk).
    - cbn [apply_cmut] in Ha. destruct (remove_nth i ks) as [l|] eqn:Hr; cbn in Ha; [|discriminate]. injection Ha as <-.
      apply (sim_component_inv neq) in Hsim. destruct Hsim as [_ Hk].
      apply (children_remove (sim_component neq) i _ _ Hr Hk).
    - cbn [apply_cmut] in Ha. destruct (set_nth i (apply_cmut m) ks) as [l|] eqn:Hs; cbn in Ha; [|discriminate]. injection Ha as <-.
      apply (sim_component_inv neq) in Hsim. destruct Hsim as [_ Hk]. cbn [changes_cmut] in Hc.
      apply (comp_children_change (apply_cmut m) (changes_cmut neq m) i _ _ Hs Hc); [|exact Hk].
      intros a a'. apply IHm.
  Qed.

  Lemma detect_mmut : forall mu m m', apply_mmut mu m = Some m' -> changes_mmut neq mu m = true -> ~ sim_model neq m m'.
  Proof.
    intros mu m m' Ha Hc (H1 & H2 & H3 & H4 & H5).
    destruct mu as [s|s|s|u|i|i mu'|c|i|i mu']; cbn [apply_mmut changes_mmut] in Ha, Hc;
      try (injection Ha as <-; cbn in *; apply sneq_true in Hc; congruence).
    - injection Ha as <-. cbn in *. apply (children_add (sim_units neq) _ _ H4).
    - destruct (remove_nth i (m_units m)) as [l|] eqn:Hr; cbn in Ha; [|discriminate]. injection Ha as <-. cbn in *.
      apply (children_remove (sim_units neq) i _ _ Hr H4).
    - destruct (set_nth i (apply_umut mu') (m_units m)) as [l|] eqn:Hs; cbn in Ha; [|discriminate]. injection Ha as <-. cbn in *.
      apply (units_children_change (apply_umut mu') (changes_umut neq mu') i _ _ Hs Hc); [|exact H4]. intros a a'. apply detect_umut.
    - injection Ha as <-. cbn in *. apply (children_add (sim_component neq) _ _ H5).
    - destruct (remove_nth i (m_comps m)) as [l|] eqn:Hr; cbn in Ha; [|discriminate]. injection Ha as <-. cbn in *.
      apply (children_remove (sim_component neq) i _ _ Hr H5).
    - destruct (set_nth i (apply_cmut mu') (m_comps m)) as [l|] eqn:Hs; cbn in Ha; [|discriminate]. injection Ha as <-. cbn in *.
      apply (comp_children_change (apply_cmut mu') (changes_cmut neq mu') i _ _ Hs Hc); [|exact H5]. intros a a'. apply detect_cmut.
  Qed.

  Lemma detect_emut : forall mu e e', apply_emut mu e = Some e' -> changes_emut neq mu e = true -> ~ sim_entity neq e e'.
  Proof.
    intros [m|m|m|m|m|m] [x|x|x|x|x|x] e' Ha Hc; cbn [apply_emut changes_emut] in Ha, Hc; try discriminate.
    - destruct (apply_mmut m x) as [y|] eqn:Hm; cbn in Ha; [|discriminate]. injection Ha as <-. cbn. apply (detect_mmut m x y Hm Hc).
    - destruct (apply_cmut m x) as [y|] eqn:Hm; cbn in Ha; [|discriminate]. injection Ha as <-. cbn. apply (detect_cmut m x y Hm Hc).
    - destruct (apply_vmut m x) as [y|] eqn:Hm; cbn in Ha; [|discriminate]. injection Ha as <-. cbn. apply (detect_vmut m x y Hm Hc).
    - destruct (apply_umut m x) as [y|] eqn:Hm; cbn in Ha; [|discriminate]. injection Ha as <-. cbn. apply (detect_umut m x y Hm Hc).
    - destruct (apply_rmut m x) as [y|] eqn:Hm; cbn in Ha; [|discriminate]. injection Ha as <-. cbn. apply (detect_rmut m x y Hm Hc).
    - destruct (apply_imut m x) as [y|] eqn:Hm; cbn in Ha; [|discriminate]. injection Ha as <-. cbn. apply (detect_imut m x y Hm Hc).
  Qed.

  (** every single mutation of a covered attribute / child, at any path, flips equality to false in both directions *)
  Theorem equals_detects : forall mu e e', apply_emut mu e = Some e' -> changes_emut neq mu e = true ->
    eq_entity neq flags_fixed e e' = false /\ eq_entity neq flags_fixed e' e = false.
  Proof.
    intros mu e e' Ha Hc. pose proof (detect_emut mu e e' Ha Hc) as Hn.
    split; apply not_true_is_false; intros H; apply Hn; apply (eq_entity_iff neq L) in H; [exact H|].
    apply (sim_entity_sym neq L). exact H.
  Qed.

  (** the code as it is, inside a domain (see EqualsAsIs.in_dom) that holds the original and the mutant *)
  Theorem equals_detects_partial : forall fl D, closed_dom D -> varcount_ok neq fl D -> kids_distinct neq fl D ->
    forall mu e e', in_dom neq fl D e -> in_dom neq fl D e' ->
      apply_emut mu e = Some e' -> changes_emut neq mu e = true ->
      eq_entity neq fl e e' = false /\ eq_entity neq fl e' e = false.
  Proof.
    intros fl D H1 H2 H3 mu e e' He He' Ha Hc.
    rewrite (asis_entity_eq_fixed neq L fl D H1 H2 H3 e e' He He'), (asis_entity_eq_fixed neq L fl D H1 H2 H3 e' e He' He).
    apply (equals_detects mu e e' Ha Hc).
  Qed.
End Detect.

(** without the variable count test an added variable is not seen from the smaller side *)
Lemma detects_refuted_vars : forall neq cm, let fl := {| f_varcount := false; f_compmatch := cm |} in
  apply_emut (MutComponent (CVarAdd (mkv "x"))) w_y = Some w_yx
  /\ changes_emut neq (MutComponent (CVarAdd (mkv "x"))) w_y = true
  /\ eq_entity neq fl w_y w_yx = true.
Proof. intros neq [|]; vm_compute; auto. Qed.

(** non-vacuity: a mutation three levels down *)
Example detects_nonvacuous :
  let c := mkc "a" [] [mkc "b" [] [mkc "c" [mkv "x"] []]] in
  let mu := MutComponent (CKid 0 (CKid 0 (CVar 0 (VInit "1")))) in
  exists e', apply_emut mu (EComponent c) = Some e' /\ changes_emut Qeq_bool mu (EComponent c) = true
             /\ eq_entity Qeq_bool flags_fixed (EComponent c) e' = false.
Proof. eexists. vm_compute. auto. Qed.
