(** Properties_C03.v — statements only.  C03: generated code computes what the model's equations say.
    Expression layer: the printer model [gen] (GenDefs, tied string-exactly to Generator::equationCode on every
    run), the readers [readC]/[readPy] (GramDefs: how C / Python parse the text), the intended reading [tr],
    the safe class [safe_b] and re-association [norm] (ReadDefs), exact values [eval] (EvalDefs). *)
From Coq Require Import String List Bool.
From LC Require Import AstDefs GenDefs GramDefs GramSpec GramProofs ReadDefs CGramDefs PyGramDefs
  EvalDefs EvalProofs ReadProofs LexProofs GenProofs GenWitness.
From Coq Require Import QArith.
Local Close Scope Q_scope.
From LC Require Import ScaleDefs ScaleProofs AnalysisDefs AnalysisSpec ExternalDefs OrderDefs OrderProofs EndToEndProofs GenTok EndToEndFunProofs.
Local Open Scope string_scope.

(** * The text printed for an AST of the safe class is read as the equation says.
    [safeC]/[safePy] (ReadDefs.safe_b) is the decidable class "every operand sits at a grammar level its
    position accepts, or is an associative continuation"; it excludes exactly the shapes of the refutation
    theorems below.  Up to [norm] = re-association of + * && || chains and -(a*b) = (-a)*b. *)
Theorem C03_gen_reads_back_partial_C : forall a,
  safeC a = true -> exists T, readC (gen_C a) = Some T /\ norm T = norm (trC a).
Proof. exact GenProofs.gen_reads_back_C. Qed.
Print Assumptions C03_gen_reads_back_partial_C.

Theorem C03_gen_reads_back_partial_Py : forall a,
  safePy a = true -> exists T, readPy (gen_Py a) = Some T /\ norm T = norm (trPy a).
Proof. exact GenProofs.gen_reads_back_Py. Qed.
Print Assumptions C03_gen_reads_back_partial_Py.

(** its two halves: the lexer yields the token stream [gent], and [gent] parses to the intended tree *)
Theorem C03_lex_gen_C : forall a,
  safeC a = true -> lexC (gen_C a) = Some (GenTok.gent LC profile_C a).
Proof. exact LexProofs.lex_gen_C. Qed.
Print Assumptions C03_lex_gen_C.

Theorem C03_lex_gen_Py : forall a,
  safePy a = true -> lexPy (gen_Py a) = Some (GenTok.gent LPy profile_Py a).
Proof. exact LexProofs.lex_gen_Py. Qed.
Print Assumptions C03_lex_gen_Py.

Theorem C03_parse_gent_C : forall a,
  safeC a = true -> exists T, parseC (GenTok.gent LC profile_C a) = Some T /\ norm T = norm (trC a).
Proof. exact ReadProofs.parse_gent_C. Qed.
Print Assumptions C03_parse_gent_C.

Theorem C03_parse_gent_Py : forall a,
  safePy a = true -> exists T, parsePy (GenTok.gent LPy profile_Py a) = Some T /\ norm T = norm (trPy a).
Proof. exact ReadProofs.parse_gent_Py. Qed.
Print Assumptions C03_parse_gent_Py.

(** the executable oracle that the check evaluates on the library's own text accepts the whole safe class *)
Theorem C03_safe_reads_as_C : forall a, safeC a = true -> reads_asC (gen_C a) a = true.
Proof. exact GenProofs.safe_reads_as_C. Qed.
Print Assumptions C03_safe_reads_as_C.

Theorem C03_safe_reads_as_Py : forall a, safePy a = true -> reads_asPy (gen_Py a) a = true.
Proof. exact GenProofs.safe_reads_as_Py. Qed.
Print Assumptions C03_safe_reads_as_Py.

(** * The executable reader is the grammar: the fuelled precedence-climbing function and the big-step
    relation PExpr (GramSpec) accept the same token lists with the same trees. *)
Theorem C03_parse_sound : forall L ts t, parse L ts = Some t -> PExpr L 1 ts t nil.
Proof. exact GramProofs.pratt_sound. Qed.
Print Assumptions C03_parse_sound.

Theorem C03_parse_complete : forall L ts t, PExpr L 1 ts t nil -> parse L ts = Some t.
Proof. exact GramProofs.pratt_complete. Qed.
Print Assumptions C03_parse_complete.

(** * Values.  Re-association does not change the value over the rationals, for every interpretation of
    variables, literals and function names; so the printed text of a safe AST has the value of the equation. *)
Theorem C03_norm_sound : forall E t, eval E (norm t) = eval E t.
Proof. exact EvalProofs.norm_sound. Qed.
Print Assumptions C03_norm_sound.

Theorem C03_gen_value_C : forall E a,
  safeC a = true -> exists T, readC (gen_C a) = Some T /\ eval E T = eval E (trC a).
Proof. exact GenProofs.gen_value_C. Qed.
Print Assumptions C03_gen_value_C.

Theorem C03_gen_value_Py : forall E a,
  safePy a = true -> exists T, readPy (gen_Py a) = Some T /\ eval E T = eval E (trPy a).
Proof. exact GenProofs.gen_value_Py. Qed.
Print Assumptions C03_gen_value_Py.

(** * The two profiles agree: with the Python helper functions interpreted by their definitions
    (eq_func ... not_func, xor_func = xor), both generated texts denote the same value. *)
Theorem C03_profiles_agree : forall E a,
  helpers_ok E -> plain_names a = true -> eval E (trPy a) = eval E (trC a).
Proof. exact EvalProofs.profiles_agree. Qed.
Print Assumptions C03_profiles_agree.

Theorem C03_gen_profiles_agree : forall E a,
  helpers_ok E -> plain_names a = true -> safeC a = true -> safePy a = true ->
  exists TC TP, readC (gen_C a) = Some TC /\ readPy (gen_Py a) = Some TP /\ eval E TC = eval E TP.
Proof. exact GenProofs.gen_profiles_agree. Qed.
Print Assumptions C03_gen_profiles_agree.

(** * Unit scaling (analyser.cpp scaleEquationAst, modelled in ScaleDefs; tied tree-exactly to AnalyserEquation::ast()
    of every equation of every generated model).  [local_env S E] = every variable in its own units, computed from
    the stored values E (every class in the units of its primary variable); the scaled equation, read over the
    stored values, says what the written equation says over the local values, for every interpretation of
    variables, rates, literals and all other operators — exactly when the left side is not a bare scaled variable
    and the right side is not a bare rate over a scaled variable of integration. *)
Theorem C03_scale_preserves_value : forall (S : senv) (Es : aenv),
  (forall v, (0 < sf S v)%Q) ->
  (forall v, a_lit Es (sf_text S v) = Qcanon.Q2Qc (sf S v)) ->
  (forall v, a_lit Es (sf_inv_text S v) = Qcanon.Qcinv (Qcanon.Q2Qc (sf S v))) ->
  forall ev l r,
  wf_diff l = true -> wf_diff r = true -> lhs_ok S l = true -> bare_rate_ok S l r = true ->
  (holds Es (scale_eq S (Node EQUALITY ev l r)) <-> holds (local_env S Es) (Node EQUALITY ev l r)).
Proof. exact ScaleProofs.scale_preserves_value. Qed.
Print Assumptions C03_scale_preserves_value.

Theorem C03_scale_expr_value : forall (S : senv) (Es : aenv),
  (forall v, (0 < sf S v)%Q) ->
  (forall v, a_lit Es (sf_text S v) = Qcanon.Q2Qc (sf S v)) ->
  (forall v, a_lit Es (sf_inv_text S v) = Qcanon.Qcinv (Qcanon.Q2Qc (sf S v))) ->
  forall a, wf_diff a = true -> aeval Es (scale_expr S a) = aeval (local_env S Es) a.
Proof. exact ScaleProofs.scale_expr_value. Qed.
Print Assumptions C03_scale_expr_value.

(** the two findings of the scaling pass, reproduced by the faithful model *)
Theorem C03_scale_refuted_lhs :
  scale_eq env1 eq1 = eq1 /\ lhs_ok env1 (ci "k") = false
  /\ holds (local_env env1 stored1) eq1 /\ ~ holds stored1 (scale_eq env1 eq1).
Proof. exact ScaleProofs.scale_refuted_lhs. Qed.
Print Assumptions C03_scale_refuted_lhs.

Theorem C03_scale_refuted_bare_rate :
  scale_eq env2 eq2 = Node EQUALITY "" (ci "y") (Node TIMES "" (cn "1000") rate2)
  /\ bare_rate_ok env2 (ci "y") rate2 = false
  /\ holds (local_env env2 stored2) eq2 /\ ~ holds stored2 (scale_eq env2 eq2).
Proof. exact ScaleProofs.scale_refuted_bare_rate. Qed.
Print Assumptions C03_scale_refuted_bare_rate.

Example C03_scale_nonvacuous :
  wf_diff (left_of eq3) = true /\ wf_diff (right_of eq3) = true /\ lhs_ok env3 (left_of eq3) = true
  /\ bare_rate_ok env3 (left_of eq3) (right_of eq3) = true
  /\ scale_eq env3 eq3 =
     Node EQUALITY "" (Node DIFF "" (Node BVAR "" (ci "t") Null) (ci "x"))
       (Node TIMES "" (cn "1000")
          (bin PLUS (Node TIMES "" (cn "0.01") (ci "p"))
                    (bin ROOT (un DEGREE (Node TIMES "" (cn "0.01") (ci "p"))) (ci "x")))).
Proof. exact ScaleProofs.scale_nonvacuous. Qed.
Print Assumptions C03_scale_nonvacuous.

(** * End to end, for the field fragment (variables, numbers, + - * /, unary minus and plus; [field_frag]): the
    equation side as written, unit-scaled by the analyser, printed by the generator and read by the C compiler /
    Python, has over the STORED values (Et on trees, Es on ASTs: the same variables and numbers) the value the written
    side has over the LOCAL values (every variable in its own units), for every interpretation.  The only hypothesis
    on the input beyond the fragment is that the scaled AST is in the proved-safe class of the printer. *)
Theorem C03_end_to_end_C : forall (S : senv) (Es : aenv) (Et : env),
  (forall v, (0 < sf S v)%Q) ->
  (forall v, a_lit Es (sf_text S v) = Qcanon.Q2Qc (sf S v)) ->
  (forall v, a_lit Es (sf_inv_text S v) = Qcanon.Qcinv (Qcanon.Q2Qc (sf S v))) ->
  (forall v, e_var Et v = a_var Es v) ->
  (forall s, eval Et (lit_tree s) = a_lit Es s) ->
  forall a, field_frag a = true -> safeC (scale_expr S a) = true ->
  exists T, readC (gen_C (scale_expr S a)) = Some T /\ eval Et T = aeval (local_env S Es) a.
Proof. exact EndToEndProofs.end_to_end_C. Qed.
Print Assumptions C03_end_to_end_C.

Theorem C03_end_to_end_Py : forall (S : senv) (Es : aenv) (Et : env),
  (forall v, (0 < sf S v)%Q) ->
  (forall v, a_lit Es (sf_text S v) = Qcanon.Q2Qc (sf S v)) ->
  (forall v, a_lit Es (sf_inv_text S v) = Qcanon.Qcinv (Qcanon.Q2Qc (sf S v))) ->
  (forall v, e_var Et v = a_var Es v) ->
  (forall s, eval Et (lit_tree s) = a_lit Es s) ->
  forall a, field_frag a = true -> safePy (scale_expr S a) = true ->
  exists T, readPy (gen_Py (scale_expr S a)) = Some T /\ eval Et T = aeval (local_env S Es) a.
Proof. exact EndToEndProofs.end_to_end_Py. Qed.
Print Assumptions C03_end_to_end_Py.

Example C03_end_to_end_nonvacuous :
  field_frag e2e_a = true /\ safeC (scale_expr env3 e2e_a) = true /\ safePy (scale_expr env3 e2e_a) = true
  /\ gen_C (scale_expr env3 e2e_a) = "0.01*p+q*-(2.0-0.01*p)".
Proof. exact EndToEndProofs.end_to_end_nonvacuous. Qed.
Print Assumptions C03_end_to_end_nonvacuous.

(** the same, widened to one- and two-parameter function applications and to the relational / logical operators
    ([frag2 p]: infix in the C profile, helper calls in the Python profile), with the functions and operators
    interpreted alike on both sides; the printer-class premise is needed (C03_end_to_end_premise_needed) *)
Theorem C03_end_to_end_fun_C : forall (S : senv) (Es : aenv) (Et : env),
  (forall v, (0 < sf S v)%Q) ->
  (forall v, a_lit Es (sf_text S v) = Qcanon.Q2Qc (sf S v)) ->
  (forall v, a_lit Es (sf_inv_text S v) = Qcanon.Qcinv (Qcanon.Q2Qc (sf S v))) ->
  (forall v, e_var Et v = a_var Es v) ->
  (forall s, eval Et (lit_tree s) = a_lit Es s) ->
  forall a,
  (forall t f v x, fun1_name profile_C t = Some f -> e_f1 Et f x = a_fun Es t v x (Qcanon.Q2Qc 0)) ->
  (forall t f v x y, fun2_name profile_C t = Some f -> e_f2 Et f x y = a_fun Es t v x y) ->
  (forall t tok op q v x y, infix_info profile_C t = Some (tok, op, q) -> arith t = false -> a_fun Es t v x y = eval_bin op x y) ->
  frag2 profile_C a = true -> safeC (scale_expr S a) = true ->
  exists T, readC (gen_C (scale_expr S a)) = Some T /\ eval Et T = aeval (local_env S Es) a.
Proof. exact EndToEndFunProofs.end_to_end_fun_C. Qed.
Print Assumptions C03_end_to_end_fun_C.

Theorem C03_end_to_end_fun_Py : forall (S : senv) (Es : aenv) (Et : env),
  (forall v, (0 < sf S v)%Q) ->
  (forall v, a_lit Es (sf_text S v) = Qcanon.Q2Qc (sf S v)) ->
  (forall v, a_lit Es (sf_inv_text S v) = Qcanon.Qcinv (Qcanon.Q2Qc (sf S v))) ->
  (forall v, e_var Et v = a_var Es v) ->
  (forall s, eval Et (lit_tree s) = a_lit Es s) ->
  forall a,
  (forall t f v x, fun1_name profile_Py t = Some f -> e_f1 Et f x = a_fun Es t v x (Qcanon.Q2Qc 0)) ->
  (forall t f v x y, fun2_name profile_Py t = Some f -> e_f2 Et f x y = a_fun Es t v x y) ->
  (forall t tok op q v x y, infix_info profile_Py t = Some (tok, op, q) -> arith t = false -> a_fun Es t v x y = eval_bin op x y) ->
  frag2 profile_Py a = true -> safePy (scale_expr S a) = true ->
  exists T, readPy (gen_Py (scale_expr S a)) = Some T /\ eval Et T = aeval (local_env S Es) a.
Proof. exact EndToEndFunProofs.end_to_end_fun_Py. Qed.
Print Assumptions C03_end_to_end_fun_Py.

Example C03_end_to_end_fun_nonvacuous :
  frag2 profile_C e2f_a = true /\ frag2 profile_Py e2f_a = true
  /\ safeC (scale_expr env3 e2f_a) = true /\ safePy (scale_expr env3 e2f_a) = true
  /\ reads_asC (gen_C (scale_expr env3 e2f_a)) (scale_expr env3 e2f_a) = true.
Proof. exact EndToEndFunProofs.end_to_end_fun_nonvacuous. Qed.
Print Assumptions C03_end_to_end_fun_nonvacuous.

Theorem C03_end_to_end_premise_needed :
  frag2 profile_C e2f_rel = true /\ safeC (scale_expr env3 e2f_rel) = false
  /\ reads_asC (gen_C (scale_expr env3 e2f_rel)) (scale_expr env3 e2f_rel) = false.
Proof. exact EndToEndFunProofs.end_to_end_premise_needed. Qed.
Print Assumptions C03_end_to_end_premise_needed.

(** * Emission order (generator.cpp generateEquationCode and the four method bodies: the transcription is C20's
    ExternalDefs, reused; tied exactly to the sequence of array entries assigned by each generated method of every
    generated model).  Runtime contract: initialiseVariables, computeComputedConstants, computeRates, computeVariables
    in this order.  [rem] = remainingEquations when the method starts; ordered_all (OrderDefs) = every non-constant
    equation of the body stands after each dependency (its own and, for an NLA system, its siblings') that the
    generator wants and that no earlier method emitted (OrderProofs.ordered_all_means spells it out). *)
Theorem C03_emit_dependencies_first_constants : forall r rank rem, acyclic_by r rank -> NoDup rem ->
  ordered_all r true nil rem nil (eq_positions (fst (computed_constants_body r sfx rem))) = true.
Proof. exact OrderProofs.emit_dependencies_first_constants. Qed.
Print Assumptions C03_emit_dependencies_first_constants.

Theorem C03_emit_dependencies_first_rates : forall r rank rem, acyclic_by r rank -> NoDup rem ->
  ordered_all r true nil rem nil (eq_positions (fst (rates_body r sfx rem))) = true.
Proof. exact OrderProofs.emit_dependencies_first_rates. Qed.
Print Assumptions C03_emit_dependencies_first_rates.

Theorem C03_emit_dependencies_first_variables : forall r rank rem, acyclic_by r rank -> NoDup (all_pos r) ->
  ordered_all r false rem (all_pos r) nil (eq_positions (variables_body r sfx rem)) = true.
Proof. exact OrderProofs.emit_dependencies_first_variables. Qed.
Print Assumptions C03_emit_dependencies_first_variables.

Theorem C03_emit_each_once_constants : forall r rem, NoDup rem ->
  once_post rem (eq_positions (fst (computed_constants_body r sfx rem))) (snd (computed_constants_body r sfx rem)).
Proof. exact OrderProofs.emit_each_once_constants. Qed.
Print Assumptions C03_emit_each_once_constants.

Theorem C03_emit_each_once_rates : forall r rem, NoDup rem ->
  once_post rem (eq_positions (fst (rates_body r sfx rem))) (snd (rates_body r sfx rem)).
Proof. exact OrderProofs.emit_each_once_rates. Qed.
Print Assumptions C03_emit_each_once_rates.

Theorem C03_emit_each_once_variables : forall r rem, NoDup (all_pos r) -> NoDup (eq_positions (variables_body r sfx rem)).
Proof. exact OrderProofs.emit_each_once_variables. Qed.
Print Assumptions C03_emit_each_once_variables.

Theorem C03_emit_each_once_across : forall r rem, NoDup rem ->
  let c := computed_constants_body r sfx rem in
  NoDup (eq_positions (fst c) ++ eq_positions (fst (rates_body r sfx (snd c)))).
Proof. exact OrderProofs.emit_each_once_across. Qed.
Print Assumptions C03_emit_each_once_across.

(** what dependencies do not order: reading a RATE (ODE dependencies are never followed, and a rate read is not
    recorded as a dependency) and an initial value that names a variable *)
Theorem C03_emit_rates_refuted :
  acyclic_by r_rates (fun _ => 0)
  /\ body_slots r_rates (b_rates (emission r_rates)) = (SlRate 0 :: SlRate 1 :: nil)
  /\ ordered_all r_rates true nil (all_pos r_rates) nil (eq_positions (b_rates (emission r_rates))) = true
  /\ rate_reads_ok r_rates_reads nil (eq_positions (b_rates (emission r_rates))) = false.
Proof. exact OrderProofs.emit_rates_refuted. Qed.
Print Assumptions C03_emit_rates_refuted.

Theorem C03_emit_rates_partial : forall rate_reads code done,
  (forall p, In p code -> rate_reads p = nil) -> rate_reads_ok rate_reads done code = true.
Proof. exact OrderProofs.rate_reads_ok_partial. Qed.
Print Assumptions C03_emit_rates_partial.

Theorem C03_emit_init_refuted :
  body_slots r_init (b_init (emission r_init)) = (SlVariable 0 :: SlVariable 1 :: nil)
  /\ init_refs_ok r_init_ref nil (b_init (emission r_init)) = false.
Proof. exact OrderProofs.emit_init_refuted. Qed.
Print Assumptions C03_emit_init_refuted.

Theorem C03_emit_init_partial : forall init_ref vars done,
  (forall pre i post j, vars = (pre ++ (i, true) :: post)%list -> init_ref i = Some j ->
     mem_nat j done = true \/ In (j, true) pre) ->
  init_refs_ok init_ref done (init_stmts vars) = true.
Proof. exact OrderProofs.init_refs_ok_partial. Qed.
Print Assumptions C03_emit_init_partial.

(* NOT PROVED: (a) that the statements of initialiseVariables for the variables are init_stmts of the variables in
   array order is true by definition of ExternalDefs.initialise_body but not stated as a theorem; (b) the claims
   above are per method: the composition "every value read anywhere was computed by an earlier statement of the
   timeline init, constants, rates, variables" (which also needs that every true constant is emitted by
   initialiseVariables and every variable-based constant by computeComputedConstants) is not stated; (c)
   MathML-to-AST construction (analyseNode) and generateInitialisationCode's factor are not modelled (the latter is
   where C03-initial-value-reference-not-scaled lives); (d) the equation of the method bodies with external
   variables is C20's. *)

(** * Where the faithful model of the unchanged generator does NOT print what the equation says
    (each witness replayed on the real library; known findings C03-...). *)

Theorem C03_gen_refuted_not :
  gen_C w_not = "!a && b" /\ readC (gen_C w_not) = Some (TBin And (TNot (TVar "a")) (TVar "b"))
  /\ trC w_not = TNot (TBin And (TVar "a") (TVar "b")) /\ reads_asC (gen_C w_not) w_not = false.
Proof. exact GenWitness.refuted_not. Qed.
Print Assumptions C03_gen_refuted_not.

Theorem C03_gen_refuted_rel :
  gen_C w_rel = "a < b < d" /\ readC (gen_C w_rel) = Some (TBin Lt (TBin Lt (TVar "a") (TVar "b")) (TVar "d"))
  /\ trC w_rel = TBin Lt (TVar "a") (TBin Lt (TVar "b") (TVar "d")) /\ reads_asC (gen_C w_rel) w_rel = false.
Proof. exact GenWitness.refuted_rel. Qed.
Print Assumptions C03_gen_refuted_rel.

Theorem C03_gen_refuted_rel_logical :
  gen_C w_rel2 = "a && b < c" /\ reads_asC (gen_C w_rel2) w_rel2 = false.
Proof. exact GenWitness.refuted_rel_logical. Qed.
Print Assumptions C03_gen_refuted_rel_logical.

Theorem C03_gen_refuted_neg :
  gen_C w_neg = "a/-b*c" /\ gen_Py w_neg = "a/-b*c"
  /\ readC (gen_C w_neg) = Some (TBin Mul (TBin Div (TVar "a") (TNeg (TVar "b"))) (TVar "c"))
  /\ reads_asC (gen_C w_neg) w_neg = false /\ reads_asPy (gen_Py w_neg) w_neg = false.
Proof. exact GenWitness.refuted_neg. Qed.
Print Assumptions C03_gen_refuted_neg.

Theorem C03_gen_refuted_pypiece :
  gen_Py w_pycond = "b if x if y else w else d" /\ readPy (gen_Py w_pycond) = None
  /\ gen_Py w_pyval = "x if y else w if c else d"
  /\ readPy (gen_Py w_pyval) = Some (TCond (TVar "y") (TVar "x") (TCond (TVar "c") (TVar "w") (TVar "d")))
  /\ trPy w_pyval = TCond (TVar "c") (TCond (TVar "y") (TVar "x") (TVar "w")) (TVar "d")
  /\ reads_asPy (gen_Py w_pyval) w_pyval = false
  /\ reads_asC (gen_C w_pycond) w_pycond = true /\ reads_asC (gen_C w_pyval) w_pyval = true.
Proof. exact GenWitness.refuted_pypiece. Qed.
Print Assumptions C03_gen_refuted_pypiece.

Theorem C03_gen_refuted_double_minus :
  gen_C w_mm = "--3.0" /\ readC (gen_C w_mm) = None /\ reads_asPy (gen_Py w_mm) w_mm = true.
Proof. exact GenWitness.refuted_double_minus. Qed.
Print Assumptions C03_gen_refuted_double_minus.

Theorem C03_gen_refuted_unary_plus :
  gen_C w_uplus = "a-b+c" /\ reads_asC (gen_C w_uplus) w_uplus = false
  /\ reads_asPy (gen_Py w_uplus) w_uplus = false.
Proof. exact GenWitness.refuted_unary_plus. Qed.
Print Assumptions C03_gen_refuted_unary_plus.

Theorem C03_gen_refuted_logbase :
  gen_C w_logb = "a/log(x)/log(3.0)" /\ reads_asC (gen_C w_logb) w_logb = false
  /\ reads_asPy (gen_Py w_logb) w_logb = false.
Proof. exact GenWitness.refuted_logbase. Qed.
Print Assumptions C03_gen_refuted_logbase.

Theorem C03_gen_refuted_upper_exponent :
  gen_C w_bigE = "1E5.0+a" /\ readC (gen_C w_bigE) = None /\ readPy (gen_Py w_bigE) = None.
Proof. exact GenWitness.refuted_upper_exponent. Qed.
Print Assumptions C03_gen_refuted_upper_exponent.

(** Non-vacuity of the safe class. *)
Example C03_safe_nonvacuous :
  safeC w_ok1 = true /\ safePy w_ok1 = true /\ safeC w_ok2 = true /\ safePy w_ok2 = true
  /\ safeC w_ok3 = true /\ safePy w_ok3 = true
  /\ gen_C w_ok1 = "a+b+c-d*-x*y" /\ gen_C w_ok2 = "(a < b) && (!c || (a+b == -2.5e3))"
  /\ gen_C w_ok3 = "(x >= sin(y))?pow(a, 1.0/3.0):(y)?x:w"
  /\ gen_Py w_ok3 = "pow(a, 1.0/3.0) if geq_func(x, sin(y)) else x if y else w"
  /\ reads_asC (gen_C w_ok1) w_ok1 = true /\ reads_asC (gen_C w_ok2) w_ok2 = true
  /\ reads_asC (gen_C w_ok3) w_ok3 = true /\ reads_asPy (gen_Py w_ok3) w_ok3 = true.
Proof. exact GenWitness.safe_nonvacuous. Qed.
Print Assumptions C03_safe_nonvacuous.
