(** Properties_C03.v — statements only.  C03: generated code computes what the model's equations say.
    Expression layer: the printer model [gen] (GenDefs, tied string-exactly to Generator::equationCode on every
    run), the readers [readC]/[readPy] (GramDefs: how C / Python parse the text), the intended reading [tr]
    and the safe class [safe_b] (ReadDefs). *)
From Coq Require Import String List Bool.
From LC Require Import AstDefs GenDefs GramDefs ReadDefs CGramDefs PyGramDefs GenWitness.
Local Open Scope string_scope.

(** Where the faithful model of the unchanged generator does NOT print what the equation says
    (each witness replayed on the real library; known findings C03-...). *)

Theorem C03_gen_refuted_not :
  gen_C w_not = "!a && b" /\ readC (gen_C w_not) = Some (TBin And (TNot (TVar "a")) (TVar "b"))
  /\ trC w_not = TNot (TBin And (TVar "a") (TVar "b")) /\ reads_asC (gen_C w_not) w_not = false.
Proof. exact GenWitness.refuted_not. Qed.
Print Assumptions C03_gen_refuted_not.

Theorem C03_gen_refuted_rel :
  gen_C w_rel = "a < b < d" /\ readC (gen_C w_rel) = Some (TBin Lt (TBin Lt (TVar "a") (TVar "b")) (TVar "d"))
  /\ trC w_rel = TBin Lt (TVar "a") (TBin Lt (TVar "b") (TVar "d")) /\ reads_asC (gen_C w_rel) w_rel = false.
Proof. exact GenWitness.refuted_rel. Qed.
Print Assumptions C03_gen_refuted_rel.

Theorem C03_gen_refuted_rel_logical :
  gen_C w_rel2 = "a && b < c" /\ reads_asC (gen_C w_rel2) w_rel2 = false.
Proof. exact GenWitness.refuted_rel_logical. Qed.
Print Assumptions C03_gen_refuted_rel_logical.

Theorem C03_gen_refuted_neg :
  gen_C w_neg = "a/-b*c" /\ gen_Py w_neg = "a/-b*c"
  /\ readC (gen_C w_neg) = Some (TBin Mul (TBin Div (TVar "a") (TNeg (TVar "b"))) (TVar "c"))
  /\ reads_asC (gen_C w_neg) w_neg = false /\ reads_asPy (gen_Py w_neg) w_neg = false.
Proof. exact GenWitness.refuted_neg. Qed.
Print Assumptions C03_gen_refuted_neg.

Theorem C03_gen_refuted_pypiece :
  gen_Py w_pycond = "b if x if y else w else d" /\ readPy (gen_Py w_pycond) = None
  /\ gen_Py w_pyval = "x if y else w if c else d"
  /\ readPy (gen_Py w_pyval) = Some (TCond (TVar "y") (TVar "x") (TCond (TVar "c") (TVar "w") (TVar "d")))
  /\ trPy w_pyval = TCond (TVar "c") (TCond (TVar "y") (TVar "x") (TVar "w")) (TVar "d")
  /\ reads_asPy (gen_Py w_pyval) w_pyval = false
  /\ reads_asC (gen_C w_pycond) w_pycond = true /\ reads_asC (gen_C w_pyval) w_pyval = true.
Proof. exact GenWitness.refuted_pypiece. Qed.
Print Assumptions C03_gen_refuted_pypiece.

Theorem C03_gen_refuted_double_minus :
  gen_C w_mm = "--3.0" /\ readC (gen_C w_mm) = None /\ reads_asPy (gen_Py w_mm) w_mm = true.
Proof. exact GenWitness.refuted_double_minus. Qed.
Print Assumptions C03_gen_refuted_double_minus.

Theorem C03_gen_refuted_unary_plus :
  gen_C w_uplus = "a-b+c" /\ reads_asC (gen_C w_uplus) w_uplus = false
  /\ reads_asPy (gen_Py w_uplus) w_uplus = false.
Proof. exact GenWitness.refuted_unary_plus. Qed.
Print Assumptions C03_gen_refuted_unary_plus.

Theorem C03_gen_refuted_logbase :
  gen_C w_logb = "a/log(x)/log(3.0)" /\ reads_asC (gen_C w_logb) w_logb = false
  /\ reads_asPy (gen_Py w_logb) w_logb = false.
Proof. exact GenWitness.refuted_logbase. Qed.
Print Assumptions C03_gen_refuted_logbase.

Theorem C03_gen_refuted_upper_exponent :
  gen_C w_bigE = "1E5.0+a" /\ readC (gen_C w_bigE) = None /\ readPy (gen_Py w_bigE) = None.
Proof. exact GenWitness.refuted_upper_exponent. Qed.
Print Assumptions C03_gen_refuted_upper_exponent.

(** Non-vacuity of the safe class. *)
Example C03_safe_nonvacuous :
  safeC w_ok1 = true /\ safePy w_ok1 = true /\ safeC w_ok2 = true /\ safePy w_ok2 = true
  /\ safeC w_ok3 = true /\ safePy w_ok3 = true
  /\ gen_C w_ok1 = "a+b+c-d*-x*y" /\ gen_C w_ok2 = "(a < b) && (!c || (a+b == -2.5e3))"
  /\ gen_C w_ok3 = "(x >= sin(y))?pow(a, 1.0/3.0):(y)?x:w"
  /\ gen_Py w_ok3 = "pow(a, 1.0/3.0) if geq_func(x, sin(y)) else x if y else w"
  /\ reads_asC (gen_C w_ok1) w_ok1 = true /\ reads_asC (gen_C w_ok2) w_ok2 = true
  /\ reads_asC (gen_C w_ok3) w_ok3 = true /\ reads_asPy (gen_Py w_ok3) w_ok3 = true.
Proof. exact GenWitness.safe_nonvacuous. Qed.
Print Assumptions C03_safe_nonvacuous.
