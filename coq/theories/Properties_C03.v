(** Properties_C03.v — statements only.  C03: generated code computes what the model's equations say.
    Expression layer: the printer model [gen] (GenDefs, tied string-exactly to Generator::equationCode on every
    run), the readers [readC]/[readPy] (GramDefs: how C / Python parse the text), the intended reading [tr],
    the safe class [safe_b] and re-association [norm] (ReadDefs), exact values [eval] (EvalDefs). *)
From Coq Require Import String List Bool.
From LC Require Import AstDefs GenDefs GramDefs GramSpec GramProofs ReadDefs CGramDefs PyGramDefs
  EvalDefs EvalProofs ReadProofs LexProofs GenProofs GenWitness.
Local Open Scope string_scope.

(** * The text printed for an AST of the safe class is read as the equation says.
    [safeC]/[safePy] (ReadDefs.safe_b) is the decidable class "every operand sits at a grammar level its
    position accepts, or is an associative continuation"; it excludes exactly the shapes of the refutation
    theorems below.  Up to [norm] = re-association of + * && || chains and -(a*b) = (-a)*b. *)
Theorem C03_gen_reads_back_partial_C : forall a,
  safeC a = true -> exists T, readC (gen_C a) = Some T /\ norm T = norm (trC a).
Proof. exact GenProofs.gen_reads_back_C. Qed.
Print Assumptions C03_gen_reads_back_partial_C.

Theorem C03_gen_reads_back_partial_Py : forall a,
  safePy a = true -> exists T, readPy (gen_Py a) = Some T /\ norm T = norm (trPy a).
Proof. exact GenProofs.gen_reads_back_Py. Qed.
Print Assumptions C03_gen_reads_back_partial_Py.

(** its two halves: the lexer yields the token stream [gent], and [gent] parses to the intended tree *)
Theorem C03_lex_gen_C : forall a,
  safeC a = true -> lexC (gen_C a) = Some (GenTok.gent LC profile_C a).
Proof. exact LexProofs.lex_gen_C. Qed.
Print Assumptions C03_lex_gen_C.

Theorem C03_lex_gen_Py : forall a,
  safePy a = true -> lexPy (gen_Py a) = Some (GenTok.gent LPy profile_Py a).
Proof. exact LexProofs.lex_gen_Py. Qed.
Print Assumptions C03_lex_gen_Py.

Theorem C03_parse_gent_C : forall a,
  safeC a = true -> exists T, parseC (GenTok.gent LC profile_C a) = Some T /\ norm T = norm (trC a).
Proof. exact ReadProofs.parse_gent_C. Qed.
Print Assumptions C03_parse_gent_C.

Theorem C03_parse_gent_Py : forall a,
  safePy a = true -> exists T, parsePy (GenTok.gent LPy profile_Py a) = Some T /\ norm T = norm (trPy a).
Proof. exact ReadProofs.parse_gent_Py. Qed.
Print Assumptions C03_parse_gent_Py.

(** the executable oracle that the check evaluates on the library's own text accepts the whole safe class *)
Theorem C03_safe_reads_as_C : forall a, safeC a = true -> reads_asC (gen_C a) a = true.
Proof. exact GenProofs.safe_reads_as_C. Qed.
Print Assumptions C03_safe_reads_as_C.

Theorem C03_safe_reads_as_Py : forall a, safePy a = true -> reads_asPy (gen_Py a) a = true.
Proof. exact GenProofs.safe_reads_as_Py. Qed.
Print Assumptions C03_safe_reads_as_Py.

(** * The executable reader is the grammar: the fuelled precedence-climbing function and the big-step
    relation PExpr (GramSpec) accept the same token lists with the same trees. *)
Theorem C03_parse_sound : forall L ts t, parse L ts = Some t -> PExpr L 1 ts t nil.
Proof. exact GramProofs.pratt_sound. Qed.
Print Assumptions C03_parse_sound.

Theorem C03_parse_complete : forall L ts t, PExpr L 1 ts t nil -> parse L ts = Some t.
Proof. exact GramProofs.pratt_complete. Qed.
Print Assumptions C03_parse_complete.

(** * Values.  Re-association does not change the value over the rationals, for every interpretation of
    variables, literals and function names; so the printed text of a safe AST has the value of the equation. *)
Theorem C03_norm_sound : forall E t, eval E (norm t) = eval E t.
Proof. exact EvalProofs.norm_sound. Qed.
Print Assumptions C03_norm_sound.

Theorem C03_gen_value_C : forall E a,
  safeC a = true -> exists T, readC (gen_C a) = Some T /\ eval E T = eval E (trC a).
Proof. exact GenProofs.gen_value_C. Qed.
Print Assumptions C03_gen_value_C.

Theorem C03_gen_value_Py : forall E a,
  safePy a = true -> exists T, readPy (gen_Py a) = Some T /\ eval E T = eval E (trPy a).
Proof. exact GenProofs.gen_value_Py. Qed.
Print Assumptions C03_gen_value_Py.

(** * The two profiles agree: with the Python helper functions interpreted by their definitions
    (eq_func ... not_func, xor_func = xor), both generated texts denote the same value. *)
Theorem C03_profiles_agree : forall E a,
  helpers_ok E -> plain_names a = true -> eval E (trPy a) = eval E (trC a).
Proof. exact EvalProofs.profiles_agree. Qed.
Print Assumptions C03_profiles_agree.

Theorem C03_gen_profiles_agree : forall E a,
  helpers_ok E -> plain_names a = true -> safeC a = true -> safePy a = true ->
  exists TC TP, readC (gen_C a) = Some TC /\ readPy (gen_Py a) = Some TP /\ eval E TC = eval E TP.
Proof. exact GenProofs.gen_profiles_agree. Qed.
Print Assumptions C03_gen_profiles_agree.

(* NOT PROVED (not modelled): scale_preserves_value — Analyser::scaleAst / scaleEquationAst insert
   TIMES(CN factor, .) nodes so that every variable is read in the units of its equivalence class' primary
   variable; no Coq model of this step exists.  It is only *observed* by the whole-model layer (generated models
   with scaled connections, compared numerically with an independent evaluator), which found two defects
   in it (C03-known-variable-on-lhs-not-scaled, C03-bare-rate-on-rhs-voi-scaling). *)
(* NOT PROVED (not modelled): emit_dependencies_first / emit_each_once — GeneratorImpl::generateEquationCode's
   dependency-first emission into initialiseVariables / computeComputedConstants / computeRates /
   computeVariables.  Observed only: the compiled / executed code of every generated model yields the
   reference values after each of the four phases.  (The emission order itself is modelled and proved under C20:
   ExternalDefs.v / ExternalEmitProofs.v.) *)

(** * Where the faithful model of the unchanged generator does NOT print what the equation says
    (each witness replayed on the real library; known findings C03-...). *)

Theorem C03_gen_refuted_not :
  gen_C w_not = "!a && b" /\ readC (gen_C w_not) = Some (TBin And (TNot (TVar "a")) (TVar "b"))
  /\ trC w_not = TNot (TBin And (TVar "a") (TVar "b")) /\ reads_asC (gen_C w_not) w_not = false.
Proof. exact GenWitness.refuted_not. Qed.
Print Assumptions C03_gen_refuted_not.

Theorem C03_gen_refuted_rel :
  gen_C w_rel = "a < b < d" /\ readC (gen_C w_rel) = Some (TBin Lt (TBin Lt (TVar "a") (TVar "b")) (TVar "d"))
  /\ trC w_rel = TBin Lt (TVar "a") (TBin Lt (TVar "b") (TVar "d")) /\ reads_asC (gen_C w_rel) w_rel = false.
Proof. exact GenWitness.refuted_rel. Qed.
Print Assumptions C03_gen_refuted_rel.

Theorem C03_gen_refuted_rel_logical :
  gen_C w_rel2 = "a && b < c" /\ reads_asC (gen_C w_rel2) w_rel2 = false.
Proof. exact GenWitness.refuted_rel_logical. Qed.
Print Assumptions C03_gen_refuted_rel_logical.

Theorem C03_gen_refuted_neg :
  gen_C w_neg = "a/-b*c" /\ gen_Py w_neg = "a/-b*c"
  /\ readC (gen_C w_neg) = Some (TBin Mul (TBin Div (TVar "a") (TNeg (TVar "b"))) (TVar "c"))
  /\ reads_asC (gen_C w_neg) w_neg = false /\ reads_asPy (gen_Py w_neg) w_neg = false.
Proof. exact GenWitness.refuted_neg. Qed.
Print Assumptions C03_gen_refuted_neg.

Theorem C03_gen_refuted_pypiece :
  gen_Py w_pycond = "b if x if y else w else d" /\ readPy (gen_Py w_pycond) = None
  /\ gen_Py w_pyval = "x if y else w if c else d"
  /\ readPy (gen_Py w_pyval) = Some (TCond (TVar "y") (TVar "x") (TCond (TVar "c") (TVar "w") (TVar "d")))
  /\ trPy w_pyval = TCond (TVar "c") (TCond (TVar "y") (TVar "x") (TVar "w")) (TVar "d")
  /\ reads_asPy (gen_Py w_pyval) w_pyval = false
  /\ reads_asC (gen_C w_pycond) w_pycond = true /\ reads_asC (gen_C w_pyval) w_pyval = true.
Proof. exact GenWitness.refuted_pypiece. Qed.
Print Assumptions C03_gen_refuted_pypiece.

Theorem C03_gen_refuted_double_minus :
  gen_C w_mm = "--3.0" /\ readC (gen_C w_mm) = None /\ reads_asPy (gen_Py w_mm) w_mm = true.
Proof. exact GenWitness.refuted_double_minus. Qed.
Print Assumptions C03_gen_refuted_double_minus.

Theorem C03_gen_refuted_unary_plus :
  gen_C w_uplus = "a-b+c" /\ reads_asC (gen_C w_uplus) w_uplus = false
  /\ reads_asPy (gen_Py w_uplus) w_uplus = false.
Proof. exact GenWitness.refuted_unary_plus. Qed.
Print Assumptions C03_gen_refuted_unary_plus.

Theorem C03_gen_refuted_logbase :
  gen_C w_logb = "a/log(x)/log(3.0)" /\ reads_asC (gen_C w_logb) w_logb = false
  /\ reads_asPy (gen_Py w_logb) w_logb = false.
Proof. exact GenWitness.refuted_logbase. Qed.
Print Assumptions C03_gen_refuted_logbase.

Theorem C03_gen_refuted_upper_exponent :
  gen_C w_bigE = "1E5.0+a" /\ readC (gen_C w_bigE) = None /\ readPy (gen_Py w_bigE) = None.
Proof. exact GenWitness.refuted_upper_exponent. Qed.
Print Assumptions C03_gen_refuted_upper_exponent.

(** Non-vacuity of the safe class. *)
Example C03_safe_nonvacuous :
  safeC w_ok1 = true /\ safePy w_ok1 = true /\ safeC w_ok2 = true /\ safePy w_ok2 = true
  /\ safeC w_ok3 = true /\ safePy w_ok3 = true
  /\ gen_C w_ok1 = "a+b+c-d*-x*y" /\ gen_C w_ok2 = "(a < b) && (!c || (a+b == -2.5e3))"
  /\ gen_C w_ok3 = "(x >= sin(y))?pow(a, 1.0/3.0):(y)?x:w"
  /\ gen_Py w_ok3 = "pow(a, 1.0/3.0) if geq_func(x, sin(y)) else x if y else w"
  /\ reads_asC (gen_C w_ok1) w_ok1 = true /\ reads_asC (gen_C w_ok2) w_ok2 = true
  /\ reads_asC (gen_C w_ok3) w_ok3 = true /\ reads_asPy (gen_Py w_ok3) w_ok3 = true.
Proof. exact GenWitness.safe_nonvacuous. Qed.
Print Assumptions C03_safe_nonvacuous.
