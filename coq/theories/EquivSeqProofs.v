(** EquivSeqProofs.v — C18: the analyser's own use of the equivalence cache.

    Analyser::analyseModel asks AnalyserModel::areEquivalentVariables for pairs of variables of the model, in an
    order that depends on the equations; whatever that sequence is, it is a finite list of queries against a graph
    that does not change during the analysis, starting from the empty cache of a new AnalyserModel.  Here: for
    EVERY such list the cache is consistent with the connection graph after every prefix, every answer is
    connectivity, and an answer does not depend on what was asked before. *)
From Coq Require Import List Arith Bool NArith Lia Relations.
From LC Require Import KeyDefs GraphDefs EquivSpec KeyProofs GraphProofs.
Import ListNotations.

(** the right answer of areEquivalentVariables on a graph *)
Definition right_answer (g : graph) (a b : nat) (r : option bool) : Prop :=
  exists r0, r = Some r0 /\ (r0 = true <-> a = b \/ connected g a b).

(** every entry of the cache is the right answer for a pair of variables of the model that has that key *)
Definition cache_consistent (n : nat) (g : graph) (c : hcache) : Prop :=
  forall k r, In (k, r) c -> exists a b, a < n /\ b < n /\ model_key heap_addr a b = k /\ right_answer g a b r.

(** the state after a sequence of queries, by a fold over the list: (cache, answers so far) *)
Definition seq_step (n : nat) (g : graph) (st : hcache * list (option bool)) (q : nat * nat) : hcache * list (option bool) :=
  let (r, c') := query pair_eqb (model_key heap_addr) (are_equivalent n g) (fst st) (fst q) (snd q) in
  (c', snd st ++ [r]).

Definition seq_run (n : nat) (g : graph) (qs : list (nat * nat)) : hcache * list (option bool) :=
  fold_left (seq_step n g) qs ([], []).

Lemma right_answer_sym : forall g a b r, right_answer g a b r -> right_answer g b a r.
Proof.
  intros g a b r [r0 [E H]]. exists r0. split; [exact E|]. rewrite H. split.
  - intros [F | F]; [left; congruence | right; apply rst_sym; exact F].
  - intros [F | F]; [left; congruence | right; apply rst_sym; exact F].
Qed.

Lemma right_answer_unique : forall g a b r1 r2, right_answer g a b r1 -> right_answer g a b r2 -> r1 = r2.
Proof.
  intros g a b r1 r2 [x [-> Hx]] [y [-> Hy]]. f_equal. apply bool_eq_iff. rewrite Hx, Hy. tauto.
Qed.

(** One query (the one-step lemma in the vocabulary of this file): on a hit the stored entry belongs to the same
    unordered pair (injectivity of the key and of the placement), on a miss the search is right. *)
Lemma query_consistent : forall n g c a b, symmetric g -> bounded g n -> a < n -> b < n ->
  cache_consistent n g c ->
  right_answer g a b (fst (query pair_eqb (model_key heap_addr) (are_equivalent n g) c a b)) /\
  cache_consistent n g (snd (query pair_eqb (model_key heap_addr) (are_equivalent n g) c a b)).
Proof.
  intros n g c a b Hs Hbd Ha Hb Hc. unfold query.
  destruct (lookup pair_eqb (model_key heap_addr a b) c) as [r|] eqn:E; cbn [fst snd].
  - split; [|exact Hc].
    apply (lookup_in _ _ pair_eqb pair_eqb_spec) in E.
    destruct (Hc _ _ E) as [a' [b' [_ [_ [Hk Hr]]]]].
    unfold model_key in Hk. apply pairkey_injective in Hk.
    destruct Hk as [[H1 H2] | [H1 H2]]; apply heap_addr_inj in H1; apply heap_addr_inj in H2; subst.
    + exact Hr.
    + apply right_answer_sym. exact Hr.
  - assert (R : right_answer g a b (are_equivalent n g a b))
      by (apply (are_equiv_iff_same_or_connected g n n a b Hs Hbd Hb (le_n n))).
    split; [exact R|].
    intros k r [H | H].
    + inversion H; subst. exists a, b. auto.
    + apply Hc. exact H.
Qed.

(** The lift over all query lists: from any consistent state, the fold keeps the cache consistent and appends
    exactly one right answer per query. *)
Lemma seq_fold_consistent : forall n g, symmetric g -> bounded g n ->
  forall qs c rs0, in_range n qs -> cache_consistent n g c ->
    cache_consistent n g (fst (fold_left (seq_step n g) qs (c, rs0))) /\
    exists rs1, snd (fold_left (seq_step n g) qs (c, rs0)) = rs0 ++ rs1 /\
                Forall2 (fun q r => right_answer g (fst q) (snd q) r) qs rs1.
Proof.
  intros n g Hs Hbd qs. induction qs as [|[a b] t IH]; intros c rs0 Hr Hc; cbn [fold_left].
  - cbn [fst snd]. split; [exact Hc|]. exists []. rewrite app_nil_r. split; [reflexivity | constructor].
  - destruct (Hr a b (or_introl eq_refl)) as [Ha Hb].
    destruct (query_consistent n g c a b Hs Hbd Ha Hb Hc) as [Hans Hc'].
    destruct (query pair_eqb (model_key heap_addr) (are_equivalent n g) c a b) as [r c'] eqn:E. cbn [fst snd] in *.
    assert (Est : seq_step n g (c, rs0) (a, b) = (c', rs0 ++ [r])) by (unfold seq_step; cbn [fst snd]; rewrite E; reflexivity).
    rewrite Est.
    assert (Hr' : in_range n t) by (intros x y Hin; apply Hr; right; exact Hin).
    destruct (IH c' (rs0 ++ [r]) Hr' Hc') as [Hfin [rs1 [Es Hf]]].
    split; [exact Hfin|]. exists (r :: rs1). split.
    + etransitivity; [exact Es|]. rewrite <- app_assoc. reflexivity.
    + constructor; [exact Hans | exact Hf].
Qed.

Lemma in_firstn : forall (A : Type) k (l : list A) x, In x (firstn k l) -> In x l.
Proof.
  intros A k l x H. rewrite <- (firstn_skipn k l). apply in_or_app. left. exact H.
Qed.

(** For every query list against a fixed graph, starting from the empty cache: after EVERY prefix the cache is
    consistent with the connection graph and the answers given so far are, one by one, connectivity. *)
Theorem any_query_sequence_consistent : forall n g qs, symmetric g -> bounded g n -> in_range n qs ->
  forall k,
    cache_consistent n g (fst (seq_run n g (firstn k qs))) /\
    Forall2 (fun q r => right_answer g (fst q) (snd q) r) (firstn k qs) (snd (seq_run n g (firstn k qs))).
Proof.
  intros n g qs Hs Hbd Hr k. unfold seq_run.
  assert (Hr' : in_range n (firstn k qs)) by (intros a b Hin; apply Hr; eapply in_firstn; eauto).
  destruct (seq_fold_consistent n g Hs Hbd (firstn k qs) [] [] Hr') as [Hc [rs1 [Es Hf]]].
  - intros x r [].
  - split; [exact Hc|]. cbn [app] in Es. eapply eq_ind_r with (P := fun l => Forall2 _ _ l); [exact Hf | exact Es].
Qed.

(** The fold is the model's own [run] / [model_queries] (GraphDefs / KeyDefs), so the statement is about the function
    that is extracted and compared with the library. *)
Lemma seq_fold_is_run : forall n g qs c rs0,
  fold_left (seq_step n g) qs (c, rs0) =
  (snd (run pair_eqb (model_key heap_addr) (are_equivalent n g) c qs),
   rs0 ++ fst (run pair_eqb (model_key heap_addr) (are_equivalent n g) c qs)).
Proof.
  intros n g qs. induction qs as [|[a b] t IH]; intros c rs0; cbn [fold_left run].
  - cbn [fst snd]. rewrite app_nil_r. reflexivity.
  - destruct (query pair_eqb (model_key heap_addr) (are_equivalent n g) c a b) as [r c'] eqn:E.
    assert (Est : seq_step n g (c, rs0) (a, b) = (c', rs0 ++ [r])) by (unfold seq_step; cbn [fst snd]; rewrite E; reflexivity).
    rewrite Est. rewrite IH. destruct (run pair_eqb (model_key heap_addr) (are_equivalent n g) c' t) as [rs c2]. cbn [fst snd].
    rewrite <- app_assoc. reflexivity.
Qed.

Theorem seq_run_is_model_queries : forall n g qs, snd (seq_run n g qs) = model_queries heap_addr n g qs.
Proof.
  intros n g qs. unfold seq_run. rewrite seq_fold_is_run. reflexivity.
Qed.

(** An answer does not depend on which queries came before, nor on their order or number: after any two
    histories the same question gets the same answer (and it is the right one). *)
Theorem answers_history_independent : forall n g qs1 qs2 a b, symmetric g -> bounded g n ->
  in_range n qs1 -> in_range n qs2 -> a < n -> b < n ->
  fst (query pair_eqb (model_key heap_addr) (are_equivalent n g) (fst (seq_run n g qs1)) a b) =
  fst (query pair_eqb (model_key heap_addr) (are_equivalent n g) (fst (seq_run n g qs2)) a b) /\
  right_answer g a b (fst (query pair_eqb (model_key heap_addr) (are_equivalent n g) (fst (seq_run n g qs1)) a b)).
Proof.
  intros n g qs1 qs2 a b Hs Hbd H1 H2 Ha Hb.
  assert (C : forall qs, in_range n qs -> cache_consistent n g (fst (seq_run n g qs))).
  { intros qs Hr. unfold seq_run. apply (seq_fold_consistent n g Hs Hbd qs [] [] Hr). intros x r []. }
  destruct (query_consistent n g _ a b Hs Hbd Ha Hb (C qs1 H1)) as [R1 _].
  destruct (query_consistent n g _ a b Hs Hbd Ha Hb (C qs2 H2)) as [R2 _].
  split; [eapply right_answer_unique; eauto | exact R1].
Qed.

(** Non-vacuity: chain 0-1-2, variable 3 apart; (0,2) is asked, then (2,0) (a hit on the same entry), (3,0), (0,2)
    again, (1,1): five right answers, three cache entries. *)
Definition ex_seq_graph : graph := freeze 4 (build [AddEq 0 1; AddEq 1 2]).
Definition ex_seq : list (nat * nat) := [(0, 2); (2, 0); (3, 0); (0, 2); (1, 1)].
Example seq_nonvacuous :
  snd (seq_run 4 ex_seq_graph ex_seq) = [Some true; Some true; Some false; Some true; Some true] /\
  length (fst (seq_run 4 ex_seq_graph ex_seq)) = 3 /\
  symmetric ex_seq_graph /\ bounded ex_seq_graph 4 /\ in_range 4 ex_seq.
Proof.
  split; [vm_compute; reflexivity|]. split; [vm_compute; reflexivity|].
  assert (H : Forall (op_below 4) [AddEq 0 1; AddEq 1 2]) by (repeat constructor).
  destruct (build_wf 4 _ H) as [[_ [Hs _]] Hbd].
  destruct (freeze_inv 4 _ Hs Hbd) as [Hs' Hbd'].
  split; [exact Hs'|]. split; [exact Hbd'|].
  intros a b Hin. unfold ex_seq in Hin. cbn [In] in Hin.
  repeat (destruct Hin as [Hin | Hin]; [inversion Hin; subst; lia|]). destruct Hin.
Qed.
