(** Drop1xProofs.v — C14: stripping the foreign constructs ([Drop1xSpec.strip_foreign]) from ANY 1.x document changes
    neither the transformed model nor the issues that are stronger than a message.  Lemmas only. *)
From Coq Require Import String Ascii List Bool ZArith Arith.
From LC Require Import Common NumDefs XmlDefs EntTreeDefs PrintDefs LoadDefs Load1xDefs Drop1xSpec.
Import ListNotations.
Local Open Scope string_scope.
Local Open Scope bool_scope.
Local Open Scope list_scope.

(** the issues that are stronger than a message *)
Definition strong (l : list issue) : list issue := filter (fun i => negb (is_message i)) l.

Lemma strong_app : forall a b, strong (a ++ b) = strong a ++ strong b.
Proof. intros. apply filter_app. Qed.

Lemma strong_msg : strong [msg] = [].
Proof. reflexivity. Qed.

Section Drop.
Variable E : env.
Variable fx fi fd : bool.

(** ** variable: every child element only yields a message *)
Lemma strong_stray_msg_filter : forall ks,
  strong (flat_map stray_msg (filter (fun k => negb (is_elem k)) ks)) = strong (flat_map stray_msg ks).
Proof.
  induction ks as [|k r IH]; [reflexivity|]. cbn [filter flat_map]. destruct k as [ns nm a kk|s|]; cbn [is_elem negb].
  - rewrite strong_app. cbn [stray_msg]. rewrite strong_msg. exact IH.
  - cbn [flat_map]. rewrite !strong_app. now rewrite IH.
  - cbn [flat_map]. rewrite !strong_app. now rewrite IH.
Qed.

Lemma variable_strip : forall x,
  fst (load_variable1 fi (strip_variable x)) = fst (load_variable1 fi x)
  /\ strong (snd (load_variable1 fi (strip_variable x))) = strong (snd (load_variable1 fi x)).
Proof.
  intros [ns nm attrs ks|s|]; [|split; reflexivity|split; reflexivity].
  unfold strip_variable, load_variable1, xattrs. cbn [xml_attrs xml_kids fst snd]. split; [reflexivity|].
  rewrite !strong_app. now rewrite strong_stray_msg_filter.
Qed.

Lemma strip_variable_tests : forall nm x, is_cellml_any nm (strip_variable x) = is_cellml_any nm x.
Proof. intros nm [ns n attrs ks|s|]; reflexivity. Qed.

(** ** component *)
Definition ck_rel (st st' : ckids_acc) : Prop :=
  ck_vars st = ck_vars st' /\ ck_resets st = ck_resets st' /\ ck_math st = ck_math st' /\ strong (ck_issues st) = strong (ck_issues st').

Lemma comp_kid_dropped : forall st st' k, ck_rel st st' -> comp_kid_known k = false -> ck_rel (load_component_kid1 E fi st k) st'.
Proof.
  intros st st' k (H1 & H2 & H3 & H4) Hk. unfold comp_kid_known in Hk.
  apply orb_false_iff in Hk. destruct Hk as [Hk Hn]. apply orb_false_iff in Hk. destruct Hk as [Hk He].
  apply orb_false_iff in Hk. destruct Hk as [Hk Hm]. apply orb_false_iff in Hk. destruct Hk as [Hv Hr].
  unfold load_component_kid1. rewrite Hv, Hr, Hm.
  destruct k as [ns nm a kk|s|]; try discriminate.
  cbn [xml_name] in Hn. rewrite Hn.
  repeat split; try assumption. cbn [ck_issues]. rewrite strong_app, strong_msg, app_nil_r. assumption.
Qed.

Lemma comp_kid_kept : forall st st' k, ck_rel st st' ->
  ck_rel (load_component_kid1 E fi st k) (load_component_kid1 E fi st' (strip_comp_kid k)).
Proof.
  intros st st' k (H1 & H2 & H3 & H4). unfold strip_comp_kid, load_component_kid1.
  destruct (is_cellml_any "variable" k) eqn:Ev.
  - rewrite strip_variable_tests, Ev. destruct (variable_strip k) as [Hf Hs].
    repeat split; cbn [ck_vars ck_resets ck_math ck_issues]; try assumption.
    + now rewrite H1, Hf.
    + now rewrite !strong_app, H4, Hs.
  - rewrite Ev. destruct (is_cellml20 "reset" k).
    { repeat split; cbn [ck_vars ck_resets ck_math ck_issues]; try assumption; rewrite H1; [now rewrite H2|now rewrite !strong_app, H4]. }
    destruct (is_mathml "math" k).
    { repeat split; cbn [ck_vars ck_resets ck_math ck_issues]; try assumption. now rewrite H3. }
    destruct k as [ns nm a kk|s|].
    + destruct (String.eqb nm "units"); [repeat split; assumption|].
      repeat split; cbn [ck_vars ck_resets ck_math ck_issues]; try assumption. now rewrite !strong_app, H4.
    + repeat split; cbn [ck_vars ck_resets ck_math ck_issues]; try assumption. now rewrite !strong_app, H4.
    + repeat split; cbn [ck_vars ck_resets ck_math ck_issues]; try assumption. now rewrite !strong_app, H4.
Qed.

Lemma comp_kids_strip : forall ks st st', ck_rel st st' ->
  ck_rel (fold_left (load_component_kid1 E fi) ks st)
         (fold_left (load_component_kid1 E fi) (map strip_comp_kid (filter comp_kid_known ks)) st').
Proof.
  induction ks as [|k r IH]; intros st st' H; [exact H|].
  cbn [fold_left filter]. destruct (comp_kid_known k) eqn:Ek.
  - cbn [map fold_left]. apply IH. now apply comp_kid_kept.
  - apply IH. now apply comp_kid_dropped.
Qed.

Lemma component_strip : forall x,
  fst (load_component1 E fi (strip_component x)) = fst (load_component1 E fi x)
  /\ strong (snd (load_component1 E fi (strip_component x))) = strong (snd (load_component1 E fi x)).
Proof.
  intros [ns nm attrs ks|s|]; [|split; reflexivity|split; reflexivity].
  unfold strip_component, load_component1, xattrs. cbn [xml_attrs xml_kids fst snd].
  assert (H0 : ck_rel ckids_acc0 ckids_acc0) by (repeat split).
  destruct (comp_kids_strip ks _ _ H0) as (H1 & H2 & H3 & H4).
  split; [now rewrite <- H1, <- H2, <- H3|]. rewrite !strong_app. now rewrite H4.
Qed.

(* the units children: untouched by the stripping *)
Lemma units_kids_strip : forall ks acc,
  fold_left (fun acc k => if is_1x "units" k then let r := load_units1 E fd k in (fst acc ++ [fst r], snd acc ++ snd r) else acc)
            (map strip_comp_kid (filter comp_kid_known ks)) acc
  = fold_left (fun acc k => if is_1x "units" k then let r := load_units1 E fd k in (fst acc ++ [fst r], snd acc ++ snd r) else acc) ks acc.
Proof.
  induction ks as [|k r IH]; intros acc; [reflexivity|]. cbn [filter fold_left].
  destruct (is_1x "units" k) eqn:Eu.
  - assert (Hn : String.eqb (xml_name k) "units" = true).
    { unfold is_1x, is_element in Eu. destruct k as [ns nm a kk|s|]; try discriminate.
      apply orb_true_iff in Eu. destruct Eu as [Eu|Eu]; apply andb_true_iff in Eu; destruct Eu as [_ Eu]; exact Eu. }
    assert (Hv : is_cellml_any "variable" k = false).
    { destruct k as [ns nm a kk|s|]; try reflexivity. cbn [xml_name] in Hn. apply String.eqb_eq in Hn. subst nm.
      unfold is_cellml_any, is_element. cbn. now rewrite !andb_false_r. }
    assert (Hs : strip_comp_kid k = k) by (unfold strip_comp_kid; now rewrite Hv).
    unfold comp_kid_known. rewrite Hn, !orb_true_r. cbn [map fold_left]. rewrite Hs, Eu. apply IH.
  - destruct (comp_kid_known k); [|apply IH]. cbn [map fold_left].
    assert (Hs : is_1x "units" (strip_comp_kid k) = false).
    { unfold strip_comp_kid. destruct (is_cellml_any "variable" k); [|assumption]. destruct k as [ns nm a kk|s|]; assumption. }
    rewrite Hs. apply IH.
Qed.

Lemma units_from_component_strip : forall x, units_from_component E fd (strip_component x) = units_from_component E fd x.
Proof. intros [ns nm attrs ks|s|]; try reflexivity. unfold strip_component, units_from_component. cbn [xml_kids]. apply units_kids_strip. Qed.

(** ** import *)
Definition ik_rel (st st' : ikids_acc) : Prop :=
  ik_units st = ik_units st' /\ ik_comps st = ik_comps st' /\ strong (ik_issues st) = strong (ik_issues st').

Lemma import_kids_strip : forall src ks st st', ik_rel st st' ->
  ik_rel (fold_left (load_import_kid1 src) ks st) (fold_left (load_import_kid1 src) (filter import_kid_known ks) st').
Proof.
  intros src. induction ks as [|k r IH]; intros st st' H; [exact H|].
  destruct H as (H1 & H2 & H3). cbn [fold_left filter]. unfold import_kid_known at 1.
  destruct (is_1x "component" k) eqn:Ec.
  - cbn [orb fold_left]. apply IH. unfold load_import_kid1. rewrite Ec.
    repeat split; cbn [ik_units ik_comps ik_issues]; try assumption; [now rewrite H2|now rewrite !strong_app, H3].
  - destruct (is_1x "units" k) eqn:Eu.
    + cbn [orb fold_left]. apply IH. unfold load_import_kid1. rewrite Ec, Eu.
      repeat split; cbn [ik_units ik_comps ik_issues]; try assumption; [now rewrite H1|now rewrite !strong_app, H3].
    + cbn [orb]. destruct k as [ns nm a kk|s|]; cbn [is_elem negb].
      * apply IH. unfold load_import_kid1. rewrite Ec, Eu. repeat split; cbn [ik_units ik_comps ik_issues]; try assumption.
        cbn [stray_msg]. now rewrite strong_app, strong_msg, app_nil_r.
      * cbn [fold_left]. apply IH. unfold load_import_kid1. rewrite Ec, Eu.
        repeat split; cbn [ik_units ik_comps ik_issues]; try assumption. now rewrite !strong_app, H3.
      * cbn [fold_left]. apply IH. unfold load_import_kid1. rewrite Ec, Eu.
        repeat split; cbn [ik_units ik_comps ik_issues]; try assumption. now rewrite !strong_app, H3.
Qed.

Lemma import_strip : forall tag x,
  fst (load_import1 tag (strip_import x)) = fst (load_import1 tag x)
  /\ strong (snd (load_import1 tag (strip_import x))) = strong (snd (load_import1 tag x)).
Proof.
  intros tag [ns nm attrs ks|s|]; [|split; reflexivity|split; reflexivity].
  unfold strip_import. destruct (filter import_kid_known ks) as [|k0 r0] eqn:Ef; [split; reflexivity|].
  unfold load_import1, xattrs. cbn [xml_attrs xml_kids].
  set (a := fold_left load_import_attr1 (eff_attrs attrs) imp_acc0).
  assert (H0 : ik_rel ikids_acc0 ikids_acc0) by (repeat split).
  pose proof (import_kids_strip {| is_tag := tag; is_url := ia_url a; is_id := ia_id a |} ks _ _ H0) as (H1 & H2 & H3).
  rewrite Ef in H1, H2, H3. cbn [fst snd]. split; [now rewrite H1, H2|].
  assert (Hne : ks <> []) by (intros ->; discriminate).
  destruct ks as [|k1 r1]; [contradiction|]. rewrite !strong_app. now rewrite H3.
Qed.

(** ** the model *)
Definition ma_rel (st st' : model_acc) : Prop :=
  ma_units st = ma_units st' /\ ma_comps st = ma_comps st' /\ ma_imports st = ma_imports st' /\ ma_encid st = ma_encid st'
  /\ ma_encs st = ma_encs st' /\ ma_conns st = ma_conns st' /\ strong (ma_issues st) = strong (ma_issues st').

Lemma is_1x_strip_component : forall nm x, is_1x nm (strip_component x) = is_1x nm x.
Proof. intros nm [ns n a k|s|]; reflexivity. Qed.

Lemma is_1x_strip_import : forall nm x, is_1x nm (strip_import x) = is_1x nm x.
Proof. intros nm [ns n a k|s|]; try reflexivity. unfold strip_import. destruct (filter import_kid_known k); reflexivity. Qed.

Lemma model_kid_kept : forall st st' k, ma_rel st st' ->
  ma_rel (load_model_kid1 E fi fd st k) (load_model_kid1 E fi fd st' (strip_model_kid k)).
Proof.
  intros st st' k (H1 & H2 & H3 & H4 & H5 & H6 & H7). unfold strip_model_kid, load_model_kid1.
  destruct (is_1x "component" k) eqn:Ec.
  - rewrite is_1x_strip_component, Ec, units_from_component_strip. destruct (component_strip k) as [Hf Hs].
    repeat split; cbn [ma_units ma_comps ma_imports ma_encid ma_encs ma_conns ma_issues]; try assumption.
    + now rewrite H1.
    + now rewrite H2, Hf.
    + now rewrite !strong_app, H7, Hs.
  - destruct (is_1x "units" k) eqn:Eu.
    + rewrite Ec, Eu. repeat split; cbn [ma_units ma_comps ma_imports ma_encid ma_encs ma_conns ma_issues]; try assumption;
        [now rewrite H1|now rewrite !strong_app, H7].
    + destruct (is_1x "import" k) eqn:Ei.
      * rewrite !is_1x_strip_import, Ec, Eu, Ei, <- H3. destruct (import_strip (ma_imports st) k) as [Hf Hs].
        destruct (load_import1 (ma_imports st) k) as [[us cs] is], (load_import1 (ma_imports st) (strip_import k)) as [[us' cs'] is'].
        cbn [fst snd] in Hf, Hs. injection Hf as -> ->.
        repeat split; cbn [ma_units ma_comps ma_imports ma_encid ma_encs ma_conns ma_issues]; try assumption;
          [now rewrite H1|now rewrite H2|now rewrite !strong_app, H7, Hs].
      * rewrite Ec, Eu, Ei. destruct (is_cellml20 "encapsulation" k).
        { rewrite H4. destruct (xml_kids k); repeat split; cbn [ma_units ma_comps ma_imports ma_encid ma_encs ma_conns ma_issues]; try assumption;
            try (now rewrite H5); now rewrite !strong_app, H7. }
        destruct (is_cellml20 "connection" k).
        { repeat split; cbn [ma_units ma_comps ma_imports ma_encid ma_encs ma_conns ma_issues]; try assumption. now rewrite H6. }
        destruct (is_1x "group" k).
        { destruct (is_enc_rel k); repeat split; cbn [ma_units ma_comps ma_imports ma_encid ma_encs ma_conns ma_issues]; try assumption.
          now rewrite H5. }
        destruct (is_1x "connection" k).
        { repeat split; cbn [ma_units ma_comps ma_imports ma_encid ma_encs ma_conns ma_issues]; try assumption. now rewrite H6. }
        unfold upd_issues. repeat split; cbn [ma_units ma_comps ma_imports ma_encid ma_encs ma_conns ma_issues]; try assumption.
        now rewrite !strong_app, H7.
Qed.

Lemma model_kid_dropped : forall st st' k, ma_rel st st' -> model_kid_known k = false -> ma_rel (load_model_kid1 E fi fd st k) st'.
Proof.
  intros st st' k (H1 & H2 & H3 & H4 & H5 & H6 & H7) Hk. unfold model_kid_known in Hk.
  apply orb_false_iff in Hk. destruct Hk as [Hk Q8]. apply orb_false_iff in Hk. destruct Hk as [Hk Q7].
  apply orb_false_iff in Hk. destruct Hk as [Hk Q6]. apply orb_false_iff in Hk. destruct Hk as [Hk Q5].
  apply orb_false_iff in Hk. destruct Hk as [Hk Q4]. apply orb_false_iff in Hk. destruct Hk as [Hk Q3].
  apply orb_false_iff in Hk. destruct Hk as [Q1 Q2].
  unfold load_model_kid1. rewrite Q1, Q2, Q3, Q4, Q5, Q6, Q7.
  destruct k as [ns nm a kk|s|]; try discriminate.
  unfold upd_issues. repeat split; cbn [ma_units ma_comps ma_imports ma_encid ma_encs ma_conns ma_issues]; try assumption.
  cbn [stray_msg]. now rewrite strong_app, strong_msg, app_nil_r.
Qed.

Lemma model_kids_strip : forall ks st st', ma_rel st st' ->
  ma_rel (fold_left (load_model_kid1 E fi fd) ks st)
         (fold_left (load_model_kid1 E fi fd) (map strip_model_kid (filter model_kid_known ks)) st').
Proof.
  induction ks as [|k r IH]; intros st st' H; [exact H|].
  cbn [fold_left filter]. destruct (model_kid_known k) eqn:Ek.
  - cbn [map fold_left]. apply IH. now apply model_kid_kept.
  - apply IH. now apply model_kid_dropped.
Qed.

Theorem dropped_only_messages : forall x, is_cellml20 "model" x = false -> is_1x "model" x = true ->
  fst (load1x E fx fi fd false x) = fst (load1x E fx fi fd false (strip_foreign x))
  /\ filter (fun i => negb (is_message i)) (snd (load1x E fx fi fd false x))
     = filter (fun i => negb (is_message i)) (snd (load1x E fx fi fd false (strip_foreign x))).
Proof.
  intros x H20 H1x. destruct x as [ns nm attrs ks|s|]; try discriminate.
  assert (H20' : is_cellml20 "model" (strip_foreign (Elem ns nm attrs ks)) = false) by exact H20.
  assert (H1x' : is_1x "model" (strip_foreign (Elem ns nm attrs ks)) = true) by exact H1x.
  unfold load1x. rewrite H20, H1x, H20', H1x'. cbn [negb andb].
  unfold strip_foreign, load_1x_root, xattrs. cbn [xml_attrs xml_kids].
  assert (H0 : ma_rel model_acc0 model_acc0) by (repeat split).
  destruct (model_kids_strip ks _ _ H0) as (H1 & H2 & H3 & H4 & H5 & H6 & H7).
  set (k := fold_left (load_model_kid1 E fi fd) ks model_acc0) in *.
  set (k' := fold_left (load_model_kid1 E fi fd) (map strip_model_kid (filter model_kid_known ks)) model_acc0) in *.
  rewrite <- H1, <- H2, <- H4, <- H5, <- H6. cbn [fst snd]. split; [reflexivity|].
  fold (strong). change (filter (fun i => negb (is_message i))) with strong.
  rewrite !strong_app. now rewrite H7.
Qed.

End Drop.

(** * the closed examples *)
Lemma drop_example_ok :
  strip_foreign drop_example <> drop_example
  /\ forallb is_message (snd (load1x E0 true true true false drop_example)) = true
  /\ length (snd (load1x E0 true true true false drop_example)) = 6.
Proof. split; [intros H; vm_compute in H; discriminate|]. split; vm_compute; reflexivity. Qed.

Lemma foreign_example_ok :
  existsb (fun i => negb (is_message i)) (snd (load1x E0 true true false false foreign_example)) = true
  /\ forallb is_message (snd (load1x E0 true true true false foreign_example)) = true
  /\ fst (load1x E0 true true false false foreign_example) = fst (load1x E0 true true true false foreign_example).
Proof. repeat split; vm_compute; reflexivity. Qed.

Lemma groups_example_ok :
  snd (load1x E0 true true true false groups_example) = [msg; err "MODEL_MORE_THAN_ONE_ENCAPSULATION"]
  /\ map (fun c => (cname c, map cname (kids c))) (m_comps (fst (load1x E0 true true true false groups_example)))
     = [("c", []); ("d", []); ("a", ["b"])].
Proof. split; vm_compute; reflexivity. Qed.

Lemma offset_example_ok :
  snd (load1x E0 true true true false offset_example) = [msg; err "UNIT_ATTRIBUTE_OPTIONAL"].
Proof. vm_compute. reflexivity. Qed.
