"""Generators for C19 (model repair helpers): API scripts (harness/common/script.hpp) that build a model in slot 0.

structured_cases(max_len)  -> every (focus position, ordered sequence of <= max_len distinct relative positions of the
                              equivalent variables, current interface of the focus variable); the rest of the model
                              (other interfaces, units, seeded empty components / units) is drawn from the case's rng
random_case(rng)           -> a random component tree with random equivalences, interfaces, units and empties

Every case is (label, script_text, sub_seed).  Nothing here knows what the helpers should do.
"""
import itertools
import random

from script_gen import S, ScriptBuilder

IFACES = ["", "none", "public", "private", "public_and_private", "bogus", "xpublicx"]
IFACES_WILD = IFACES + ["private_and_public", "PUBLIC", " public", "public_and_private ", "public_and_privat", "nonexistent"]

# the fixed encapsulation tree of the structured cases:  m: A A2;  A: B B2;  B: C C2;  C: D D2;  D: E
TREE = {"m": ["A", "A2"], "A": ["B", "B2"], "B": ["C", "C2"], "C": ["D", "D2"], "D": ["E"]}
# relative positions offered for each focus component: kind -> component holding the equivalent variable
# ("p" parent-less variable, "F" component without parent, "G" top-level component of another model, "H" child of G)
FOCI = {
    "A": {"same": "A", "sibling": "A2", "child": "B", "child2": "B2", "grandchild": "C", "orphan": None,
          "foreign": "F", "othermodel": "G"},
    "B": {"same": "B", "sibling": "B2", "parent": "A", "child": "C", "child2": "C2", "grandchild": "D", "uncle": "A2",
          "orphan": None, "foreign": "F", "othermodel": "G"},
    "C": {"same": "C", "sibling": "C2", "parent": "B", "child": "D", "child2": "D2", "grandchild": "E",
          "grandparent": "A", "uncle": "B2", "orphan": None, "foreign": "F", "othermodel": "H", "otherroot": "G"},
}

EMPTY_FLAVOURS = ["empty", "name", "id", "var", "reset", "math", "import", "importref", "encid", "emptychild",
                  "emptychain", "chainleaf"]
UNITS_MODEL_FLAVOURS = ["ua", "ub", "dup_ua", "empty", "idonly", "childonly", "importonly", "second", "nameonly"]
VAR_UNITS = ["none", "std", "present", "absent", "own", "own", "foreignobj", "stdchild", "emptyname", "std_obj_child0"]


class Comp:
    def __init__(self, name=None):
        self.name = name
        self.id = None
        self.math = None
        self.reset = 0
        self.imp = False
        self.impref = None
        self.encid = None
        self.vars = []
        self.kids = []
        self.slot = None


class Var:
    def __init__(self, name, iface):
        self.name = name
        self.iface = iface
        self.units = "none"
        self.slot = None


def make_empty(rng, flavour, counter):
    c = Comp()
    if flavour == "name":
        c.name = "n%d" % counter[0]
    elif flavour == "id":
        c.id = "id%d" % counter[0]
    elif flavour == "var":
        c.vars.append(Var("ev%d" % counter[0], rng.choice(IFACES)))
    elif flavour == "reset":
        c.reset = 1
    elif flavour == "math":
        c.math = "<math/>"
    elif flavour == "import":
        c.imp = True
    elif flavour == "importref":
        c.impref = "ref"
    elif flavour == "encid":
        c.encid = "enc%d" % counter[0]
    elif flavour == "emptychild":
        c.kids.append(Comp())
    elif flavour == "emptychain":
        k = Comp()
        k.kids.append(Comp())
        k.kids.append(Comp())
        c.kids.append(k)
    elif flavour == "chainleaf":
        k = Comp()
        leaf = make_empty(rng, rng.choice(["name", "id", "var", "reset", "math", "import"]), counter)
        k.kids.append(leaf)
        if rng.random() < 0.5:
            k.kids.insert(rng.randrange(2), Comp())
        c.kids.append(k)
    counter[0] += 1
    return c


def all_comps(roots):
    out = []
    todo = list(roots)
    while todo:
        c = todo.pop(0)
        out.append(c)
        todo = list(c.kids) + todo
    return out


def seed_empties(rng, roots, n, counter):
    """insert n seeded components at random positions of random child lists (incl. the top level)"""
    for _ in range(n):
        hosts = [None] + all_comps(roots)
        h = rng.choice(hosts)
        lst = roots if h is None else h.kids
        lst.insert(rng.randrange(len(lst) + 1), make_empty(rng, rng.choice(EMPTY_FLAVOURS), counter))


class Emitter:
    """turns the spec into script lines"""

    def __init__(self, rng):
        self.rng = rng
        self.b = ScriptBuilder()
        self.m = self.b.model("m")
        self.m2 = None
        self.model_units = []     # (flavour, slot)
        self.m2_units = None
        self.nres = 0

    def other_model(self):
        if self.m2 is None:
            self.m2 = self.b.model("other")
        return self.m2

    def emit_comp(self, c, parent_slot):
        b = self.b
        c.slot = b.component(c.name) if c.name is not None else b.component()
        if c.id is not None:
            b.setid(c.slot, S(c.id))
        if c.math is not None:
            b.setmath(c.slot, S(c.math))
        if c.encid is not None:
            b.setencapsulationid(c.slot, S(c.encid))
        if c.imp:
            i = b.importsource()
            b.seturl(i, S("x.cellml"))
            b.setimportsource(c.slot, i)
        if c.impref is not None:
            b.setimportreference(c.slot, S(c.impref))
        for _ in range(c.reset):
            r = b.reset(self.nres)
            self.nres += 1
            b.addreset(c.slot, r)
        for v in c.vars:
            self.emit_var(v)
            b.addvariable(c.slot, v.slot)
        if parent_slot is not None:
            b.addcomponent(parent_slot, c.slot)
        for k in c.kids:
            self.emit_comp(k, c.slot)

    def emit_var(self, v):
        b = self.b
        v.slot = b.variable(v.name)
        if v.iface != "":
            b.setinterfacetype_s(v.slot, S(v.iface))
        elif self.rng.random() < 0.2:
            b.setinterfacetype_s(v.slot, S(""))

    def emit_model_units(self, flavours):
        b = self.b
        for f in flavours:
            if f == "ua" or f == "dup_ua":
                u = b.units("ua")
                b.addunit_ref(u, S("second"))
            elif f == "ub":
                u = b.units("ub")
            elif f == "empty":
                u = b.units()
            elif f == "idonly":
                u = b.units()
                b.setid(u, S("uid"))
            elif f == "childonly":
                u = b.units()
                b.addunit_ref(u, S("metre"))
            elif f == "importonly":
                u = b.units()
                i = b.importsource()
                b.setimportsource(u, i)
            elif f == "second":
                u = b.units("second")
            elif f == "nameonly":
                u = b.units("uc")
            else:
                raise ValueError(f)
            b.addunits(self.m, u)
            self.model_units.append((f, u))

    def emit_var_units(self, v):
        b, rng = self.b, self.rng
        k = v.units
        if k == "none":
            return
        if k == "std":
            b.setunits_n(v.slot, S(rng.choice(["second", "metre", "dimensionless", "volt"])))
        elif k == "present":
            b.setunits_n(v.slot, S(rng.choice(["ua", "ub", "uc"])))      # present only if the model got that flavour
        elif k == "absent":
            b.setunits_n(v.slot, S("zz"))
        elif k == "own":
            if self.model_units:
                b.setunits_p(v.slot, rng.choice(self.model_units)[1])
            else:
                b.setunits_n(v.slot, S("ua"))
        elif k == "foreignobj":
            if self.m2_units is None:
                self.m2_units = []
                for nm in ("ua", "fz"):
                    u = b.units(nm)
                    b.addunit_ref(u, S("second"))
                    b.addunits(self.other_model(), u)
                    self.m2_units.append(u)
            b.setunits_p(v.slot, rng.choice(self.m2_units))
        elif k == "stdchild":        # standard NAME but with a child: not a standard unit for the library
            u = b.units(rng.choice(["metre", "second"]))
            b.addunit_ref(u, S("kelvin"))
            b.setunits_p(v.slot, u)
        elif k == "emptyname":
            b.setunits_n(v.slot, S(""))
        elif k == "std_obj_child0":  # parent-less object named after a standard unit, no children
            u = b.units("ampere")
            b.setunits_p(v.slot, u)
        else:
            raise ValueError(k)


def finish(rng, label, roots, outside, eqs, em=None):
    """roots: top-level Comp list of model m; outside: dict name -> ('orphanvar', Var) | ('comp', Comp, where)
    eqs: list of (Var, Var) in the order addEquivalence is to be called"""
    em = em or Emitter(rng)
    b = em.b
    em.emit_model_units([f for f in UNITS_MODEL_FLAVOURS if rng.random() < 0.45])
    for c in roots:
        em.emit_comp(c, em.m)
    for kind, obj, where in outside:
        if kind == "var":
            em.emit_var(obj)
        elif where == "standalone":
            em.emit_comp(obj, None)
        else:
            em.emit_comp(obj, em.other_model())
    allvars = []
    for c in all_comps(roots):
        allvars += c.vars
    for kind, obj, where in outside:
        if kind == "var":
            allvars.append(obj)
        else:
            for c in all_comps([obj]):
                allvars += c.vars
    for v in allvars:
        v.units = rng.choice(VAR_UNITS)
        em.emit_var_units(v)
    for v, w in eqs:
        if rng.random() < 0.5:
            b.addequivalence(v.slot, w.slot)
        else:
            b.addequivalence(w.slot, v.slot)
    return (label, b.text())


def build_tree():
    comps = {}
    for parent, kids in TREE.items():
        for k in kids:
            comps[k] = Comp(k)
    for parent, kids in TREE.items():
        for k in kids:
            if parent != "m":
                comps[parent].kids.append(comps[k])
    roots = [comps[k] for k in TREE["m"]]
    return comps, roots


def structured_case(rng, focus, seq, iface):
    comps, roots = build_tree()
    F = Comp("F")
    G = Comp("G")
    H = Comp("H")
    G.kids.append(H)
    comps.update({"F": F, "G": G, "H": H})
    x = Var("x", iface)
    comps[focus].vars.append(x)
    eqs = []
    outside = [("comp", F, "standalone"), ("comp", G, "othermodel")]
    for i, kind in enumerate(seq):
        t = Var("t%d" % i, rng.choice(IFACES))
        where = FOCI[focus][kind]
        if where is None:
            outside.append(("var", t, None))
        else:
            lst = comps[where].vars
            lst.insert(rng.randrange(len(lst) + 1), t)
        eqs.append((x, t))
    # a few more equivalences between the other variables, after (or between) the focus ones
    others = [t for _, t in eqs]
    for _ in range(rng.choice([0, 0, 1, 2])):
        if len(others) >= 2:
            a, c = rng.sample(others, 2)
            eqs.insert(rng.randrange(len(eqs) + 1), (a, c))
    counter = [0]
    seed_empties(rng, roots, rng.choice([0, 1, 2, 3]), counter)
    return finish(rng, "S:%s:%s:%s" % (focus, ",".join(seq), iface or "-"), roots, outside, eqs)


def structured_space(max_len):
    """all (focus, seq, iface) with 1 <= len(seq) <= max_len, distinct kinds, every order"""
    for focus in sorted(FOCI):
        kinds = sorted(FOCI[focus])
        for n in range(1, max_len + 1):
            for seq in itertools.permutations(kinds, n):
                for iface in IFACES:
                    yield focus, seq, iface


def random_case(rng):
    counter = [0]
    n = rng.randint(1, 7)
    comps, roots = [], []
    for i in range(n):
        c = Comp("c%d" % i) if rng.random() < 0.75 else Comp()
        if rng.random() < 0.2:
            c.id = "i%d" % i
        if rng.random() < 0.15:
            c.math = "<math/>"
        if rng.random() < 0.12:
            c.reset = rng.choice([1, 2])
        if rng.random() < 0.1:
            c.imp = True
        if rng.random() < 0.1:
            c.encid = "e%d" % i
        for j in range(rng.choice([0, 0, 1, 1, 2, 3])):
            c.vars.append(Var("v%d_%d" % (i, j), rng.choice(IFACES_WILD if rng.random() < 0.3 else IFACES)))
        if comps and rng.random() < 0.7:
            rng.choice(comps).kids.append(c)
        else:
            roots.append(c)
        comps.append(c)
    seed_empties(rng, roots, rng.choice([0, 0, 1, 2, 4]), counter)
    outside = []
    if rng.random() < 0.5:
        outside.append(("var", Var("p", rng.choice(IFACES)), None))
    if rng.random() < 0.4:
        F = Comp("F")
        F.vars.append(Var("f", rng.choice(IFACES)))
        if rng.random() < 0.5:
            K = Comp("FK")
            K.vars.append(Var("fk", rng.choice(IFACES)))
            F.kids.append(K)
        outside.append(("comp", F, "standalone"))
    if rng.random() < 0.4:
        G = Comp("G")
        G.vars.append(Var("g", rng.choice(IFACES)))
        outside.append(("comp", G, "othermodel"))
    inside = []
    for c in all_comps(roots):
        inside += c.vars
    allv = list(inside)
    for kind, obj, where in outside:
        if kind == "var":
            allv.append(obj)
        else:
            for c in all_comps([obj]):
                allv += c.vars
    eqs = []
    if inside and len(allv) >= 2:
        for _ in range(rng.choice([0, 1, 2, 3, 4, 6, 9])):
            a = rng.choice(inside) if rng.random() < 0.8 else rng.choice(allv)
            c = rng.choice(allv)
            if a is not c:
                eqs.append((a, c))
    return finish(rng, "R", roots, outside, eqs)


def row28_cases(rng):
    """the documented failing input and its variants, always run first"""
    out = []
    for bad in ("orphan", "foreign", "othermodel", "uncle", "grandchild"):
        for iface in ("", "public_and_private", "public"):
            out.append(structured_case(rng, "B", ("parent", "child", bad), iface))
            out.append(structured_case(rng, "B", ("child", "sibling", bad), iface))
            out.append(structured_case(rng, "B", (bad, "parent", "child"), iface))
    return out


# --------------------------------------------------------------------------------------------------
# pre-histories of the units / ownership API (the part of a script after the pseudo-command `ops`)

HISTORY_OPS = ["add", "add", "remove_i", "remove_n", "remove_p", "remove_p_twin", "remove_all", "take_i", "take_n",
               "replace_i", "replace_n", "replace_p", "replace_p_twin", "destroy", "setunits", "setunits"]


def history_case(rng, allow_readd=False):
    """a small model whose units are then moved around by 1..8 public calls; returns (label, script)"""
    em = Emitter(rng)
    b, m = em.b, em.m
    models = [m, em.other_model()]
    if rng.random() < 0.3:
        models.append(b.model("third"))
    pool = []          # (slot, name)

    def mk(name, child):
        u = b.units(name) if name is not None else b.units()
        if child:
            b.addunit_ref(u, S(child))
        pool.append((u, name or ""))
        return u
    for _ in range(rng.choice([2, 2, 3])):      # equal but distinct objects
        mk("ua", "second")
    mk("ua", "metre")                          # same name, not equal
    mk("ub", None)
    if rng.random() < 0.6:
        mk("ub", None)
    if rng.random() < 0.5:
        mk(None, None)
        mk(None, None)
    if rng.random() < 0.4:
        mk("second", None)
    lists = {x: [] for x in models}            # python mirror (identity only; steers the generator, decides nothing)
    for u, _ in pool:
        r = rng.random()
        if r < 0.45:
            b.addunits(m, u)
            lists[m].append(u)
        elif r < 0.7:
            x = rng.choice(models[1:])
            b.addunits(x, u)
            lists[x].append(u)
    # a small tree
    comps = []
    for i in range(rng.choice([1, 2, 3])):
        c = b.component("c%d" % i)
        b.addcomponent(rng.choice(comps) if comps and rng.random() < 0.5 else m, c)
        comps.append(c)
    variables = []
    for i in range(rng.choice([1, 2, 3, 4])):
        v = b.variable("v%d" % i)
        b.addvariable(rng.choice(comps), v)
        variables.append(v)
        r = rng.random()
        if r < 0.55:
            b.setunits_p(v, rng.choice(pool)[0])
        elif r < 0.9:
            b.setunits_n(v, S(rng.choice(["ua", "ub", "zz", "second", ""])))
    b.lines.append("ops")
    alive = list(models)
    kinds = []
    for _ in range(rng.randint(1, 8)):
        k = rng.choice(HISTORY_OPS)
        x = rng.choice(alive)
        u = rng.choice(pool)[0]
        if k == "add":
            if u in lists[x] and not allow_readd:
                continue
            b.addunits(x, u)
            for y in alive:
                if y != x and u in lists[y]:
                    lists[y].remove(u)
            lists[x].append(u)
        elif k == "remove_i":
            i = rng.choice([0, 0, 1, 2, 5])
            b.removeunits_i(x, i)
            if i < len(lists[x]):
                lists[x].pop(i)
        elif k == "remove_n":
            b.removeunits_n(x, S(rng.choice(["ua", "ub", "zz", ""])))
        elif k == "remove_p":
            b.removeunits_p(x, u)
            if u in lists[x]:
                lists[x].remove(u)
        elif k == "remove_p_twin":       # an equal but distinct object of one that is listed
            b.removeunits_p(x, pool[rng.randrange(min(3, len(pool)))][0])
        elif k == "remove_all":
            b.removeallunits(x)
            lists[x] = []
        elif k == "take_i":
            i = rng.choice([0, 1, 3])
            b.takeunits_i(x, i)
            if i < len(lists[x]):
                lists[x].pop(i)
        elif k == "take_n":
            b.takeunits_n(x, S(rng.choice(["ua", "ub", "zz"])))
        elif k == "replace_i":
            b.replaceunits_i(x, rng.choice([0, 1, 4]), u)
        elif k == "replace_n":
            b.replaceunits_n(x, S(rng.choice(["ua", "ub", "zz"])), u)
        elif k in ("replace_p", "replace_p_twin"):
            old = rng.choice(lists[x]) if (lists[x] and k == "replace_p") else pool[rng.randrange(min(3, len(pool)))][0]
            b.replaceunits_p(x, old, u)
        elif k == "destroy":
            if x == m or len(alive) < 2:
                continue
            b.release(x)
            alive.remove(x)
        elif k == "setunits":
            b.setunits_p(rng.choice(variables), u)
        kinds.append(k)
    return ("H:" + ",".join(kinds), b.text())
