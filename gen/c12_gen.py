"""c12_gen.py -- inputs for the C12 check (purity / hidden global state).  No third-party imports.

XML trees as the Coq model (coq/theories/GlobalDefs.v) sees them:
    ('E', ns_uri, qname, [(attr qname, value), ...], [kid, ...])   ('T', text)   ('X', comment text)
namespace declarations are ordinary attributes and come first (as libxml2 serialises them).

    tree_of_bytes(data)      -> (tree, info) | (None, reason)   parse with python's expat (all text and comment nodes kept;
                                 adjacent text merged).  info['exact'] says whether every MathML math subtree is
                                 self-contained (declares the prefixes it uses), i.e. whether libxml2's xmlNodeDump of it is ser(tree).
    ser(tree)                -> str      the same function as GlobalDefs.ser (xmlNodeDump, format 0)
    render_doc(tree)         -> bytes    XML declaration + ser
    enc_tree / enc_forest / enc_forests  token form read by ocaml/global/driver.ml
    math_forest(text)        -> forest the nodes that "<root>" + text.strip() + "</root>" denotes (multiRootXml / printMath)
    decorate(tree, rng, ...) -> tree     inserts blank text, comments, and (optionally) stray text / unknown elements
    decorate_math_text(text, rng, ...)   same on a stored math string
"""
import random
import re
import xml.dom.minidom as minidom
from xml.parsers import expat

CELLML = "http://www.cellml.org/cellml/2.0#"
MATHML = "http://www.w3.org/1998/Math/MathML"
XLINK = "http://www.w3.org/1999/xlink"
MATH_NS_ATTRS = [("xmlns", MATHML), ("xmlns:cellml", CELLML)]

BLANKS = [" ", "\n", "\n  ", "\n      ", "\t", "  \n\t ", "\n\n"]


# ------------------------------------------------------------------------------------------------ trees
def _convert(node, problems):
    t = node.nodeType
    if t == node.ELEMENT_NODE:
        attrs = []
        if node.attributes is not None:
            items = [(a.name, a.value) for a in node.attributes.values()]
            attrs = [x for x in items if x[0] == "xmlns" or x[0].startswith("xmlns:")] + \
                    [x for x in items if not (x[0] == "xmlns" or x[0].startswith("xmlns:"))]
            for n, v in items:
                if n == "xml:space":
                    problems.append("xml:space")
        kids = []
        for c in node.childNodes:
            k = _convert(c, problems)
            if k is None:
                continue
            if k[0] == "T" and kids and kids[-1][0] == "T":
                kids[-1] = ("T", kids[-1][1] + k[1])
            else:
                kids.append(k)
        return ("E", node.namespaceURI or "", node.tagName, attrs, kids)
    if t == node.TEXT_NODE:
        if "\r" in node.data:
            problems.append("CR in text")
        return ("T", node.data)
    if t == node.COMMENT_NODE:
        return ("X", node.data)
    problems.append("node type %d" % t)
    return None


def tree_of_bytes(data):
    """-> (tree, info) or (None, reason).  info: exact (bool)"""
    if isinstance(data, str):
        data = data.encode("utf-8")
    if b"<!DOCTYPE" in data or b"<![CDATA[" in data or b"<?xml-" in data or re.search(rb"&#(0*13|[xX]0*[dD]);", data):
        return None, "doctype/cdata/pi/CR reference"
    try:
        dom = minidom.parseString(data)
    except (expat.ExpatError, ValueError, UnicodeError) as e:
        return None, "not well-formed for expat: %s" % e
    problems = []
    for c in dom.childNodes:
        if c.nodeType not in (c.ELEMENT_NODE, c.COMMENT_NODE):
            problems.append("top-level node type %d" % c.nodeType)
    tree = _convert(dom.documentElement, problems)
    if problems:
        return None, "; ".join(sorted(set(problems)))
    return tree, {"exact": _maths_self_contained(tree)}


def _prefixes_used(t, out):
    if t[0] != "E":
        return
    if ":" in t[2]:
        out.add(t[2].split(":")[0])
    for n, _ in t[3]:
        if ":" in n and not n.startswith("xmlns:"):
            out.add(n.split(":")[0])
    for k in t[4]:
        _prefixes_used(k, out)


def _maths_self_contained(t):
    if t[0] != "E":
        return True
    if t[1] == MATHML and t[2].split(":")[-1] == "math":
        used = set()
        _prefixes_used(t, used)
        declared = {n.split(":", 1)[1] for n, _ in t[3] if n.startswith("xmlns:")}
        has_default = any(n == "xmlns" for n, _ in t[3])
        # nested declarations inside the math would also do, but the generators do not write them
        return used <= declared and has_default and ":" not in t[2]
    return all(_maths_self_contained(k) for k in t[4])


def esc_text(s):
    return s.replace("&", "&amp;").replace("<", "&lt;").replace(">", "&gt;").replace("\r", "&#13;")


def esc_attr(s):
    return (s.replace("&", "&amp;").replace("<", "&lt;").replace(">", "&gt;").replace('"', "&quot;")
            .replace("\t", "&#9;").replace("\n", "&#10;").replace("\r", "&#13;"))


def ser(t):
    if t[0] == "T":
        return esc_text(t[1])
    if t[0] == "X":
        return "<!--" + t[1] + "-->"
    _, _, name, attrs, kids = t
    a = "".join(' %s="%s"' % (n, esc_attr(v)) for n, v in attrs)
    if not kids:
        return "<%s%s/>" % (name, a)
    return "<%s%s>%s</%s>" % (name, a, "".join(ser(k) for k in kids), name)


def render_doc(t, declaration=True):
    return ((b'<?xml version="1.0" encoding="UTF-8"?>\n' if declaration else b"") + ser(t).encode("utf-8"))


def _hx(s):
    b = s.encode("utf-8")
    return b.hex() if b else "-"


def enc_tree(t):
    if t[0] == "T":
        return "T " + _hx(t[1])
    if t[0] == "X":
        return "X " + _hx(t[1])
    _, ns, name, attrs, kids = t
    parts = ["E", _hx(ns), _hx(name), str(len(attrs))]
    for n, v in attrs:
        parts += [_hx(n), _hx(v)]
    parts.append(str(len(kids)))
    for k in kids:
        parts.append(enc_tree(k))
    return " ".join(parts)


def enc_forest(f):
    return " ".join([str(len(f))] + [enc_tree(t) for t in f])


def enc_forests(fs):
    return " ".join([str(len(fs))] + [enc_forest(f) for f in fs])


def math_forest(text):
    """the children of <root> in "<root>" + trimCopy(text) + "</root>" (None when that is not well-formed / outside the fragment)"""
    t, info = tree_of_bytes("<root>" + text.strip(" \t\n\v\f\r") + "</root>")
    if t is None:
        return None
    return t[4]


def count_nodes(t):
    return 1 + (sum(count_nodes(k) for k in t[4]) if t[0] == "E" else 0)


def is_blank(s):
    return s != "" and all(c in " \t\n" for c in s)


def has_removable_blank(t):
    """python mirror of `strip t <> t` (used only for the coverage histogram; the verdicts come from the model)"""
    if t[0] != "E":
        return False
    st = None
    kids = t[4]
    for i, k in enumerate(kids):
        last = i == len(kids) - 1
        if k[0] == "T" and is_blank(k[1]):
            drop = (not last) if st is None else (not st[1] and not st[0])
            if drop:
                return True
        txt = k[0] == "T"
        st = (txt, txt) if st is None else (st[0], txt)
    return any(has_removable_blank(k) for k in kids)


# ------------------------------------------------------------------------------------------------ decoration
LOADER_KINDS_WITH_TEXT_RULE = {"model", "component", "units", "unit", "variable", "reset"}


def _insert(kids, pos, node):
    """insert keeping text nodes maximal (never two adjacent text nodes)"""
    if node[0] == "T":
        if pos > 0 and kids[pos - 1][0] == "T":
            kids[pos - 1] = ("T", kids[pos - 1][1] + node[1])
            return
        if pos < len(kids) and kids[pos][0] == "T":
            kids[pos] = ("T", node[1] + kids[pos][1])
            return
    kids.insert(pos, node)


def decorate(t, rng, p_blank=0.5, p_comment=0.15, p_text=0.0, p_elem=0.0, p_token=0.0, in_math=False, stats=None):
    """returns a decorated copy.  p_text / p_elem: stray non-blank text / unknown element under the loaders whose rule is
    XML_UNEXPECTED_CHARACTER / XML_UNEXPECTED_ELEMENT (outside math only).  p_token: rewrite the content of a ci / cn with
    comments and blanks around the text (the shapes on which the validator depends on the flag)."""
    if t[0] != "E":
        return t
    _, ns, name, attrs, kids = t
    local = name.split(":")[-1]
    math_here = in_math or (ns == MATHML)
    if stats is None:
        stats = {}
    if ns == MATHML and local in ("ci", "cn"):
        if kids and all(k[0] == "T" for k in kids) and rng.random() < p_token:
            txt = kids[0][1]
            shape = rng.choice(["c b c t", "b c t", "c t", "t c b", "b t b", "c b c t b", "t b c"])
            out = []
            for s in shape.split():
                if s == "c":
                    _insert(out, len(out), ("X", rng.choice(["a", " note ", "x > y", ""])))
                elif s == "b":
                    _insert(out, len(out), ("T", rng.choice(BLANKS)))
                else:
                    _insert(out, len(out), ("T", txt))
            stats["token_shapes"] = stats.get("token_shapes", 0) + 1
            return ("E", ns, name, list(attrs), out)
        return ("E", ns, name, list(attrs), [decorate(k, rng, p_blank, p_comment, 0, 0, p_token, True, stats) for k in kids])
    new = [decorate(k, rng, p_blank, p_comment, p_text, p_elem, p_token, math_here, stats) for k in kids]
    if ns == MATHML and local in ("sep", "eq") and not new:
        return ("E", ns, name, list(attrs), new)
    gaps = len(new)
    pos = 0
    out = list(new)
    # walk the gaps from the end so that positions stay valid
    for g in range(gaps, -1, -1):
        if not new and rng.random() < 0.7:
            continue            # mostly leave empty elements empty
        r = rng.random()
        if r < p_blank:
            _insert(out, g, ("T", rng.choice(BLANKS)))
            stats["blanks"] = stats.get("blanks", 0) + 1
        elif r < p_blank + p_comment:
            _insert(out, g, ("X", rng.choice([" c ", "", "a-b", " <tag> ", "\n"])))
            if rng.random() < 0.5:
                _insert(out, g, ("T", rng.choice(BLANKS)))
            stats["comments"] = stats.get("comments", 0) + 1
        elif (not math_here) and ns == CELLML and local in LOADER_KINDS_WITH_TEXT_RULE:
            r2 = rng.random()
            if r2 < p_text:
                _insert(out, g, ("T", rng.choice(["abc", " x ", "\n1\n", "&", "text > here"])))
                stats["texts"] = stats.get("texts", 0) + 1
            elif r2 < p_text + p_elem:
                _insert(out, g, ("E", CELLML, rng.choice(["foo", "bar", "math"]), [], []))
                stats["elems"] = stats.get("elems", 0) + 1
    return ("E", ns, name, list(attrs), out)


def strip_formatting(t):
    """remove every blank text node (a document without any formatting)"""
    if t[0] != "E":
        return t
    kids = [strip_formatting(k) for k in t[4] if not (k[0] == "T" and is_blank(k[1]))]
    return ("E", t[1], t[2], list(t[3]), kids)


def decorate_math_text(text, rng, **kw):
    f = math_forest(text)
    if f is None:
        return text
    return "".join(ser(decorate(k, rng, in_math=True, **kw)) if k[0] == "E" else ser(k) for k in f)


MATH_COMMANDS = ("setmath", "appendmath", "settestvalue", "appendtestvalue", "setresetvalue", "appendresetvalue")


def decorate_script(lines, rng, **kw):
    """rewrite the math strings of an API script; returns (lines, [math string, ...] in script order)"""
    out, maths = [], []
    for ln in lines:
        f = ln.split(" ")
        if f[0] in MATH_COMMANDS and len(f) == 3 and f[2].startswith("s"):
            s = bytes.fromhex(f[2][1:]).decode("utf-8")
            s2 = decorate_math_text(s, rng, **kw)
            maths.append((f[0], f[1], s2))
            out.append("%s %s s%s" % (f[0], f[1], s2.encode("utf-8").hex()))
        else:
            out.append(ln)
    return out, maths


def script_math_strings(maths):
    """final math string per (kind, slot): set* replaces, append* appends"""
    cur = {}
    for cmd, slot, s in maths:
        key = (cmd.replace("set", "").replace("append", ""), slot)
        if cmd.startswith("set"):
            cur[key] = s
        else:
            cur[key] = cur.get(key, "") + s
    return [v for v in cur.values() if v]


# ------------------------------------------------------------------------------------------------ import graphs with math
def _math(var, units, value="1", ws="\n      "):
    return ('<math xmlns="%s" xmlns:cellml="%s">%s<apply>%s<eq/>%s<ci>%s</ci>%s<cn cellml:units="%s">%s</cn>%s</apply>%s</math>'
            % (MATHML, CELLML, ws, ws, ws, var, ws, units, value, ws, ws))


def import_graph(rng, kind):
    """-> (files: {name: bytes}, origin name, info).  kinds:
       rename    f0 has units u (metre) and imports component c1 from f1, whose variable and cn use f1's own u (second): the
                 flattening renames u -> u_1 and re-serialises the math
       chain     f0 imports c from f1, which imports its child from f2 (math in both)
       units     f0 imports units from f1 and uses them in a local component with math
       parseerr  like units, but the imported file has a units with an invalid attribute (parser error): K35
       plain     f0 imports c from f1, no clash, math kept as it is"""
    ws = rng.choice(["", " ", "\n    ", "\n\t"])
    head = '<?xml version="1.0" encoding="UTF-8"?>\n<model xmlns="%s" xmlns:xlink="%s" name="%%s">\n' % (CELLML, XLINK)
    files = {}
    info = {"kind": kind, "parse_errors": kind == "parseerr", "math_ws": ws != ""}
    if kind in ("rename", "plain"):
        own = '  <units name="u"><unit units="metre"/></units>\n' if kind == "rename" else ""
        files["f0.cellml"] = (head % "f0" + own +
                              '  <import xlink:href="f1.cellml"><component name="c" component_ref="c1"/></import>\n</model>\n')
        files["f1.cellml"] = (head % "f1" + '  <units name="u"><unit units="second"/></units>\n'
                              '  <component name="c1">\n    <variable name="x" units="u"/>\n    ' + _math("x", "u", "2", ws) +
                              '\n  </component>\n</model>\n')
    elif kind == "chain":
        files["f0.cellml"] = (head % "f0" + '  <units name="w"><unit units="metre"/></units>\n'
                              '  <import xlink:href="f1.cellml"><component name="c" component_ref="c1"/></import>\n</model>\n')
        files["f1.cellml"] = (head % "f1" + '  <units name="w"><unit units="second"/></units>\n'
                              '  <component name="c1">\n    <variable name="x" units="w"/>\n    ' + _math("x", "w", "3", ws) +
                              '\n  </component>\n'
                              '  <import xlink:href="f2.cellml"><component name="d" component_ref="d1"/></import>\n'
                              '  <encapsulation><component_ref component="c1"><component_ref component="d"/></component_ref></encapsulation>\n'
                              '</model>\n')
        files["f2.cellml"] = (head % "f2" + '  <units name="w"><unit units="second"/><unit units="metre" exponent="-1"/></units>\n'
                              '  <component name="d1">\n    <variable name="y" units="w"/>\n    ' + _math("y", "w", "4", ws) +
                              '\n  </component>\n</model>\n')
    elif kind in ("units", "parseerr"):
        bad = ' foo="bar"' if kind == "parseerr" else ""
        files["f0.cellml"] = (head % "f0" +
                              '  <import xlink:href="f1.cellml"><units name="v" units_ref="v1"/></import>\n'
                              '  <component name="c">\n    <variable name="x" units="v"/>\n    ' + _math("x", "v", "5", ws) +
                              '\n  </component>\n</model>\n')
        files["f1.cellml"] = (head % "f1" + '  <units name="v1"%s><unit units="second" prefix="milli"/></units>\n</model>\n' % bad)
    else:
        raise ValueError(kind)
    return {k: v.encode("utf-8") for k, v in files.items()}, "f0.cellml", info


GRAPH_KINDS = ["rename", "plain", "chain", "units", "parseerr"]


def library_write_script(S):
    """API script of the flattenModel-writes-into-the-library scenario (fixes/C12-flatten-library-write.diff): model in slot 0"""
    f1 = ('<model xmlns="%s" name="f1"><units name="u"><unit units="second"/></units><component name="c1">'
          '<variable name="x" units="u"/></component></model>' % CELLML)
    f2 = ('<model xmlns="%s" name="f2"><units name="u"><unit units="second"/></units><component name="d1">'
          '<variable name="y" units="u"/></component></model>' % CELLML)
    return ["model 0 %s" % S("f0"), "units 1 %s" % S("u"), "addunit_ref 1 %s" % S("metre"), "addunits 0 1",
            "parse 2 %s" % S(f1), "parse 3 %s" % S(f2),
            "importsource 4", "seturl 4 %s" % S("f1.cellml"), "setmodel 4 2",
            "importsource 5", "seturl 5 %s" % S("f2.cellml"), "setmodel 5 3",
            "component 6 %s" % S("c"), "setimportsource 6 4", "setimportreference 6 %s" % S("c1"),
            "component 7 %s" % S("d"), "setimportsource 7 5", "setimportreference 7 %s" % S("d1"),
            "variable 8 %s" % S("y"), "setunits_n 8 %s" % S("u"), "addvariable 7 8",
            "addcomponent 0 6", "addcomponent 6 7"]


# ------------------------------------------------------------------------------------------------ inputs that interfere
PREFIX_NAMES = ["milli", "kilo", "micro", "centi", "mega", "deci"]


def near_copy(t, rng, mild=True):
    """the same document with the same names everywhere (model, units, components, variables, ids) but other definitions:
    multipliers (mild) or also prefixes / exponents of unit children, initial values, numbers in the math"""
    if t[0] != "E":
        return t
    _, ns, name, attrs, kids = t
    local = name.split(":")[-1]
    attrs = list(attrs)
    if ns == CELLML and local == "unit":
        d = dict(attrs)
        order = [n for n, _ in attrs]
        old = d.get("multiplier", "1")
        d["multiplier"] = rng.choice([x for x in ["2", "0.5", "1000", "7", "0.001"] if x != old])
        if "multiplier" not in order:
            order.append("multiplier")
        if not mild and rng.random() < 0.5:
            d["prefix"] = rng.choice([p for p in PREFIX_NAMES if p != d.get("prefix")])
            if "prefix" not in order:
                order.append("prefix")
        if not mild and d.get("units") in ("second", "metre", "volt", "kilogram", "mole", "ampere") and rng.random() < 0.6:
            d["units"] = rng.choice([b for b in ("second", "metre", "volt", "kilogram", "mole") if b != d["units"]])
        attrs = [(n, d[n]) for n in order]
    elif ns == CELLML and local == "variable":
        attrs = [(n, (rng.choice(["3", "0.25", "-8", "1e2"]) if (n == "initial_value" and re.fullmatch(r"[-+0-9.eE]+", v)) else v))
                 for n, v in attrs]
    if ns == MATHML and local == "cn" and len(kids) == 1 and kids[0][0] == "T" and dict(attrs).get("type", "real") == "real":
        kids = [("T", rng.choice(["3", "42", "0.125", "9.5"]))]
    else:
        kids = [near_copy(k, rng, mild) for k in kids]
    return ("E", ns, name, attrs, kids)


def with_1x_attributes(t, rng):
    """a CellML 2.0 document that carries attributes only CellML 1.x knows (public_interface, cmeta:id) and an unknown one"""
    CMETA = "http://www.cellml.org/metadata/1.0#"

    def go(x, top):
        if x[0] != "E":
            return x
        _, ns, name, attrs, kids = x
        attrs = list(attrs)
        local = name.split(":")[-1]
        if top:
            attrs = [a for a in attrs if a[0].startswith("xmlns")] + [("xmlns:cmeta", CMETA)] + [a for a in attrs if not a[0].startswith("xmlns")]
            attrs.append(("cmeta:id", "meta_model"))
        if ns == CELLML and local == "variable" and rng.random() < 0.7:
            attrs.append(("public_interface", rng.choice(["in", "out", "none"])))
        if ns == CELLML and local in ("component", "units", "variable") and rng.random() < 0.3:
            attrs.append((rng.choice(["foo", "private_interface", "cmeta:id"]), rng.choice(["in", "x1", "none"])))
            if attrs[-1][0] in [a[0] for a in attrs[:-1]]:
                attrs.pop()
        return ("E", ns, name, attrs, [go(k, False) for k in kids])
    return go(t, True)


def onex_document(rng, version="1.1"):
    """a small CellML 1.0 / 1.1 document: units, two components with in/out variables, math, a group and a connection"""
    ns = "http://www.cellml.org/cellml/%s#" % version
    ws = rng.choice(["", "\n  "])
    u = rng.choice(["u", "mV", "a"])
    x, y = rng.choice(["x", "a", "v"]), rng.choice(["y", "b", "w"])
    val = rng.choice(["1", "2.5", "100"])
    extra = ' cmeta:id="m1" xmlns:cmeta="http://www.cellml.org/metadata/1.0#"' if rng.random() < 0.5 else ""
    return ('<?xml version="1.0" encoding="UTF-8"?>\n<model xmlns="%s" xmlns:cellml="%s" name="m1x"%s>%s'
            '<units name="%s"><unit units="second" prefix="milli"/></units>%s'
            '<component name="c1"><variable name="%s" units="%s" public_interface="out" initial_value="1"/>'
            '<math xmlns="%s"><apply><eq/><ci>%s</ci><cn cellml:units="%s">%s</cn></apply></math></component>%s'
            '<component name="c2"><variable name="%s" units="%s" public_interface="in"/></component>%s'
            '<group><relationship_ref relationship="encapsulation"/><component_ref component="c1"><component_ref component="c2"/></component_ref></group>%s'
            '<connection><map_components component_1="c1" component_2="c2"/><map_variables variable_1="%s" variable_2="%s"/></connection>%s'
            '</model>\n' % (ns, ns, extra, ws, u, ws, x, u, MATHML, x, u, val, ws, y, u, ws, ws, x, y, ws)).encode("utf-8")


WARNING_DOCS = [
    ('<model xmlns="%s" xmlns:xlink="%s" name="w1"><import xlink:href="nothing.cellml"/></model>' % (CELLML, XLINK)).encode(),
    ('<model xmlns="%s" name="w2"><component name="c"/><encapsulation/></model>' % CELLML).encode(),
]


def consistent_document(rng):
    """a small dimensionally CONSISTENT model: every variable of a component and the number it is set to are in the same user
    units, so the analyser has nothing to say; names come from a tiny alphabet (near-copies and coincidences between documents)"""
    bases = ["second", "metre", "volt", "kilogram", "mole"]
    unames = rng.sample(["u", "v", "w", "mV"], rng.randint(1, 3))
    units = ""
    for n in unames:
        pre = rng.choice(["", "", ' prefix="milli"', ' multiplier="60"', ' exponent="2"'])
        units += '  <units name="%s"><unit units="%s"%s/></units>\n' % (n, rng.choice(bases), pre)
    comps = ""
    for k in range(rng.randint(1, 3)):
        u = rng.choice(unames)
        nv = rng.randint(1, 3)
        vs = "".join('    <variable name="%s" units="%s"/>\n' % ("xyz"[i], u) for i in range(nv))
        eqs = "".join('<apply><eq/><ci>%s</ci><cn cellml:units="%s">%s</cn></apply>' % ("xyz"[i], u, rng.choice(["1", "2.5", "40"]))
                      for i in range(nv))
        comps += ('  <component name="c%d">\n%s    <math xmlns="%s" xmlns:cellml="%s">\n      %s\n    </math>\n  </component>\n'
                  % (k, vs, MATHML, CELLML, eqs))
    return ('<?xml version="1.0" encoding="UTF-8"?>\n<model xmlns="%s" name="consistent">\n%s%s</model>\n' % (CELLML, units, comps)).encode()
