"""import_graphs.py -- import graphs for libcellml's Importer: abstract files, XML rendering, enumeration,
single faults, and an independent ground truth.  Used by checks/c07.py (import resolution) and meant to
be reused by C06 (flattening).  No third-party imports.

Abstract syntax (plain tuples, hashable)
    units   ("L", name, (ref, ...))                 <units name><unit units=ref/>...</units>
            ("I", name, url, ref)                   <import xlink:href=url><units name units_ref=ref/></import>
    comp    ("C", name, imp, (used, ...), (kid, ...))   imp = None | (url, ref); used = units names of the
                                                    variables v0, v1, ...; kids = encapsulated children
    model   ("M", name, (units, ...), (comp, ...), (err, ...))
            err = ("eu", units_name) | ("ec", comp_name) | ("eo",): the entity carries an attribute the
            parser reports as an error attached to that entity
    doc     model | ("X", variant)                  not well-formed XML; variant in TRUNCATIONS
                  | ("H",)                          well-formed XML that is not CellML (<html/>)
    files   dict  file name -> doc                  (absent = missing file); every file lives in ONE directory
                                                    and URLs are plain file names.

Main entry points
    render(doc) -> bytes                 the file content
    abstract_text(doc) -> str            the token form read by ocaml/import/driver.ml
    enumerate_graphs(nfiles, budget)     every import graph (up to renaming) reachable from the origin file
                                         with <= nfiles files and <= budget defined entities
    single_faults(files, origin)         every single fault: (label, faulted files, repaired files)
    truth(files, origin)                 independent ground truth: Truth(resolvable, reason, file_revisit,
                                         local_units_cycle, ...) computed directly from the graph
    random_graph(rng, ...)               larger random graphs
    twin_graphs()                        files that are (near) copies of the origin model (Model::equals in the cycle test)
    child_order_graphs()                 2-3 children (unit references, used units, encapsulated children) in every order,
                                         the cycle-closing edge in every position
    placeholder_graphs()                 import placeholders with imported children of their own (nesting 2 and 3)
    origin_imports / retarget            the imports of a model; the model with one import pointed elsewhere
    random_layout / lay_out / spelled_keys   the same graph spread over sub-directories with URLs relative to the
                                         importing file ("sub/f", "../f", "./f", "x/../f")
"""
import itertools
from collections import namedtuple

ORIGIN = "f0.cellml"
STD = "metre"
HEAD = ('<?xml version="1.0" encoding="UTF-8"?>\n'
        '<model xmlns="http://www.cellml.org/cellml/2.0#" xmlns:xlink="http://www.w3.org/1999/xlink" name="%s">\n')
TRUNCATIONS = ("empty", "midtag", "rootopen", "midbody")
STANDARD_UNITS = {"ampere", "becquerel", "candela", "coulomb", "dimensionless", "farad", "gram", "gray", "henry",
                  "hertz", "joule", "katal", "kelvin", "kilogram", "litre", "lumen", "lux", "metre", "mole",
                  "newton", "ohm", "pascal", "radian", "second", "siemens", "sievert", "steradian", "tesla",
                  "volt", "watt", "weber"}


def fname(i):
    return "f%d.cellml" % i


def mname(file_name):
    return "m_" + file_name.split(".")[0]


# ----------------------------------------------------------------------------------------------- constructors

def UL(name, *refs):
    return ("L", name, tuple(refs))


def UI(name, url, ref):
    return ("I", name, url, ref)


def C(name, imp=None, used=(), kids=()):
    return ("C", name, imp, tuple(used), tuple(kids))


def M(name, units=(), comps=(), errs=()):
    return ("M", name, tuple(units), tuple(comps), tuple(errs))


def is_model(doc):
    return doc is not None and doc[0] == "M"


# ----------------------------------------------------------------------------------------------- rendering

def _flatten_comps(comps):
    for c in comps:
        yield c
        for k in _flatten_comps(c[4]):
            yield k


def _encaps(c, ind):
    if not c[4]:
        return ind + '<component_ref component="%s"/>\n' % c[1]
    s = ind + '<component_ref component="%s">\n' % c[1]
    for k in c[4]:
        s += _encaps(k, ind + "  ")
    return s + ind + "</component_ref>\n"


def parsed_comps(comps):
    """top-level component order as the Parser leaves it: loadEncapsulation takes every parent component out of
    the model and appends it again, so components without children keep their document order and the
    encapsulation parents follow, in encapsulation order"""
    return tuple(c for c in comps if not c[4]) + tuple(c for c in comps if c[4])


def import_sids(m, group_imports=False):
    """identity of the ImportSource object of every imported entity: one <import> element per imported entity,
    or (group_imports) one per run of consecutive imported units / components with the same URL.
    Returns ({units name: sid}, {component name: sid})."""
    _, name, units, comps, errs = m
    su, sc = {}, {}
    n = 0
    prev = None
    for u in units:
        if u[0] == "I":
            if not (group_imports and prev == u[2]):
                n += 1
            su[u[1]] = n - 1
            prev = u[2]
        else:
            prev = None
    prev = None
    for c in _flatten_comps(comps):
        if c[2] is not None:
            if not (group_imports and prev == c[2][0]):
                n += 1
            sc[c[1]] = n - 1
            prev = c[2][0]
        else:
            prev = None
    return su, sc


def render_model(m, group_imports=False):
    """XML text of a model.  Units first (document order = list order), then every component of the
    encapsulation forest in pre-order, then the encapsulation.  One <import> element per imported entity
    (group_imports=True merges runs of consecutive imported units / components with the same URL into one
    <import> element, i.e. one shared ImportSource object; see import_sids)."""
    _, name, units, comps, errs = m
    eu = {e[1] for e in errs if e[0] == "eu"}
    ec = {e[1] for e in errs if e[0] == "ec"}
    su, sc = import_sids(m, group_imports)
    s = HEAD % name
    if any(e[0] == "eo" for e in errs):
        s += '  <bogus_element/>\n'
    prev = None
    for u in units:
        if u[0] == "I":
            line = '    <units name="%s" units_ref="%s"/>\n' % (u[1], u[3])
            if prev is not None and prev == su[u[1]]:
                s = s[:-len("  </import>\n")] + line + "  </import>\n"
            else:
                s += '  <import xlink:href="%s">\n%s  </import>\n' % (u[2], line)
            prev = su[u[1]]
        else:
            prev = None
            extra = ' foo="bar"' if u[1] in eu else ""
            if u[2]:
                s += '  <units name="%s"%s>\n' % (u[1], extra)
                for r in u[2]:
                    s += '    <unit units="%s"/>\n' % r
                s += "  </units>\n"
            else:
                s += '  <units name="%s"%s/>\n' % (u[1], extra)
    prev = None
    for c in _flatten_comps(comps):
        if c[2] is not None:
            line = '    <component name="%s" component_ref="%s"/>\n' % (c[1], c[2][1])
            if prev is not None and prev == sc[c[1]]:
                s = s[:-len("  </import>\n")] + line + "  </import>\n"
            else:
                s += '  <import xlink:href="%s">\n%s  </import>\n' % (c[2][0], line)
            prev = sc[c[1]]
        else:
            prev = None
            extra = ' foo="bar"' if c[1] in ec else ""
            if c[3]:
                s += '  <component name="%s"%s>\n' % (c[1], extra)
                for i, un in enumerate(c[3]):
                    s += '    <variable name="v%d" units="%s"/>\n' % (i, un)
                s += "  </component>\n"
            else:
                s += '  <component name="%s"%s/>\n' % (c[1], extra)
    if any(c[4] for c in _flatten_comps(comps)):
        s += "  <encapsulation>\n"
        for c in comps:
            if c[4]:
                s += _encaps(c, "    ")
        s += "  </encapsulation>\n"
    return s + "</model>\n"


def render(doc, group_imports=False):
    """bytes of the file for a doc"""
    if doc[0] == "M":
        return render_model(doc, group_imports).encode()
    if doc[0] == "H":
        return b'<?xml version="1.0" encoding="UTF-8"?>\n<html><body><p>not CellML</p></body></html>\n'
    if doc[0] == "X":
        full = render_model(M("m_trunc", [UL("u0", STD)], [C("c0", None, ["u0"])]))
        v = doc[1]
        if v == "empty":
            return b""
        if v == "midtag":
            return full[:full.index("<model") + 20].encode()
        if v == "rootopen":
            return full[:full.index(">\n", full.index("<model")) + 2].encode()
        if v == "midbody":
            return full[:full.index("<unit ") + 9].encode()
    raise ValueError(doc)


def _tok(s):
    return s if s != "" else "~"


def _units_text(u, su):
    if u[0] == "L":
        return "L %s %d%s" % (_tok(u[1]), len(u[2]), "".join(" " + _tok(r) for r in u[2]))
    return "I %s %d %s %s" % (_tok(u[1]), su[u[1]], _tok(u[2]), _tok(u[3]))


def _comp_text(c, sc):
    imp = "-" if c[2] is None else "i %d %s %s" % (sc[c[1]], _tok(c[2][0]), _tok(c[2][1]))
    return "C %s %s %d%s %d%s" % (_tok(c[1]), imp, len(c[3]), "".join(" " + _tok(x) for x in c[3]),
                                  len(c[4]), "".join(" " + _comp_text(k, sc) for k in c[4]))


def abstract_text(doc, group_imports=False):
    """token form for the OCaml driver: the model *as the Parser builds it* from render(doc, group_imports)
    (component order of parsed_comps, ImportSource identities of import_sids).  Names must not contain blanks;
    '~' stands for the empty string."""
    if doc[0] == "X":
        return "X"
    if doc[0] == "H":
        return "M ~ 0 0 1 eo"
    _, name, units, comps, errs = doc
    su, sc = import_sids(doc, group_imports)
    comps = parsed_comps(comps)
    parts = ["M", _tok(name), str(len(units))] + [_units_text(u, su) for u in units]
    parts += [str(len(comps))] + [_comp_text(c, sc) for c in comps]
    parts += [str(len(errs))] + [("%s %s" % (e[0], _tok(e[1])) if e[0] != "eo" else "eo") for e in errs]
    return " ".join(parts)


# ----------------------------------------------------------------------------------------------- look-ups

def find_units(m, name):
    for u in m[2]:
        if u[1] == name:
            return u
    return None


def find_comp(comps, name):
    """component(name, searchEncapsulated = true): direct children first, then depth first"""
    for c in comps:
        if c[1] == name:
            return c
    for c in comps:
        r = find_comp(c[4], name)
        if r is not None:
            return r
    return None


def all_comps(m):
    return list(_flatten_comps(m[3]))


# ----------------------------------------------------------------------------------------------- ground truth

Truth = namedtuple("Truth", "resolvable reason file_revisit local_units_cycle entity_cycle hidden_import "
                            "sibling_imports dangling_ref_used parse_errors twin_of_origin files_in_closure depth roots "
                            "name_capture import_with_children")


def truth(files, origin=ORIGIN):
    """Independent ground truth for the origin model files[origin] (a model doc).

    resolvable        every transitive import of the origin model (its imported units and all its imported
                      components) can be satisfied: each imported entity's file exists, parses to a
                      CellML model, holds the referenced entity (without a parser error attached to it), and so
                      on recursively through imports, unit references, units used by variables, and encapsulated
                      children; an entity that (transitively) depends on itself is not resolvable
    reason            first obstacle found (text), or None
    file_revisit      some dependency path re-enters a file it already visited (the origin file counts as
                      visited), or the files reachable from the origin import from each other in a circle (whether
                      or not anything depends on those imports): the property's exclusion when no entity depends
                      on itself
    local_units_cycle the closure contains a cycle among local (non-import) units of one file
    entity_cycle      some entity depends on itself through at least one import
    hidden_import     the closure contains a dependency edge in a non-origin file that Importer::fetchUnits /
                      fetchComponent never examine (references of a local units that is not an import target; units
                      used by an encapsulated descendant of an imported component)
    import_with_children  some imported component (in any file) has encapsulated children in its own model
    name_capture      an imported units references (through local units of its file) a name that is also a units
                      name of the importing model (flattening then links the copy to the wrong units)
    sibling_imports   some local units in the closure has two or more references that lead to imports
    dangling_ref_used a component's variable uses a local units that (transitively) references a missing units
    parse_errors      some model file in the closure carries parser errors
    twin_of_origin    a non-origin file in the closure has the origin model's name
    roots             ((kind, name, satisfiable), ...) for every imported entity of the origin model
    (local_units_cycle / dangling_ref_used / sibling_imports also look at the origin's own local entities,
    which hasUnresolvedImports and flattenModel traverse.)
    """
    om = files[origin]
    st = {"reason": None, "revisit": False, "lcycle": False, "ecycle": False, "sibling": False,
          "dangling": False, "perr": False, "twin": False, "files": set(), "depth": 0}

    def fail(msg):
        if st["reason"] is None:
            st["reason"] = msg
        return False

    def leads_to_import(m, u, seen):
        if u[0] == "I":
            return True
        if u[1] in seen:
            return False
        for r in u[2]:
            cu = find_units(m, r) if r not in STANDARD_UNITS else None
            if cu is not None and leads_to_import(m, cu, seen | {u[1]}):
                return True
        return False

    def dangling(m, u, seen):
        if u[0] == "I" or (u[1] in seen):
            return False
        for r in u[2]:
            if r in STANDARD_UNITS:
                continue
            cu = find_units(m, r)
            if cu is None or dangling(m, cu, seen | {u[1]}):
                return True
        return False

    def hop(f, path, url):
        """follow an import from file f to url; the model doc there, or False"""
        if url in path or url == f:
            st["revisit"] = True
        d = files.get(url)
        if d is None:
            return fail("file %s is missing" % url)
        if d[0] != "M":
            return fail("file %s is not a CellML model" % url)
        if d[4]:
            st["perr"] = True
        if url != origin and d[1] == om[1]:
            st["twin"] = True
        st["files"].add(url)
        st["depth"] = max(st["depth"], len(path) + 1)
        return d

    def has_err(m, kind, name):
        return any(e[0] == kind and e[1] == name for e in m[4])

    def on_stack(key, stack):
        if key not in stack:
            return False
        if any(k[0] == "hop" for k in stack[stack.index(key):]):
            st["ecycle"] = True
        else:
            st["lcycle"] = True
        return True

    def ru(f, m, u, path, stack):
        key = ("u", f, u[1])
        if on_stack(key, stack):
            return fail("units %s in %s depends on itself" % (u[1], f))
        stack = stack + [key]
        if u[0] == "I":
            d = hop(f, path, u[2])
            if not d:
                return False
            t = find_units(d, u[3])
            if t is None:
                return fail("units %s not in %s" % (u[3], u[2]))
            ok = True
            if has_err(d, "eu", u[3]):
                ok = fail("units %s in %s has a parser error" % (u[3], u[2]))
            return ru(u[2], d, t, path + [f], stack + [("hop",)]) and ok
        ok = True
        nlead = 0
        for r in u[2]:
            if r in STANDARD_UNITS:
                continue
            cu = find_units(m, r)
            if cu is None:
                ok = fail("units %s referenced by %s in %s does not exist" % (r, u[1], f))
                continue
            if leads_to_import(m, cu, frozenset()):
                nlead += 1
            if not ru(f, m, cu, path, stack):
                ok = False
        if nlead >= 2:
            st["sibling"] = True
        return ok

    def rc(f, m, c, path, stack):
        key = ("c", f, c[1])
        if on_stack(key, stack):
            return fail("component %s in %s depends on itself" % (c[1], f))
        stack = stack + [key]
        ok = True
        if c[2] is not None:
            d = hop(f, path, c[2][0])
            if not d:
                ok = False
            else:
                t = find_comp(d[3], c[2][1])
                if t is None:
                    ok = fail("component %s not in %s" % (c[2][1], c[2][0]))
                else:
                    if has_err(d, "ec", c[2][1]):
                        ok = fail("component %s in %s has a parser error" % (c[2][1], c[2][0]))
                    if not rc(c[2][0], d, t, path + [f], stack + [("hop",)]):
                        ok = False
        for un in c[3]:
            if un in STANDARD_UNITS:
                continue
            cu = find_units(m, un)
            if cu is None:
                ok = fail("units %s used by component %s in %s does not exist" % (un, c[1], f))
                continue
            if dangling(m, cu, frozenset()):
                st["dangling"] = True
            if not ru(f, m, cu, path, stack):
                ok = False
        for k in c[4]:
            if not rc(f, m, k, path, stack):
                ok = False
        return ok

    ok = True
    roots = []
    if om[4]:
        st["perr"] = True
    for u in om[2]:
        if u[0] == "I":
            r = ru(origin, om, u, [], [])
            roots.append(("u", u[1], r))
            ok = ok and r
    for c in all_comps(om):
        if c[2] is not None:
            r = rc(origin, om, C(c[1], c[2]), [], [])
            roots.append(("c", c[1], r))
            ok = ok and r
    reason = st["reason"] if not ok else None
    # the origin's local entities: only the flags matter (U / F walk them)
    for u in om[2]:
        if u[0] == "L":
            ru(origin, om, u, [], [])
    for c in om[3]:
        rc(origin, om, c, [], [])
    return Truth(ok, reason, st["revisit"] or _file_cycle(files, origin), st["lcycle"], st["ecycle"],
                 _hidden_import(files, origin),
                 st["sibling"], st["dangling"], st["perr"], st["twin"], tuple(sorted(st["files"])), st["depth"],
                 tuple(roots), _name_capture(files, origin),
                 any(c[2] is not None and c[4] for d in files.values() if is_model(d) for c in all_comps(d)))


def _file_cycle(files, origin):
    """the property's exclusion at file level: among the files reachable from the origin through imports (of any
    entity, needed or not) some file imports itself, or files import from each other in a circle, or some file
    imports the origin's own file"""
    def urls(d):
        out = set()
        if is_model(d):
            out |= {u[2] for u in d[2] if u[0] == "I"}
            out |= {c[2][0] for c in all_comps(d) if c[2] is not None}
        return out
    graph = {}
    todo = [origin]
    while todo:
        f = todo.pop()
        if f in graph:
            continue
        graph[f] = urls(files.get(f))
        todo.extend(graph[f])
    if any(origin in g for g in graph.values()):
        return True
    # cycle detection by repeated removal of files without outgoing edges into the remaining set
    live = set(graph)
    changed = True
    while changed:
        changed = False
        for f in list(live):
            if not (graph[f] & live):
                live.discard(f)
                changed = True
    return bool(live)


def _hidden_import(files, origin):
    """True when the dependency closure of the origin's imports contains a dependency edge that the importer's
    own traversal (fetchUnits / fetchComponent as written) never examines:
      * the references of a local units that is not itself the target of an import (fetchUnits looks at the
        children of an import target only, and only fetches those that are imports),
      * the units used by the variables of an encapsulated descendant of an import target (fetchComponent looks at
        unitsNamesUsed(sourceComponent) only),
    in a non-origin file."""
    om = files[origin]
    found = [False]
    seen = set()

    def model_at(url):
        d = files.get(url)
        return d if is_model(d) else None

    # mode "T": the entity is an import target (or a top-level import of the origin): its edges are examined
    # mode "N": reached some other way: its edges are not examined by the importer
    # lib: the entity lives in a library model (a file reached through an import; may be the origin's own file)
    def vu(f, m, u, mode, lib):
        k = ("u", f, u[1], mode, lib)
        if k in seen:
            return
        seen.add(k)
        if u[0] == "I":
            d = model_at(u[2])
            if d:
                t = find_units(d, u[3])
                if t:
                    vu(u[2], d, t, "T", True)
            return
        for r in u[2]:
            if r in STANDARD_UNITS:
                continue
            if mode != "T" and lib:
                found[0] = True
            cu = find_units(m, r)
            if cu:
                # an imported child is fetched (its import edge is examined) when its parent was examined
                vu(f, m, cu, "T" if (cu[0] == "I" and mode == "T") else "N", lib)

    def vc(f, m, c, mode, lib):
        k = ("c", f, c[1], mode, lib)
        if k in seen:
            return
        seen.add(k)
        if c[2] is not None:
            d = model_at(c[2][0])
            if d:
                t = find_comp(d[3], c[2][1])
                if t:
                    vc(c[2][0], d, t, "T", True)
        for un in c[3]:
            if un in STANDARD_UNITS:
                continue
            if mode != "T" and lib:
                found[0] = True
            cu = find_units(m, un)
            if cu:
                vu(f, m, cu, "T" if (cu[0] == "I" and mode == "T") else "N", lib)
        for kk in c[4]:
            # the walk reaches every descendant and fetches the imported ones; a local descendant's units are skipped
            vc(f, m, kk, "T" if kk[2] is not None else "N", lib)

    for u in om[2]:
        if u[0] == "I":
            vu(origin, om, u, "T", False)
    for c in all_comps(om):
        if c[2] is not None:
            vc(origin, om, C(c[1], c[2]), "T", False)
    return found[0]


def _name_capture(files, origin):
    """flattening instantiates an imported units / component together with the units it needs -- the local units
    reached from the import target, across import chains -- under their own names: True when such a name is
    already a units name of the importing model (the copy may then refer to the wrong units; the code tries to
    rename, not always successfully)"""
    def needed(f, start_names, seen):
        """names (with their file) of the units instantiated for the units names start_names of file f"""
        out = set()
        td = files.get(f)
        if not is_model(td):
            return out
        for n in start_names:
            if n in STANDARD_UNITS or (f, n) in seen:
                continue
            seen.add((f, n))
            x = find_units(td, n)
            if x is None:
                continue
            out.add(n)
            if x[0] == "L":
                out |= needed(f, x[2], seen)
            else:
                sub = needed(x[2], [x[3]], seen)
                out |= (sub - {x[3]})          # the import target itself takes the importing name
        return out

    for f, d in files.items():
        if not is_model(d):
            continue
        names = {u[1] for u in d[2]}
        for u in d[2]:
            if u[0] != "I":
                continue
            got = needed(u[2], [u[3]], set()) - {u[3]}
            if got & names:
                return True
        for c in all_comps(d):
            if c[2] is None:
                continue
            td = files.get(c[2][0])
            if not is_model(td):
                continue
            t = find_comp(td[3], c[2][1])
            if t is None:
                continue
            used = [un for k in _flatten_comps((t,)) for un in k[3]]
            if needed(c[2][0], used, set()) & names:
                return True
    return False


# ----------------------------------------------------------------------------------------------- enumeration

def enumerate_graphs(nfiles, budget, max_refs=2, names_per_kind=2, with_comps=True, with_units=True):
    """Every import graph, up to renaming of files and entities, that is *reachable from the origin file*:
    the origin holds one or two root entities; every entity demanded by a root (import target, referenced
    units, used units, encapsulated child) is then either left missing or defined from the menu
        units:  local with 0..max_refs references to units of the same file, in every order | import of (file, name)
        comp :  local with 0..1 used units and 0..1 encapsulated child      | import of (file, name)
    where a target file is any file introduced so far (its own file and the origin file included: self imports
    and back edges of every length) or the next new one, and a target name is any name introduced so far in
    that file for that kind or the next new one.  At most `nfiles` files, at most `budget` defined entities,
    at most `names_per_kind` names per kind and file.  Returns a list of dict file -> model doc
    (origin = ORIGIN).  Graphs without any import are skipped; duplicates are removed."""
    results = []
    seen = set()

    def known(defs, pending):
        return list(defs) + list(pending)

    def names_for(keys, f, kind):
        used = sorted({k[2] for k in keys if k[0] == f and k[1] == kind})
        opts = list(used)
        if len(used) < names_per_kind:
            opts.append(("u%d" if kind == "u" else "c%d") % len(used))
        return opts

    def files_for(keys):
        n = 1 + max(k[0] for k in keys)
        opts = list(range(n))
        if n < nfiles:
            opts.append(n)
        return opts

    def expand(roots, defs, order, pending, kidset, left):
        while pending and pending[0] in defs:
            pending = pending[1:]
        if not pending:
            emit(defs, order)
            return
        d = pending[0]
        rest = pending[1:]
        f, kind, name = d
        keys = known(defs, pending)
        if d not in roots:
            nd = dict(defs)
            nd[d] = None
            expand(roots, nd, order + [d], rest, kidset, left)
        if left == 0:
            return
        if kind == "u":
            cand = names_for(keys, f, "u")
            for k in range(0, max_refs + 1):
                for refs in itertools.permutations(cand, k):
                    nd = dict(defs)
                    nd[d] = ("L", refs)
                    expand(roots, nd, order + [d], rest + [(f, "u", r) for r in refs], kidset, left - 1)
            for tf in files_for(keys):
                for tn in names_for(keys, tf, "u"):
                    nd = dict(defs)
                    nd[d] = ("I", tf, tn)
                    expand(roots, nd, order + [d], rest + [(tf, "u", tn)], kidset, left - 1)
        else:
            ucand = names_for(keys, f, "u") if with_units else []
            ccand = [c for c in names_for(keys, f, "c") if c != name]
            for used in [()] + [(u,) for u in ucand]:
                for kid in [()] + [(c,) for c in ccand]:
                    if kid:
                        kk = (f, "c", kid[0])
                        # a child has one parent, is not a root, and is not an ancestor (kept simple: not yet defined)
                        if kk in kidset or kk in roots or kk in defs:
                            continue
                    nd = dict(defs)
                    nd[d] = ("L", used, kid)
                    expand(roots, nd, order + [d], rest + [(f, "u", u) for u in used] + [(f, "c", k) for k in kid],
                           kidset | {(f, "c", k) for k in kid}, left - 1)
            for tf in files_for(keys):
                for tn in names_for(keys, tf, "c"):
                    nd = dict(defs)
                    nd[d] = ("I", tf, tn)
                    expand(roots, nd, order + [d], rest + [(tf, "c", tn)], kidset, left - 1)

    def emit(defs, order):
        if not any(v is not None and v[0] == "I" for v in defs.values()):
            return
        files = build_files(defs, order)
        key = canonical_key(files)
        if key in seen:
            return
        seen.add(key)
        results.append(files)

    root_sets = []
    if with_units:
        root_sets.append([(0, "u", "u0")])
        root_sets.append([(0, "u", "u0"), (0, "u", "u1")])
    if with_comps:
        root_sets.append([(0, "c", "c0")])
        if with_units:
            root_sets.append([(0, "u", "u0"), (0, "c", "c0")])
        root_sets.append([(0, "c", "c0"), (0, "c", "c1")])
    for roots in root_sets:
        expand(frozenset(roots), {}, [], list(roots), frozenset(), budget)
    return results


def build_files(defs, order):
    """defs: (file index, kind, name) -> None | ("L", refs) | ("L", used, kid) | ("I", tf, tn)  ->  files dict"""
    nf = 1 + max(k[0] for k in defs)
    for v in defs.values():
        if v is not None and v[0] == "I":
            nf = max(nf, v[1] + 1)
    files = {}
    for f in range(nf):
        ukeys = [k for k in order if k[0] == f and k[1] == "u" and defs[k] is not None]
        ckeys = [k for k in order if k[0] == f and k[1] == "c" and defs[k] is not None]
        units = []
        for k in sorted(ukeys, key=lambda k: k[2]):
            v = defs[k]
            units.append(UL(k[2], *v[1]) if v[0] == "L" else UI(k[2], fname(v[1]), v[2]))
        children = {v[2][0] for k in ckeys for v in [defs[k]] if v[0] == "L" and v[2]}

        def mk(cn):
            v = defs.get((f, "c", cn))
            if v is None:
                return None
            if v[0] == "I":
                return C(cn, (fname(v[1]), v[2]))
            kids = [x for x in (mk(k) for k in v[2]) if x is not None]
            return C(cn, None, v[1], kids)
        comps = [mk(k[2]) for k in sorted(ckeys, key=lambda k: k[2]) if k[2] not in children]
        if f > 0 and not units and not comps and not any(k[0] == f for k in defs):
            continue
        files[fname(f)] = M(mname(fname(f)), units, [c for c in comps if c is not None])
    return files


def canonical_key(files):
    return tuple(sorted(files.items()))


# ----------------------------------------------------------------------------------------------- faults

def _remove_entity(m, kind, name):
    _, n, units, comps, errs = m
    if kind == "u":
        return M(n, [u for u in units if u[1] != name], comps, [e for e in errs if e != ("eu", name)])

    def strip(cs):
        return tuple(C(c[1], c[2], c[3], strip(c[4])) for c in cs if c[1] != name)
    left = strip(comps)
    names = {c[1] for c in _flatten_comps(left)}
    return M(n, units, left, [e for e in errs if e[0] != "ec" or e[1] in names])


def single_faults(files, origin=ORIGIN):
    """Every single fault on a non-origin file of a graph: yields (label, faulted_files).
       missing file | truncated at each prefix class | replaced by non-CellML XML | one entity removed |
       one local entity given a parser error."""
    for f in sorted(files):
        if f == origin:
            continue
        d = files[f]
        g = dict(files)
        del g[f]
        yield ("missing:%s" % f, g)
        for v in TRUNCATIONS:
            g = dict(files)
            g[f] = ("X", v)
            yield ("trunc-%s:%s" % (v, f), g)
        g = dict(files)
        g[f] = ("H",)
        yield ("notcellml:%s" % f, g)
        if not is_model(d):
            continue
        for u in d[2]:
            g = dict(files)
            g[f] = _remove_entity(d, "u", u[1])
            yield ("rm-units-%s:%s" % (u[1], f), g)
            if u[0] == "L":
                g = dict(files)
                g[f] = M(d[1], d[2], d[3], d[4] + (("eu", u[1]),))
                yield ("err-units-%s:%s" % (u[1], f), g)
        for c in all_comps(d):
            g = dict(files)
            g[f] = _remove_entity(d, "c", c[1])
            yield ("rm-comp-%s:%s" % (c[1], f), g)
            if c[2] is None:
                g = dict(files)
                g[f] = M(d[1], d[2], d[3], d[4] + (("ec", c[1]),))
                yield ("err-comp-%s:%s" % (c[1], f), g)


def back_edges(files, origin=ORIGIN):
    """Graphs obtained by redirecting one local entity of a non-origin file into an import of an entity of a
    file that (transitively) imports it: cycles of every length present in the graph, self import included."""
    names = sorted(files)
    for f in names:
        d = files[f]
        if f == origin or not is_model(d):
            continue
        for i, u in enumerate(d[2]):
            if u[0] != "L":
                continue
            for tf in names:
                td = files[tf]
                if not is_model(td):
                    continue
                for tu in td[2]:
                    if tf == f and tu[1] == u[1] and False:
                        continue
                    g = dict(files)
                    nu = list(d[2])
                    nu[i] = UI(u[1], tf, tu[1])
                    g[f] = M(d[1], nu, d[3], d[4])
                    yield ("backedge-units-%s:%s->%s:%s" % (u[1], f, tf, tu[1]), g)
        for c in d[3]:
            if c[2] is not None:
                continue
            for tf in names:
                td = files[tf]
                if not is_model(td):
                    continue
                for tc in all_comps(td):
                    g = dict(files)
                    nc = [C(c[1], (tf, tc[1])) if x[1] == c[1] else x for x in d[3]]
                    g[f] = M(d[1], d[2], nc, d[4])
                    yield ("backedge-comp-%s:%s->%s:%s" % (c[1], f, tf, tc[1]), g)


# ----------------------------------------------------------------------------------------------- random graphs

def random_graph(rng, nfiles=4, max_units=3, max_comps=3, p_import=0.45, p_missing_ref=0.05, allow_back=0.15,
                 p_err=0.0, twin=0.0):
    """A larger random graph: file i imports mostly from files > i (forward), with probability allow_back from
    any file (cycles, self imports).  Returns files dict."""
    files = {}
    unames = [["u%d" % k for k in range(rng.randint(0, max_units))] for _ in range(nfiles)]
    cnames = [["c%d" % k for k in range(rng.randint(0, max_comps))] for _ in range(nfiles)]
    if not unames[0] and not cnames[0]:
        unames[0] = ["u0"]
    for i in range(nfiles):
        def target_file():
            if rng.random() < allow_back or i == nfiles - 1:
                return rng.randrange(nfiles)
            return rng.randrange(i + 1, nfiles)
        units = []
        for n in unames[i]:
            if rng.random() < p_import and nfiles > 1:
                tf = target_file()
                pool = unames[tf] or ["u0"]
                ref = rng.choice(pool) if rng.random() > p_missing_ref else "nope"
                units.append(UI(n, fname(tf), ref))
            else:
                k = rng.choice([0, 0, 1, 1, 2])
                refs = []
                for _ in range(k):
                    r = rng.random()
                    if r < 0.25:
                        refs.append(STD)
                    elif r < 0.25 + p_missing_ref:
                        refs.append("nope")
                    else:
                        refs.append(rng.choice(unames[i]))
                if not allow_back:
                    refs = [r for r in refs if r in STANDARD_UNITS or r == "nope" or r > n]
                units.append(UL(n, *refs))
        flat = []
        for n in cnames[i]:
            if rng.random() < p_import and nfiles > 1:
                tf = target_file()
                pool = cnames[tf] or ["c0"]
                ref = rng.choice(pool) if rng.random() > p_missing_ref else "nope"
                flat.append(C(n, (fname(tf), ref)))
            else:
                used = [rng.choice(unames[i] + [STD]) if (unames[i] and rng.random() > p_missing_ref) else
                        (STD if rng.random() < 0.5 else "nope") for _ in range(rng.choice([0, 1, 1, 2]))]
                flat.append(C(n, None, used))
        # encapsulate: each component after the first may become the child of an earlier one
        tops = []
        for c in flat:
            if tops and rng.random() < 0.35:
                j = rng.randrange(len(tops))
                tops[j] = _add_kid(tops[j], c, rng)
            else:
                tops.append(c)
        errs = []
        if p_err and i > 0:
            for u in units:
                if u[0] == "L" and rng.random() < p_err:
                    errs.append(("eu", u[1]))
            for c in flat:
                if c[2] is None and rng.random() < p_err:
                    errs.append(("ec", c[1]))
        name = mname(fname(i))
        if twin and i > 0 and rng.random() < twin:
            name = mname(fname(0))
        files[fname(i)] = M(name, units, tops, errs)
    return files


def twin_graphs():
    """Graphs that exercise the second disjunct of checkForImportCycles (origin model equals the destination model):
    f0 (origin O) imports units a from f1, f1.a imports ua from f2, and f2 holds a model with the origin's name that is a
    copy or a near copy of O (units / components reordered, one more, one less, variables a prefix, duplicate children).
    Yields (label, files)."""
    o_units = [UL("ua"), UL("ub", "ua"), UI("ux", fname(1), "a")]
    k1 = C("k1", None, ["ua"])
    k2 = C("k2", None, ["ub"])
    o_comps = [C("c0", None, ["ua", "ub"]), C("c1", None, [], [k1, k2])]
    name = mname(ORIGIN)
    origin = M(name, o_units, o_comps)
    variants = {
        "copy": M(name, o_units, o_comps),
        "other-name": M("m_other", o_units, o_comps),
        "units-reordered": M(name, [o_units[1], o_units[0], o_units[2]], o_comps),
        "units-one-more": M(name, o_units + [UL("uz")], o_comps),
        "units-one-less": M(name, o_units[:2], o_comps),
        "units-ref-differs": M(name, [UL("ua"), UL("ub", STD), o_units[2]], o_comps),
        "import-url-differs": M(name, [o_units[0], o_units[1], UI("ux", fname(2), "a")], o_comps),
        "comps-reordered": M(name, o_units, [o_comps[1], o_comps[0]]),
        "kids-reordered": M(name, o_units, [o_comps[0], C("c1", None, [], [k2, k1])]),
        "vars-one-less": M(name, o_units, [C("c0", None, ["ua"]), o_comps[1]]),
        "vars-one-more": M(name, o_units, [C("c0", None, ["ua", "ub", "ua"]), o_comps[1]]),
        "vars-reordered": M(name, o_units, [C("c0", None, ["ub", "ua"]), o_comps[1]]),
        "kids-duplicate": M(name, o_units, [o_comps[0], C("c1", None, [], [k1, k1])]),
        "kid-missing": M(name, o_units, [o_comps[0], C("c1", None, [], [k1])]),
    }
    link = M(mname(fname(1)), [UI("a", fname(2), "ua")], [])
    for label, t in variants.items():
        yield ("twin-" + label, {ORIGIN: origin, fname(1): link, fname(2): t})
    # the other direction of the asymmetric comparisons: the origin is the smaller / the duplicate one
    for label, o2 in (("origin-vars-one-less", M(name, o_units, [C("c0", None, ["ua"]), o_comps[1]])),
                      ("origin-kids-duplicate", M(name, o_units, [o_comps[0], C("c1", None, [], [k1, k1])])),
                      ("origin-units-one-less", M(name, [o_units[0], o_units[2]], o_comps))):
        yield ("twin-" + label, {ORIGIN: o2, fname(1): link, fname(2): M(name, o_units, o_comps)})


# ----------------------------------------------------------------------------------------------- directories

DIRS = ("", "a/", "a/b/", "c/")          # directories of a laid-out graph (created in every case), depth 0-2
_SUBDIRS = {"": ("a", "c"), "a/": ("b",), "a/b/": (), "c/": ()}


def _file_urls(d):
    out = set()
    if is_model(d):
        out |= {u[2] for u in d[2] if u[0] == "I"}
        out |= {c[2][0] for c in all_comps(d) if c[2] is not None}
    return out


def _sccs(files):
    """strongly connected components of the file-level import graph: dict file -> representative"""
    names = set(files)
    for d in files.values():
        names |= _file_urls(d)
    graph = {f: (_file_urls(files.get(f)) if f in files else set()) for f in names}
    reach = {}
    for f in names:
        seen, todo = set(), [f]
        while todo:
            x = todo.pop()
            for y in graph[x]:
                if y not in seen:
                    seen.add(y)
                    todo.append(y)
        reach[f] = seen
    rep = {}
    for f in sorted(names):
        rep[f] = min([g for g in names if g == f or (g in reach[f] and f in reach[g])])
    return rep


def random_layout(files, rng, origin=ORIGIN):
    """a directory (one of DIRS) for every file name that occurs (as a file or as an import URL).  The origin stays
    in the top directory (the base path given to resolveImports); files that import from each other in a circle
    share a directory (the code does not normalise "..": a cycle through ".." spellings would produce ever longer
    library keys)."""
    rep = _sccs(files)
    dir_of_rep = {}
    out = {}
    for f in sorted(rep):
        r = rep[f]
        if r not in dir_of_rep:
            dir_of_rep[r] = "" if rep.get(origin) == r else rng.choice(DIRS)
        out[f] = dir_of_rep[r]
    out[origin] = ""
    return out


def random_styles(files, rng):
    """a `styles` callable for lay_out: random spellings, except that imports inside a circle of files (and self
    imports) are written the shortest way (any other spelling would make the un-normalised keys grow for ever)"""
    rep = _sccs(files)
    memo = {}

    def styles(importer, url, i):
        if rep.get(importer) == rep.get(url):
            return 0
        if (importer, url, i) not in memo:
            memo[(importer, url, i)] = rng.choice([0, 0, 1, 2])
        return memo[(importer, url, i)]
    return styles


def relative_url(from_dir, to_dir, name, style=0):
    """the URL text that reaches to_dir + name from a file in from_dir.  style 0: shortest ("sub/f", "../f");
    1: "./" in front; 2: a detour through an existing sub-directory of from_dir ("x/../…") when there is one."""
    a = [x for x in from_dir.split("/") if x]
    b = [x for x in to_dir.split("/") if x]
    i = 0
    while i < len(a) and i < len(b) and a[i] == b[i]:
        i += 1
    url = "../" * (len(a) - i) + "".join(x + "/" for x in b[i:]) + name
    if style == 1:
        return "./" + url
    if style == 2 and _SUBDIRS.get(from_dir):
        return _SUBDIRS[from_dir][0] + "/../" + url
    return url


def lay_out(files, dirs, styles=None):
    """files of a flat graph -> files of the same graph spread over directories: dict real path -> doc, every import
    URL rewritten relative to the directory of the importing file.  styles: callable (importer, url, occurrence
    index) -> 0 | 1 | 2 choosing the spelling (see relative_url); default: shortest."""
    out = {}
    for f, d in files.items():
        fd = dirs.get(f, "")
        if not is_model(d):
            out[fd + f] = d
            continue
        n = [0]

        def rw(url):
            st = styles(f, url, n[0]) if styles else 0
            n[0] += 1
            return relative_url(fd, dirs.get(url, fd), url, st)

        def rwc(c):
            imp = None if c[2] is None else (rw(c[2][0]), c[2][1])
            return C(c[1], imp, c[3], [rwc(k) for k in c[4]])
        units = [UI(u[1], rw(u[2]), u[3]) if u[0] == "I" else u for u in d[2]]
        out[fd + f] = M(d[1], units, [rwc(c) for c in d[3]], d[4])
    return out


def _normpath(p):
    parts = []
    for x in p.split("/"):
        if x in ("", "."):
            continue
        if x == "..":
            if not parts:
                return None               # above the case directory
            parts.pop()
        else:
            parts.append(x)
    return "/".join(parts)


def spelled_keys(laid, origin=ORIGIN, cap=120):
    """Library keys as the importer spells them (base directory of the importing file + URL as written, never
    normalised) for everything reachable from the origin, each with the real path the OS resolves it to:
    dict spelled key -> real path (which may or may not be a file of `laid`).  None when more than `cap` keys arise
    (a cycle through non-normalised spellings)."""
    keys = {origin: origin}
    todo = [origin]
    while todo:
        k = todo.pop()
        real = keys[k]
        d = laid.get(real) if real is not None else None
        base = k[:k.rfind("/") + 1]
        for url in sorted(_file_urls(d)):
            k2 = base + url
            if k2 not in keys:
                keys[k2] = _normpath(k2)
                todo.append(k2)
                if len(keys) > cap:
                    return None
    return keys


def child_order_graphs():
    """Graphs whose point is the ORDER of several children.  (1) the target of an imported units is a local units with
    2-3 unit children in every order, each child a local leaf, an imported units that is fine, an imported units that
    closes a cycle back to the importing file (through one or two files), or a missing name -- so the cycle-closing
    edge sits in every position, before and after other imported children.  (2) the same for a component: 2-3 units
    used by its variables, and 2-3 encapsulated children (local / imported / imported closing a cycle), in every
    order.  Yields (label, files)."""
    f0, f1, f2, f3 = fname(0), fname(1), fname(2), fname(3)
    leaf = M(mname(f2), [UL("v")], [C("k", None, [])])
    kinds = ("L", "I", "Y1", "Y2", "N")          # local leaf, import ok, cycle (1 hop), cycle (2 hops), missing
    for n in (2, 3):
        for combo in itertools.product(kinds, repeat=n):
            if sum(1 for k in combo if k in ("Y1", "Y2")) > 1 or all(k == "L" for k in combo):
                continue
            if n == 3 and not any(k in ("Y1", "Y2") for k in combo):
                continue
            label = "".join(k[0] + (k[1:] if len(k) > 1 else "") for k in combo)
            units, refs = [], []
            for i, k in enumerate(combo):
                nm = "x%d" % i
                refs.append(nm)
                if k == "L":
                    units.append(UL(nm))
                elif k == "I":
                    units.append(UI(nm, f2, "v"))
                elif k == "Y1":
                    units.append(UI(nm, f1, "u"))            # the file imports its own units u: u -> child -> u
                elif k == "Y2":
                    units.append(UI(nm, f3, "w"))            # f3.w imports f1.u
                # "N": the name is referenced but not defined
            back = M(mname(f3), [UI("w", f1, "u")], [])
            # (1) units
            files = {f0: M(mname(f0), [UI("u", f1, "u")], []),
                     f1: M(mname(f1), [UL("u", *refs)] + units, []), f2: leaf, f3: back}
            yield ("order-units-" + label, files)
            # (2) component: the children are the units used by the variables of the imported component
            cunits = []
            for i, k in enumerate(combo):
                nm = "x%d" % i
                if k == "L":
                    cunits.append(UL(nm))
                elif k == "I":
                    cunits.append(UI(nm, f2, "v"))
                elif k == "Y1":
                    cunits.append(UI(nm, f1, "y"))
                elif k == "Y2":
                    cunits.append(UI(nm, f3, "w"))
            ycyc = [UI("y", f1, "y")] if "Y1" in combo else []       # a self-importing units of f1
            back2 = M(mname(f3), [UI("w", f3, "w")], [])
            files = {f0: M(mname(f0), [], [C("c", (f1, "c"))]),
                     f1: M(mname(f1), cunits + ycyc, [C("c", None, refs)]), f2: leaf, f3: back2}
            yield ("order-used-" + label, files)
            # (3) encapsulated children of the imported component
            kids = []
            for i, k in enumerate(combo):
                nm = "k%d" % i
                if k == "L":
                    kids.append(C(nm, None, []))
                elif k == "I":
                    kids.append(C(nm, (f2, "k")))
                elif k == "Y1":
                    kids.append(C(nm, (f1, "c")))            # a child importing its own parent
                elif k == "Y2":
                    kids.append(C(nm, (f3, "d")))            # f3.d imports f1.c
                else:
                    kids.append(C(nm, (f2, "nope")))
            back3 = M(mname(f3), [], [C("d", (f1, "c"))])
            files = {f0: M(mname(f0), [], [C("c", (f1, "c"))]),
                     f1: M(mname(f1), [], [C("c", None, [], kids)]), f2: leaf, f3: back3}
            yield ("order-kids-" + label, files)


def placeholder_graphs():
    """Resolvable graphs in which import placeholders of the origin model have encapsulated children of their own that
    are imports again (placeholder nesting of depth 2 and 3), also below a local child, from the same and from different
    files, with units used by the imported components.  Yields (label, files)."""
    f0, f1, f2, f3 = fname(0), fname(1), fname(2), fname(3)
    fp = M(mname(f1), [UL("up")], [C("p", None, ["up"])])
    fq = M(mname(f2), [UL("uq")], [C("qc", None, ["uq"]), C("qd", None, [])])
    fr = M(mname(f3), [], [C("rc", None, [STD])])
    r = C("R", (f3, "rc"))
    variants = {
        "P-Q": [C("P", (f1, "p"), [], [C("Q", (f2, "qc"))])],
        "P-Q-R": [C("P", (f1, "p"), [], [C("Q", (f2, "qc"), [], [r])])],
        "P-QQ": [C("P", (f1, "p"), [], [C("Q", (f2, "qc")), C("Q2", (f2, "qd"))])],
        "P-L-Q": [C("P", (f1, "p"), [], [C("L", None, [], [C("Q", (f2, "qc"), [], [r])])])],
        "P-Q-samefile": [C("P", (f2, "qd"), [], [C("Q", (f2, "qc"))])],
        "L-P-Q": [C("L", None, [], [C("P", (f1, "p"), [], [C("Q", (f2, "qc"))])])],
        "P-Q+top": [C("P", (f1, "p"), [], [C("Q", (f2, "qc"))]), C("T", (f3, "rc"))],
    }
    for label, comps in variants.items():
        yield ("placeholder-" + label, {f0: M(mname(f0), [], comps), f1: fp, f2: fq, f3: fr})


def origin_imports(m):
    """the imported entities of a model: [("u", name, url, ref) | ("c", name, url, ref)], components at any depth"""
    out = [("u", u[1], u[2], u[3]) for u in m[2] if u[0] == "I"]
    out += [("c", c[1], c[2][0], c[2][1]) for c in all_comps(m) if c[2] is not None]
    return out


def retarget(m, kind, name, url, ref):
    """the model with the import of the units / component `name` pointed at (url, ref)"""
    if kind == "u":
        return M(m[1], [UI(u[1], url, ref) if (u[0] == "I" and u[1] == name) else u for u in m[2]], m[3], m[4])

    def rc(c):
        imp = (url, ref) if (c[2] is not None and c[1] == name) else c[2]
        return C(c[1], imp, c[3], [rc(k) for k in c[4]])
    return M(m[1], m[2], [rc(c) for c in m[3]], m[4])


def _add_kid(parent, kid, rng):
    if parent[4] and rng.random() < 0.5:
        ks = list(parent[4])
        j = rng.randrange(len(ks))
        ks[j] = _add_kid(ks[j], kid, rng)
        return C(parent[1], parent[2], parent[3], ks)
    return C(parent[1], parent[2], parent[3], parent[4] + (kid,))


if __name__ == "__main__":
    import sys
    import time
    n = int(sys.argv[1]) if len(sys.argv) > 1 else 3
    b = int(sys.argv[2]) if len(sys.argv) > 2 else 3
    t0 = time.time()
    gs = enumerate_graphs(n, b)
    print("graphs with <= %d files, <= %d entities: %d (%.1fs)" % (n, b, len(gs), time.time() - t0))
    nres = sum(1 for g in gs if truth(g).resolvable)
    print("resolvable:", nres)
    for g in gs[:3]:
        for f in sorted(g):
            print(f, abstract_text(g[f]))
            print(render(g[f]).decode())
