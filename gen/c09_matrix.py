"""c09_matrix.py -- list-position case splits of the heap model as generator dimensions.

Every place where HeapDefs.step looks into a list is a case split on a POSITION, and its outcome can depend on what
stands BEFORE or AFTER that position:

    model (HeapDefs.v)                                   dimension                              residue that matters
    nth_error (children ...) i      by-index ops         target position first/middle/last/past  -
    find_named                      by-name ops          position of the first match             duplicate-named entry before / after
    find_child = index_of ; seq     by-pointer ops       position of the pointer itself          look-alike before / after; non-child matched
    index_of old (after the replacement left its parent) replace* with a sibling                  replacement before / after the replaced child
    memb / remove_first (eqs_of)    removeEquivalence    position of the partner                 EXPIRED entry (gc filter) before / after
    nth_error (eqs_of) i            equivalentVariable   index                                   expired entry before / after (indices skip it)
    fold over eqs_of                removeAllEquivalences  -                                     expired entry anywhere

For every list-manipulating op form x target position {first, middle, last} x residue kind x residue position
{before, after, none} a history is built that realises the cell, over a universe large enough for lists of three
(5 components, 5 variables, 4 units, 4 resets).  Cells that cannot exist are listed with the reason.
cases() -> (universe, [(case text, cell)]) ; cell = (op, target position, residue kind, residue position)
"""
from script_gen import S

UNIVERSE = ["m:m", "m:m", "c:a", "c:a", "c:a", "c:a", "c:b", "v:x", "v:x", "v:x", "v:x", "v:y",
            "u:u", "u:u", "u:u", "u:w", "r", "r", "r", "r"]
M0, M1 = 0, 1
CA = [2, 3, 4, 5]      # components named a (look-alikes)
CB = 6                 # component named b
VX = [7, 8, 9, 10]     # variables named x
VY = 11
UU = [12, 13, 14]
UW = 15
RS = [16, 17, 18, 19]
POS = ["first", "middle", "last"]


def nul(x):
    return "null" if x is None else str(x)


def child_families():
    """(family, add command, container, three look-alike children, a look-alike outside, a distinct-named child, its name)"""
    return [
        ("component@model", "addcomponent", M0, CA[:3], CA[3], CB, "b", "a"),
        ("component@component", "addcomponent", CB, CA[:3], CA[3], None, None, "a"),
        ("variable", "addvariable", CA[0], VX[:3], VX[3], VY, "y", "x"),
        ("reset", "addreset", CA[0], RS[:3], RS[3], None, None, None),
        ("units", "addunits", M0, UU, UW, UW, "w", "u"),
    ]


def ops_on(fam, k, target, name, outside, deep):
    """the list-manipulating op forms of a family aimed at child `target` (by pointer), index i, name"""
    f = fam.split("@")[0]
    d = " " + deep if f == "component" else ""
    out = {}
    if f == "component":
        out["remove_p"] = "removecomponent_p %d %d%s" % (k, target, d)
        out["replace_p"] = "replacecomponent_p %d %d %s%s" % (k, target, nul(outside), d)
        out["contains_p"] = "containscomponent_p %d %d%s" % (k, target, d)
    elif f == "variable":
        out["remove_p"] = "removevariable_p %d %d" % (k, target)
        out["has_p"] = "hasvariable_p %d %d" % (k, target)
    elif f == "reset":
        out["remove_p"] = "removereset_p %d %d" % (k, target)
        out["has_p"] = "hasreset %d %d" % (k, target)
    else:
        out["remove_p"] = "removeunits_p %d %d" % (k, target)
        out["replace_p"] = "replaceunits_p %d %d %s" % (k, target, nul(outside))
        out["has_p"] = "hasunits_p %d %d" % (k, target)
    return out


def index_ops(fam, k, i, outside):
    f = fam.split("@")[0]
    if f == "component":
        return {"remove_i": "removecomponent_i %d %d" % (k, i), "take_i": "takecomponent_i %d %d" % (k, i),
                "replace_i": "replacecomponent_i %d %d %s" % (k, i, nul(outside)), "get_i": "component_i %d %d" % (k, i)}
    if f == "variable":
        return {"remove_i": "removevariable_i %d %d" % (k, i), "take_i": "takevariable_i %d %d" % (k, i), "get_i": "variable_i %d %d" % (k, i)}
    if f == "reset":
        return {"remove_i": "removereset_i %d %d" % (k, i), "take_i": "takereset %d %d" % (k, i), "get_i": "reset_i %d %d" % (k, i)}
    return {"remove_i": "removeunits_i %d %d" % (k, i), "take_i": "takeunits_i %d %d" % (k, i),
            "replace_i": "replaceunits_i %d %d %s" % (k, i, nul(outside)), "get_i": "units_i %d %d" % (k, i)}


def name_ops(fam, k, n, outside):
    f = fam.split("@")[0]
    if f == "component":
        return {"remove_n": "removecomponent_n %d %s false" % (k, S(n)), "take_n": "takecomponent_n %d %s false" % (k, S(n)),
                "replace_n": "replacecomponent_n %d %s %s false" % (k, S(n), nul(outside)), "get_n": "component_n %d %s false" % (k, S(n)),
                "contains_n": "containscomponent_n %d %s false" % (k, S(n))}
    if f == "variable":
        return {"remove_n": "removevariable_n %d %s" % (k, S(n)), "take_n": "takevariable_n %d %s" % (k, S(n)),
                "get_n": "variable_n %d %s" % (k, S(n)), "has_n": "hasvariable_n %d %s" % (k, S(n))}
    if f == "units":
        return {"remove_n": "removeunits_n %d %s" % (k, S(n)), "take_n": "takeunits_n %d %s" % (k, S(n)),
                "replace_n": "replaceunits_n %d %s %s" % (k, S(n), nul(outside)), "get_n": "units_n %d %s" % (k, S(n)),
                "has_n": "hasunits_n %d %s" % (k, S(n))}
    return {}


def cases():
    out = []
    na = []

    def emit(ops, cell):
        out.append((";".join(ops), cell))

    for fam, add, k, kids, outside, odd, oddname, samename in child_families():
        build = ["%s %d %d" % (add, k, x) for x in kids]
        if fam == "component@component":
            build = ["addcomponent %d %d" % (M0, k)] + build          # the container itself sits in a model
        # ---- by index: target position (and one past the end)
        for p, i in list(zip(POS, range(3))) + [("past-the-end", 3)]:
            for name, op in index_ops(fam, k, i, outside).items():
                emit(build + [op], ("%s.%s" % (fam, name), p, "-", "none"))
            # replace by a SIBLING standing before / after the replaced child (its position is looked up again)
            for q, j in zip(POS, range(3)):
                if "replace_i" in index_ops(fam, k, i, outside) and i < 3 and j != i:
                    emit(build + [index_ops(fam, k, i, kids[j])["replace_i"]],
                         ("%s.replace_i" % fam, p, "sibling-replacement", "before" if j < i else "after"))
        # ---- by pointer: the pointer itself at each position; the other two are look-alikes before / after it
        for p, i in zip(POS, range(3)):
            res = {"first": "after", "middle": "before+after", "last": "before"}[p]
            for deep in (("true", "false") if fam.startswith("component") else ("",)):
                for name, op in ops_on(fam, k, kids[i], None, outside, deep).items():
                    emit(build + [op], ("%s.%s" % (fam, name), p, "look-alike", res))
            # with a distinct-named sibling instead of look-alikes: no residue
            if odd is not None:
                others = [x for x in kids if x != kids[i]][:2]
                order = others[:]
                order.insert(i, odd)
                b2 = ["%s %d %d" % (add, k, x) for x in order]
                for name, op in ops_on(fam, k, odd, None, outside, "false").items():
                    emit(b2 + [op], ("%s.%s" % (fam, name), p, "-", "none"))
                for name, op in name_ops(fam, k, oddname, outside).items():
                    emit(b2 + [op], ("%s.%s" % (fam, name), p, "-", "none"))
            # replace by pointer with a sibling as the replacement
            for q, j in zip(POS, range(3)):
                if "replace_p" in ops_on(fam, k, kids[i], None, outside, "false") and j != i:
                    emit(build + [ops_on(fam, k, kids[i], None, kids[j], "false")["replace_p"]],
                         ("%s.replace_p" % fam, p, "sibling-replacement", "before" if j < i else "after"))
        # ---- a pointer that is NOT a child but equal to the children: matched to the first
        if outside is not None:
            for name, op in ops_on(fam, k, outside, None, None, "false").items():
                emit(build + [op], ("%s.%s" % (fam, name), "not-a-child", "look-alike", "all"))
        # ---- by name with duplicates: the first match goes, duplicates stand after it; with a distinct name before it
        if samename is not None:
            for name, op in name_ops(fam, k, samename, outside).items():
                emit(build + [op], ("%s.%s" % (fam, name), "first", "duplicate-name", "after"))
            if odd is not None:
                b3 = ["%s %d %d" % (add, k, x) for x in [odd] + kids[:2]]
                for name, op in name_ops(fam, k, samename, outside).items():
                    emit(b3 + [op], ("%s.%s" % (fam, name), "middle", "duplicate-name", "after"))
                b4 = ["%s %d %d" % (add, k, x) for x in kids[:2] + [odd]]
                for name, op in name_ops(fam, k, oddname, outside).items():
                    emit(b4 + [op], ("%s.%s" % (fam, name), "last", "duplicate-name", "before(other name)"))
        else:
            na.append(("%s.*_n" % fam, "resets have no name"))

    # ---- equivalence lists: v ~ w1, w2, w3 (in this order in v's list); one partner destroyed = EXPIRED entry
    v, ws = VX[0], [VX[1], VX[2], VX[3]]
    build = ["addequivalence %d %d" % (v, w) for w in ws]
    # partners must be destructible: parent-less, so releasing the handle destroys them
    for p, i in zip(POS, range(3)):
        # no residue
        for name, op in (("removeEquivalence(v,w)", "removeequivalence %d %d" % (v, ws[i])),
                         ("removeEquivalence(w,v)", "removeequivalence %d %d" % (ws[i], v)),
                         ("hasEquivalentVariable", "hasequivalentvariable %d %d false" % (v, ws[i])),
                         ("equivalentVariable", "equivalentvariable %d %d" % (v, i))):
            emit(build + [op], (name, p, "-", "none"))
        for q, j in zip(POS, range(3)):
            if j == i:
                continue
            where = "before" if j < i else "after"
            pre = build + ["release %d" % ws[j]]                     # ws[j] is destroyed: v holds an expired entry at j
            live_index = i - 1 if j < i else i
            for name, ops in (
                    ("removeEquivalence(v,w)", ["removeequivalence %d %d" % (v, ws[i])]),
                    ("removeEquivalence(w,v)", ["removeequivalence %d %d" % (ws[i], v)]),
                    ("hasEquivalentVariable", ["hasequivalentvariable %d %d false" % (v, ws[i]), "hasequivalentvariable %d %d true" % (ws[i], v)]),
                    ("equivalentVariable", ["equivalentvariable %d %d" % (v, live_index), "equivalentvariable %d 2" % v]),
                    ("addEquivalence", ["addequivalence %d %d" % (v, VY), "equivalentvariable %d 2" % v]),
                    ("removeAllEquivalences", ["removeallequivalences %d" % v]),
                    ("removeAllEquivalences(partner)", ["removeallequivalences %d" % ws[i]]),
            ):
                # after the op look at everything again through the queries, so that a wrong erasure shows in the answers too
                tail = ["hasequivalentvariable %d %d false" % (v, w) for w in ws if w != ws[j]] + \
                       ["hasequivalentvariable %d %d false" % (w, v) for w in ws if w != ws[j]]
                emit(pre + ops + tail, (name, p, "expired-entry", where))
    # both neighbours expired, target in the middle
    emit(build + ["release %d" % ws[0], "release %d" % ws[2], "removeequivalence %d %d" % (v, ws[1])],
         ("removeEquivalence(v,w)", "middle", "expired-entry", "before+after"))
    return UNIVERSE, out, na
