"""valid_gen.py -- C04: abstract CellML worlds (the entity model of coq/theories/ValidDefs.v), a generator of
worlds that are valid by construction, single-fault injectors (one rule, one location), and three serialisers:

    to_tokens(world)  -> one line for ocaml/valid/driver.ml (the Coq value)
    to_script(world)  -> list of API-script lines for harness/common/script.hpp (model 0 ends up in slot 0)
    xml_text(node)    -> MathML text handed to setMath / setTestValue / setResetValue

A world is a list of Model; model 0 is validated, the others are attached to import sources (is_model = index).
No third-party imports.
"""
import copy
import os
import sys

sys.path.insert(0, os.path.dirname(os.path.abspath(__file__)))
from script_gen import S, ScriptBuilder, STANDARD_UNITS, PREFIXES  # noqa: E402

MATHML_NS = "http://www.w3.org/1998/Math/MathML"
CELLML_NS = "http://www.cellml.org/cellml/2.0#"

# ----------------------------------------------------------------------------------------------- entities


class ISrc:
    def __init__(self, tag, url, id="", url_ok=True, model=None):
        self.tag, self.id, self.url, self.url_ok, self.model = tag, id, url, url_ok, model


class Item:
    def __init__(self, ref, prefix="", exp=(1, 1), lmult=(0, 1), id=""):
        self.ref, self.prefix, self.exp, self.lmult, self.id = ref, prefix, exp, lmult, id


class Units:
    def __init__(self, name, id="", imp=None, items=None):
        self.name, self.id, self.imp, self.items = name, id, imp, items or []   # imp = (ISrc, ref) or None


class Eqv:
    def __init__(self, to, map_id="", conn_id=""):
        self.to, self.map_id, self.conn_id = to, map_id, conn_id


class Var:
    def __init__(self, tag, name, units="dimensionless", id="", iface="", init=""):
        self.tag, self.name, self.id, self.units, self.iface, self.init = tag, name, id, units, iface, init
        self.eqs = []


class Reset:
    def __init__(self, order=None, var=None, tvar=None, tv=None, rv=None, id="", tv_id="", rv_id=""):
        self.id, self.order, self.var, self.tvar = id, order, var, tvar
        self.tv, self.rv, self.tv_id, self.rv_id = tv or [], rv or [], tv_id, rv_id


class Comp:
    def __init__(self, tag, name, id="", encid="", imp=None):
        self.tag, self.name, self.id, self.encid, self.imp = tag, name, id, encid, imp
        self.vars, self.resets, self.math, self.kids = [], [], [], []

    def all(self):
        out = [self]
        for k in self.kids:
            out += k.all()
        return out


class Model:
    def __init__(self, name, id="", encid=""):
        self.name, self.id, self.encid = name, id, encid
        self.units, self.comps = [], []
        self.ext_vars = []        # parent-less variables (tags) that some variable is equivalent to

    def all_comps(self):
        out = []
        for c in self.comps:
            out += c.all()
        return out

    def all_vars(self):
        return [v for c in self.all_comps() for v in c.vars]

    def owner(self, tag):
        for c in self.all_comps():
            for v in c.vars:
                if v.tag == tag:
                    return c
        return None

    def var(self, tag):
        for v in self.all_vars():
            if v.tag == tag:
                return v
        return None

    def parent_of(self, comp):
        for c in self.all_comps():
            if comp in c.kids:
                return c
        return None


# ----------------------------------------------------------------------------------------------- xml trees

def E(name, kids=None, attrs=None, ns=MATHML_NS):
    return ("E", ns, name, list(attrs or []), list(kids or []))


def T(s):
    return ("T", s)


def Cm(s):
    return ("C", s)


def _esc(s):
    return s.replace("&", "&amp;").replace("<", "&lt;").replace(">", "&gt;").replace('"', "&quot;")


# How attributes are SPELLED in the math strings handed to the API (the tree is the same in every spelling):
#   0  name="v"        1  name = "v"      2  name ="v"      3  name<newline>="v"     4  name='v'
#   5  attributes in reverse order        6  the cellml namespace under another prefix (xmlns:cx), declared on the root
#   7  the cellml namespace declared on the element that uses it (xmlns:k on the cn itself)     8  tab before and after '='
SPELLING = 0
N_SPELLINGS = 9


def _attr(name, value):
    v = _esc(value)
    k = SPELLING
    if k == 1:
        return ' %s = "%s"' % (name, v)
    if k == 2:
        return ' %s ="%s"' % (name, v)
    if k == 3:
        return ' %s\n="%s"' % (name, v)
    if k == 4:
        return " %s='%s'" % (name, v.replace("&quot;", '"').replace("'", "&apos;"))
    if k == 8:
        return ' %s\t=\t"%s"' % (name, v)
    return ' %s="%s"' % (name, v)


def xml_text(x, top=True):
    if x[0] == "T":
        return _esc(x[1])
    if x[0] == "C":
        return "<!--" + x[1] + "-->"
    _, ns, name, attrs, kids = x
    s = "<" + name
    cpre = "cx" if SPELLING == 6 else "cellml"
    if top:
        s += _attr("xmlns", ns) + _attr("xmlns:" + cpre, CELLML_NS)
    elif ns != MATHML_NS:
        s += _attr("xmlns", ns)
    for (ans, an, av) in (reversed(attrs) if SPELLING == 5 else attrs):
        if ans == CELLML_NS:
            if SPELLING == 7:
                s += _attr("xmlns:k", CELLML_NS) + _attr("k:" + an, av)
            else:
                s += _attr(cpre + ":" + an, av)
        elif ans == "":
            s += _attr(an, av)
        else:
            s += ' xmlns:q="%s" q:%s="%s"' % (_esc(ans), an, _esc(av))
    if not kids:
        return s + "/>"
    return s + ">" + "".join(xml_text(k, False) for k in kids) + "</" + name + ">"


def maths_text(docs):
    return "".join(xml_text(d) for d in docs)


def _h(s):
    b = s.encode("utf-8") if isinstance(s, str) else bytes(s)
    return b.hex() if b else "-"


def xml_tokens(x, out):
    if x[0] == "T":
        out += ["T", _h(x[1])]
    elif x[0] == "C":
        out += ["C", _h(x[1])]
    else:
        _, ns, name, attrs, kids = x
        out += ["E", _h(ns), _h(name), str(len(attrs))]
        for (a, b, c) in attrs:
            out += [_h(a), _h(b), _h(c)]
        out.append(str(len(kids)))
        for k in kids:
            xml_tokens(k, out)


# ----------------------------------------------------------------------------------------------- tokens (OCaml)

def _imp_tokens(imp, out):
    if imp is None:
        out.append("0")
    else:
        s, ref = imp
        out += ["1", str(s.tag), _h(s.id), _h(s.url), "1" if s.url_ok else "0",
                str(-1 if s.model is None else s.model), _h(ref)]


def _comp_tokens(c, out):
    out += ["C", str(c.tag), _h(c.name), _h(c.id), _h(c.encid)]
    _imp_tokens(c.imp, out)
    out.append(str(len(c.vars)))
    for v in c.vars:
        out += [str(v.tag), _h(v.name), _h(v.id), "0" if v.units is None else "1", _h(v.units or ""), _h(v.iface),
                _h(v.init), str(len(v.eqs))]
        for e in v.eqs:
            out += [str(e.to), _h(e.map_id), _h(e.conn_id)]
    out.append(str(len(c.resets)))
    for r in c.resets:
        out += [_h(r.id), "0" if r.order is None else "1", str(r.order or 0),
                "0" if r.var is None else "1", str(r.var or 0), "0" if r.tvar is None else "1", str(r.tvar or 0)]
        out.append(str(len(r.tv)))
        for d in r.tv:
            xml_tokens(d, out)
        out.append(_h(r.tv_id))
        out.append(str(len(r.rv)))
        for d in r.rv:
            xml_tokens(d, out)
        out.append(_h(r.rv_id))
    out.append(str(len(c.math)))
    for d in c.math:
        xml_tokens(d, out)
    out.append(str(len(c.kids)))
    for k in c.kids:
        _comp_tokens(k, out)


def to_tokens(world):
    out = ["W", str(len(world))]
    for m in world:
        out += ["M", _h(m.name), _h(m.id), _h(m.encid), str(len(m.units))]
        for u in m.units:
            out += ["U", _h(u.name), _h(u.id)]
            _imp_tokens(u.imp, out)
            out.append(str(len(u.items)))
            for it in u.items:
                out += [_h(it.ref), _h(it.prefix), str(it.exp[0]), str(it.exp[1]), str(it.lmult[0]), str(it.lmult[1]),
                        _h(it.id)]
        out.append(str(len(m.comps)))
        for c in m.comps:
            _comp_tokens(c, out)
    return " ".join(out)


# ----------------------------------------------------------------------------------------------- API script (C++)

def _q(q):
    return q[0] / q[1]


def to_script(world, first_slot=0, reuse_model0=None, with_next=False):
    """Build every model of the world through the public API; returns script lines (with_next: (lines, next free slot)).

    first_slot: slots are allocated from here (the models of the world come first, model 0 in slot `first_slot`).
    reuse_model0: slot of an EXISTING Model object that becomes model 0: it is emptied (components, units, ids) and
    rebuilt in place — the same C++ Model object then holds the new content ("the same model after an edit")."""
    b = ScriptBuilder(first_slot=first_slot)
    if reuse_model0 is None:
        mslots = [b.model() for _ in world]
    else:
        mslots = [reuse_model0] + [b.model() for _ in world[1:]]
        b.cmd("removeallcomponents", reuse_model0)
        b.cmd("removeallunits", reuse_model0)
        b.cmd("removename", reuse_model0)
        b.cmd("removeid", reuse_model0)
        b.cmd("removeencapsulationid", reuse_model0)
    isrc_slots = {}

    def isrc_slot(s):
        if s.tag not in isrc_slots:
            i = b.importsource()
            isrc_slots[s.tag] = i
            if s.url != "":
                b.cmd("seturl", i, S(s.url))
            if s.id != "":
                b.cmd("setid", i, S(s.id))
            if s.model is not None:
                b.cmd("setmodel", i, mslots[s.model])
        return isrc_slots[s.tag]

    for mi, m in enumerate(world):
        ms = mslots[mi]
        if m.name != "":
            b.cmd("setname", ms, S(m.name))
        if m.id != "":
            b.cmd("setid", ms, S(m.id))
        if m.encid != "":
            b.cmd("setencapsulationid", ms, S(m.encid))
        for u in m.units:
            us = b.units()
            if u.name != "":
                b.cmd("setname", us, S(u.name))
            if u.id != "":
                b.cmd("setid", us, S(u.id))
            for it in u.items:
                b.cmd("addunit", us, S(it.ref), S(it.prefix), float(_q(it.exp)), float(10.0 ** _q(it.lmult)), S(it.id))
            b.cmd("addunits", ms, us)
            if u.imp is not None:
                b.cmd("setsourceunits", us, isrc_slot(u.imp[0]), S(u.imp[1]))
        vslot = {}
        cslot = {}

        def build_comp(c, parent_slot):
            cs = b.component()
            cslot[id(c)] = cs
            if c.name != "":
                b.cmd("setname", cs, S(c.name))
            if c.id != "":
                b.cmd("setid", cs, S(c.id))
            if c.encid != "":
                b.cmd("setencapsulationid", cs, S(c.encid))
            b.cmd("addcomponent", parent_slot, cs)
            if c.imp is not None:
                b.cmd("setsourcecomponent", cs, isrc_slot(c.imp[0]), S(c.imp[1]))
            for v in c.vars:
                vs = b.variable()
                vslot[v.tag] = vs
                if v.name != "":
                    b.cmd("setname", vs, S(v.name))
                if v.id != "":
                    b.cmd("setid", vs, S(v.id))
                if v.units is not None:
                    b.cmd("setunits_n", vs, S(v.units))
                if v.iface != "":
                    b.cmd("setinterfacetype_s", vs, S(v.iface))
                if v.init != "":
                    b.cmd("setinitialvalue_s", vs, S(v.init))
                b.cmd("addvariable", cs, vs)
            if c.math:
                b.cmd("setmath", cs, S(maths_text(c.math)))
            for k in c.kids:
                build_comp(k, cs)

        for c in m.comps:
            build_comp(c, ms)
        for t in m.ext_vars:
            vs = b.variable()
            vslot[t] = vs
            b.cmd("setname", vs, S("ext%d" % t))
            b.cmd("setunits_n", vs, S("dimensionless"))
        for (a, bb, mid, cid) in getattr(m, "eq_log", []):
            if mid == "" and cid == "":
                b.cmd("addequivalence", vslot[a], vslot[bb])
            else:
                b.cmd("addequivalence_ids", vslot[a], vslot[bb], S(mid), S(cid))
        for c in m.all_comps():
            for r in c.resets:
                rs = b.reset()
                if r.order is not None:
                    b.cmd("setorder", rs, int(r.order))
                if r.id != "":
                    b.cmd("setid", rs, S(r.id))
                if r.var is not None:
                    b.cmd("setvariable", rs, vslot[r.var])
                if r.tvar is not None:
                    b.cmd("settestvariable", rs, vslot[r.tvar])
                if r.tv:
                    b.cmd("settestvalue", rs, S(maths_text(r.tv)))
                if r.rv:
                    b.cmd("setresetvalue", rs, S(maths_text(r.rv)))
                if r.tv_id != "":
                    b.cmd("settestvalueid", rs, S(r.tv_id))
                if r.rv_id != "":
                    b.cmd("setresetvalueid", rs, S(r.rv_id))
                b.cmd("addreset", cslot[id(c)], rs)
    return (b.lines, b.next_slot) if with_next else b.lines


def add_equivalence(m, a, b, map_id="", conn_id=""):
    """mirror of Variable::addEquivalence(a, b[, mapId, connId]): appends to both lists when absent, records the call"""
    va, vb = m.var(a), m.var(b)
    if va is not None and all(e.to != b for e in va.eqs):
        va.eqs.append(Eqv(b, map_id, conn_id))
    if vb is not None and all(e.to != a for e in vb.eqs):
        vb.eqs.append(Eqv(a, map_id, conn_id))
    if not hasattr(m, "eq_log"):
        m.eq_log = []
    m.eq_log.append((a, b, map_id, conn_id))


# ----------------------------------------------------------------------------------------------- valid generator

IDENT_START = "abcdefghijklmnopqrstuvwxyzABCDEFGHIJKLMNOPQRSTUVWXYZ_"
IDENT_REST = IDENT_START + "0123456789"
XMLNAME_START = ["a", "Z", "_", ":", "é", "À", "Δ", "中", "Ⰰ", "\U00010400"]
XMLNAME_REST = XMLNAME_START + ["0", "9", "-", ".", "·", "́", "‿"]

OPS1 = ["not", "abs", "exp", "ln", "ceiling", "floor", "sin", "cos", "tan", "sec", "csc", "cot", "sinh", "cosh", "tanh",
        "sech", "csch", "coth", "arcsin", "arccos", "arctan", "arcsec", "arccsc", "arccot", "arcsinh", "arccosh",
        "arctanh", "arcsech", "arccsch", "arccoth"]
OPS2 = ["eq", "neq", "lt", "leq", "gt", "geq", "divide", "power", "rem"]
OPSN2 = ["and", "or", "xor", "times", "min", "max"]
CONSTS = ["true", "false", "exponentiale", "pi", "infinity", "notanumber"]


class Gen:
    def __init__(self, rng, **k):
        self.r = rng
        self.k = dict(max_units=4, max_top=3, max_depth=3, max_kids=2, max_vars=3, p_math=0.6, p_reset=0.35,
                      p_id=0.35, p_import_units=0.3, p_import_comp=0.25, p_resolved=0.6, max_world=3, p_equiv=0.6)
        self.k.update(k)
        self.tag = 0
        self.ids = set()
        self.names = set()

    def fresh_tag(self):
        self.tag += 1
        return self.tag

    def ident(self, taken, reserved=()):
        r = self.r
        while True:
            n = r.choice(IDENT_START) + "".join(r.choice(IDENT_REST) for _ in range(r.choice([0, 1, 2, 3, 5])))
            if n not in taken and n not in reserved:
                taken.add(n)
                return n

    def new_id(self, ascii_only=False):
        """a fresh XML Name; ascii_only for ids carried by MathML elements (libxml2's post-parse DTD validation, which
        the validator uses, rejects every non-ASCII ID value: known finding C04-mathml-nonascii-id)"""
        r = self.r
        start = [c for c in XMLNAME_START if ord(c[0]) < 128] if ascii_only else XMLNAME_START
        rest = [c for c in XMLNAME_REST if ord(c[0]) < 128] if ascii_only else XMLNAME_REST
        while True:
            n = r.choice(start) + "".join(r.choice(rest) for _ in range(r.choice([1, 2, 3, 5])))
            if n not in self.ids:
                self.ids.add(n)
                return n

    def maybe_id(self):
        return self.new_id() if self.r.random() < self.k["p_id"] else ""

    def real_text(self):
        r = self.r
        return r.choice(["0", "1", "-1", "2.5", "-0.125", "1e3", "1.5E-2", "-3.0e+1", ".5", "5.", "+7" if False else "7"])

    # ---- math
    def cn(self, units_names, with_id=True):
        r = self.r
        u = r.choice(units_names)
        attrs = [(CELLML_NS, "units", u)]
        if with_id and r.random() < 0.15:
            attrs.append(("", "id", self.new_id(True)))
        k = r.random()
        if k < 0.7:
            if r.random() < 0.2:
                attrs.append(("", "type", "real"))
            return E("cn", [T(r.choice(["0", "1", "-1", "2.5", "-0.125", ".5", "5.", "10"]))], attrs)
        if k < 0.85:
            attrs.append(("", "type", "e-notation"))
            return E("cn", [T(r.choice(["1", "-2.5", ".5"])), E("sep"), T(r.choice(["3", "-2", "+1"]))], attrs)
        if r.random() < 0.5:
            attrs.append(("", "base", "10"))
        return E("cn", [T(" 3 ")], attrs)

    def ci(self, vars_):
        attrs = [("", "id", self.new_id(True))] if self.r.random() < 0.1 else []
        return E("ci", [T(self.r.choice(vars_))], attrs)

    def expr(self, vars_, units_names, depth):
        r = self.r
        if depth <= 0 or r.random() < 0.3:
            k = r.random()
            if k < 0.5 and vars_:
                return self.ci(vars_)
            if k < 0.9:
                return self.cn(units_names)
            return E(r.choice(CONSTS))
        k = r.random()
        sub = lambda: self.expr(vars_, units_names, depth - 1)  # noqa: E731
        if k < 0.25:
            return E("apply", [E(r.choice(OPS1)), sub()])
        if k < 0.5:
            return E("apply", [E(r.choice(OPS2)), sub(), sub()])
        if k < 0.62:
            return E("apply", [E(r.choice(OPSN2 + ["plus"]))] + [sub() for _ in range(r.choice([2, 3, 4]))])
        if k < 0.70:
            return E("apply", [E(r.choice(["minus", "plus"]))] + [sub() for _ in range(r.choice([1, 2]))])
        if k < 0.76:
            if r.random() < 0.5:
                return E("apply", [E("root"), sub()])
            return E("apply", [E("root"), E("degree", [sub()]), sub()])
        if k < 0.82:
            if r.random() < 0.5:
                return E("apply", [E("log"), sub()])
            return E("apply", [E("log"), E("logbase", [sub()]), sub()])
        if k < 0.9 and vars_:
            bv = [self.ci(vars_)]
            if r.random() < 0.3:
                bv.append(E("degree", [self.cn(units_names, False)]))
            return E("apply", [E("diff"), E("bvar", bv), self.ci(vars_)])
        pieces = [E("piece", [sub(), sub()]) for _ in range(r.choice([1, 2]))]
        if r.random() < 0.6:
            pieces.append(E("otherwise", [sub()]))
        return E("piecewise", pieces)

    def units_chain_pair(self, m, utaken, units_names):
        """adds to model m a chain u1 = base^e1 [* base2^f], u2 = u1^e2, ..., ud = u(d-1)^ed and a partner of the same
        dimension built differently (flat, or flat wrapped once); returns the two names; records the shape in m.chains"""
        r = self.r
        depth = r.choice([1, 2, 2, 3, 3, 3, 4, 4])
        exps = [r.choice([(2, 1), (3, 1), (-1, 1), (-2, 1), (1, 2), (2, 1), (1, 1)]) for _ in range(depth)]
        if depth >= 3 and all(e == (1, 1) for e in exps[1:]):
            exps[-1] = (2, 1)
        base = r.choice(["metre", "second", "kilogram", "ampere", "volt", "litre"])
        base2 = r.choice([None, None, "mole", "kelvin"])
        f2 = r.choice([(1, 1), (-1, 1), (2, 1)])
        pre = lambda: r.choice(["", "", "milli", "kilo", "3", "-2"])   # noqa: E731
        mul = lambda: (r.choice([0, 0, 3, -2, 1]), 1)                   # noqa: E731
        names = []
        prev = None
        for lvl in range(depth):
            u = Units(self.ident(utaken, STANDARD_UNITS), self.maybe_id())
            if lvl == 0:
                u.items.append(Item(base, pre(), exps[0], mul(), self.maybe_id()))
                if base2:
                    u.items.append(Item(base2, pre(), f2, mul()))
            else:
                u.items.append(Item(prev, pre(), exps[lvl], mul(), self.maybe_id()))
            m.units.insert(r.randrange(len(m.units) + 1), u)
            units_names.append(u.name)
            names.append(u.name)
            prev = u.name
        # total exponents
        num, den = 1, 1
        for (a, b) in exps:
            num, den = num * a, den * b
        outer = (1, 1)
        for (a, b) in exps[1:]:
            outer = (outer[0] * a, outer[1] * b)

        def mulq(q, k):
            n_, d_ = q[0] * k[0], q[1] * k[1]
            from math import gcd
            g_ = gcd(abs(n_), d_)
            return (n_ // g_, d_ // g_)
        total1 = mulq((num, den), (1, 1))
        total2 = mulq(f2, outer) if base2 else None
        partner = Units(self.ident(utaken, STANDARD_UNITS), self.maybe_id())
        kind = r.choice(["flat", "flat", "wrapped", "split"])
        if kind == "split" and total1[1] == 1 and abs(total1[0]) >= 2:
            # base^total as base^(total-1) * base^1
            one = 1 if total1[0] > 0 else -1
            partner.items.append(Item(base, pre(), (total1[0] - one, 1), mul()))
            partner.items.append(Item(base, pre(), (one, 1), mul()))
        else:
            partner.items.append(Item(base, pre(), total1, mul()))
        if base2:
            partner.items.append(Item(base2, pre(), total2, mul()))
        m.units.insert(r.randrange(len(m.units) + 1), partner)
        units_names.append(partner.name)
        pname = partner.name
        if kind == "wrapped":
            wrap = Units(self.ident(utaken, STANDARD_UNITS), "", None, [Item(partner.name, pre(), (1, 1), mul())])
            m.units.append(wrap)
            units_names.append(wrap.name)
            pname = wrap.name
        if not hasattr(m, "chains"):
            m.chains = []
        m.chains.append({"levels": names, "exps": exps, "top": names[-1], "partner": pname, "depth": depth, "partner_kind": kind})
        return [names[-1], pname]

    def math_doc(self, vars_, units_names):
        r = self.r
        eqs = []
        for _ in range(r.choice([1, 1, 2])):
            lhs = self.ci(vars_) if vars_ else self.cn(units_names)
            eqs.append(E("apply", [E("eq"), lhs, self.expr(vars_, units_names, r.choice([1, 2, 3]))]))
            if r.random() < 0.1:
                eqs.append(Cm(" a comment "))
        attrs = [("", "id", self.new_id(True))] if r.random() < 0.15 else []
        return E("math", eqs, attrs)

    def value_doc(self, vars_, units_names):
        return E("math", [self.expr(vars_, units_names, self.r.choice([0, 1, 2]))])

    # ---- models
    def library_model(self, idx, n_units, n_comps, world_size):
        """a model meant to be imported from: plain units and components (valid on their own)"""
        r = self.r
        m = Model(self.ident(set()))
        taken = set()
        for _ in range(n_units):
            u = Units(self.ident(taken, STANDARD_UNITS))
            if r.random() < 0.7:
                u.items.append(Item(r.choice(["metre", "second", "kilogram", "volt"]), r.choice(["", "milli", "3"]),
                                    (r.choice([1, 2, -1]), 1)))
                if len(m.units) > 0 and r.random() < 0.4:
                    u.items.append(Item(r.choice(m.units).name))
            m.units.append(u)
        ctaken = set()
        for _ in range(n_comps):
            c = Comp(self.fresh_tag(), self.ident(ctaken))
            vt = set()
            for _ in range(r.choice([0, 1, 2])):
                c.vars.append(Var(self.fresh_tag(), self.ident(vt), r.choice([u.name for u in m.units] + ["second", "dimensionless"])))
            if c.vars and r.random() < 0.5:
                c.math = [self.math_doc([v.name for v in c.vars], [u.name for u in m.units] + ["dimensionless"])]
            if r.random() < 0.3 and m.comps:
                r.choice(m.comps).kids.append(c)
            else:
                m.comps.append(c)
        return m

    def world(self):
        r, k = self.r, self.k
        self.ids = set()
        nlib = r.choice([0, 1, 1, 2]) if k["max_world"] > 1 else 0
        m = Model(self.ident(set()), self.maybe_id())
        world = [m]
        urls = {}
        for i in range(nlib):
            lib = self.library_model(i + 1, r.choice([1, 2, 3]), r.choice([1, 2]), nlib + 1)
            world.append(lib)
            urls[i + 1] = "lib%d_%s.cellml" % (i + 1, lib.name)
        isrcs = []

        def get_isrc(need_id_free=False):
            # a fresh import source, or (when it carries no id) one already used: one <import> element, several children
            cands = [s for s in isrcs if s.id == ""]
            if cands and r.random() < 0.4:
                return r.choice(cands)
            if nlib and r.random() < k["p_resolved"]:
                mi = r.randrange(1, nlib + 1)
                s = ISrc(self.fresh_tag(), urls[mi], self.maybe_id(), True, mi)
            else:
                s = ISrc(self.fresh_tag(), r.choice(["other.cellml", "http://example.org/m.xml", "dir/sub/file.cellml", "a%20b.cellml"]),
                         self.maybe_id(), True, None)
            isrcs.append(s)
            return s

        # ---- units
        utaken = set()
        used_imports = set()
        for _ in range(r.randrange(0, k["max_units"] + 1)):
            u = Units(self.ident(utaken, STANDARD_UNITS), self.maybe_id())
            if r.random() < k["p_import_units"]:
                s = get_isrc()
                if s.model is not None:
                    refs = [x.name for x in world[s.model].units if (s.url, x.name) not in used_imports]
                    if not refs:
                        continue
                    ref = r.choice(refs)
                else:
                    ref = self.ident(set())
                    if (s.url, ref) in used_imports:
                        continue
                used_imports.add((s.url, ref))
                u.imp = (s, ref)
            else:
                local = [x.name for x in m.units if x.imp is None or True]
                for _ in range(r.choice([0, 1, 1, 2, 3])):
                    ref = r.choice(STANDARD_UNITS + local + local) if local else r.choice(STANDARD_UNITS)
                    u.items.append(Item(ref, r.choice(["", "", "milli", "kilo", "micro", "3", "-2", "+6", "0"]),
                                        (r.choice([1, 1, 2, -1, 3, 1]), r.choice([1, 1, 2])),
                                        (r.choice([0, 0, 3, -2, 1]), 1), self.maybe_id()))
            m.units.append(u)
        units_names = [u.name for u in m.units] + ["dimensionless", "second", "volt", "litre"]
        local_defined = [u.name for u in m.units if u.imp is None]

        # ---- components
        ctaken = set()
        comps = []
        depth = {}
        for _ in range(r.randrange(1, k["max_top"] + 3)):
            c = Comp(self.fresh_tag(), self.ident(ctaken), self.maybe_id())
            cands = [p for p in comps if depth[id(p)] < k["max_depth"] and p.imp is None and len(p.kids) < k["max_kids"]]
            if cands and (len(m.comps) >= k["max_top"] or r.random() < 0.55):
                p = r.choice(cands)
                p.kids.append(c)
                depth[id(c)] = depth[id(p)] + 1
                if r.random() < k["p_id"]:
                    c.encid = self.new_id()
            else:
                m.comps.append(c)
                depth[id(c)] = 1
            comps.append(c)
        if any(c.kids for c in comps) and r.random() < k["p_id"]:
            m.encid = self.new_id()
        for c in comps:
            if not c.kids and r.random() < k["p_import_comp"]:
                s = get_isrc()
                if s.model is not None:
                    refs = [x.name for x in world[s.model].all_comps()]
                    ref = r.choice(refs)
                else:
                    ref = self.ident(set())
                c.imp = (s, ref)
                continue
            vt = set()
            for _ in range(r.randrange(0, k["max_vars"] + 1)):
                v = Var(self.fresh_tag(), self.ident(vt), r.choice(units_names), self.maybe_id())
                c.vars.append(v)
        # ---- equivalences (small degree: validateModel is exponential on dense networks)
        real = [c for c in comps if c.imp is None and c.vars]
        pairs = []
        for c in real:
            for d in real:
                if c.tag < d.tag:
                    pc, pd = m.parent_of(c), m.parent_of(d)
                    if pc is pd or pc is d or pd is c:
                        pairs.append((c, d))
        r.shuffle(pairs)
        group = {}

        def find(x):
            while group.get(x, x) != x:
                x = group[x]
            return x

        conn_ids = {}
        deg = {}
        for (c, d) in pairs[:4]:
            if r.random() > k["p_equiv"]:
                continue
            for _ in range(r.choice([1, 1, 2])):
                a, bv = r.choice(c.vars), r.choice(d.vars)
                if deg.get(a.tag, 0) >= 2 or deg.get(bv.tag, 0) >= 2 or any(e.to == bv.tag for e in a.eqs):
                    continue
                key = (c.tag, d.tag)
                if key not in conn_ids:
                    conn_ids[key] = self.maybe_id()
                mid = self.maybe_id()
                if r.random() < 0.5:
                    a, bv = bv, a
                add_equivalence(m, a.tag, bv.tag, mid, conn_ids[key])
                deg[a.tag] = deg.get(a.tag, 0) + 1
                deg[bv.tag] = deg.get(bv.tag, 0) + 1
                group[find(a.tag)] = find(bv.tag)
        # a variable inside an IMPORTED component mapped to a variable of a reachable component (validateConnections skips
        # the imported side and must go on with the variables that follow it in traversal order)
        for ic in [c for c in comps if c.imp is not None]:
            if r.random() > 0.5:
                continue
            pi = m.parent_of(ic)
            near = [d for d in real if m.parent_of(d) is pi or d is pi]
            near = [d for d in near if any(deg.get(x.tag, 0) < 2 for x in d.vars)]
            if not near:
                continue
            d = r.choice(near)
            x = r.choice([x for x in d.vars if deg.get(x.tag, 0) < 2])
            wv = Var(self.fresh_tag(), self.ident(set()), r.choice(["second", "volt"]), "", r.choice(["", "public", "none", "private"]))
            ic.vars.append(wv)
            add_equivalence(m, *( (wv.tag, x.tag) if r.random() < 0.5 else (x.tag, wv.tag) ))
            deg[x.tag] = deg.get(x.tag, 0) + 1
            deg[wv.tag] = 1
            group[find(wv.tag)] = find(x.tag)
            sib = pi.kids if pi is not None else m.comps
            if r.random() < 0.7:
                sib.remove(ic)
                sib.insert(0, ic)            # first among its siblings: the connection checks of the others come after it
            m.import_vars = getattr(m, "import_vars", 0) + 1
        # units of connected variables: one name per connected set (or a compatible alternative)
        set_units = {}
        for v in m.all_vars():
            if v.eqs:
                g = find(v.tag)
                if g not in set_units and r.random() < 0.5:
                    # two units of the same dimension reached through DIFFERENT chains of user-defined units (depth 1-4,
                    # exponents != 1, prefixes and multipliers on every level): b^(e1*e2*..*ed) vs a flat or shallow partner
                    set_units[g] = self.units_chain_pair(m, utaken, units_names)
                if g not in set_units:
                    base = r.choice(["second", "volt", "dimensionless"] + local_defined)
                    names = [base]
                    if r.random() < 0.45:
                        # a second units of the same dimension under another name: the members of the set mix the two
                        alias = Units(self.ident(utaken, STANDARD_UNITS), self.maybe_id(), None,
                                      [Item(base, r.choice(["", "milli", "kilo", "3"]), (1, 1), (r.choice([0, 3]), 1))])
                        m.units.append(alias)
                        units_names.append(alias.name)
                        names.append(alias.name)
                    set_units[g] = names
                v.units = r.choice(set_units[g])
        # interfaces
        for c in real:
            for v in c.vars:
                pub = priv = False
                for e in v.eqs:
                    o = m.owner(e.to)
                    if m.parent_of(o) is m.parent_of(c) or m.parent_of(c) is o:
                        pub = True
                    else:
                        priv = True
                if pub and priv:
                    v.iface = "public_and_private"
                elif pub:
                    v.iface = r.choice(["public", "public", "public_and_private"])
                elif priv:
                    v.iface = r.choice(["private", "private", "public_and_private"])
                else:
                    v.iface = r.choice(["", "", "none", "public", "private", "public_and_private"])
        # initial values, math, resets
        order_of = {}
        for c in real:
            names = [v.name for v in c.vars]
            for v in c.vars:
                k2 = r.random()
                if k2 < 0.25:
                    v.init = r.choice(["0", "1.5", "-2e3", "1E-2", ".5", "3."])
                elif k2 < 0.35 and len(names) > 1:
                    v.init = r.choice([n for n in names if n != v.name])
            if r.random() < k["p_math"]:
                c.math = [self.math_doc(names, units_names) for _ in range(r.choice([1, 1, 2]))]
            while r.random() < k["p_reset"] and len(c.resets) < 3:
                v = r.choice(c.vars)
                g = find(v.tag)
                order_of[g] = order_of.get(g, r.choice([-3, 0, 1, 10])) + r.choice([1, 2, 7])
                c.resets.append(Reset(order_of[g], v.tag, r.choice(c.vars).tag, [self.value_doc(names, units_names)],
                                      [self.value_doc(names, units_names)], self.maybe_id(), self.maybe_id(), self.maybe_id()))
        return world


def gen_valid(rng, **knobs):
    return Gen(rng, **knobs).world()


# ----------------------------------------------------------------------------------------------- fault injection
# Every injector takes (world, rng, gen) where world is a private deep copy of a valid world, changes ONE thing and
# returns a dict {"where": <location text>, "cite": [rule names, any of which may be cited]} or None when the world has
# no applicable location.  The location text starts with a location class used for the coverage table.

BAD_IDENTS = ["", "1abc", "a-b", "a b", "é", "a.b", "9", "_é", "x:y"]
BAD_XMLNAMES = ["1a", "-a", "a b", ".x", "a/b", "·a", "a,b", "é a", "́a", "a×"]
BAD_IFACES = ["Public", "PUBLIC", "both", "public_private", " public", "public ", "publicprivate", "Private", "None",
              "public_and_private_", "private_and_public"]
BAD_INITS = ["abc_not_a_variable", "1.2.3", "1e", "0x10", "--1", "1,5", "one", "NaN", "inf", " 1"]
BAD_PREFIXES = ["kil", "1.5", "Milli", "k", "1e3", "ten", "99999999999", "-99999999999", " 3"]
UNSUPPORTED_EL = ["sum", "vector", "mi", "semantics", "lambda", "int", "factorial", "product", "csymbol", "matrix"]


def comp_class(m, c):
    d = 0
    p = m.parent_of(c)
    while p is not None:
        d += 1
        p = m.parent_of(p)
    sib = (m.parent_of(c).kids if m.parent_of(c) is not None else m.comps)
    pos = "only" if len(sib) == 1 else ("first" if sib[0] is c else ("last" if sib[-1] is c else "middle"))
    return ("top" if d == 0 else "encapsulated%d" % d) + "/" + pos


def idx_class(lst, x):
    if len(lst) == 1:
        return "only"
    i = lst.index(x)
    return "first" if i == 0 else ("last" if i == len(lst) - 1 else "middle")


def real_comps(m):
    return [c for c in m.all_comps() if c.imp is None]


def _choice(r, l):
    return r.choice(l) if l else None


def f_model_name(w, r, g):
    w[0].name = r.choice(BAD_IDENTS)
    return {"where": "model", "cite": ["MODEL_NAME_VALUE"]}


def id_sites(w):
    """every place of model 0 that carries an id (validity is checked by the validator): (class, getter, setter)"""
    m = w[0]
    sites = [("model", lambda: m.id, lambda v: setattr(m, "id", v)),
             ("model-encapsulation", lambda: m.encid, lambda v: setattr(m, "encid", v))]
    for u in m.units:
        sites.append(("units/" + idx_class(m.units, u), (lambda u=u: u.id), (lambda v, u=u: setattr(u, "id", v))))
        for it in u.items:
            sites.append(("unit/" + idx_class(u.items, it), (lambda it=it: it.id), (lambda v, it=it: setattr(it, "id", v))))
        if u.imp is not None:
            s = u.imp[0]
            sites.append(("import-source-of-units", (lambda s=s: s.id), (lambda v, s=s: setattr(s, "id", v))))
    for c in m.all_comps():
        cc = comp_class(m, c)
        sites.append(("component/" + cc, (lambda c=c: c.id), (lambda v, c=c: setattr(c, "id", v))))
        if m.parent_of(c) is not None or True:
            sites.append(("component-encapsulation/" + cc, (lambda c=c: c.encid), (lambda v, c=c: setattr(c, "encid", v))))
        if c.imp is not None:
            s = c.imp[0]
            sites.append(("import-source-of-component", (lambda s=s: s.id), (lambda v, s=s: setattr(s, "id", v))))
        if c.imp is not None:
            continue        # the variables an imported component holds (API only) are not validated: no id site there
        for v_ in c.vars:
            sites.append(("variable/" + cc + "/" + idx_class(c.vars, v_), (lambda v_=v_: v_.id), (lambda v, v_=v_: setattr(v_, "id", v))))
        for rs in c.resets:
            k = cc + "/" + idx_class(c.resets, rs)
            sites.append(("reset/" + k, (lambda rs=rs: rs.id), (lambda v, rs=rs: setattr(rs, "id", v))))
            sites.append(("reset-test_value/" + k, (lambda rs=rs: rs.tv_id), (lambda v, rs=rs: setattr(rs, "tv_id", v))))
            sites.append(("reset-reset_value/" + k, (lambda rs=rs: rs.rv_id), (lambda v, rs=rs: setattr(rs, "rv_id", v))))
    return sites


def set_pair_ids(m, a, b, map_id=None, conn_id=None):
    """setEquivalenceMappingId / setEquivalenceConnectionId: both directions carry the id"""
    for (x, y) in ((a, b), (b, a)):
        vx = m.var(x)
        if vx is None:
            continue
        for e in vx.eqs:
            if e.to == y:
                if map_id is not None:
                    e.map_id = map_id
                if conn_id is not None:
                    e.conn_id = conn_id
    m.eq_log = [(x, y, (map_id if map_id is not None and {x, y} == {a, b} else mi),
                 (conn_id if conn_id is not None and {x, y} == {a, b} else ci)) for (x, y, mi, ci) in m.eq_log]


def f_id_bad(w, r, g):
    sites = id_sites(w)
    cls, get, put = r.choice(sites)
    put(r.choice(BAD_XMLNAMES))
    return {"where": cls, "cite": ["XML_ID_ATTRIBUTE"]}


def f_map_id_bad(w, r, g):
    m = w[0]
    pairs = [(v.tag, e.to) for v in m.all_vars() for e in v.eqs if m.var(e.to) is not None]
    if not pairs:
        return None
    a, b = r.choice(pairs)
    which = r.choice(["map", "conn"])
    bad = r.choice(BAD_XMLNAMES)
    if which == "map":
        set_pair_ids(m, a, b, map_id=bad)
    else:
        # a connection id is shared by every mapping between the two components
        ca, cb = m.owner(a), m.owner(b)
        for v in ca.vars:
            for e in list(v.eqs):
                if m.owner(e.to) is cb:
                    set_pair_ids(m, v.tag, e.to, conn_id=bad)
    return {"where": "map_variables" if which == "map" else "connection", "cite": ["XML_ID_ATTRIBUTE"]}


def math_sites(w):
    """(class, list holding the docs) for every math string of model 0"""
    m = w[0]
    out = []
    for c in real_comps(m):
        cc = comp_class(m, c)
        if c.math:
            out.append(("component-math/" + cc, c.math))
        for rs in c.resets:
            if rs.tv:
                out.append(("reset-test_value-math/" + cc + "/" + idx_class(c.resets, rs), rs.tv))
            if rs.rv:
                out.append(("reset-reset_value-math/" + cc + "/" + idx_class(c.resets, rs), rs.rv))
    return out


def walk(x, path=()):
    """every element of the tree with its path (tuple of child indices)"""
    if x[0] == "E":
        yield path, x
        for i, k in enumerate(x[4]):
            yield from walk(k, path + (i,))


def node_at(x, path):
    for i in path:
        x = x[4][i]
    return x


def replace_at(x, path, new):
    if not path:
        return new
    kids = list(x[4])
    kids[path[0]] = replace_at(kids[path[0]], path[1:], new)
    return (x[0], x[1], x[2], x[3], kids)


def context_class(doc, path):
    """where in the expression tree a node sits (the nearest enclosing structural element)"""
    names = []
    x = doc
    for i in path:
        names.append(x[2])
        x = x[4][i]
    for n in reversed(names):
        if n in ("degree", "logbase", "bvar"):
            return "in-" + n
    for n in reversed(names):
        if n in ("piece", "otherwise"):
            return "in-piecewise"
    depth = sum(1 for n in names if n == "apply")
    return "depth%d" % min(depth, 3)


def f_id_dup(w, r, g):
    m = w[0]
    sites = [s for s in id_sites(w)]
    have = [s for s in sites if s[1]() != ""]
    # ids on MathML elements count too
    msites = math_sites(w)
    mids = []
    for cls, docs in msites:
        for di, d in enumerate(docs):
            for path, el in walk(d):
                for (ans, an, av) in el[3]:
                    if ans == "" and an == "id":
                        mids.append((cls, av))
    pool = [(cls, get()) for cls, get, put in have] + mids
    if not pool:
        # give the model an id first
        val = g.new_id(True)
        sites[0][2](val)
        pool = [(sites[0][0], val)]
    src_cls, val = r.choice(pool)
    # destination: an entity site without that value, or a MathML element
    dests = [s for s in sites if s[1]() != val]
    if msites and r.random() < 0.3:
        cls, docs = r.choice(msites)
        di = r.randrange(len(docs))
        cands = [(p, el) for p, el in walk(docs[di]) if not any(a[1] == "id" for a in el[3])]
        if cands and all(ord(ch) < 128 for ch in val):
            p, el = r.choice(cands)
            docs[di] = replace_at(docs[di], p, (el[0], el[1], el[2], el[3] + [("", "id", val)], el[4]))
            return {"where": "duplicate/" + src_cls.split("/")[0] + "+mathml-element", "cite": ["XML_ID_ATTRIBUTE", "MATH_MATHML"]}
    if not dests:
        return None
    cls, get, put = r.choice(dests)
    before = sum(1 for s_ in sites if s_[1]() == val) + sum(1 for (_c, v_) in mids if v_ == val)
    put(val)
    after = sum(1 for s_ in sites if s_[1]() == val) + sum(1 for (_c, v_) in mids if v_ == val)
    if not (val != "" and after > before and after >= 2):
        return None          # the write landed on the object that already carried the id: nothing was duplicated
    return {"where": "duplicate/" + src_cls.split("/")[0] + "+" + cls.split("/")[0], "cite": ["XML_ID_ATTRIBUTE"]}


def f_comp_name_bad(w, r, g):
    m = w[0]
    c = r.choice(m.all_comps())
    c.name = r.choice(BAD_IDENTS)
    return {"where": "component/" + comp_class(m, c) + ("/imported" if c.imp else ""),
            "cite": ["IMPORT_COMPONENT_NAME_VALUE" if c.imp else "COMPONENT_NAME_VALUE"]}


def f_comp_name_dup(w, r, g):
    m = w[0]
    cs = m.all_comps()
    if len(cs) < 2:
        return None
    a, b = r.sample(cs, 2)
    b.name = a.name
    assert a is not b and a.name != "" and sum(1 for x in cs if x.name == a.name) >= 2
    order = [x for x in cs if x is a or x is b]
    second = order[1]
    return {"where": "component/" + comp_class(m, a) + "+" + comp_class(m, b),
            "cite": ["IMPORT_COMPONENT_NAME_UNIQUE" if second.imp else "COMPONENT_NAME_UNIQUE"]}


def imported_comps(m):
    return [c for c in m.all_comps() if c.imp is not None]


def imported_units(m):
    return [u for u in m.units if u.imp is not None]


def f_import_comp_ref_bad(w, r, g):
    c = _choice(r, imported_comps(w[0]))
    if c is None:
        return None
    c.imp = (c.imp[0], r.choice(BAD_IDENTS))
    return {"where": "component/" + comp_class(w[0], c) + ("/resolved" if c.imp[0].model is not None else "/unresolved"),
            "cite": ["IMPORT_COMPONENT_COMPONENT_REFERENCE_VALUE"]}


def f_import_comp_target(w, r, g):
    cs = [c for c in imported_comps(w[0]) if c.imp[0].model is not None]
    c = _choice(r, cs)
    if c is None:
        return None
    c.imp = (c.imp[0], "no_such_component_here")
    return {"where": "component/" + comp_class(w[0], c), "cite": ["IMPORT_COMPONENT_COMPONENT_REFERENCE_TARGET"]}


def fresh_tag(w):
    t = 0
    for m in w:
        for c in m.all_comps():
            t = max([t, c.tag] + [v.tag for v in c.vars] + ([c.imp[0].tag] if c.imp else []))
        for u in m.units:
            if u.imp:
                t = max(t, u.imp[0].tag)
        t = max([t] + list(m.ext_vars))
    return t + 1


def unshare(w, ent):
    """give the entity its own copy of its import source (so that the fault stays local to one location)"""
    s = copy.copy(ent.imp[0])
    s.tag = fresh_tag(w)
    s.id = ""
    ent.imp = (s, ent.imp[1])
    return s


def f_href_empty(w, r, g):
    ents = imported_comps(w[0]) + imported_units(w[0])
    e = _choice(r, ents)
    if e is None:
        return None
    s = unshare(w, e)
    s.url = ""
    # an import source WITHOUT a locator but WITH a model attached (API only) is outside the model: validateUnits leaves the
    # epoch of a followed import in the history (push without pop), which becomes observable exactly when a later import's
    # url is "" (a spurious "cyclic dependencies" issue on top of IMPORT_HREF_LOCATOR); see ValidDefs.validate_units
    s.model = None
    return {"where": ("component" if isinstance(e, Comp) else "units") + "/empty", "cite": ["IMPORT_HREF_LOCATOR"]}


INVALID_URIS = ["http://[::1", "%zz", "a b", "http://exa mple.org/x", "#a#b", "http://a/%"]


def f_href_invalid(w, r, g):
    ents = imported_comps(w[0]) + imported_units(w[0])
    e = _choice(r, ents)
    if e is None:
        return None
    s = unshare(w, e)
    s.url = r.choice(g.invalid_uris)
    s.url_ok = False
    return {"where": ("component" if isinstance(e, Comp) else "units") + "/invalid-uri", "cite": ["IMPORT_HREF_LOCATOR"]}


def f_import_units_name_bad(w, r, g):
    u = _choice(r, imported_units(w[0]))
    if u is None:
        return None
    u.name = r.choice(BAD_IDENTS)
    return {"where": "units/" + idx_class(w[0].units, u), "cite": ["IMPORT_UNITS_NAME_VALUE"]}


def f_units_name_dup(w, r, g):
    m = w[0]
    if len(m.units) < 2:
        return None
    a, b = r.sample(m.units, 2)
    old = b.name
    b.name = a.name
    assert a is not b and a.name != "" and old != a.name
    first = [x for x in m.units if x is a or x is b][0]
    # (whichever of the two is validated first decides the rule; references by name may visit one earlier: both accepted)
    return {"where": "units/" + idx_class(m.units, a) + "+" + idx_class(m.units, b) + ("/imported" if (a.imp or b.imp) else ""),
            "cite": (["IMPORT_UNITS_NAME_UNIQUE", "UNITS_NAME_UNIQUE"] if first.imp else ["UNITS_NAME_UNIQUE", "IMPORT_UNITS_NAME_UNIQUE"]),
            "renamed": old}


def f_import_units_dup(w, r, g):
    m = w[0]
    u = _choice(r, imported_units(m))
    if u is None:
        return None
    taken = {x.name for x in m.units}
    n = g.ident(taken, STANDARD_UNITS)
    share = r.random() < 0.5
    s = u.imp[0]
    if not share:
        s = copy.copy(s)
        s.tag = fresh_tag(w)
        s.id = ""
    m.units.insert(r.randrange(len(m.units) + 1), Units(n, "", (s, u.imp[1])))
    return {"where": "units/" + ("same-import-element" if share else "second-import-element"),
            "cite": ["IMPORT_UNITS_UNITS_REFERENCE"]}


def f_import_units_ref_bad(w, r, g):
    u = _choice(r, imported_units(w[0]))
    if u is None:
        return None
    u.imp = (u.imp[0], r.choice(BAD_IDENTS))
    return {"where": "units/" + ("resolved" if u.imp[0].model is not None else "unresolved"),
            "cite": ["IMPORT_UNITS_UNITS_REFERENCE_VALUE"]}


def f_import_units_target(w, r, g):
    us = [u for u in imported_units(w[0]) if u.imp[0].model is not None]
    u = _choice(r, us)
    if u is None:
        return None
    u.imp = (u.imp[0], "no_such_units_here")
    return {"where": "units/" + idx_class(w[0].units, u), "cite": ["IMPORT_UNITS_UNITS_REFERENCE_VALUE_TARGET"]}


def local_units(m):
    return [u for u in m.units if u.imp is None]


def f_units_name_bad(w, r, g):
    u = _choice(r, local_units(w[0]))
    if u is None:
        return None
    u.name = r.choice(BAD_IDENTS)
    return {"where": "units/" + idx_class(w[0].units, u), "cite": ["UNITS_NAME_VALUE"]}


def f_units_std_name(w, r, g):
    m = w[0]
    u = _choice(r, m.units)
    if u is None:
        return None
    u.name = r.choice(STANDARD_UNITS)
    return {"where": "units/" + idx_class(m.units, u) + ("/imported" if u.imp else ""), "cite": ["UNITS_STANDARD"]}


def items_of(m):
    return [(u, it) for u in local_units(m) for it in u.items]


def f_unit_ref_bad(w, r, g):
    m = w[0]
    p = _choice(r, items_of(m))
    if p is None:
        u = Units(g.ident({x.name for x in m.units}, STANDARD_UNITS))
        it = Item("metre")
        u.items.append(it)
        m.units.append(u)
        p = (u, it)
    u, it = p
    kind = r.choice(["ident", "missing"])
    it.ref = r.choice(BAD_IDENTS) if kind == "ident" else "no_such_units_defined"
    return {"where": "unit/" + kind + "/" + idx_class(m.units, u) + "/" + idx_class(u.items, it), "cite": ["UNIT_UNITS_REFERENCE"]}


def f_unit_cycle(w, r, g):
    m = w[0]
    n = r.choice([1, 2, 2, 3])
    taken = {x.name for x in m.units}
    names = [g.ident(taken, STANDARD_UNITS) for _ in range(n)]
    new = []
    for i, nm in enumerate(names):
        u = Units(nm)
        if r.random() < 0.5:
            u.items.append(Item(r.choice(["metre", "second"])))
        u.items.insert(r.randrange(len(u.items) + 1), Item(names[(i + 1) % n], "", (r.choice([1, 2]), 1)))
        new.append(u)
    # optionally a units that merely leads into the cycle
    if r.random() < 0.4:
        lead = Units(g.ident(taken, STANDARD_UNITS), "", None, [Item(names[0])])
        new.append(lead)
    for u in new:
        m.units.insert(r.randrange(len(m.units) + 1), u)
    return {"where": "units-cycle/length%d" % n, "cite": ["UNIT_UNITS_CIRCULAR_REFERENCE"]}


def f_prefix_bad(w, r, g):
    m = w[0]
    p = _choice(r, items_of(m))
    if p is None:
        return None
    u, it = p
    it.prefix = r.choice(BAD_PREFIXES)
    kind = "out-of-range" if it.prefix.lstrip("-").isdigit() else "not-a-prefix"
    return {"where": "unit/" + kind + "/" + idx_class(u.items, it), "cite": ["UNIT_ATTRIBUTE_PREFIX_VALUE"]}


def vars_of(m):
    return [(c, v) for c in real_comps(m) for v in c.vars]


def vclass(m, c, v):
    return comp_class(m, c) + "/" + idx_class(c.vars, v)


def f_var_name_bad(w, r, g):
    p = _choice(r, vars_of(w[0]))
    if p is None:
        return None
    c, v = p
    v.name = r.choice(BAD_IDENTS)
    return {"where": "variable/" + vclass(w[0], c, v), "cite": ["VARIABLE_NAME_VALUE"]}


def f_var_name_dup(w, r, g):
    m = w[0]
    cs = [c for c in real_comps(m) if len(c.vars) >= 2]
    c = _choice(r, cs)
    if c is None:
        return None
    a, b = r.sample(c.vars, 2)
    b.name = a.name
    assert a is not b and a.name != ""
    return {"where": "variable/" + comp_class(m, c) + "/" + idx_class(c.vars, a) + "+" + idx_class(c.vars, b), "cite": ["VARIABLE_NAME_UNIQUE"]}


def f_var_units(w, r, g):
    p = _choice(r, [p for p in vars_of(w[0]) if not p[1].eqs])
    if p is None:
        p = _choice(r, vars_of(w[0]))
    if p is None:
        return None
    c, v = p
    kind = r.choice(["none", "ident", "missing"])
    v.units = None if kind == "none" else (r.choice(BAD_IDENTS[1:]) if kind == "ident" else "no_such_units_defined")
    return {"where": "variable/" + kind + "/" + vclass(w[0], c, v), "cite": ["VARIABLE_UNITS_VALUE"]}


def f_var_iface(w, r, g):
    p = _choice(r, vars_of(w[0]))
    if p is None:
        return None
    c, v = p
    v.iface = r.choice(BAD_IFACES)
    return {"where": "variable/" + vclass(w[0], c, v) + ("/connected" if v.eqs else ""), "cite": ["VARIABLE_INTERFACE_VALUE"]}


def f_var_init(w, r, g):
    p = _choice(r, vars_of(w[0]))
    if p is None:
        return None
    c, v = p
    v.init = r.choice(BAD_INITS)
    return {"where": "variable/" + vclass(w[0], c, v), "cite": ["VARIABLE_INITIAL_VALUE_VALUE"]}


def resets_of(m):
    return [(c, rs) for c in real_comps(m) for rs in c.resets]


def ensure_reset(w, r, g):
    m = w[0]
    rl = resets_of(m)
    if rl:
        return r.choice(rl)
    cs = [c for c in real_comps(m) if c.vars]
    if not cs:
        return None
    c = r.choice(cs)
    names = [v.name for v in c.vars]
    un = ["dimensionless", "second"]
    rs = Reset(r.choice([1, 5, -2]), r.choice(c.vars).tag, r.choice(c.vars).tag, [g.value_doc(names, un)], [g.value_doc(names, un)])
    # keep reset orders of the connected set unique: a fresh variable set is guaranteed when this is the only reset
    c.resets.append(rs)
    return (c, rs)


def rclass(m, c, rs):
    return comp_class(m, c) + "/" + idx_class(c.resets, rs)


def f_reset_no_var(w, r, g):
    p = ensure_reset(w, r, g)
    if p is None:
        return None
    c, rs = p
    which = r.choice(["variable", "test_variable"])
    if which == "variable":
        rs.var = None
    else:
        rs.tvar = None
    return {"where": "reset/" + which + "/" + rclass(w[0], c, rs),
            "cite": ["RESET_VARIABLE_REFERENCE" if which == "variable" else "RESET_TEST_VARIABLE_REFERENCE"]}


def f_reset_var_outside(w, r, g):
    m = w[0]
    p = ensure_reset(w, r, g)
    if p is None:
        return None
    c, rs = p
    others = [v for (d, v) in vars_of(m) if d is not c]
    if not others:
        return None
    which = r.choice(["variable", "test_variable"])
    o = r.choice(others)
    if which == "variable":
        # do not create an order clash on top
        rs.order = 424242
        rs.var = o.tag
    else:
        rs.tvar = o.tag
    rel = "other"
    oc = m.owner(o.tag)
    if m.parent_of(oc) is c:
        rel = "child"
    elif m.parent_of(c) is oc:
        rel = "parent"
    return {"where": "reset/" + which + "-in-" + rel + "-component/" + rclass(m, c, rs),
            "cite": ["RESET_VARIABLE_REFERENCE" if which == "variable" else "RESET_TEST_VARIABLE_REFERENCE"]}


def f_reset_var_parentless(w, r, g):
    """the reset's (test) variable is an object that is in no component (the validator used to crash here: C09's repair)"""
    m = w[0]
    p = ensure_reset(w, r, g)
    if p is None:
        return None
    c, rs = p
    t = fresh_tag(w)
    m.ext_vars.append(t)
    which = r.choice(["variable", "test_variable"])
    if which == "variable":
        rs.order = 434343
        rs.var = t
    else:
        rs.tvar = t
    return {"where": "reset/" + which + "-parent-less/" + rclass(m, c, rs),
            "cite": ["RESET_VARIABLE_REFERENCE" if which == "variable" else "RESET_TEST_VARIABLE_REFERENCE"]}


def f_reset_no_order(w, r, g):
    p = ensure_reset(w, r, g)
    if p is None:
        return None
    c, rs = p
    rs.order = None
    return {"where": "reset/" + rclass(w[0], c, rs), "cite": ["RESET_ORDER_VALUE"]}


def connected_set(m, tag):
    seen = [tag]
    todo = [tag]
    while todo:
        t = todo.pop()
        v = m.var(t)
        if v is None:
            continue
        for e in v.eqs:
            if e.to not in seen:
                seen.append(e.to)
                todo.append(e.to)
    return seen


def f_reset_order_dup(w, r, g):
    m = w[0]
    p = ensure_reset(w, r, g)
    if p is None:
        return None
    c, rs = p
    if rs.var is None or rs.order is None:
        return None
    cs = connected_set(m, rs.var)
    v0 = m.var(rs.var)
    direct = [e.to for e in v0.eqs if m.var(e.to) is not None]
    indirect = [t for t in cs if t != rs.var and t not in direct and m.var(t) is not None]
    kinds = ["same"]
    if direct:
        kinds.append("direct")
    if indirect:
        kinds += ["indirect", "indirect"]
    kind = r.choice(kinds)
    tgt = rs.var if kind == "same" else r.choice(direct if kind == "direct" else indirect)
    oc = m.owner(tgt)
    names = [v.name for v in oc.vars]
    un = ["dimensionless", "second"]
    new = Reset(rs.order, tgt, r.choice(oc.vars).tag, [g.value_doc(names, un)], [g.value_doc(names, un)])
    oc.resets.insert(r.randrange(len(oc.resets) + 1), new)
    return {"where": "reset-order/" + kind + "-variable" + ("/same-component" if oc is c else "/other-component"),
            "cite": ["RESET_ORDER_UNIQUE"], "kind": kind}


def f_reset_no_value(w, r, g):
    p = ensure_reset(w, r, g)
    if p is None:
        return None
    c, rs = p
    which = r.choice(["test_value", "reset_value"])
    if which == "test_value":
        rs.tv = []
    else:
        rs.rv = []
    return {"where": "reset/" + which + "/" + rclass(w[0], c, rs),
            "cite": ["TEST_VALUE_ELEMENT" if which == "test_value" else "RESET_VALUE_ELEMENT"]}


# ---- MathML faults

def ensure_math(w, r, g):
    sites = math_sites(w)
    if sites:
        return r.choice(sites)
    m = w[0]
    cs = [c for c in real_comps(m) if c.vars]
    if not cs:
        return None
    c = r.choice(cs)
    c.math = [g.math_doc([v.name for v in c.vars], ["dimensionless", "second"])]
    return ("component-math/" + comp_class(m, c), c.math)


def math_mutate(w, r, g, pred, change, cite, label):
    """pick a math string, a document in it and a node satisfying pred(doc, path, node); replace it by change(node)"""
    for _ in range(6):
        site = ensure_math(w, r, g)
        if site is None:
            return None
        cls, docs = site
        di = r.randrange(len(docs))
        cands = [(p, el) for p, el in walk(docs[di]) if pred(docs[di], p, el)]
        if not cands:
            continue
        # prefer spreading over contexts
        p, el = r.choice(cands)
        new = change(el)
        if new is None:
            continue
        docs[di] = replace_at(docs[di], p, new)
        return {"where": cls.split("/")[0] + "/" + "/".join(cls.split("/")[1:]) + "/" + label + "/" + context_class(docs[di], p),
                "cite": cite, "context": context_class(docs[di], p)}
    return None


def f_math_root(w, r, g):
    site = ensure_math(w, r, g)
    if site is None:
        return None
    cls, docs = site
    di = r.randrange(len(docs))
    d = docs[di]
    kind = r.choice(["name", "namespace"])
    docs[di] = (d[0], d[1], "maths", d[3], d[4]) if kind == "name" else (d[0], "http://www.w3.org/1998/Math/MathML2", d[2], d[3], d[4])
    return {"where": cls + "/root-" + kind, "cite": ["MATH_ELEMENT"]}


def f_math_unsupported(w, r, g):
    def change(el):
        return ("E", MATHML_NS, r.choice(UNSUPPORTED_EL), [], [])
    return math_mutate(w, r, g, lambda d, p, el: len(p) >= 2 and el[2] in ("ci", "cn") + tuple(CONSTS), change,
                       ["MATH_CHILD"], "unsupported-element")


def f_math_ci_unknown(w, r, g):
    commented = r.random() < 0.3     # the name comes after a comment (looked at since /repo 064d865)

    def change(el):
        name = T(r.choice(["no_such_variable", "é", "x y"]))
        return (el[0], el[1], el[2], el[3], [Cm(" c "), name] if commented else [name])
    return math_mutate(w, r, g, lambda d, p, el: el[2] == "ci", change, ["MATH_CI_VARIABLE_REFERENCE"],
                       "ci-unknown-variable" + ("-after-comment" if commented else ""))


def f_math_ci_empty(w, r, g):
    def change(el):
        return (el[0], el[1], el[2], el[3], r.choice([[], [T("  ")], [Cm("x")]]))
    return math_mutate(w, r, g, lambda d, p, el: el[2] == "ci", change, ["MATH_CI_VARIABLE_REFERENCE"], "ci-empty")


def f_math_cn_units(w, r, g):
    kind = r.choice(["none", "ident", "missing"])

    def change(el):
        attrs = [a for a in el[3] if not (a[0] == CELLML_NS and a[1] == "units")]
        if kind == "ident":
            attrs.append((CELLML_NS, "units", r.choice(BAD_IDENTS[1:])))
        elif kind == "missing":
            attrs.append((CELLML_NS, "units", "no_such_units_defined"))
        return (el[0], el[1], el[2], attrs, el[4])
    return math_mutate(w, r, g, lambda d, p, el: el[2] == "cn", change,
                       ["MATH_CN_UNITS_ATTRIBUTE_REFERENCE"] if kind == "missing" else ["MATH_CN_UNITS_ATTRIBUTE"], "cn-units-" + kind)


def f_math_cn_base(w, r, g):
    def change(el):
        attrs = [a for a in el[3] if a[1] != "base"] + [("", "base", r.choice(["2", "16", "8", "010", "ten"]))]
        return (el[0], el[1], el[2], attrs, el[4])
    return math_mutate(w, r, g, lambda d, p, el: el[2] == "cn", change, ["MATH_CN_BASE10"], "cn-base")


def f_math_cn_format(w, r, g):
    kind = r.choice(["text", "type", "enotation", "empty"])

    def change(el):
        attrs = [a for a in el[3] if a[1] != "type"]
        if kind == "text":
            return (el[0], el[1], el[2], attrs, [T(r.choice(["abc", "1e5", "1 2", "--1", "0x1"]))])
        if kind == "type":
            return (el[0], el[1], el[2], attrs + [("", "type", r.choice(["rational", "integer", "complex-polar", "constant"]))], [T("1")])
        if kind == "empty":
            return (el[0], el[1], el[2], attrs, [])
        return (el[0], el[1], el[2], attrs + [("", "type", "e-notation")], r.choice([[T("1")], [T("1"), E("sep"), T("1.5")], [T("a"), E("sep"), T("1")]]))
    return math_mutate(w, r, g, lambda d, p, el: el[2] == "cn", change, ["MATH_CN_FORMAT"], "cn-format-" + kind)


FIXED1 = set(OPS1)
FIXED2 = {"eq", "neq", "lt", "leq", "gt", "geq", "divide", "power"}


def f_math_arity(w, r, g):
    kind = r.choice(["drop-operand", "extra-operand", "operator-not-first", "empty-apply", "piece-arity", "qualifier"])

    def pred(d, p, el):
        if el[2] == "apply" and el[4] and el[4][0][0] == "E":
            op = el[4][0][2]
            n = len(el[4]) - 1
            if kind == "drop-operand":
                return op in FIXED1 or op in FIXED2 or (op in ("and", "or", "xor", "times") and n == 2) or (op == "plus" and n == 1) or op == "diff"
            if kind == "extra-operand":
                return op in FIXED1 or op in FIXED2 or (op == "minus" and n == 2)
            if kind == "operator-not-first":
                return op in FIXED1 or op in FIXED2 or op in ("plus", "minus", "times", "and", "or", "xor")
            if kind == "empty-apply":
                return True
            if kind == "qualifier":
                return op in ("root", "log") and n == 2 or op == "diff"
        if kind == "piece-arity":
            return el[2] in ("piece", "otherwise")
        return False

    def change(el):
        kids = list(el[4])
        if kind == "drop-operand":
            return (el[0], el[1], el[2], el[3], kids[:-1])
        if kind == "extra-operand":
            return (el[0], el[1], el[2], el[3], kids + [E("pi")])
        if kind == "operator-not-first":
            return (el[0], el[1], el[2], el[3], [kids[1], kids[0]] + kids[2:])
        if kind == "empty-apply":
            return (el[0], el[1], el[2], el[3], [])
        if kind == "piece-arity":
            return (el[0], el[1], el[2], el[3], kids + [E("pi")])
        op = kids[0][2]
        if op == "diff":
            return (el[0], el[1], el[2], el[3], [kids[0], kids[2], kids[1]])       # bvar not the first sibling of diff
        q = kids[1]
        return (el[0], el[1], el[2], el[3], [kids[0], (q[0], q[1], q[2], q[3], q[4] + [E("pi")]), kids[2]])   # two children in degree/logbase
    return math_mutate(w, r, g, pred, change, ["MATH_MATHML"], "arity-" + kind)


def f_math_diff_operand(w, r, g):
    """the operand of diff (second sibling) is not a ci (rule added by /repo 49595f2)"""
    def pred(d, p, el):
        return el[2] == "apply" and len(el[4]) == 3 and el[4][0][0] == "E" and el[4][0][2] == "diff" and el[4][2][0] == "E" and el[4][2][2] == "ci"

    def change(el):
        kids = list(el[4])
        kids[2] = r.choice([E("cn", [T("1")], [(CELLML_NS, "units", "dimensionless")]), E("pi"),
                            E("apply", [E("sin"), kids[2]])])
        return (el[0], el[1], el[2], el[3], kids)
    return math_mutate(w, r, g, pred, change, ["MATH_MATHML"], "diff-operand-not-ci")


# ---- connections

def f_equiv_unreachable(w, r, g):
    m = w[0]
    vs = vars_of(m)
    cands = []
    for (c, v) in vs:
        for (d, x) in vs:
            if c.tag < d.tag:
                pc, pd = m.parent_of(c), m.parent_of(d)
                if not (pc is pd or pc is d or pd is c):
                    cands.append((c, v, d, x))
    if not cands:
        return None
    c, v, d, x = r.choice(cands)
    # same units so that only reachability is at fault
    x.units = v.units if not x.eqs else x.units
    if x.units != v.units:
        if not v.eqs:
            v.units = x.units
    shape = ("clean" if not v.eqs and not x.eqs else "after-other-equivalences")
    if r.random() < 0.5:
        add_equivalence(m, v.tag, x.tag)
    else:
        add_equivalence(m, x.tag, v.tag)
    return {"where": "equivalence/unreachable/" + shape, "cite": ["MAP_VARIABLES_ELEMENT"], "pair": (v.tag, x.tag)}


def f_iface_insufficient(w, r, g):
    m = w[0]
    cands = [(c, v) for (c, v) in vars_of(m) if v.eqs and all(m.var(e.to) is not None for e in v.eqs)]
    p = _choice(r, cands)
    if p is None:
        return None
    c, v = p
    pub = priv = False
    for e in v.eqs:
        o = m.owner(e.to)
        if m.parent_of(o) is m.parent_of(c) or m.parent_of(c) is o:
            pub = True
        else:
            priv = True
    if pub and priv:
        v.iface = r.choice(["public", "private", "none", ""])
    elif pub:
        v.iface = r.choice(["private", "none", ""])
    else:
        v.iface = r.choice(["public", "none", ""])
    return {"where": "interface/" + ("both" if pub and priv else ("public" if pub else "private")) + "-required/" + (v.iface or "unset") + "/" + vclass(m, c, v),
            "cite": ["MAP_VARIABLES_ELEMENT"]}


def f_units_incompatible(w, r, g):
    m = w[0]
    cands = [(c, v) for (c, v) in vars_of(m) if v.eqs and len(connected_set(m, v.tag)) == 2 and m.var(v.eqs[0].to) is not None
             and m.owner(v.eqs[0].to).imp is None]
    p = _choice(r, cands)
    if p is None:
        return None
    c, v = p
    other = m.var(v.eqs[0].to)
    for ch in getattr(m, "chains", []):
        if {v.units, other.units} == {ch["top"], ch["partner"]} and r.random() < 0.8:
            # one exponent somewhere along the chain changes (any level, also the innermost / outermost): the product of the
            # exponents, hence the dimension of the top of the chain, changes; the partner is not defined from the chain
            lvl = r.randrange(ch["depth"])
            u = [x for x in m.units if x.name == ch["levels"][lvl]][0]
            used_by_others = any(x.units in ch["levels"] and x.eqs and x is not v and x is not other for x in m.all_vars())
            if used_by_others:
                break
            a, b = u.items[0].exp
            na = a + b if a + b != 0 else a + 2 * b
            u.items[0].exp = (na, b)
            assert (na, b) != (a, b) and na != 0
            return {"where": "equivalence/units-chain/depth%d/level%d" % (ch["depth"], lvl + 1), "cite": ["MAP_VARIABLES_ELEMENT"],
                    "chain": {"depth": ch["depth"], "level": lvl + 1}}
    mine = [u for u in m.units if u.name == v.units and u.imp is None and u.items]
    if other.units != v.units and mine and r.random() < 0.6:
        # same names, another definition: the units of this side gets a further base unit
        used_elsewhere = any(x.units == v.units and x.eqs and x is not v for x in m.all_vars())
        # ... and no other units is defined in terms of it (else the other side would change dimension with it)
        referenced = any(it.ref == v.units for u in m.units for it in u.items)
        if not used_elsewhere and not referenced:
            # by construction a dimension change on this side only: a further factor candela^k (k > 0) on a units that no
            # other units is defined from, while the other side's units has another name, hence an unchanged definition
            assert other.units != v.units and not any(it.ref == v.units for u in m.units for it in u.items)
            mine[0].items.append(Item("candela", "", (r.choice([1, 2]), 1)))
            return {"where": "equivalence/units-redefined/" + vclass(m, c, v), "cite": ["MAP_VARIABLES_ELEMENT"]}
    base = {"second": "metre", "volt": "second", "dimensionless": "kilogram"}
    if other.units in base:
        v.units = base[other.units]
    else:
        # user units: pick a standard unit and hope for a dimension mismatch is not good enough: build one that cannot match
        taken = {x.name for x in m.units}
        n = g.ident(taken, STANDARD_UNITS)
        m.units.append(Units(n, "", None, [Item(other.units), Item("candela")]))
        v.units = n
    return {"where": "equivalence/units/" + vclass(m, c, v), "cite": ["MAP_VARIABLES_ELEMENT"]}


def f_equiv_parentless(w, r, g):
    m = w[0]
    p = _choice(r, vars_of(m))
    if p is None:
        return None
    c, v = p
    t = fresh_tag(w)
    m.ext_vars.append(t)
    shape = "only" if not v.eqs else "after-other-equivalences"
    v.eqs.append(Eqv(t))
    if not hasattr(m, "eq_log"):
        m.eq_log = []
    m.eq_log.append((v.tag, t, "", ""))
    return {"where": "equivalence/parent-less/" + shape, "cite": ["MAP_VARIABLES_VARIABLE1_ATTRIBUTE"]}


FAULTS = [
    ("model-name", f_model_name), ("id-syntax", f_id_bad), ("id-syntax-mapping", f_map_id_bad), ("id-duplicate", f_id_dup),
    ("component-name", f_comp_name_bad), ("component-name-duplicate", f_comp_name_dup),
    ("import-component-ref", f_import_comp_ref_bad), ("import-component-target", f_import_comp_target),
    ("import-href-empty", f_href_empty), ("import-href-invalid", f_href_invalid),
    ("import-units-name", f_import_units_name_bad), ("units-name-duplicate", f_units_name_dup),
    ("import-units-duplicate", f_import_units_dup), ("import-units-ref", f_import_units_ref_bad),
    ("import-units-target", f_import_units_target),
    ("units-name", f_units_name_bad), ("units-standard-name", f_units_std_name), ("unit-reference", f_unit_ref_bad),
    ("units-cycle", f_unit_cycle), ("unit-prefix", f_prefix_bad),
    ("variable-name", f_var_name_bad), ("variable-name-duplicate", f_var_name_dup), ("variable-units", f_var_units),
    ("variable-interface", f_var_iface), ("variable-initial-value", f_var_init),
    ("reset-no-variable", f_reset_no_var), ("reset-variable-outside", f_reset_var_outside),
    ("reset-variable-parentless", f_reset_var_parentless),
    ("reset-no-order", f_reset_no_order), ("reset-order-duplicate", f_reset_order_dup), ("reset-no-value", f_reset_no_value),
    ("math-root", f_math_root), ("math-unsupported-element", f_math_unsupported), ("math-ci-unknown", f_math_ci_unknown),
    ("math-ci-empty", f_math_ci_empty), ("math-cn-units", f_math_cn_units), ("math-cn-base", f_math_cn_base),
    ("math-cn-format", f_math_cn_format), ("math-arity", f_math_arity), ("math-diff-operand", f_math_diff_operand),
    ("equivalence-unreachable", f_equiv_unreachable), ("interface-insufficient", f_iface_insufficient),
    ("equivalence-units", f_units_incompatible), ("equivalence-parentless", f_equiv_parentless),
]


def inject(world, fault, rng, gen):
    """-> (faulty world, info) or None.  world is not modified."""
    w = copy.deepcopy(world)
    fn = dict(FAULTS)[fault]
    info = fn(w, rng, gen)
    if info is None:
        return None
    if to_tokens(w) == to_tokens(world):
        return None          # the injector wrote what was already there: no fault was injected
    info["fault"] = fault
    return w, info


# ---- faults inside imported items (the library models of the world)

def _lib_units_targets(w):
    out = []
    for u in imported_units(w[0]):
        s, ref = u.imp
        if s.model is not None:
            for t in w[s.model].units:
                if t.name == ref:
                    out.append((u, w[s.model], t))
                    break
    return out


def _find_comp(m, name):
    for c in m.comps:
        if c.name == name:
            return c
    for c in m.all_comps():
        for k in c.kids:
            if k.name == name:
                return k
    return None


def _lib_comp_targets(w):
    out = []
    for c in imported_comps(w[0]):
        s, ref = c.imp
        if s.model is not None:
            t = _find_comp(w[s.model], ref)
            if t is not None:
                out.append((c, w[s.model], t))
    return out


def f_lib_units(w, r, g):
    p = _choice(r, _lib_units_targets(w))
    if p is None:
        return None
    u, lm, t = p
    kind = r.choice(["unit-reference", "id", "prefix"])
    if kind == "id":
        t.id = r.choice(BAD_XMLNAMES)
        return {"where": "imported-units/id", "cite": ["XML_ID_ATTRIBUTE"]}
    if not t.items:
        t.items.append(Item("second"))
    it = r.choice(t.items)
    if kind == "unit-reference":
        it.ref = "no_such_units_defined"
        return {"where": "imported-units/unit-reference", "cite": ["UNIT_UNITS_REFERENCE"]}
    it.prefix = r.choice(BAD_PREFIXES)
    return {"where": "imported-units/prefix", "cite": ["UNIT_ATTRIBUTE_PREFIX_VALUE"]}


def f_lib_comp(w, r, g):
    p = _choice(r, _lib_comp_targets(w))
    if p is None:
        return None
    c, lm, t = p
    deep = bool(t.kids) and r.random() < 0.5
    tgt = r.choice(t.kids) if deep else t
    loc = "child-of-imported-component" if deep else "imported-component"
    if not tgt.vars:
        tgt.vars.append(Var(fresh_tag(w), "lv", "second"))
    v = r.choice(tgt.vars)
    kind = r.choice(["variable-name", "variable-units", "math-ci", "id"])
    if kind == "variable-name":
        v.name = r.choice(BAD_IDENTS)
        return {"where": loc + "/variable-name", "cite": ["VARIABLE_NAME_VALUE"]}
    if kind == "variable-units":
        v.units = "no_such_units_defined"
        return {"where": loc + "/variable-units", "cite": ["VARIABLE_UNITS_VALUE"]}
    if kind == "id":
        v.id = r.choice(BAD_XMLNAMES)
        return {"where": loc + "/variable-id", "cite": ["XML_ID_ATTRIBUTE"]}
    tgt.math = [E("math", [E("apply", [E("eq"), E("ci", [T(v.name)]), E("ci", [T("no_such_variable")])])])]
    return {"where": loc + "/math-ci", "cite": ["MATH_CI_VARIABLE_REFERENCE"]}


FAULTS += [("imported-units-content", f_lib_units), ("imported-component-content", f_lib_comp)]


# ----------------------------------------------------------------------------------------------- sequences (one Validator)

def near_copy(world, rng):
    """same names, other definitions: every local units of model 0 that has unit children may get a further base unit or
    lose its prefixes; variables, components, equivalences are untouched.  (Not necessarily valid: the model says.)"""
    w = copy.deepcopy(world)
    changed = 0
    for u in w[0].units:
        if u.imp is None and u.items and rng.random() < 0.7:
            if rng.random() < 0.7:
                u.items.append(Item(rng.choice(["candela", "mole", "kelvin"]), "", (rng.choice([1, -1, 2]), 1)))
            else:
                u.items[0].exp = (u.items[0].exp[0] + 1, u.items[0].exp[1])
            changed += 1
    return w, changed


# ----------------------------------------------------------------------------------------------- numbers

NUM_REPS = ["", "-", "12", "-3", ".", "-.", "1.5", ".5", "5.", "-.5", "1e", "1E", "1e+", "1e-", "1e5", "1.5E-2", "1E+05", "0", "007"]
NUM_CHARS = ["+", "-", ".", "e", "E", "7", " ", "\t", "x", "f", ",", "_", "\u0663", "\uff11", "\u00a0"]
NUM_SPECIALS = ["0x10", "0X1F", "1f", "inf", "-inf", "Infinity", "nan", "NaN", "1e1.5", "1.e5", ".e5", "1..2", "1.2.3", "--1", "-+1", "+-1",
                "++1", "1e++5", "1e5e2", "1E5E2", "1 2", "1e 5", "1 e5", "1e5 ", " 1e5", "\n1", "1\n", "+1.0", "+.5", "+1.5e3", "+2.5", "+3", "-0",
                "-0.0", "00", "1e-0", "1e+0", "9" * 25, "2147483647", "2147483648", "-2147483648", "-2147483649", "+2147483647",
                "99999999999", "-99999999999", "1e99999999999", "\u0661\u0662", "1\u0660", "\uff0b1", "\u22121", "1\u00b2", "e", "E5", "e5", "-e5", ".e", "1ee5"]


def num_candidates():
    """near-miss and boundary number strings: every prefix that stands for a state of the real / integer automata of C16,
    extended by one character on either side, plus special shapes"""
    out = []
    for p in NUM_REPS:
        out.append(p)
        for ch in NUM_CHARS:
            out.append(p + ch)
            out.append(ch + p)
    out += NUM_SPECIALS
    seen = set()
    res = []
    for x in out:
        if x not in seen:
            seen.add(x)
            res.append(x)
    return res


_WS = " \t\n\v\f\r"
INT32 = (-2 ** 31, 2 ** 31 - 1)


def num_expected(pos, s, dfa, var_names=()):
    """True when the position accepts the text.  dfa(s) -> (real_dfa, int_dfa) of LC.NumDefs (proved equal to the grammar)."""
    t = s.strip(_WS)
    if pos == "initial":
        return s == "" or s in var_names or dfa(s)[0]
    if pos in ("cn", "mantissa"):
        return dfa(t)[0] and "e" not in t and "E" not in t
    if pos == "exponent":
        return dfa(t)[1] and INT32[0] <= int(t) <= INT32[1]
    if pos == "prefix":
        return s == "" or s in PREFIXES or (dfa(s)[1] and INT32[0] <= int(s) <= INT32[1])
    raise ValueError(pos)


NUM_RULE = {"initial": "VARIABLE_INITIAL_VALUE_VALUE", "cn": "MATH_CN_FORMAT", "mantissa": "MATH_CN_FORMAT",
            "exponent": "MATH_CN_FORMAT", "prefix": "UNIT_ATTRIBUTE_PREFIX_VALUE"}


def number_world(pos, s):
    """a small valid world whose one number in position pos is the text s"""
    m = Model("numbers")
    u = Units("uu", "", None, [Item("metre", s if pos == "prefix" else "milli")])
    m.units = [u]
    c = Comp(1, "c")
    x, y = Var(2, "x", "uu"), Var(3, "y", "second")
    if pos == "initial":
        x.init = s
    c.vars = [x, y]
    un = [(CELLML_NS, "units", "second")]
    if pos == "cn":
        rhs = E("cn", [T(s)] if s != "" else [], un)
    elif pos == "mantissa":
        rhs = E("cn", ([T(s)] if s != "" else []) + [E("sep"), T("3")], un + [("", "type", "e-notation")])
    elif pos == "exponent":
        rhs = E("cn", [T("2.5"), E("sep")] + ([T(s)] if s != "" else []), un + [("", "type", "e-notation")])
    else:
        rhs = E("cn", [T("1")], un)
    c.math = [E("math", [E("apply", [E("eq"), E("ci", [T("y")]), rhs])])]
    m.comps = [c]
    return [m]


# ----------------------------------------------------------------------------------------------- units chains (directed)

def chain_world(exps, fault_level=None, partner_wrong=False, prefixes=("", "milli", "3", "kilo"), second_base=False):
    """two sibling components with one variable each, mapped; one variable in units u_d = (...(metre^e1 [* mole])^e2...)^ed,
    the other in a flat units metre^(e1*..*ed) [* mole^(e2*..*ed)].  fault_level k: the exponent of level k is changed
    (the two are then incompatible); partner_wrong: the flat partner gets another exponent."""
    from math import gcd
    m = Model("chains")
    prev = None
    for lvl, e in enumerate(exps):
        if fault_level == lvl + 1:
            e = (e[0] + e[1] if e[0] + e[1] != 0 else e[0] + 2 * e[1], e[1])
        u = Units("lvl%d" % (lvl + 1))
        u.items.append(Item("metre" if lvl == 0 else prev, prefixes[lvl % len(prefixes)], e, (lvl % 3 - 1, 1)))
        if lvl == 0 and second_base:
            u.items.append(Item("mole", "", (1, 1)))
        m.units.append(u)
        prev = u.name
    num, den = 1, 1
    for (a, b) in exps:
        num, den = num * a, den * b
    g_ = gcd(abs(num), den)
    tot = (num // g_, den // g_)
    if partner_wrong:
        tot = (tot[0] + tot[1], tot[1]) if tot[0] + tot[1] != 0 else (tot[0] + 2 * tot[1], tot[1])
    flat = Units("flat", "", None, [Item("metre", "centi", tot, (2, 1))])
    if second_base:
        o = (1, 1)
        for (a, b) in exps[1:]:
            o = (o[0] * a, o[1] * b)
        g2 = gcd(abs(o[0]), o[1])
        flat.items.append(Item("mole", "milli", (o[0] // g2, o[1] // g2)))
    m.units.insert(0, flat)
    c1, c2 = Comp(1, "c1"), Comp(2, "c2")
    c1.vars = [Var(11, "a", prev, iface="public")]
    c2.vars = [Var(12, "b", "flat", iface="public")]
    m.comps = [c1, c2]
    add_equivalence(m, 11, 12)
    return [m]


# ----------------------------------------------------------------------------------------------- directed MathML / connection worlds

SWEEP_OPERATORS = OPS1 + OPS2 + OPSN2 + ["plus", "minus", "root", "log"]


def arity_world(op, n, where):
    """y = <apply><op/> x ... x</apply> with n operands, in the math of a component / a reset's test_value / reset_value"""
    m = Model("arity")
    c = Comp(1, "c")
    c.vars = [Var(2, "x", "second"), Var(3, "y", "second")]
    expr = E("apply", [E(op)] + [E("ci", [T("x")]) for _ in range(n)])
    ok = E("math", [E("cn", [T("1")], [(CELLML_NS, "units", "second")])])
    if where == "component":
        c.math = [E("math", [E("apply", [E("eq"), E("ci", [T("y")]), expr])])]
    else:
        doc = E("math", [expr])
        c.resets = [Reset(1, 2, 3, [doc] if where == "test_value" else [ok], [doc] if where == "reset_value" else [ok])]
    m.comps = [c]
    return [m]


def spelling_worlds():
    """(name, kind, cite, world): worlds whose math carries ids and cn attributes; used with every SPELLING"""
    out = []
    un = [(CELLML_NS, "units", "second")]

    def base(cn_attrs, ci_id="", cn_id="", var_id="", math_id=""):
        m = Model("spell")
        c = Comp(1, "c")
        c.vars = [Var(2, "x", "second", id=var_id), Var(3, "y", "second")]
        cn = E("cn", [T("3")], list(cn_attrs) + ([("", "id", cn_id)] if cn_id else []))
        ci = E("ci", [T("x")], [("", "id", ci_id)] if ci_id else [])
        c.math = [E("math", [E("apply", [E("eq"), E("ci", [T("y")]), E("apply", [E("plus"), ci, cn])])], [("", "id", math_id)] if math_id else [])]
        m.comps = [c]
        return [m]
    out.append(("ids-distinct", "valid", [], base(un + [("", "type", "real"), ("", "base", "10")], "i1", "i2", "i3", "i4")))
    out.append(("id-ci-equals-cn", "fault", ["XML_ID_ATTRIBUTE", "MATH_MATHML"], base(un, "dup", "dup")))
    out.append(("id-ci-equals-variable", "fault", ["XML_ID_ATTRIBUTE"], base(un, "dup", "", "dup")))
    out.append(("id-math-equals-variable", "fault", ["XML_ID_ATTRIBUTE"], base(un, "", "", "dup", "dup")))
    out.append(("cn-base-16", "fault", ["MATH_CN_BASE10"], base(un + [("", "base", "16")], "i1")))
    out.append(("cn-type-rational", "fault", ["MATH_CN_FORMAT"], base(un + [("", "type", "rational")], "i1")))
    out.append(("cn-units-missing", "fault", ["MATH_CN_UNITS_ATTRIBUTE_REFERENCE"], base([(CELLML_NS, "units", "nope"), ("", "type", "real")], "", "i2")))
    out.append(("cn-units-absent", "fault", ["MATH_CN_UNITS_ATTRIBUTE"], base([("", "type", "real")], "", "i2")))
    # the duplicate sits in a reset value
    w = base(un, "", "", "dup")
    ok = E("math", [E("cn", [T("1")], un + [("", "id", "dup")])])
    w[0].comps[0].resets = [Reset(1, 2, 3, [ok], [E("math", [E("cn", [T("1")], un)])])]
    out.append(("id-reset-value-cn-equals-variable", "fault", ["XML_ID_ATTRIBUTE"], w))
    return out


def eqlist_world(order_a, order_b, faulty):
    """siblings: imported component I (placeholder variable w), A (a: second), B (b: metre when faulty, else second), C (c: an
    alias of second).  a's equivalence list is order_a (a permutation of 'w','c','b'), b's list is order_b ('w','a' in some order)."""
    m = Model("eqlist")
    m.units = [Units("sec_alias", "", None, [Item("second", "milli")])]
    imp = Comp(1, "I", imp=(ISrc(9, "lib.cellml"), "ref"))
    A, B, C = Comp(2, "A"), Comp(3, "B"), Comp(4, "C")
    imp.vars = [Var(11, "w", "second")]
    A.vars = [Var(12, "a", "second", iface="public")]
    B.vars = [Var(13, "b", "metre" if faulty else "second", iface="public")]
    C.vars = [Var(14, "c", "sec_alias", iface="public")]
    m.comps = [imp, A, B, C]
    tag = {"w": 11, "a": 12, "b": 13, "c": 14}
    # calls in an order that yields the wanted lists: b's entries that must precede 'a' in b's list come first
    calls = []
    pre_b = order_b[:order_b.index("a")]
    for x in pre_b:
        calls.append(("b", x))
    for x in order_a:
        calls.append(("a", x))
    for x in order_b[order_b.index("a") + 1:]:
        calls.append(("b", x))
    for (p, q) in calls:
        add_equivalence(m, tag[p], tag[q])
    assert [e.to for e in A.vars[0].eqs] == [tag[x] for x in order_a] and [e.to for e in B.vars[0].eqs] == [tag[x] for x in order_b]
    return [m]
