"""flatten_graphs.py -- resolvable import graphs WITH CONTENT for C06 (flattening): the import graphs of
gen/import_graphs.py (one flat directory, plain file names, origin f0.cellml) extended with what flattening has to
carry over: units with prefix / exponent / multiplier, variables with initial values and interfaces, MathML with
`cn` units, connections (with mapping / connection ids) inside an imported component's encapsulation tree and from the
importing model to an imported component (placeholder variables), encapsulated children below an import placeholder,
name clashes between importer and importee (components and units), equivalent-but-differently-named and
same-named-but-different units.

Abstract syntax (plain dicts / lists, JSON-able)
    files   {file name: model}
    model   {"name": str, "units": [units], "comps": [comp], "conns": [conn], "connids": {"a|b": id}}
    units   {"name": str, "imp": None | [url, ref], "defs": [[ref, prefix, exponent, log10 multiplier], ...]}
               prefix: "" | standard prefix name | integer text; exponent: integer; multiplier = 10**k
    comp    {"name": str, "imp": None | [url, ref], "vars": [[name, units, initial value | None, interface]],
             "math": [[lhs, rhs], ...] (expressions in the format of gen/matheval.py), "kids": [comp],
             "mblocks": [n1, n2, ...] (optional) the equations are spread over several <math> elements of n1, n2, ...
             equations (0 = an empty <math/>); absent = one <math> element when there are equations}
               an imported component has no vars / math of its own; its placeholder variables are implied by conns
    conn    [component a, variable a, component b, variable b, mapping id]

The Parser's view (order of top-level components, placeholder variables, order of equivalences) is computed by
`parsed(model)`; both drivers print the models they were given, so the tie "what python thinks the parser built"
== "what the library holds" is re-checked on every case.
"""
import import_graphs as IG

ORIGIN = IG.ORIGIN
STANDARD_UNITS = IG.STANDARD_UNITS
MATHML_NS = "http://www.w3.org/1998/Math/MathML"
HEAD = ('<?xml version="1.0" encoding="UTF-8"?>\n'
        '<model xmlns="http://www.cellml.org/cellml/2.0#" xmlns:cellml="http://www.cellml.org/cellml/2.0#" '
        'xmlns:xlink="http://www.w3.org/1999/xlink" name="%s">\n')


# ----------------------------------------------------------------------------------------------- constructors

def U(name, *defs):
    """local units; a def is ref | (ref, prefix) | (ref, prefix, exponent) | (ref, prefix, exponent, log10 mult)"""
    out = []
    for d in defs:
        if isinstance(d, str):
            d = (d,)
        d = tuple(d) + ("", 1, 0)[len(d) - 1:]
        out.append([d[0], d[1], d[2], d[3]])
    return {"name": name, "imp": None, "defs": out}


def UI(name, url, ref):
    return {"name": name, "imp": [url, ref], "defs": []}


def V(name, units, init=None, iface="public_and_private"):
    return [name, units, init, iface]


def C(name, vars=(), math=(), kids=(), imp=None, mblocks=None):
    c = {"name": name, "imp": list(imp) if imp else None, "vars": [list(v) for v in vars],
         "math": [list(e) for e in math], "kids": list(kids)}
    if mblocks is not None:
        c["mblocks"] = list(mblocks)
    return c


def CI(name, url, ref, kids=()):
    return C(name, imp=(url, ref), kids=kids)


def M(name, units=(), comps=(), conns=(), connids=None):
    return {"name": name, "units": list(units), "comps": list(comps), "conns": [list(c) for c in conns],
            "connids": dict(connids or {})}


def all_comps(comps):
    for c in comps:
        yield c
        for k in all_comps(c["kids"]):
            yield k


# ----------------------------------------------------------------------------------------------- MathML

def mathml_expr(e):
    t = e[0]
    if t == "cn":
        return '<cn cellml:units="%s">%s</cn>' % (e[2], e[1])
    if t == "ci":
        return "<ci>%s</ci>" % e[1]
    if t == "ap":
        return "<apply><%s/>%s</apply>" % (e[1], "".join(mathml_expr(a) for a in e[2]))
    raise ValueError("unsupported expression %r" % (e,))


def mathml(eqns, blocks=None):
    """the <math> elements of a component: one per block"""
    if blocks is None:
        blocks = [len(eqns)] if eqns else []
    out, k = "", 0
    for n in blocks:
        if n == 0:
            out += '<math xmlns="%s"/>' % MATHML_NS
            continue
        out += '<math xmlns="%s">' % MATHML_NS
        for l, r in eqns[k:k + n]:
            out += "<apply><eq/>%s%s</apply>" % (mathml_expr(l), mathml_expr(r))
        out += "</math>"
        k += n
    assert k == len(eqns)
    return out


def expr_cns(e, acc):
    """units names of the cn elements of an expression, in document order"""
    if e[0] == "cn":
        acc.append(e[2])
    elif e[0] == "ap":
        for a in e[2]:
            expr_cns(a, acc)
    return acc


def math_cns(eqns):
    acc = []
    for l, r in eqns:
        expr_cns(l, acc)
        expr_cns(r, acc)
    return acc


# ----------------------------------------------------------------------------------------------- rendering

def _encaps(c, ind):
    if not c["kids"]:
        return ind + '<component_ref component="%s"/>\n' % c["name"]
    s = ind + '<component_ref component="%s">\n' % c["name"]
    for k in c["kids"]:
        s += _encaps(k, ind + "  ")
    return s + ind + "</component_ref>\n"


def fmt_mult(k):
    if k == 0:
        return None
    return "1e%d" % k if k > 0 else ("0." + "0" * (-k - 1) + "1")


def render_model(m):
    s = HEAD % m["name"]
    for u in m["units"]:
        if u["imp"]:
            s += '  <import xlink:href="%s">\n    <units name="%s" units_ref="%s"/>\n  </import>\n' % (
                u["imp"][0], u["name"], u["imp"][1])
        elif u["defs"]:
            s += '  <units name="%s">\n' % u["name"]
            for ref, pre, ex, mu in u["defs"]:
                s += '    <unit units="%s"' % ref
                if pre != "":
                    s += ' prefix="%s"' % pre
                if ex != 1:
                    s += ' exponent="%s"' % ex
                if fmt_mult(mu) is not None:
                    s += ' multiplier="%s"' % fmt_mult(mu)
                s += "/>\n"
            s += "  </units>\n"
        else:
            s += '  <units name="%s"/>\n' % u["name"]
    for c in all_comps(m["comps"]):
        if c["imp"]:
            s += '  <import xlink:href="%s">\n    <component name="%s" component_ref="%s"/>\n  </import>\n' % (
                c["imp"][0], c["name"], c["imp"][1])
        else:
            s += '  <component name="%s">\n' % c["name"]
            for n, un, init, iface in c["vars"]:
                s += '    <variable name="%s" units="%s"' % (n, un)
                if init is not None:
                    s += ' initial_value="%s"' % init
                if iface:
                    s += ' interface="%s"' % iface
                s += "/>\n"
            if c["math"] or c.get("mblocks"):
                s += "    " + mathml(c["math"], c.get("mblocks")) + "\n"
            s += "  </component>\n"
    # connections grouped by (component a, component b) in order of first appearance
    groups, order = {}, []
    for a, va, b, vb, mid in m["conns"]:
        k = (a, b)
        if k not in groups:
            groups[k] = []
            order.append(k)
        groups[k].append((va, vb, mid))
    for a, b in order:
        cid = m["connids"].get(a + "|" + b, "")
        s += '  <connection component_1="%s" component_2="%s"%s>\n' % (a, b, ' id="%s"' % cid if cid else "")
        for va, vb, mid in groups[(a, b)]:
            s += '    <map_variables variable_1="%s" variable_2="%s"%s/>\n' % (va, vb, ' id="%s"' % mid if mid else "")
        s += "  </connection>\n"
    if any(c["kids"] for c in all_comps(m["comps"])):
        s += "  <encapsulation>\n"
        for c in m["comps"]:
            if c["kids"]:
                s += _encaps(c, "    ")
        s += "  </encapsulation>\n"
    return s + "</model>\n"


def write_files(files, directory):
    import os
    os.makedirs(directory, exist_ok=True)
    for fn, m in files.items():
        with open(os.path.join(directory, fn), "w") as f:
            f.write(render_model(m))


# =============================================================================================== random graphs

# semantic units: (dimension = tuple of (standard base unit, exponent)), a few ways to write them over standard units.
# A unit child carries a prefix OR an exponent other than 1, never both (libcellml's Units::scalingFactor mishandles the
# combination: C08's finding, not C06's); multipliers are powers of ten.
BASES = ["metre", "second", "ampere", "mole", "dimensionless"]
PREFIX_LOG = {"": 0, "milli": -3, "centi": -2, "kilo": 3, "deci": -1, "micro": -6}
UNITS_NAMES = ["u", "v", "w", "u_1", "v_1", "mm", "ms", "q", "r"]
COMP_NAMES = ["c", "k", "m", "n", "c_1", "k_1", "k_2", "e"]
VAR_SRC = ["a", "b", "g"]
VAR_IN = ["x", "y", "z"]
VAR_CMP = ["p", "s", "t"]
NUMS = ["0.5", "1.5", "2", "2.5", "3", "0.25", "4", "1.25"]


class UnitsInfo:
    """semantic value of a units of a file: log10 scale and base exponents (what python thinks it denotes)"""

    def __init__(self, scale, dims):
        self.scale = scale
        self.dims = dict((k, v) for k, v in dims.items() if v != 0 and k != "dimensionless")

    def key(self):
        return (self.scale, tuple(sorted(self.dims.items())))

    def dimkey(self):
        return tuple(sorted(self.dims.items()))


STD_SCALE = {"gram": -3, "litre": -3}
STD_DIMS = {"metre": {"metre": 1}, "second": {"second": 1}, "ampere": {"ampere": 1}, "mole": {"mole": 1},
            "dimensionless": {}, "kilogram": {"kilogram": 1}, "kelvin": {"kelvin": 1}, "candela": {"candela": 1}}


def prefix_log(p):
    if p in PREFIX_LOG:
        return PREFIX_LOG[p]
    return int(p)


def denote(files, fn, name, depth=0):
    """UnitsInfo of units `name` as seen in file fn (standard names allowed); None when undefined / cyclic"""
    if depth > 40:
        return None
    if name in STD_DIMS:
        return UnitsInfo(STD_SCALE.get(name, 0), STD_DIMS[name])
    m = files.get(fn)
    if m is None:
        return None
    for u in m["units"]:
        if u["name"] == name:
            if u["imp"]:
                return denote(files, u["imp"][0], u["imp"][1], depth + 1)
            if not u["defs"]:
                return UnitsInfo(0, {name: 1})          # a user-defined base unit: identified by its NAME
            scale, dims = 0, {}
            for ref, pre, ex, mu in u["defs"]:
                d = denote(files, fn, ref, depth + 1)
                if d is None:
                    return None
                scale += mu + (prefix_log(pre) + d.scale) * ex
                for k, v in d.dims.items():
                    dims[k] = dims.get(k, 0) + v * ex
            return UnitsInfo(scale, dims)
    return None


def _gen_units(rng, fi, nfiles, files, origin):
    """units of file fi; later files exist already"""
    units, names = [], []
    pool = list(UNITS_NAMES)
    rng.shuffle(pool)

    def new_name():
        return pool.pop() if pool else "z%d" % len(units)
    fn = IG.fname(fi)
    # level 0: over standard units
    for _ in range(rng.randint(1, 3)):
        base = rng.choice(BASES)
        form = rng.random()
        if form < 0.35:
            d = (base, rng.choice(["milli", "centi", "kilo", "deci", "-3", "3"]), 1, 0)
        elif form < 0.6:
            d = (base, "", 1, rng.choice([-3, -2, 3, -1]))
        elif form < 0.8:
            d = (base, "", rng.choice([2, -1, 3]), 0)
        elif form < 0.9:
            d = None                                      # user-defined base unit
        else:
            d = (base, "", 1, 0)
        n = new_name()
        units.append(U(n, *([d] if d else [])))
        names.append(n)
    # level 1 / 2: over local units
    for _ in range(rng.randint(0, 2)):
        k = rng.randint(1, 2)
        defs = []
        for _ in range(k):
            ref = rng.choice(names + ["second", "metre"])
            if rng.random() < 0.5:
                defs.append((ref, "", rng.choice([1, 2, -1]), 0))
            else:
                defs.append((ref, rng.choice(["", "milli", "kilo"]), 1, rng.choice([0, 0, -3])))
        n = new_name()
        units.append(U(n, *defs))
        names.append(n)
    # imported units
    imported = []
    later = [j for j in range(fi + 1, nfiles) if files[IG.fname(j)]["units"]]
    if later and rng.random() < 0.7:
        seen_imports = set()
        for _ in range(rng.randint(1, 2)):
            j = rng.choice(later)
            tgt = rng.choice(files[IG.fname(j)]["units"])
            if (j, tgt["name"]) in seen_imports:
                continue        # the validator rejects two imports of the same units_ref from one file
            seen_imports.add((j, tgt["name"]))
            n = new_name()
            units.append(UI(n, IG.fname(j), tgt["name"]))
            imported.append(n)
        if origin and imported and rng.random() < 0.5:
            # a local units over an imported one (only the origin file's imports are all resolved)
            n = new_name()
            units.append(U(n, (rng.choice(imported), "", rng.choice([1, 2]), 0)))
            names.append(n)
    rng.shuffle(units)
    return units, names, imported


def _summary(files, fn, comp):
    """what an importer has to know of an importable component: its open inputs and all its variables"""
    if comp["imp"]:
        m = files[comp["imp"][0]]
        tgt = [c for c in all_comps(m["comps"]) if c["name"] == comp["imp"][1]][0]
        return _summary(files, comp["imp"][0], tgt)
    return {"file": fn, "vars": [(v[0], v[1]) for v in comp["vars"]], "inputs": list(comp.get("_inputs", []))}


class _FileGen:
    def __init__(self, rng, fi, nfiles, files, knobs):
        self.rng, self.fi, self.nfiles, self.files = rng, fi, nfiles, files
        self.fn = IG.fname(fi)
        self.origin = fi == 0
        self.units, self.local_units, self.imported_units = _gen_units(rng, fi, nfiles, files, self.origin)
        self.cnames = list(COMP_NAMES)
        rng.shuffle(self.cnames)
        self.conns = []
        self.connids = {}
        self.mapn = 0
        self.knobs = knobs
        self.partial = {"units": self.units}

    def cname(self):
        return self.cnames.pop() if self.cnames else "z%d" % self.rng.randrange(10 ** 6)

    def dim_of(self, un, fn=None):
        tmp = dict(self.files)
        tmp[self.fn] = {"units": self.units}
        d = denote(tmp, fn or self.fn, un)
        return None if d is None else d.dimkey()

    def involves_import(self, un, depth=0):
        """units un of this file is imported or is defined over an imported units (the validator cannot see the
        dimensions of such units before flattening, so their variables stay out of connections inside the file)"""
        if depth > 20:
            return True
        for u in self.units:
            if u["name"] == un:
                if u["imp"]:
                    return True
                return any(self.involves_import(d[0], depth + 1) for d in u["defs"])
        return False

    def units_choice(self, allow_imported):
        pool = list(self.local_units) + ["metre", "second", "dimensionless"]
        if allow_imported:
            pool += self.imported_units * 2
        return self.rng.choice(pool)

    def units_with_dim(self, dimkey, allow_imported):
        pool = [n for n in self.local_units + ["metre", "second", "ampere", "mole", "dimensionless"]
                if self.dim_of(n) == dimkey and not self.involves_import(n)]
        return self.rng.choice(pool) if pool else None

    def connect(self, ca, va, cb, vb):
        self.mapn += 1
        mid = "map_%s_%d" % (self.fn[:2], self.mapn) if self.rng.random() < 0.5 else ""
        key = ca + "|" + cb
        rkey = cb + "|" + ca
        if rkey in self.connids or any(c[0] == cb and c[2] == ca for c in self.conns):
            ca, va, cb, vb = cb, vb, ca, va
            key = rkey
        if key not in self.connids and self.rng.random() < 0.5:
            self.connids[key] = "conn_%s_%d" % (self.fn[:2], self.mapn)
        self.conns.append([ca, va, cb, vb, mid])

    def local_comp(self, depth, exportable, providers):
        """a local component; providers: list of (component name, variable name, dimkey) it may read through a connection
        (variables of its parent and of its earlier siblings)"""
        rng = self.rng
        name = self.cname()
        allow_imp = self.origin or (exportable and depth == 0)
        vars_, math, mine = [], [], []
        inputs = []
        nsrc = rng.randint(1, 2)
        for i in range(nsrc):
            un = self.units_choice(allow_imp)
            vars_.append(V(VAR_SRC[i], un, rng.choice(NUMS)))
            mine.append((VAR_SRC[i], self.dim_of(un)))
        for i in range(rng.randint(0, 2)):
            vn = VAR_IN[i]
            prov = [p for p in providers]
            if prov and rng.random() < 0.85:
                pc, pv, pdim = rng.choice(prov)
                un = self.units_with_dim(pdim, allow_imp)
                if un is None:
                    continue
                vars_.append(V(vn, un, None))
                self.connect(pc, pv, name, vn)
                mine.append((vn, pdim))
                inputs.append((vn, pdim))
            elif depth == 0 and not self.origin:
                un = self.units_choice(allow_imp)
                vars_.append(V(vn, un, None))
                inputs.append((vn, self.dim_of(un)))
                mine.append((vn, self.dim_of(un)))
        for i in range(rng.choice([0, 1, 2, 2, 3])):
            vn = VAR_CMP[i]
            un = self.units_choice(allow_imp)
            a = rng.choice(mine)[0]
            b = rng.choice(mine)[0]
            cnu = self.units_choice(allow_imp)
            cnu2 = self.units_choice(allow_imp)
            form = rng.random()
            if form < 0.2:
                rhs = ("ap", "plus", [("ci", a), ("ci", b)], None)            # an equation without any cn
            else:
                rhs = ("ap", "plus", [("ap", "times", [("ci", a), ("cn", rng.choice(NUMS), cnu)], None), ("ci", b)], None)
                if form > 0.7:
                    rhs = ("ap", "plus", [rhs, ("cn", rng.choice(NUMS), cnu2)], None)
            math.append([("ci", vn), rhs])
            vars_.append(V(vn, un, None))
            mine.append((vn, self.dim_of(un)))
        c = C(name, vars_, math)
        # the equations in 1-3 <math> elements, now and then with an empty one in between
        if math and rng.random() < 0.6:
            cuts = sorted(rng.sample(range(1, len(math)), min(len(math) - 1, rng.randint(0, 2)))) if len(math) > 1 else []
            sizes = [b - a for a, b in zip([0] + cuts, cuts + [len(math)])]
            if rng.random() < 0.25:
                sizes.insert(rng.randrange(len(sizes) + 1), 0)
            c["mblocks"] = sizes
        elif not math and rng.random() < 0.1:
            c["mblocks"] = [0]
        # every input of an importable component has its provider outside the component's own subtree (a sibling of
        # the file, or nobody): whoever imports the component has to connect all of them
        c["_inputs"] = inputs if depth == 0 else []
        c["_exportable"] = exportable
        # children
        if depth < self.knobs["max_depth"]:
            nk = rng.choice([0, 0, 1, 1, 2]) if depth == 0 else rng.choice([0, 0, 1])
            sibs = []
            for _ in range(nk):
                kid_prov = [(name, v[0], self.dim_of(v[1])) for v in vars_ if not self.involves_import(v[1])] + sibs
                k = self.component(depth + 1, False, kid_prov)
                if k is None:
                    continue
                c["kids"].append(k)
                sibs += [(k["name"], vn, self.dim_of(un, fn)) for vn, un, fn in self.visible_vars(k)]
        return c

    def visible_vars(self, comp):
        """(variable name, units name, file whose units it names) of the component behind comp, as far as other
        components of this file may connect to them"""
        if comp["imp"]:
            s = _summary(self.files, self.fn, comp)
            return [(vn, un, s["file"]) for vn, un in s["vars"]]
        return [(v[0], v[1], self.fn) for v in comp["vars"] if not self.involves_import(v[1])]

    def import_comp(self, depth, providers):
        """an import placeholder: its open inputs are connected to providers; it may have local children"""
        rng = self.rng
        cands = []
        for j in range(self.fi + 1, self.nfiles):
            for c in all_comps(self.files[IG.fname(j)]["comps"]):
                if c.get("_exportable"):
                    cands.append((IG.fname(j), c))
        if not cands:
            return None
        fn2, tgt = rng.choice(cands)
        s = _summary(self.files, fn2, tgt)
        name = self.cname()
        for vn, dimkey in s["inputs"]:
            prov = [p for p in providers if p[2] == dimkey]
            if not prov:
                # provide it from a new constant in a helper sibling?  keep it simple: give up on this import
                self.cnames.append(name)
                return None
        for vn, dimkey in s["inputs"]:
            pc, pv, _ = rng.choice([p for p in providers if p[2] == dimkey])
            self.connect(pc, pv, name, vn)
        c = CI(name, fn2, tgt["name"])
        c["_exportable"] = depth == 0 and not self.origin and rng.random() < 0.6
        c["_inputs"] = list(s["inputs"])        # an importer of this placeholder has to connect them again
        # local children below the placeholder (they may read the imported component's variables)
        if depth < self.knobs["max_depth"] and rng.random() < self.knobs["placeholder_kids"]:
            sibs = []
            for _ in range(rng.randint(1, 3)):
                tmp = dict(self.files)
                tmp[self.fn] = {"units": self.units}
                kid_prov = []
                for vn, un in s["vars"]:
                    d = denote(tmp, s["file"], un)
                    if d is not None:
                        kid_prov.append((name, vn, d.dimkey()))
                k = self.component(depth + 1, False, kid_prov + sibs)
                if k is None:
                    continue
                c["kids"].append(k)
                sibs += [(k["name"], vn, self.dim_of(un, fn)) for vn, un, fn in self.visible_vars(k)]
        return c

    def component(self, depth, exportable, providers):
        if self.rng.random() < self.knobs["import_prob"] and self.fi + 1 < self.nfiles:
            c = self.import_comp(depth, providers)
            if c is not None:
                return c
        return self.local_comp(depth, exportable, providers)

    def build(self):
        rng = self.rng
        comps, sibs = [], []
        n = rng.randint(2, 3) if self.origin else rng.randint(1, 3)
        for i in range(n):
            c = self.component(0, not self.origin, list(sibs))
            if c is None:
                continue
            comps.append(c)
            sibs += [(c["name"], vn, self.dim_of(un, fn)) for vn, un, fn in self.visible_vars(c)]
        if self.origin and not any(c["imp"] for c in all_comps(comps)) and self.fi + 1 < self.nfiles:
            c = self.import_comp(0, list(sibs))
            if c is not None:
                comps.append(c)
        return M("m_f%d" % self.fi, self.units, comps, self.conns, self.connids)


def random_graph(rng, max_depth=2, import_prob=0.45, placeholder_kids=0.35):
    """files dict (file name -> model) with origin f0.cellml; imports go from lower to higher file numbers"""
    nfiles = rng.choice([2, 2, 3, 3, 3, 4])
    knobs = {"max_depth": max_depth, "import_prob": import_prob, "placeholder_kids": placeholder_kids}
    files = {}
    for fi in reversed(range(nfiles)):
        files[IG.fname(fi)] = _FileGen(rng, fi, nfiles, files, knobs).build()
    return files


def strip_private(files):
    """drop the generator's bookkeeping keys (so that the dicts are JSON-able and canonical)"""
    def comp(c):
        out = {"name": c["name"], "imp": c["imp"], "vars": c["vars"], "math": c["math"], "kids": [comp(k) for k in c["kids"]]}
        if c.get("mblocks") is not None:
            out["mblocks"] = c["mblocks"]
        return out
    return {fn: {"name": m["name"], "units": m["units"], "comps": [comp(c) for c in m["comps"]], "conns": m["conns"],
                 "connids": m["connids"]} for fn, m in files.items()}


# =============================================================================================== the reference

class Inst:
    """one component instance of the flattened hierarchy"""

    def __init__(self, path, fn, comp):
        self.path = path            # tuple of child indices from the top level
        self.fn = fn                # the file whose units the variables / cn of this instance name
        self.comp = comp            # the concrete (non-import) component
        self.kids = []


def find_comp(m, name):
    for c in all_comps(m["comps"]):
        if c["name"] == name:
            return c
    return None


def subtree_names(c):
    return [c["name"]] + [n for k in c["kids"] for n in subtree_names(k)]


def instantiate(files, origin=ORIGIN):
    """the instance forest of the origin model and the connections between instance variables.
    Returns (list of top-level Inst, list of ((path, var), (path, var), mapping id, connection id))."""
    conns = []

    def add_conns(fn, names):
        m = files[fn]
        for a, va, b, vb, mid in m["conns"]:
            if a in names and b in names:
                cid = m["connids"].get(a + "|" + b, "")
                conns.append(((names[a].path, va), (names[b].path, vb), mid, cid))

    # connections: for every instantiation of a component of file fn, the connections of fn between components of the
    # instantiated subtree.  Done by a second walk that knows, for each import edge, the subtree it brought in.
    def walk(fn, comp, path):
        """like inst, but returns names and registers the connections of each imported subtree"""
        if comp["imp"]:
            fn2, ref = comp["imp"]
            tgt = find_comp(files[fn2], ref)
            node, sub = walk(fn2, tgt, path)
            add_conns(fn2, sub)                      # the imported component with its encapsulated descendants
            names = {comp["name"]: node}
        else:
            node = Inst(path, fn, comp)
            names = {comp["name"]: node}
        for k in comp["kids"]:
            kn, knames = walk(fn, k, path + (len(node.kids),))
            node.kids.append(kn)
            names.update(knames)
        return node, names

    tops, allnames = [], {}
    for i, c in enumerate(parsed_top(files[origin])):
        node, names = walk(origin, c, (i,))
        tops.append(node)
        allnames.update(names)
    add_conns(origin, allnames)
    # an imported subtree's connections were added once per import edge on the way (a chain adds the deeper file's first)
    seen, out = set(), []
    for c in conns:
        k = (c[0], c[1])
        if k in seen or (c[1], c[0]) in seen:
            continue
        seen.add(k)
        out.append(c)
    return tops, out


def parsed_top(m):
    """top-level components in the order the Parser leaves them: components without children keep their document
    order, the encapsulation parents follow in encapsulation order"""
    return [c for c in m["comps"] if not c["kids"]] + [c for c in m["comps"] if c["kids"]]


def all_insts(tops):
    for t in tops:
        yield t
        for k in all_insts(t.kids):
            yield k


def reference_desc(files, origin=ORIGIN):
    """a flat model description in the format of gen/matheval.py for the instantiated hierarchy: component names are
    the instance paths, every (file, units) pair is a units of its own."""
    tops, conns = instantiate(files, origin)
    used = {}

    def qual(fn, un):
        """qualified name of units un of file fn (standard names stay); registers its definition"""
        if un in STANDARD_UNITS:
            return un
        m = files[fn]
        u = [x for x in m["units"] if x["name"] == un]
        if not u:
            return "UNDEFINED__" + un
        u = u[0]
        if u["imp"]:
            return qual(u["imp"][0], u["imp"][1])
        q = fn.split(".")[0] + "__" + un
        if q not in used:
            used[q] = None
            used[q] = {"name": q, "unit": [{"units": qual(fn, ref), "prefix": pre or None,
                                           "multiplier": (None if mu == 0 else "1e%d" % mu),
                                           "exponent": (None if ex == 1 else str(ex))} for ref, pre, ex, mu in u["defs"]]}
        return q

    def qexpr(fn, e):
        if e[0] == "cn":
            return ("cn", e[1], qual(fn, e[2]))
        if e[0] == "ap":
            return ("ap", e[1], [qexpr(fn, a) for a in e[2]], None)
        return tuple(e)
    comps = []
    for n in all_insts(tops):
        cname = "i" + "_".join(str(i) for i in n.path)
        comps.append({"name": cname,
                      "variables": [{"name": v[0], "units": qual(n.fn, v[1]), "initial_value": v[2], "interface": v[3]} for v in n.comp["vars"]],
                      "equations": [[qexpr(n.fn, l), qexpr(n.fn, r)] for l, r in n.comp["math"]]})
    def pname(p):
        return "i" + "_".join(str(i) for i in p)
    desc = {"name": "reference", "units": [u for u in used.values() if u is not None], "components": comps,
            "connections": [[pname(a[0]), a[1], pname(b[0]), b[1]] for a, b, _, _ in conns]}
    return desc, tops, conns


# =============================================================================================== fixed cases

def _cn(v, u):
    return ("cn", str(v), u)


def _ci(n):
    return ("ci", n)


def _ap(op, *a):
    return ("ap", op, list(a), None)


def hand_cases():
    """named graphs aimed at single mechanisms (each was a failing input of the tree before the C06 fix commits, or is
    the minimal example of a known finding); run first in every tier"""
    f0, f1, f2 = IG.fname(0), IG.fname(1), IG.fname(2)
    cases = {}
    # a local child of the placeholder uses the importer's units u (metre); the importee has a different u (second)
    cases["child_units_capture"] = {
        f0: M("m0", [U("u", "metre")], [CI("c", f1, "c", kids=[C("d", [V("y", "u", "1")])])]),
        f1: M("m1", [U("u", "second")], [C("c", [V("x", "u", "2")])])}
    # cn units two levels below the imported component
    cases["grandchild_cn"] = {
        f0: M("m0", [U("u", "metre")], [C("top", [V("z", "u", "1")]), CI("c", f1, "c")]),
        f1: M("m1", [U("u", "second")],
              [C("c", [V("x", "u", "2")],
                 kids=[C("k1", [V("a", "u")], [[_ci("a"), _cn(3, "u")]],
                         kids=[C("k2", [V("b", "u")], [[_ci("b"), _cn(4, "u")]])])])])}
    # mapping / connection ids on an internal connection and on a connection to the placeholder
    cases["equivalence_ids"] = {
        f0: M("m0", [], [C("top", [V("z", "metre", None, "public")]), CI("c", f1, "c")], [("top", "z", "c", "x", "map0")], {"top|c": "conn0"}),
        f1: M("m1", [], [C("c", [V("x", "metre", "2")], kids=[C("k1", [V("a", "metre", None, "public")])])],
              [("c", "x", "k1", "a", "map1")], {"c|k1": "conn1"})}
    # a local child of the placeholder uses imported units
    cases["child_imported_units"] = {
        f0: M("m0", [UI("iu", f2, "w")], [CI("c", f1, "c", kids=[C("d", [V("y", "iu", "1")])])]),
        f1: M("m1", [], [C("c", [V("x", "metre", "2")])]),
        f2: M("m2", [U("w", ("metre", "milli"))], [])}
    cases["declash_twice"] = {
        f0: M("m0", [], [C("k", []), C("k_1", []), CI("c", f1, "c")]),
        f1: M("m1", [], [C("c", [V("x", "metre", "2")], kids=[C("k", []), C("k_1", [])])])}
    cases["declash_collision"] = {
        f0: M("m0", [], [C("k", []), CI("c", f1, "c")]),
        f1: M("m1", [], [C("c", [V("x", "metre", "2")], kids=[C("k", []), C("k_1", [])])])}
    cases["three_children"] = {
        f0: M("m0", [], [CI("c", f1, "c", kids=[C("d1", [V("y", "metre", "1")]), C("d2", [V("y", "metre", "1")]),
                                                   C("d3", [V("y", "metre", "1")])])]),
        f1: M("m1", [], [C("c", [V("x", "metre", "2")])])}
    cases["dependency_equivalent_other_name"] = {
        f0: M("m0", [UI("w", f1, "w"), U("m2", "metre")], [C("top", [V("z", "w", "1")])]),
        f1: M("m1", [U("w", ("v", "", 2)), U("v", "metre")], [])}
    cases["dependency_equivalent_capture"] = {
        f0: M("m0", [UI("w", f1, "w"), U("m2", "metre"), U("v", "second")], [C("top", [V("z", "w", "1")])]),
        f1: M("m1", [U("w", ("v", "", 2)), U("v", "metre")], [])}
    cases["same_component_twice"] = {
        f0: M("m0", [], [CI("c1", f1, "c"), CI("c2", f1, "c")]),
        f1: M("m1", [U("mm", ("metre", "milli"))],
              [C("c", [V("x", "mm", "2")], [[_ci("x"), _cn(3, "mm")]], kids=[C("k", [V("a", "mm", "1")])])])}
    cases["component_uses_imported_units"] = {
        f0: M("m0", [], [CI("c", f1, "c")]),
        f1: M("m1", [UI("iu", f2, "w")], [C("c", [V("x", "iu", "2"), V("y", "iu")], [[_ci("y"), _cn(3, "iu")]])]),
        f2: M("m2", [U("w", ("second", "milli"))], [])}
    cases["nested_import"] = {
        f0: M("m0", [], [CI("c", f1, "c")]),
        f1: M("m1", [U("mm", ("metre", "milli"))], [C("c", [V("x", "mm", "2")], kids=[CI("k", f2, "e")])]),
        f2: M("m2", [U("mm", ("metre", "", 1, -3))], [C("e", [V("y", "mm", "1")])])}
    cases["same_name_different_units"] = {
        f0: M("m0", [U("mm", ("metre", "centi"))], [C("top", [V("z", "mm", "1")]), CI("c", f1, "c")]),
        f1: M("m1", [U("mm", ("metre", "milli")), U("mm2", ("mm", "", 2))],
              [C("c", [V("x", "mm2", "2"), V("y", "mm", "3"), V("q", "mm")], [[_ci("q"), _cn(3, "mm")]])])}
    cases["equivalent_other_name"] = {
        f0: M("m0", [U("millimetre", ("metre", "milli"))], [C("top", [V("z", "millimetre", "1")]), CI("c", f1, "c")],
              [("top", "z", "c", "x", "")]),
        f1: M("m1", [U("mm", ("metre", "", 1, -3))], [C("c", [V("x", "mm"), V("q", "mm")], [[_ci("q"), _cn(3, "mm")]])])}
    cases["units_chain"] = {
        f0: M("m0", [UI("a", f1, "b")], [C("top", [V("z", "a", "1")])]),
        f1: M("m1", [UI("b", f2, "c")], []),
        f2: M("m2", [U("c", ("d", "kilo")), U("d", ("second", "", -1))], [])}
    cases["diamond"] = {
        f0: M("m0", [], [CI("l", f1, "c"), CI("r", f2, "c")]),
        f1: M("m1", [], [C("c", [V("x", "metre", "1")], kids=[CI("k", IG.fname(3), "leaf")])]),
        f2: M("m2", [], [C("c", [V("x", "metre", "2")], kids=[CI("k", IG.fname(3), "leaf")])]),
        IG.fname(3): M("m3", [U("mm", ("metre", "milli"))], [C("leaf", [V("y", "mm", "5")])])}
    # a connection to an imported component that is itself an import
    cases["connection_to_chain_import"] = {
        f0: M("m0", [], [C("top", [V("z", "metre")]), CI("c", f1, "k")], [("top", "z", "c", "x", "")]),
        f1: M("m1", [], [CI("k", f2, "m")]),
        f2: M("m2", [U("mm", ("metre", "milli"))], [C("m", [V("x", "mm", "2")])])}
    # several <math> elements: only some contain a cn whose units are renamed (at the top, in a child, in a grandchild)
    three = [[_ci("p"), _ap("plus", _ci("a"), _cn(1, "u"))], [_ci("s"), _ap("plus", _ci("a"), _cn(2, "metre"))], [_ci("t"), _ap("plus", _ci("a"), _ci("a"))]]
    tv = [V("a", "u", "2"), V("p", "u"), V("s", "u"), V("t", "u")]
    cases["math_blocks"] = {
        f0: M("m0", [U("u", "metre")], [C("top", [V("z", "u", "1")]), CI("c", f1, "c", kids=[C("d", tv, three, mblocks=[1, 0, 1, 1])])]),
        f1: M("m1", [U("u", "second")],
              [C("c", tv, three, mblocks=[1, 1, 1],
                 kids=[C("k1", tv, three, mblocks=[2, 1],
                         kids=[C("k2", tv, three, mblocks=[1, 2])])])])}
    # ---- known findings
    # the alias of an imported units in the flat model is also a (different) units of the imported model
    cases["kf_alias_capture"] = {
        f0: M("m0", [U("mm", ("ampere",))], [C("top", [V("z", "mm", "1")]), CI("c", f1, "c")]),
        f1: M("m1", [U("mm", ("second",)), U("u", ("ampere",)), U("w", ("u", "kilo"))],
              [C("c", [V("x", "u", "2"), V("y", "w", "3")])])}
    # a renamed user-defined base unit is a new base unit
    cases["kf_renamed_base_units"] = {
        f0: M("m0", [U("b", "metre")], [C("top", [V("z", "b", "1")]), CI("c1", f1, "c"), CI("c2", f1, "c")],
              [("c1", "x", "c2", "y", "")]),
        f1: M("m1", [U("b")], [C("c", [V("x", "b", "2"), V("y", "b")])])}
    # C07-flatten-units-name-capture: units cycle closed by the renaming
    cases["kf_units_cycle_by_renaming"] = {
        f0: M("m0", [U("u0"), UI("u1", f1, "u0")], [C("top", [V("z", "u1", "1")])]),
        f1: M("m1", [U("u0", "u1"), U("u1")], [])}
    # still a crash after 85ba0d4: v is re-used as the importer's q, the NAME q is written into the imported model's q = [v],
    # which now refers to itself, and transferUnitsRenamingIfRequired recurses over that cycle without end
    cases["kf_transfer_recursion"] = {
        f0: M("m0", [UI("q", f1, "v")], [C("top", [V("z", "q", "1")]), CI("c", f1, "c")]),
        f1: M("m1", [U("q", ("v", "", 1, -3)), U("v", ("metre", "kilo"))], [C("c", [V("x", "q", "2"), V("y", "v", "3")])])}
    # an import below an import placeholder of a library file is never resolved
    cases["kf_unresolved_below_placeholder"] = {
        f0: M("m0", [], [CI("c", f1, "c")]),
        f1: M("m1", [], [C("c", [V("x", "metre", "1")], kids=[CI("e", f2, "e", kids=[CI("m", f2, "e")])])]),
        f2: M("m2", [], [C("e", [V("y", "metre", "1")])])}
    return cases
