"""equals_gen.py -- entity trees for C10 (Entity::equals): random trees over a tiny alphabet, exact copies,
shuffled copies (child order permuted at every level), every single mutation (attribute changed, optional
sub-object set / cleared, child added / removed, recursively at any path), serialisation (the format read by
ocaml/equals/driver.ml and printed by harness/c10_driver.cpp) and API scripts for harness/common/script.hpp.

Trees are immutable tuples:
  ('I', url, id)
  ('D', ref, prefix, exp, mult, id)                      exp, mult = (m, e): the double m * 2**e  (m odd or 0)
  ('U', name, id, imp|None, impref, (D...))
  ('V', name, id, U|None, init, iface)
  ('R', id, order, V|None, V|None, tv, tvid, rv, rvid)    (variable, test variable)
  ('C', name, id, encid, math, imp|None, impref, (V...), (R...), (C...))
  ('M', name, id, encid, (U...), (C...))
"""
import math
import sys
import os

sys.path.insert(0, os.path.dirname(os.path.abspath(__file__)))
from script_gen import S, ScriptBuilder  # noqa: E402

NAMES = ["a", "b"]
IDS = ["", "i"]
ENC = ["", "e"]
MATH = ["", "<math/>", "<math>x</math>"]
URLS = ["f", "g"]
REFS = ["", "r"]
UREFS = ["metre", "second", "a"]
PREFIXES = ["", "milli", "kilo"]
INITS = ["", "1", "a"]
IFACES = ["", "public", "private", "public_and_private", "none"]
VALS = ["", "<math/>", "<math>1</math>"]
ORDERS = [0, 1, -1, 2]
# doubles, as (m, e) = m * 2**e: identical or far apart (more than DBL_EPSILON and more than one ulp)
DBL = [(1, 0), (1, 1), (3, 0), (-1, 0), (1, -1), (125, 3), (-1, 1)]
# sub-epsilon magnitudes: areNearlyEqual's absolute test |a-b| <= 2^-52 makes them indistinguishable
TINY = [(1, -60), (1, -70), (1, -53), (3, -53), (5, -53), (0, 0)]
EPS = 2.0 ** -52


def dval(me):
    return math.ldexp(me[0], me[1])


def me_of_float(x):
    """the double x as (m, e) with x = m * 2**e exactly, m odd (or (0, 0))"""
    if x == 0.0:
        return (0, 0)
    f, e = math.frexp(x)
    m, e = int(f * 2.0 ** 53), e - 53
    while m % 2 == 0:
        m //= 2
        e += 1
    return (m, e)


def nextk(me, k):
    """the double k units in the last place away (k < 0: towards -inf); None when that leaves the finite doubles"""
    x = dval(me)
    for _ in range(abs(k)):
        x = math.nextafter(x, math.inf if k > 0 else -math.inf)
    return None if math.isinf(x) else me_of_float(x)


def bits(x):
    import struct
    return struct.unpack("<Q", struct.pack("<d", x))[0]


def ulps(x, y):
    """utilities.cpp: ulpsDistance on finite doubles"""
    return abs(bits(x) - bits(y))


def nearly_equal(x, y):
    """utilities.cpp: areNearlyEqual on finite doubles"""
    if abs(x - y) <= EPS:
        return True
    if (x < 0.0) != (y < 0.0):
        return False
    return ulps(x, y) <= 1


# bases of the ULP-boundary pairs (x, nextafter^k x): powers of two, just below / above them, 1.0, small and large
# magnitudes, negative values, the DBL_EPSILON scale (where the absolute test of areNearlyEqual takes over), denormals
ULPBASE = [me_of_float(v) for v in (
    2.0, 4.0, 1024.0, 2.0 ** -3, 2.0 ** 52, 1.0, 0.5, 3.0, 1000.0, 0.1, 1e300, 1e-300, 1.7976931348623157e308,
    math.nextafter(1024.0, 0.0), math.nextafter(1024.0, math.inf), math.nextafter(2.0, 0.0), math.nextafter(1.0, 0.0),
    -2.0, -1.0, -1024.0, -0.75, -1e10,
    2.0 ** -52, 2.0 ** -51, 2.0 ** -50, 4.4e-16, 1e-15, 3e-16,
    5e-324, 2.0 ** -1060, 2.2250738585072014e-308, 0.0)]


class Gen:
    def __init__(self, rng, tiny=0.02, maxlist=4, maxdepth=3, ulp=0.1):
        self.rng = rng
        self.tiny = tiny
        self.ulp = ulp
        self.maxlist = maxlist
        self.maxdepth = maxdepth

    def pick(self, xs):
        return self.rng.choice(xs)

    def count(self, mean_small=True):
        r = self.rng.random()
        if r < 0.35:
            return 0
        if r < 0.65:
            return 1
        if r < 0.85:
            return 2
        if r < 0.95:
            return 3
        return self.maxlist

    def dbl(self):
        r = self.rng.random()
        if r < self.tiny:
            return self.pick(TINY)
        if r < self.tiny + self.ulp:
            x = self.pick(ULPBASE)
            if self.rng.random() < 0.5:
                x = nextk(x, self.pick([-4, -3, -2, -1, 1, 2, 3, 4])) or x
            return x
        return self.pick(DBL)

    def isrc(self):
        return ('I', self.pick(URLS), self.pick(IDS))

    def unitdef(self):
        return ('D', self.pick(UREFS), self.pick(PREFIXES), self.dbl(), self.dbl(), self.pick(IDS))

    def units(self, bare=0.0):
        if self.rng.random() < bare:       # what Variable::setUnits(name) makes
            return ('U', self.pick(NAMES), "", None, "", ())
        imp = self.isrc() if self.rng.random() < 0.25 else None
        ref = self.pick(REFS) if (imp is not None or self.rng.random() < 0.15) else ""
        return ('U', self.pick(NAMES), self.pick(IDS), imp, ref,
                tuple(self.unitdef() for _ in range(self.count())))

    pool = ()       # units of the model being generated: its variables often refer to them

    def variable(self):
        if self.pool and self.rng.random() < 0.5:
            u = self.pick(self.pool)
        else:
            u = self.units(bare=0.45) if self.rng.random() < 0.7 else None
        return ('V', self.pick(NAMES), self.pick(IDS), u, self.pick(INITS), self.pick(IFACES))

    def reset(self, vars_=()):
        def ov():
            r = self.rng.random()
            if r < 0.3:
                return None
            if vars_ and r < 0.7:
                return self.pick(vars_)
            return self.variable()
        return ('R', self.pick(IDS), self.pick(ORDERS), ov(), ov(), self.pick(VALS), self.pick(IDS),
                self.pick(VALS), self.pick(IDS))

    def component(self, depth):
        imp = self.isrc() if self.rng.random() < 0.2 else None
        ref = self.pick(REFS) if (imp is not None or self.rng.random() < 0.1) else ""
        vs = tuple(self.variable() for _ in range(self.count()))
        rs = tuple(self.reset(vs) for _ in range(self.count() if self.rng.random() < 0.6 else 0))
        ks = ()
        if depth > 1:
            n = self.count()
            if self.rng.random() < 0.3 and n >= 2:
                # look-alike siblings: duplicates and near-duplicates are where matching matters
                k0 = self.component(depth - 1)
                ks = tuple(k0 if self.rng.random() < 0.6 else self.component(depth - 1) for _ in range(n))
            else:
                ks = tuple(self.component(depth - 1) for _ in range(n))
        return ('C', self.pick(NAMES), self.pick(IDS), self.pick(ENC), self.pick(MATH), imp, ref, vs, rs, ks)

    def model(self, depth=None):
        depth = self.maxdepth if depth is None else depth
        us = tuple(self.units() for _ in range(self.count()))
        n = self.count()
        self.pool = us
        if self.rng.random() < 0.3 and n >= 2:
            k0 = self.component(depth)
            cs = tuple(k0 if self.rng.random() < 0.6 else self.component(depth) for _ in range(n))
        else:
            cs = tuple(self.component(depth) for _ in range(n))
        self.pool = ()
        return ('M', self.pick(NAMES), self.pick(IDS), self.pick(ENC), us, cs)

    def entity(self, kind):
        if kind == 'M':
            return self.model(self.rng.choice([1, 2, 2, 3]))
        if kind == 'C':
            return self.component(self.rng.choice([1, 2, 2, 3]))
        if kind == 'V':
            return self.variable()
        if kind == 'U':
            return self.units()
        if kind == 'R':
            return self.reset(tuple(self.variable() for _ in range(self.rng.randrange(3))))
        return self.isrc()

    # ------------------------------------------------------------------ shuffled copy
    def shuffled(self, t):
        def sh(xs):
            xs = [self.shuffled(x) for x in xs]
            self.rng.shuffle(xs)
            return tuple(xs)
        k = t[0]
        if k == 'U':
            return t[:5] + (sh(t[5]),)
        if k == 'V':
            return t[:3] + (self.shuffled(t[3]) if t[3] else None,) + t[4:]
        if k == 'R':
            return t[:3] + (self.shuffled(t[3]) if t[3] else None, self.shuffled(t[4]) if t[4] else None) + t[5:]
        if k == 'C':
            return t[:7] + (sh(t[7]), sh(t[8]), sh(t[9]))
        if k == 'M':
            return t[:4] + (sh(t[4]), sh(t[5]))
        return t

    # ------------------------------------------------------------------ single mutations
    def other(self, xs, old):
        c = [x for x in xs if x != old]
        return self.pick(c)

    def other_dbl(self, old):
        # a neighbour 1..4 units in the last place away (either direction); else mostly a far-apart value,
        # sometimes a tiny one (the sub-epsilon class)
        if self.rng.random() < 0.45:
            x = nextk(old, self.pick([-4, -3, -2, -1, 1, 2, 3, 4]))
            if x is not None and x != old:
                return x
        if self.rng.random() < 0.1 or old in TINY:
            c = [x for x in (TINY + DBL[:2]) if x != old]
        else:
            c = [x for x in DBL if x != old]
        return self.pick(c)

    def mutations(self, t, depth=3):
        """yields (description, mutated tree): every single mutation of t, at every path"""
        k = t[0]

        def rep(i, v):
            return t[:i] + (v,) + t[i + 1:]

        def strattr(i, name, alphabet):
            yield (name, rep(i, self.other(alphabet, t[i])))

        def optional(i, name, make, rec):
            if t[i] is None:
                yield (name + "+set", rep(i, make()))
            else:
                yield (name + "-clear", rep(i, None))
                for d, x in rec(t[i]):
                    yield (name + "." + d, rep(i, x))

        def children(i, name, make, rec):
            xs = t[i]
            for j in range(len(xs)):
                yield ("%s[%d]-remove" % (name, j), rep(i, xs[:j] + xs[j + 1:]))
                for d, x in rec(xs[j]):
                    yield ("%s[%d].%s" % (name, j, d), rep(i, xs[:j] + (x,) + xs[j + 1:]))
            p = self.rng.randrange(len(xs) + 1)
            new = make()
            if xs and self.rng.random() < 0.5:
                new = self.pick(xs)          # add a duplicate of an existing child
            yield ("%s+add" % name, rep(i, xs[:p] + (new,) + xs[p:]))

        if k == 'I':
            yield from strattr(1, "url", URLS + ["h"])
            yield from strattr(2, "id", IDS + ["j"])
        elif k == 'D':
            yield from strattr(1, "ref", UREFS)
            yield from strattr(2, "prefix", PREFIXES)
            for i, nm in ((3, "exp"), (4, "mult")):
                new = self.other_dbl(t[i])
                yield ("%s@%d^%d>%d^%d" % ((nm,) + t[i] + new), rep(i, new))
            yield from strattr(5, "id", IDS + ["j"])
        elif k == 'U':
            yield from strattr(1, "name", NAMES + ["c"])
            yield from strattr(2, "id", IDS + ["j"])
            yield from optional(3, "imp", self.isrc, self.mutations)
            yield from strattr(4, "impref", REFS + ["q"])
            yield from children(5, "def", self.unitdef, self.mutations)
        elif k == 'V':
            yield from strattr(1, "name", NAMES + ["c"])
            yield from strattr(2, "id", IDS + ["j"])
            yield from optional(3, "units", lambda: self.units(bare=0.5), self.mutations)
            yield from strattr(4, "init", INITS)
            yield from strattr(5, "iface", IFACES)
        elif k == 'R':
            yield from strattr(1, "id", IDS + ["j"])
            yield ("order", rep(2, self.other(ORDERS, t[2])))
            yield from optional(3, "var", self.variable, self.mutations)
            yield from optional(4, "test", self.variable, self.mutations)
            yield from strattr(5, "tv", VALS)
            yield from strattr(6, "tvid", IDS + ["j"])
            yield from strattr(7, "rv", VALS)
            yield from strattr(8, "rvid", IDS + ["j"])
        elif k == 'C':
            yield from strattr(1, "name", NAMES + ["c"])
            yield from strattr(2, "id", IDS + ["j"])
            yield from strattr(3, "encid", ENC + ["f"])
            yield from strattr(4, "math", MATH)
            yield from optional(5, "imp", self.isrc, self.mutations)
            yield from strattr(6, "impref", REFS + ["q"])
            yield from children(7, "var", self.variable, self.mutations)
            yield from children(8, "reset", lambda: self.reset(t[7]), self.mutations)
            yield from children(9, "kid", lambda: self.component(1), self.mutations)
        elif k == 'M':
            yield from strattr(1, "name", NAMES + ["c"])
            yield from strattr(2, "id", IDS + ["j"])
            yield from strattr(3, "encid", ENC + ["f"])
            yield from children(4, "units", self.units, self.mutations)
            yield from children(5, "comp", lambda: self.component(1), self.mutations)


# ---------------------------------------------------------------------- structural reductions (shrinking of replays)

def reductions(t, path=()):
    """yields (key, smaller variant of t): a child removed, an optional sub-object cleared, a sub-entity reduced;
    key names the position, so that the same reduction can be applied to several look-alike trees at once"""
    k = t[0]
    lists = {'U': (5,), 'C': (7, 8, 9), 'M': (4, 5)}.get(k, ())
    opts = {'U': (3,), 'V': (3,), 'R': (3, 4), 'C': (5,)}.get(k, ())
    for i in lists:
        xs = t[i]
        for j in range(len(xs)):
            yield (path + (i, j, 'rm'), t[:i] + (xs[:j] + xs[j + 1:],) + t[i + 1:])
    for i in opts:
        if t[i] is not None:
            yield (path + (i, 'clear'), t[:i] + (None,) + t[i + 1:])
    for i in lists:
        xs = t[i]
        for j in range(len(xs)):
            if xs[j][0] != 'D':
                for key, r in reductions(xs[j], path + (i, j)):
                    yield (key, t[:i] + (xs[:j] + (r,) + xs[j + 1:],) + t[i + 1:])
    for i in opts:
        if t[i] is not None:
            for key, r in reductions(t[i], path + (i,)):
                yield (key, t[:i] + (r,) + t[i + 1:])


# ---------------------------------------------------------------------- serialisation

def ser(t):
    if t is None:
        return "-"
    k = t[0]

    def lst(xs):
        return "( " + " ".join(ser(x) for x in xs) + (" " if xs else "") + ")"

    def d(me):
        return "%d^%d" % me
    if k == 'I':
        return "( I %s %s )" % (S(t[1]), S(t[2]))
    if k == 'D':
        return "( D %s %s %s %s %s )" % (S(t[1]), S(t[2]), d(t[3]), d(t[4]), S(t[5]))
    if k == 'U':
        return "( U %s %s %s %s %s )" % (S(t[1]), S(t[2]), ser(t[3]), S(t[4]), lst(t[5]))
    if k == 'V':
        return "( V %s %s %s %s %s )" % (S(t[1]), S(t[2]), ser(t[3]), S(t[4]), S(t[5]))
    if k == 'R':
        return "( R %s %d %s %s %s %s %s %s )" % (S(t[1]), t[2], ser(t[3]), ser(t[4]), S(t[5]), S(t[6]), S(t[7]), S(t[8]))
    if k == 'C':
        return "( C %s %s %s %s %s %s %s %s %s )" % (S(t[1]), S(t[2]), S(t[3]), S(t[4]), ser(t[5]), S(t[6]),
                                                   lst(t[7]), lst(t[8]), lst(t[9]))
    if k == 'M':
        return "( M %s %s %s %s %s )" % (S(t[1]), S(t[2]), S(t[3]), lst(t[4]), lst(t[5]))
    raise ValueError(k)


def fnv1a(s):
    h = 0xcbf29ce484222325
    for b in s.encode():
        h ^= b
        h = (h * 0x100000001b3) & 0xFFFFFFFFFFFFFFFF
    return "%016x" % h


# ---------------------------------------------------------------------- API scripts

def emit(b, t, rng, shared=None, rec=None, path=(), pool=None):
    """append the commands that build t through the public API; returns the slot.
    rec (dict): path -> (subtree, slot) for every entity built on the way (paths are tuples such as
    ('comp', 0, 'var', 1, 'units'); () is t itself).
    pool: units tree -> slot of the units objects owned by the model being built.

    The trees carry the units of a variable inline (equality only looks at their content); the OBJECT the variable
    holds is drawn here from every ownership situation: created by name (Variable::setUnits(name)), the object owned by
    the SAME model as the variable, an object owned by ANOTHER model, a parent-less user-built object, and an object
    that another variable (of this or of another root of the case) already holds.  Counted in b.own."""
    own = b.__dict__.setdefault("own", {})
    ucache = b.__dict__.setdefault("ucache", {})

    def note(s):
        if rec is not None:
            rec[path] = (t, s)
        return s

    def sub(x, *step, **kw):
        kw.setdefault("pool", pool)
        return emit(b, x, rng, rec=rec, path=path + tuple(step), **kw)

    def count(k):
        own[k] = own.get(k, 0) + 1
    k = t[0]
    if k == 'I':
        s = b.importsource()
        b.cmd("seturl", s, S(t[1]))
        b.cmd("setid", s, S(t[2]))
        # resolved state (ImportSource::setModel, what Importer::resolveImports does): not part of equality.
        # M1 / M2: two models of equal content shared by all import sources of the case (kept alive in their slots: the
        # import source only holds a weak pointer), so that both sides of a comparison often point at the SAME model object
        # while their urls / ids differ; or a model of its own; or unresolved.
        lib = b.__dict__.setdefault("libmodels", [])
        r = rng.random()
        if r < 0.35:
            count("import_unresolved")
        else:
            if r < 0.9:
                which = 0 if r < 0.7 else 1
                while len(lib) <= which:
                    lib.append(b.model("lib"))
                m = lib[which]
                count("import_resolved_shared_model_M%d" % (which + 1))
            else:
                m = b.model("lib")
                count("import_resolved_own_model")
            if rng.random() < 0.5:
                b.cmd("setmodel", s, m)
                b.cmd("seturl", s, S(t[1]))      # the url edited (re-set) after resolution
            else:
                b.cmd("setmodel", s, m)
        return note(s)
    if k == 'U':
        s = b.units(t[1])
        if t[2] != "" or rng.random() < 0.3:
            b.cmd("setid", s, S(t[2]))
        if t[3] is not None:
            b.cmd("setimportsource", s, sub(t[3], 'imp'))
        if t[4] != "" or rng.random() < 0.3:
            b.cmd("setimportreference", s, S(t[4]))
        for d in t[5]:
            b.cmd("addunit", s, S(d[1]), S(d[2]), dval(d[3]), dval(d[4]), S(d[5]))
        return note(s)
    if k == 'V':
        s = b.variable(t[1])
        b.cmd("setid", s, S(t[2]))
        u = t[3]
        if u is not None:
            r = rng.random()
            bare = u == ('U', u[1], "", None, "", ())
            if pool and u in pool and r < 0.65:
                b.cmd("setunits_p", s, pool[u])                     # the object owned by the variable's own model
                count("same_model")
            elif u in ucache and r < 0.8:
                b.cmd("setunits_p", s, rng.choice(ucache[u]))        # an object some other variable already holds
                count("shared_object")
            elif bare and rng.random() < 0.5:
                b.cmd("setunits_n", s, S(u[1]))                     # Variable::setUnits(name)
                count("by_name")
            else:
                us = sub(u, 'units')
                if rng.random() < 0.5:
                    aux = b.model("other")                          # owned by ANOTHER model (kept alive in its slot)
                    b.cmd("addunits", aux, us)
                    count("other_model")
                else:
                    count("parentless")
                ucache.setdefault(u, []).append(us)
                b.cmd("setunits_p", s, us)
        b.cmd("setinitialvalue_s", s, S(t[4]))
        if t[5] != "" or rng.random() < 0.5:
            b.cmd("setinterfacetype_s", s, S(t[5]))
        return note(s)
    if k == 'R':
        s = b.reset()
        b.cmd("setid", s, S(t[1]))
        if t[2] != 0 or rng.random() < 0.5:      # order 0 may be left unset: equals does not look at isOrderSet
            b.cmd("setorder", s, t[2])
        for i, cmd, nm in ((3, "setvariable", 'rvar'), (4, "settestvariable", 'rtest')):
            if t[i] is not None:
                if shared is not None and t[i] in shared and rng.random() < 0.7:
                    vs = shared[t[i]]           # the reset refers to a variable of its own component
                else:
                    vs = sub(t[i], nm)
                b.cmd(cmd, s, vs)
        b.cmd("settestvalue", s, S(t[5]))
        b.cmd("settestvalueid", s, S(t[6]))
        b.cmd("setresetvalue", s, S(t[7]))
        b.cmd("setresetvalueid", s, S(t[8]))
        return note(s)
    if k == 'C':
        s = b.component(t[1])
        b.cmd("setid", s, S(t[2]))
        b.cmd("setencapsulationid", s, S(t[3]))
        b.cmd("setmath", s, S(t[4]))
        if t[5] is not None:
            b.cmd("setimportsource", s, sub(t[5], 'imp'))
        if t[6] != "" or rng.random() < 0.3:
            b.cmd("setimportreference", s, S(t[6]))
        sh = {}
        for n, v in enumerate(t[7]):
            vs = sub(v, 'var', n)
            sh[v] = vs
            b.cmd("addvariable", s, vs)
        for n, r in enumerate(t[8]):
            b.cmd("addreset", s, sub(r, 'reset', n, shared=sh))
        for n, c in enumerate(t[9]):
            b.cmd("addcomponent", s, sub(c, 'kid', n))
        return note(s)
    if k == 'M':
        s = b.model(t[1])
        b.cmd("setid", s, S(t[2]))
        b.cmd("setencapsulationid", s, S(t[3]))
        mine = {}
        for n, u in enumerate(t[4]):
            us = sub(u, 'units', n)
            b.cmd("addunits", s, us)
            mine.setdefault(u, us)
            ucache.setdefault(u, []).append(us)      # variables of OTHER roots may hold this model's units too
        for n, c in enumerate(t[5]):
            b.cmd("addcomponent", s, sub(c, 'comp', n, pool=mine))
        return note(s)
    raise ValueError(k)


def subtree(t, path):
    """the sub-entity of t at a path recorded by emit (None when the path does not exist)"""
    fields = {'U': {'imp': 3}, 'V': {'units': 3}, 'R': {'rvar': 3, 'rtest': 4},
              'C': {'imp': 5, 'var': 7, 'reset': 8, 'kid': 9}, 'M': {'units': 4, 'comp': 5}}
    i = 0
    while i < len(path):
        f = fields.get(t[0], {}).get(path[i])
        if f is None or t[f] is None:
            return None
        if path[i] in ('var', 'reset', 'kid', 'units', 'comp') and t[0] in ('C', 'M'):
            if path[i + 1] >= len(t[f]):
                return None
            t = t[f][path[i + 1]]
            i += 2
        else:
            t = t[f]
            i += 1
    return t


# ---------------------------------------------------------------------- facts about trees (known-finding matchers, coverage)

def components_of(t):
    k = t[0]
    if k == 'C':
        yield t
        for c in t[9]:
            yield from components_of(c)
    elif k == 'M':
        for c in t[5]:
            yield from components_of(c)


def var_counts(t):
    return set(len(c[7]) for c in components_of(t))


def doubles_of(t):
    if t is None:
        return
    k = t[0]
    if k == 'D':
        yield t[3]
        yield t[4]
    elif k == 'U':
        for d in t[5]:
            yield from doubles_of(d)
    elif k == 'V':
        yield from doubles_of(t[3])
    elif k == 'R':
        yield from doubles_of(t[3])
        yield from doubles_of(t[4])
    elif k == 'C':
        for i in (7, 8, 9):
            for x in t[i]:
                yield from doubles_of(x)
    elif k == 'M':
        for i in (4, 5):
            for x in t[i]:
                yield from doubles_of(x)


def max_children(t):
    """largest child list anywhere in the tree"""
    if t is None:
        return 0
    k = t[0]
    if k == 'U':
        return len(t[5])
    if k == 'V':
        return max_children(t[3])
    if k == 'R':
        return max(max_children(t[3]), max_children(t[4]))
    if k == 'C':
        return max([len(t[7]), len(t[8]), len(t[9])] + [max_children(x) for i in (7, 8, 9) for x in t[i]])
    if k == 'M':
        return max([len(t[4]), len(t[5])] + [max_children(x) for i in (4, 5) for x in t[i]])
    return 0


def top_counts(t):
    """numbers of children of each kind at the top level (count sensitivity)"""
    k = t[0]
    if k == 'U':
        return (len(t[5]),)
    if k == 'C':
        return (len(t[7]), len(t[8]), len(t[9]))
    if k == 'M':
        return (len(t[4]), len(t[5]))
    return ()


def tsize(t):
    """number of entity nodes"""
    if t is None or not isinstance(t, tuple) or not t or t[0] not in ('I', 'D', 'U', 'V', 'R', 'C', 'M'):
        if isinstance(t, tuple):
            return sum(tsize(x) for x in t)
        return 0
    return 1 + sum(tsize(x) for x in t[1:] if isinstance(x, tuple))
