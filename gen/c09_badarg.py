"""c09_badarg.py -- stage 2 of C09 (stub, filled in later)"""


def stage2(ctx, drv):
    return {"nontrivial": 0, "samples": [], "dist": {}, "entry_points": {}}


def replay(ctx, drv, r):
    print("not implemented")
